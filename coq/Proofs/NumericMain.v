(* C10 — the main lemmas: exact acceptance and value preservation for the (repaired) port *)
From Coq Require Import ZArith List Ascii Bool Lia ZifyBool.
From FV Require Import Models.Numeric Proofs.NumericP Proofs.NumericDec.
Import ListNotations.
Open Scope Z_scope.

(* ------------------------------------------------------------------ sign handling *)
Lemma wf_lit_cases s :
  wf_lit s = true ->
  (exists r, s = c_minus :: r /\ wf_body r = true /\ lit_value s = - lit_mag r) \/
  (exists c t, s = c :: t /\ is_hex c = true /\ wf_body s = true /\ lit_value s = lit_mag s).
Proof.
  unfold wf_lit, lit_value, split_sign. destruct s as [|c t].
  - intros H. destruct (wf_body_nonnil _ H) as (? & ? & ? & _). discriminate.
  - destruct (Ascii.eqb_spec c c_minus) as [->|N].
    + intros H. left. eauto.
    + intros H. right. destruct (wf_body_nonnil _ H) as (c' & t' & E & Hx). inversion E; subst. eauto 6.
Qed.

Lemma minus_not_us : Ascii.eqb c_minus c_us = false.
Proof. reflexivity. Qed.

(* NewNumericValue *)
Lemma nnv_wf s : wf_lit s = true -> new_numeric_value s = Some (mk_numval (lit_value s)).
Proof.
  intros W. unfold new_numeric_value.
  destruct (wf_lit_cases s W) as [(r & -> & Wr & V)|(c & t & -> & Hx & Wb & V)]; rewrite V.
  - rewrite (clean_cons_keep _ _ minus_not_us). cbn [split_sign].
    change (Ascii.eqb c_minus c_minus) with true. cbn iota.
    rewrite stb_clean, (stb_wf _ Wr). reflexivity.
  - destruct (hex_not_special _ Hx) as (U & M & _).
    rewrite (clean_cons_keep _ _ U). cbn [split_sign]. rewrite M.
    rewrite <- (clean_cons_keep _ _ U). rewrite stb_clean, (stb_wf _ Wb). try reflexivity.
Qed.

(* parseIntLiteral *)
Lemma pil_wf s : wf_lit s = true -> parse_int_literal s = Some (lit_value s).
Proof.
  intros W. unfold parse_int_literal.
  destruct (wf_lit_cases s W) as [(r & -> & Wr & V)|(c & t & -> & Hx & Wb & V)]; rewrite V.
  - change (Ascii.eqb c_minus c_plus) with false. change (Ascii.eqb c_minus c_minus) with true. cbn iota.
    destruct (wf_body_nonnil _ Wr) as (c & t & -> & _). rewrite (stb_wf _ Wr). f_equal; lia.
  - destruct (hex_not_special _ Hx) as (_ & M & P). rewrite M, P. rewrite (stb_wf _ Wb). f_equal; lia.
Qed.

(* ------------------------------------------------------------------ the range check *)
Ltac pow_consts :=
  repeat match goal with
         | |- context [2 ^ ?k] => let v := eval vm_compute in (2 ^ k) in change (2 ^ k) with v
         | H : context [2 ^ ?k] |- _ => let v := eval vm_compute in (2 ^ k) in change (2 ^ k) with v in H
         end.

Lemma fits_mk t v : fits (mk_numval v) (bits t) (signed t) = in_range_of t v.
Proof.
  unfold mk_numval, is_int64, in_range_of, lo, hi.
  destruct ((- 2 ^ 63 <=? v) && (v <=? 2 ^ 63 - 1)) eqn:E; cbn [fits];
    destruct t; cbn [bits signed]; unfold fits_int64, fits_big; cbn [Z.eqb Pos.eqb orb];
    pow_consts; repeat match goal with |- context [if ?c then _ else _] => destruct c eqn:? end; lia.
Qed.

Lemma fits_in_type_wf s t : wf_lit s = true -> fits_in_type s t = in_range_of t (lit_value s).
Proof.
  intros W. unfold fits_in_type, fits_in_type_g. rewrite (nnv_wf _ W). apply fits_mk.
Qed.

Lemma check_fitness_wf s t : wf_lit s = true -> check_fitness t s = in_range_of t (lit_value s).
Proof.
  intros W. unfold check_fitness, check_fitness_g. rewrite (pil_wf _ W).
  unfold fits_in_type_g. rewrite nnv_dec_string. apply fits_mk.
Qed.

Lemma ity_eqb_refl t : ity_eqb t t = true.
Proof. destruct t; reflexivity. Qed.

Lemma accepts_wf s t : wf_lit s = true -> accepts t s = in_range_of t (lit_value s).
Proof.
  intros W. unfold accepts, accepts_g.
  change (check_fitness_g new_numeric_value t s) with (check_fitness t s).
  rewrite (check_fitness_wf _ _ W).
  unfold infer_literal_type_g.
  change (fits_in_type_g new_numeric_value) with fits_in_type.
  rewrite (fits_in_type_wf _ t W).
  destruct (in_range_of t (lit_value s)) eqn:R.
  - unfold compat_b. now rewrite ity_eqb_refl.
  - destruct (fits_in_type s I32); [reflexivity|].
    destruct (fits_in_type s I64); [reflexivity|].
    destruct (fits_in_type s I128); [reflexivity|].
    destruct (fits_in_type s I256); reflexivity.
Qed.

(* ------------------------------------------------------------------ materialisation *)
Lemma pow_bits_pos t : 0 < 2 ^ bits t /\ 2 ^ bits t = 2 * 2 ^ (bits t - 1) /\ 0 < 2 ^ (bits t - 1).
Proof. destruct t; cbn [bits]; lia. Qed.

Lemma wrap_in_range t v :
  in_range_of t v = true -> (if signed t then wrapS (bits t) v else wrapU (bits t) v) = v.
Proof.
  unfold in_range_of, lo, hi, wrapS, wrapU. destruct (pow_bits_pos t) as (P & D & Q).
  destruct (signed t); intros H.
  - rewrite Z.mod_small by lia. lia.
  - rewrite Z.mod_small by lia. reflexivity.
Qed.

Lemma numval_mk v : numval_Z (mk_numval v) = v.
Proof. unfold mk_numval. destruct (is_int64 v); reflexivity. Qed.

Lemma observed_small_wf s t :
  wf_lit s = true -> in_range_of t (lit_value s) = true ->
  observed_small_g new_numeric_value t s = Some (lit_value s).
Proof.
  intros W R. unfold observed_small_g, normalize_int_g. rewrite (nnv_wf _ W), numval_mk.
  f_equal. now apply wrap_in_range.
Qed.

Lemma emit_large_wf s : wf_lit s = true -> emit_large_const_string s = dec_string_of_Z (lit_value s).
Proof.
  intros W. unfold emit_large_const_string.
  destruct (wf_lit_cases s W) as [(r & -> & Wr & V)|(c & t & -> & Hx & Wb & V)]; rewrite V.
  - cbn [split_sign]. change (Ascii.eqb c_minus c_minus) with true. cbn iota. now rewrite (stb_wf _ Wr).
  - cbn [split_sign]. destruct (hex_not_special _ Hx) as (_ & M & _). rewrite M. now rewrite (stb_wf _ Wb).
Qed.

Lemma c_parse_base_dec c t : is_dec c = true -> forallb is_dec t = true -> c_parse_base (c :: t) = (10, c :: t).
Proof.
  intros Pc Pt. unfold c_parse_base. destruct t as [|q t]; [reflexivity|].
  cbn [forallb] in Pt. apply andb_prop in Pt as [Pq _]. rewrite (dec_prefix_none _ Pq).
  destruct (Ascii.eqb c c_zero); reflexivity.
Qed.

(* ferret_parse_uint on the decimal rendering of a magnitude *)
Lemma c_parse_uint_digits allow N n :
  0 < 2 ^ N -> 0 <= n ->
  c_parse_uint allow N (dec_digits (dec_fuel n) n []) = Some (n mod 2 ^ N, false).
Proof.
  intros HM H. destruct (dec_digits_shape n H) as (c & t & E & Pc & Pt).
  unfold c_parse_uint. rewrite E.
  destruct (hex_not_special _ (is_digit_hex Dec _ Pc)) as (_ & M & P). rewrite M, P. cbn [andb].
  rewrite (c_parse_base_dec _ _ Pc Pt). rewrite <- E. unfold dec_fuel.
  rewrite dec_digits_cloop by (try assumption; try (split; [exact H|apply (dec_fuel_spec n); exact H])).
  reflexivity.
Qed.

Lemma c_parse_uint_neg_digits N n :
  0 < 2 ^ N -> 0 <= n ->
  c_parse_uint true N (c_minus :: dec_digits (dec_fuel n) n []) = Some (n mod 2 ^ N, true).
Proof.
  intros HM H. destruct (dec_digits_shape n H) as (c & t & E & Pc & Pt).
  unfold c_parse_uint. change (Ascii.eqb c_minus c_plus) with false. change (Ascii.eqb c_minus c_minus) with true.
  cbn [andb negb]. rewrite E.
  rewrite (c_parse_base_dec _ _ Pc Pt). rewrite <- E. unfold dec_fuel.
  rewrite dec_digits_cloop by (try assumption; try (split; [exact H|apply (dec_fuel_spec n); exact H])).
  reflexivity.
Qed.

Lemma observed_large_wf s t :
  wf_lit s = true -> in_range_of t (lit_value s) = true ->
  observed_large t s = Some (lit_value s).
Proof.
  intros W R. unfold observed_large. rewrite (emit_large_wf _ W).
  set (v := lit_value s) in *. destruct (pow_bits_pos t) as (P & D & Q).
  unfold in_range_of, lo, hi in R. unfold c_from_string, dec_string_of_Z.
  destruct (v <? 0) eqn:Neg.
  - destruct (signed t) eqn:Sg; [|lia].
    rewrite c_parse_uint_neg_digits by lia. cbn [andb]. f_equal.
    rewrite (Z.mod_small (- v)) by lia.
    rewrite (Z.mod_small (2 ^ bits t - - v)) by lia.
    unfold wrapS. replace (2 ^ bits t - - v + 2 ^ (bits t - 1)) with (v + 2 ^ (bits t - 1) + 1 * 2 ^ bits t) by lia.
    rewrite Z_mod_plus_full. rewrite Z.mod_small by lia. lia.
  - rewrite c_parse_uint_digits by lia. rewrite andb_false_r. f_equal.
    destruct (signed t) eqn:Sg.
    + rewrite Z.mod_small by lia. unfold wrapS. rewrite Z.mod_small by lia. lia.
    + rewrite Z.mod_small by lia. reflexivity.
Qed.

Lemma observed_wf s t :
  wf_lit s = true -> in_range_of t (lit_value s) = true -> observed t s = Some (lit_value s).
Proof.
  intros W R. unfold observed, observed_g. destruct (bits t <=? 64).
  - now apply observed_small_wf.
  - now apply observed_large_wf.
Qed.

Lemma in_range_of_spec t v : in_range_of t v = true <-> lo t <= v <= hi t.
Proof. unfold in_range_of. lia. Qed.
