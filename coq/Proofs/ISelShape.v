(* Soundness of every expression shape accepted by shape_ok (Models/ISel.v): evaluated on canonical registers it
   yields a canonical register denoting the reference result. Parametric in the register contents. *)
From Coq Require Import ZArith List Bool Lia Znumtheory.
From FV Require Import Core.Syntax Core.Sem Proofs.CoreArith Models.Qbe Models.WasmSem Models.ISel
     Proofs.ISelSym Proofs.ISelArith.
Import ListNotations.
Local Open Scope Z_scope.

Definition cargs (k : key) (rs : list Z) : list wval := combine (map vcls (argtys k)) rs.

Definition core_post (k : key) (x v : Z) : Prop :=
  0 <= x < cmod (vcls (resty k)) /\
  match resty k with
  | VI t => wrap t x = v /\ tmin t <= v <= tmax t /\ (must_norm k = false -> canon t x)
  | VB => x = v /\ (x = 0 \/ x = 1)
  end.

Definition sound_e (k : key) (e : mexpr) : Prop :=
  forall rs, Forall2 canonV (argtys k) rs ->
  forall v, ref k (denotes (argtys k) rs) = Some v ->
  exists r, meval (cargs k rs) e = Some (vcls (resty k), r) /\ canonV (resty k) r /\ denoteV (resty k) r = v.

(* ------------------------------------------------------------------ evaluation of the core expressions *)

Lemma meval_bin2 c o ra rb :
  meval [(c, ra); (c, rb)] (MBin c o A0 A1) = match sem_bop c o ra rb with Some r => Some (c, r) | None => None end.
Proof. cbn. rewrite cls_eqb_refl. reflexivity. Qed.
Lemma meval_cmp2 c o ra rb :
  meval [(c, ra); (c, rb)] (MCmp c o A0 A1) = Some (W, Z.b2z (sem_cop c o ra rb)).
Proof. cbn. rewrite cls_eqb_refl. reflexivity. Qed.

Lemma sgn_0 c : sgn c 0 = 0.
Proof. destruct c; reflexivity. Qed.

Lemma canon_0 t : canon t 0 /\ denote t 0 = 0.
Proof.
  pose proof (canon_encode t 0 (tmin_le_tmax t)) as H. unfold encode in H. rewrite Z.mod_0_l in H; [exact H|].
  pose proof (cmod_pos (tcls t)). lia.
Qed.

Lemma post_of_encode k t v : resty k = VI t -> tmin t <= v <= tmax t -> core_post k (encode t v) v.
Proof.
  intros Hr Hv. unfold core_post. rewrite Hr. cbn [vcls].
  destruct (canon_encode t v Hv) as [Hc Hd]. split; [apply canon_range; exact Hc|].
  split; [exact Hd|]. split; [exact Hv|]. intros _. exact Hc.
Qed.

Lemma rb_nonzero t rb : canon t rb -> denote t rb <> 0 -> rb <> 0.
Proof.
  intros Hb Hz E. apply Hz. subst rb. apply (proj2 (canon_0 t)).
Qed.

Lemma no_machine_trap t ra rb : signed t = true -> canon t ra -> canon t rb ->
  div_traps t (denote t ra) (denote t rb) = false ->
  (denote t ra =? - (cmod (tcls t) / 2)) && (denote t rb =? -1) = false.
Proof.
  intros Hs Ha Hb Ht.
  destruct ((denote t ra =? - (cmod (tcls t) / 2)) && (denote t rb =? -1)) eqn:E; [|reflexivity].
  exfalso. apply andb_prop in E as [E1 E2]. apply Z.eqb_eq in E1, E2.
  destruct (subword t) eqn:Hw.
  - pose proof (range_sub_signed t Hw) as [Hlt _]. pose proof (canon_in_range t ra). lia.
  - unfold div_traps in Ht. rewrite Hs, (full_bits32 t Hw), E2, E1, <- (range_full_signed t Hs Hw), Z.eqb_refl in Ht.
    discriminate.
Qed.

(* signed division: the machine quotient is congruent to the mathematical one; it is canonical at full width, at
   8/16 bits it is not (MIN / -1) and must be normalised *)
Lemma divs_sound t ra rb v : signed t = true -> canon t ra -> canon t rb ->
  arith Div t (denote t ra) (denote t rb) = Some v ->
  exists x, sem_bop (tcls t) Odivs ra rb = Some x /\ 0 <= x < cmod (tcls t) /\ wrap t x = v /\
            tmin t <= v <= tmax t /\ (subword t = false -> canon t x).
Proof.
  intros Hs Ha Hb Hv. destruct (arith_div_inv t _ _ _ Hv) as (Hz & Ht & ->).
  unfold sem_bop. cbv zeta. rewrite (canon_signed t ra Hs Ha), (canon_signed t rb Hs Hb).
  destruct (Z.eqb_spec rb 0) as [E|_]; [exfalso; exact (rb_nonzero t rb Hb Hz E)|].
  rewrite (no_machine_trap t ra rb Hs Ha Hb Ht).
  eexists. split; [reflexivity|].
  assert (Hx : 0 <= Z.quot (denote t ra) (denote t rb) mod cmod (tcls t) < cmod (tcls t)) by (apply Z.mod_pos_bound, cmod_pos).
  split; [exact Hx|]. split; [|split; [apply wrap_in_range|intros Hw; apply canon_full; assumption]].
  apply wrap_eqm. apply eqm_mod; [apply tmod_pos|apply cmod_pos|apply tmod_divides].
Qed.

Lemma rems_sound t ra rb v : signed t = true -> canon t ra -> canon t rb ->
  arith Mod t (denote t ra) (denote t rb) = Some v ->
  sem_bop (tcls t) Orems ra rb = Some (encode t v) /\ sem_bop (tcls t) Oremsw ra rb = Some (encode t v)
  /\ tmin t <= v <= tmax t.
Proof.
  intros Hs Ha Hb Hv. destruct (arith_mod_inv t _ _ _ Hv) as (Hz & Ht & ->).
  pose proof (rem_range t _ _ (canon_in_range t ra) (canon_in_range t rb) Hz) as Hq.
  rewrite (wrap_id t _ Hq).
  unfold sem_bop. cbv zeta. rewrite (canon_signed t ra Hs Ha), (canon_signed t rb Hs Hb).
  destruct (Z.eqb_spec rb 0) as [E|_]; [exfalso; exact (rb_nonzero t rb Hb Hz E)|].
  rewrite (no_machine_trap t ra rb Hs Ha Hb Ht).
  split; [reflexivity|split; [reflexivity|exact Hq]].
Qed.

Lemma divu_sound t ra rb v : signed t = false -> canon t ra -> canon t rb ->
  arith Div t (denote t ra) (denote t rb) = Some v ->
  sem_bop (tcls t) Odivu ra rb = Some (encode t v) /\ tmin t <= v <= tmax t.
Proof.
  intros Hs Ha Hb Hv. destruct (arith_div_inv t _ _ _ Hv) as (Hz & Ht & ->).
  pose proof (quot_range_u t _ _ Hs (canon_in_range t ra) (canon_in_range t rb) Hz) as Hq.
  rewrite (wrap_id t _ Hq). split; [|exact Hq].
  pose proof (range_unsigned t Hs) as [H0 HM]. pose proof (canon_in_range t ra). pose proof (canon_in_range t rb).
  rewrite <- (canon_unsigned t ra Hs Ha) in *. rewrite <- (canon_unsigned t rb Hs Hb) in *.
  unfold sem_bop. cbv zeta. destruct (Z.eqb_spec rb 0) as [E|_]; [contradiction|].
  f_equal. unfold encode. rewrite Z.quot_div_nonneg in * by lia. generalize dependent (ra / rb). intros q. intros.
  rewrite Z.mod_small by lia. reflexivity.
Qed.

Lemma remu_sound t ra rb v : signed t = false -> canon t ra -> canon t rb ->
  arith Mod t (denote t ra) (denote t rb) = Some v ->
  sem_bop (tcls t) Oremu ra rb = Some (encode t v) /\ tmin t <= v <= tmax t.
Proof.
  intros Hs Ha Hb Hv. destruct (arith_mod_inv t _ _ _ Hv) as (Hz & Ht & ->).
  pose proof (rem_range t _ _ (canon_in_range t ra) (canon_in_range t rb) Hz) as Hq.
  rewrite (wrap_id t _ Hq). split; [|exact Hq].
  pose proof (range_unsigned t Hs) as [H0 HM]. pose proof (canon_in_range t ra). pose proof (canon_in_range t rb).
  rewrite <- (canon_unsigned t ra Hs Ha) in *. rewrite <- (canon_unsigned t rb Hs Hb) in *.
  unfold sem_bop. cbv zeta. destruct (Z.eqb_spec rb 0) as [E|_]; [contradiction|].
  f_equal. unfold encode. rewrite Z.rem_mod_nonneg in * by lia. generalize dependent (ra mod rb). intros q. intros.
  rewrite Z.mod_small by lia. reflexivity.
Qed.

Lemma canon_eqb t ra rb : canon t ra -> canon t rb -> (ra =? rb) = (denote t ra =? denote t rb).
Proof.
  intros Ha Hb. destruct (Z.eqb_spec ra rb) as [E|E], (Z.eqb_spec (denote t ra) (denote t rb)) as [F|F]; try reflexivity.
  - subst. contradiction.
  - exfalso. apply E. apply (canon_inj t); assumption.
Qed.

Lemma b2z_01 b : Z.b2z b = 0 \/ Z.b2z b = 1.
Proof. destruct b; auto. Qed.

Lemma post_bool k b : resty k = VB -> core_post k (Z.b2z b) (Z.b2z b).
Proof.
  intros Hr. unfold core_post. rewrite Hr. cbn [vcls]. split; [destruct b; vm_compute; split; congruence|].
  split; [reflexivity|apply b2z_01].
Qed.

Lemma contained_range s t : contained s t = true -> tmin t <= tmin s /\ tmax s <= tmax t.
Proof. unfold contained. intros H. apply andb_prop in H as [H1 H2]. apply Z.leb_le in H1, H2. auto. Qed.
Lemma contained_cls s t : contained s t = true -> subword t = true -> tcls s = W.
Proof. destruct s, t; vm_compute; congruence. Qed.
Lemma L_not_subword t : tcls t = L -> subword t = false.
Proof. destruct t; vm_compute; congruence. Qed.
Lemma W_divides_L m : (m | cmod W) -> (m | cmod L).
Proof. intros H. eapply Z.divide_trans; [exact H|]. exists (2 ^ 32). reflexivity. Qed.

Lemma cast_post s t ra x :
  canon s ra -> 0 <= x < cmod (tcls t) -> eqm (2 ^ bits t) x (denote s ra) ->
  (subword t = true -> contained s t = true -> x = ra) ->
  core_post (KCast s t) x (wrap t (denote s ra)).
Proof.
  intros Ha Hx He Hsame. unfold core_post. cbn [resty vcls]. split; [exact Hx|].
  split; [apply wrap_eqm; exact He|]. split; [apply wrap_in_range|].
  cbn [must_norm]. intros Hn. destruct (subword t) eqn:Hw.
  - cbn in Hn. destruct (contained s t) eqn:Hc; [|discriminate].
    rewrite (Hsame eq_refl eq_refl).
    pose proof (contained_range s t Hc). pose proof (canon_in_range s ra).
    assert (Hr : tmin t <= denote s ra <= tmax t) by lia.
    destruct (canon_encode t _ Hr) as [Hce _]. unfold encode in Hce.
    pose proof (range_sub_signed t Hw) as [_ Ct]. rewrite Ct in Hce.
    rewrite (canon_enc s ra Ha). rewrite (contained_cls s t Hc Hw). exact Hce.
  - apply canon_full; assumption.
Qed.

Lemma core_sound k c : In c (core k) ->
  forall rs, Forall2 canonV (argtys k) rs ->
  forall v, ref k (denotes (argtys k) rs) = Some v ->
  exists x, meval (cargs k rs) c = Some (vcls (resty k), x) /\ core_post k x v.
Proof.
  intros Hin rs HF v Hv. destruct k as [o t|o|t| |s t|vt].
  - (* KBin *)
    cbn [argtys] in HF. inversion HF as [|? ra ? rs1 Ha HF1]; subst. inversion HF1 as [|? rb ? rs2 Hb HF2]; subst.
    inversion HF2; subst. cbn [canonV] in Ha, Hb.
    unfold cargs. cbn [argtys map vcls combine]. cbn [argtys denotes denoteV ref] in Hv.
    destruct o; cbn [core] in Hin; cbn [is_arith] in Hv; cbn [resty is_arith vcls].
    + (* Add *) destruct Hin as [<-|[]]. rewrite meval_bin2. cbn [sem_bop]. cbv zeta.
      destruct (ring_sound t Z.add ra rb eqm_add Ha Hb) as (Hx & Hw & Hc).
      eexists. split; [reflexivity|]. cbn in Hv. inversion Hv; subst v.
      unfold core_post. cbn [resty is_arith vcls must_norm]. split; [exact Hx|]. split; [exact Hw|].
      split; [apply wrap_in_range|exact Hc].
    + (* Sub *) destruct Hin as [<-|[]]. rewrite meval_bin2. cbn [sem_bop]. cbv zeta.
      destruct (ring_sound t Z.sub ra rb eqm_sub Ha Hb) as (Hx & Hw & Hc).
      eexists. split; [reflexivity|]. cbn in Hv. inversion Hv; subst v.
      unfold core_post. cbn [resty is_arith vcls must_norm]. split; [exact Hx|]. split; [exact Hw|].
      split; [apply wrap_in_range|exact Hc].
    + (* Mul *) destruct Hin as [<-|[]]. rewrite meval_bin2. cbn [sem_bop]. cbv zeta.
      destruct (ring_sound t Z.mul ra rb eqm_mul Ha Hb) as (Hx & Hw & Hc).
      eexists. split; [reflexivity|]. cbn in Hv. inversion Hv; subst v.
      unfold core_post. cbn [resty is_arith vcls must_norm]. split; [exact Hx|]. split; [exact Hw|].
      split; [apply wrap_in_range|exact Hc].
    + (* Div *) destruct Hin as [<-|[]]. rewrite meval_bin2. destruct (signed t) eqn:Hs.
      * destruct (divs_sound t ra rb v Hs Ha Hb Hv) as (x & E & Hx & Hw & Hr & Hc). rewrite E. exists x. split; [reflexivity|].
        unfold core_post. cbn [resty is_arith vcls must_norm]. rewrite Hs, andb_true_r.
        split; [exact Hx|]. split; [exact Hw|]. split; [exact Hr|exact Hc].
      * destruct (divu_sound t ra rb v Hs Ha Hb Hv) as [E Hr]. rewrite E. eexists. split; [reflexivity|].
        apply post_of_encode; [reflexivity|exact Hr].
    + (* Mod *) destruct (signed t) eqn:Hs.
      * destruct (rems_sound t ra rb v Hs Ha Hb Hv) as (E1 & E2 & Hr).
        destruct Hin as [<-|[<-|[]]]; rewrite meval_bin2; [rewrite E1|rewrite E2]; (eexists; split; [reflexivity|]);
          (apply post_of_encode; [reflexivity|exact Hr]).
      * destruct Hin as [<-|[]]. rewrite meval_bin2.
        destruct (remu_sound t ra rb v Hs Ha Hb Hv) as [E Hr]. rewrite E. eexists. split; [reflexivity|].
        apply post_of_encode; [reflexivity|exact Hr].
    + (* Eq *) destruct Hin as [<-|[]]. rewrite meval_cmp2. eexists. split; [reflexivity|].
      cbn in Hv. inversion Hv; subst v. cbn [sem_cop]. rewrite (canon_eqb t ra rb Ha Hb). apply post_bool. reflexivity.
    + (* Ne *) destruct Hin as [<-|[]]. rewrite meval_cmp2. eexists. split; [reflexivity|].
      cbn in Hv. inversion Hv; subst v. cbn [sem_cop]. rewrite (canon_eqb t ra rb Ha Hb). apply post_bool. reflexivity.
    + (* Lt *) destruct Hin as [<-|[]]. rewrite meval_cmp2. eexists. split; [reflexivity|].
      cbn in Hv. inversion Hv; subst v. destruct (signed t) eqn:Hs; cbn [sem_cop].
      * rewrite (canon_signed t ra Hs Ha), (canon_signed t rb Hs Hb). apply post_bool. reflexivity.
      * rewrite <- (canon_unsigned t ra Hs Ha), <- (canon_unsigned t rb Hs Hb). apply post_bool. reflexivity.
    + (* Le *) destruct Hin as [<-|[]]. rewrite meval_cmp2. eexists. split; [reflexivity|].
      cbn in Hv. inversion Hv; subst v. destruct (signed t) eqn:Hs; cbn [sem_cop].
      * rewrite (canon_signed t ra Hs Ha), (canon_signed t rb Hs Hb). apply post_bool. reflexivity.
      * rewrite <- (canon_unsigned t ra Hs Ha), <- (canon_unsigned t rb Hs Hb). apply post_bool. reflexivity.
    + (* Gt *) destruct Hin as [<-|[]]. rewrite meval_cmp2. eexists. split; [reflexivity|].
      cbn in Hv. inversion Hv; subst v. destruct (signed t) eqn:Hs; cbn [sem_cop].
      * rewrite (canon_signed t ra Hs Ha), (canon_signed t rb Hs Hb). apply post_bool. reflexivity.
      * rewrite <- (canon_unsigned t ra Hs Ha), <- (canon_unsigned t rb Hs Hb). apply post_bool. reflexivity.
    + (* Ge *) destruct Hin as [<-|[]]. rewrite meval_cmp2. eexists. split; [reflexivity|].
      cbn in Hv. inversion Hv; subst v. destruct (signed t) eqn:Hs; cbn [sem_cop].
      * rewrite (canon_signed t ra Hs Ha), (canon_signed t rb Hs Hb). apply post_bool. reflexivity.
      * rewrite <- (canon_unsigned t ra Hs Ha), <- (canon_unsigned t rb Hs Hb). apply post_bool. reflexivity.
    + destruct Hin.
    + destruct Hin.
  - (* KBBin *)
    cbn [argtys] in HF. inversion HF as [|? ra ? rs1 Ha HF1]; subst. inversion HF1 as [|? rb ? rs2 Hb HF2]; subst.
    inversion HF2; subst. cbn [canonV] in Ha, Hb.
    destruct o; cbn [core] in Hin; try (destruct Hin; fail); destruct Hin as [<-|[]];
      destruct Ha as [-> | ->], Hb as [-> | ->]; cbn in Hv; inversion Hv; subst v;
      (eexists; split; [vm_compute; reflexivity|]); unfold core_post; cbn;
      (split; [lia|split; [reflexivity|auto]]).
  - (* KNeg *)
    cbn [argtys] in HF. inversion HF as [|? ra ? rs1 Ha HF1]; subst. inversion HF1; subst. cbn [canonV] in Ha.
    cbn [core] in Hin. destruct Hin as [<-|[]].
    unfold cargs. cbn [argtys map vcls combine meval A0 nth_error]. rewrite !cls_eqb_refl. cbn [andb sem_bop]. cbv zeta.
    rewrite (Z.mod_0_l (cmod (tcls t))) by (pose proof (cmod_pos (tcls t)); lia).
    destruct (canon_0 t) as [H0 D0].
    destruct (ring_sound t Z.sub 0 ra eqm_sub H0 Ha) as (Hx & Hw & Hc). rewrite D0 in Hw.
    eexists. split; [reflexivity|]. cbn in Hv. inversion Hv; subst v.
    unfold core_post. cbn [resty vcls must_norm]. split; [exact Hx|]. split; [exact Hw|].
    split; [apply wrap_in_range|exact Hc].
  - (* KNot *)
    cbn [argtys] in HF. inversion HF as [|? ra ? rs1 Ha HF1]; subst. inversion HF1; subst. cbn [canonV] in Ha.
    cbn [core] in Hin. destruct Hin as [<-|[<-|[]]]; destruct Ha as [-> | ->]; cbn in Hv; inversion Hv; subst v;
      (eexists; split; [vm_compute; reflexivity|]); unfold core_post; cbn;
      (split; [lia|split; [reflexivity|auto]]).
  - (* KCast *)
    cbn [argtys] in HF. inversion HF as [|? ra ? rs1 Ha HF1]; subst. inversion HF1; subst. cbn [canonV] in Ha.
    cbn [argtys denotes denoteV ref] in Hv. inversion Hv; subst v.
    unfold cargs. cbn [argtys map vcls combine resty].
    pose proof (canon_range s ra Ha) as Hra. pose proof (canon_eqmM s ra Ha) as HeM.
    pose proof (tmod_pos t) as Hmp.
    cbn [core] in Hin. destruct (tcls s) eqn:Cs, (tcls t) eqn:Ct.
    + (* W -> W *) destruct Hin as [<-|[]]. cbn [meval A0 nth_error]. eexists. split; [reflexivity|].
      apply cast_post; [exact Ha|rewrite Ct; exact Hra| |auto].
      eapply eqm_weaken; [exact Hmp|apply (cmod_pos W)| |exact HeM]. rewrite <- Ct. apply tmod_divides.
    + (* W -> L *) destruct Hin as [<-|[]]. cbn [meval A0 nth_error].
      destruct (signed s) eqn:Hs; cbn [uop_arg uop_res cls_eqb sem_uop].
      * eexists. split; [reflexivity|]. pose proof (canon_signed s ra Hs Ha) as Hsg. rewrite Cs in Hsg. rewrite Hsg.
        apply cast_post; [exact Ha|rewrite Ct; apply Z.mod_pos_bound, (cmod_pos L)| |].
        -- apply eqm_mod; [exact Hmp|apply (cmod_pos L)|]. rewrite <- Ct. apply tmod_divides.
        -- intros Hw. rewrite (L_not_subword t Ct) in Hw. discriminate.
      * eexists. split; [reflexivity|]. pose proof (canon_unsigned s ra Hs Ha) as Hu.
        apply cast_post; [exact Ha|rewrite Ct; change (cmod W) with (2 ^ 32) in Hra; change (cmod L) with (2 ^ 64); lia| |auto].
        rewrite <- Hu. apply eqm_refl.
    + (* L -> W *) destruct Hin as [<-|[]]. cbn [meval A0 nth_error uop_arg uop_res cls_eqb sem_uop].
      eexists. split; [reflexivity|].
      assert (Hdiv : (2 ^ bits t | cmod W)) by (rewrite <- Ct; apply tmod_divides).
      apply cast_post; [exact Ha|rewrite Ct; apply Z.mod_pos_bound, (cmod_pos W)| |].
      * eapply eqm_trans; [apply eqm_mod; [exact Hmp|apply (cmod_pos W)|exact Hdiv]|].
        eapply eqm_weaken; [exact Hmp|apply (cmod_pos L)|apply W_divides_L; exact Hdiv|exact HeM].
      * intros Hw Hc. pose proof (contained_cls s t Hc Hw). congruence.
    + (* L -> L *) destruct Hin as [<-|[]]. cbn [meval A0 nth_error]. eexists. split; [reflexivity|].
      apply cast_post; [exact Ha|rewrite Ct; exact Hra| |auto].
      eapply eqm_weaken; [exact Hmp|apply (cmod_pos L)| |exact HeM]. rewrite <- Ct. apply tmod_divides.
  - destruct Hin.
Qed.

(* ------------------------------------------------------------------ normalisers *)

Lemma norms_sound args t c e x : In e (norms t c) -> meval args c = Some (W, x) -> 0 <= x < cmod W ->
  meval args e = Some (W, encode t (wrap t x)).
Proof.
  intros Hin Hc Hx. destruct t; cbn in Hin; try (destruct Hin; fail).
  - destruct Hin as [<-|[<-|[]]]; cbn [meval]; rewrite Hc; cbn [cls_eqb andb uop_arg uop_res].
    + destruct (norm_shl_sar_8 x Hx) as (y & H1 & H2). rewrite H1. cbn [cls_eqb andb]. rewrite H2. reflexivity.
    + rewrite (norm_ext8s x Hx). reflexivity.
  - destruct Hin as [<-|[<-|[]]]; cbn [meval]; rewrite Hc; cbn [cls_eqb andb uop_arg uop_res].
    + destruct (norm_shl_sar_16 x Hx) as (y & H1 & H2). rewrite H1. cbn [cls_eqb andb]. rewrite H2. reflexivity.
    + rewrite (norm_ext16s x Hx). reflexivity.
  - destruct Hin as [<-|[<-|[]]]; cbn [meval]; rewrite Hc; cbn [cls_eqb andb uop_arg uop_res sem_bop]; cbv zeta.
    + rewrite (norm_and_8 x Hx). reflexivity.
    + rewrite (norm_ext8u x Hx). reflexivity.
  - destruct Hin as [<-|[<-|[]]]; cbn [meval]; rewrite Hc; cbn [cls_eqb andb uop_arg uop_res sem_bop]; cbv zeta.
    + rewrite (norm_and_16 x Hx). reflexivity.
    + rewrite (norm_ext16u x Hx). reflexivity.
Qed.

Lemma norms_subword t c e : In e (norms t c) -> subword t = true.
Proof. unfold norms. destruct (subword t); [reflexivity|intros []]. Qed.

Lemma may_norm_resty k t : may_norm k = Some t -> resty k = VI t.
Proof.
  destruct k; cbn; try discriminate.
  - destruct (is_arith o); congruence.
  - congruence.
  - congruence.
Qed.

Theorem shape_sound k e : shape_ok k e = true -> sound_e k e.
Proof.
  unfold shape_ok. intros H. apply existsb_exists in H as (c & Hin & H).
  intros rs HF v Hv. destruct (core_sound k c Hin rs HF v Hv) as (x & Hm & Hx & Hp).
  apply orb_prop in H as [H|H].
  - apply andb_prop in H as [Hn He]. apply mexpr_eqb_eq in He. subst e. apply negb_true_iff in Hn.
    exists x. split; [exact Hm|]. destruct (resty k) as [t|].
    + destruct Hp as (Hw & Hr & Hc). cbn [canonV denoteV]. split; [apply Hc; exact Hn|exact Hw].
    + destruct Hp as (Hw & Hr). cbn [canonV denoteV]. split; [exact Hr|exact Hw].
  - destruct (may_norm k) as [t|] eqn:Em; [|discriminate].
    apply existsb_exists in H as (e' & Hin' & He). apply mexpr_eqb_eq in He. subst e'.
    pose proof (may_norm_resty k t Em) as Hr. rewrite Hr in *. cbn [vcls] in *.
    pose proof (norms_subword t c e Hin') as Hw. pose proof (range_sub_signed t Hw) as [_ Ct]. rewrite Ct in *.
    destruct Hp as (Hwr & Hrange & _).
    rewrite (norms_sound _ t c e x Hin' Hm Hx). rewrite Hwr.
    exists (encode t v). split; [reflexivity|]. cbn [canonV denoteV]. apply canon_encode. exact Hrange.
Qed.
