(* C01 — native executables behave as FerretCore's reference semantics prescribes.
   This file: what the reference prescribes for arithmetic (for all operand values).  The tie to the
   compiler is the correspondence run of harness/c01.py (generated programs, compiled and executed). *)
From Coq Require Import String ZArith List Bool.
From FV Require Import Core.Syntax Core.Sem Proofs.CoreArith.
Local Open Scope Z_scope.

(* fixed-width two's-complement: the result of +,-,*,neg,cast is the unique value of the type congruent to the
   mathematical result modulo 2^N *)
Theorem C01_wrap_is_twos_complement :
  forall t x, tmin t <= wrap t x <= tmax t /\ (wrap t x - x) mod 2 ^ bits t = 0 /\
              (forall y, tmin t <= y <= tmax t -> (y - x) mod 2 ^ bits t = 0 -> wrap t x = y).
Proof. intros t x. split; [apply wrap_in_range|split; [apply wrap_congruent|intros y; apply wrap_unique]]. Qed.
Print Assumptions C01_wrap_is_twos_complement.

(* truncating division and remainder: a = (a/b)*b + a%b, |a%b| < |b|, remainder takes the sign of the dividend *)
Theorem C01_div_rem_truncate :
  forall t a b q r, tmin t <= a <= tmax t -> tmin t <= b <= tmax t ->
    ~ (signed t = true /\ a = tmin t /\ b = -1) ->
    arith Div t a b = Some q -> arith Mod t a b = Some r ->
    a = q * b + r /\ Z.abs r < Z.abs b /\ (r = 0 \/ Z.sgn r = Z.sgn a) /\ q = Z.quot a b /\ r = Z.rem a b.
Proof. exact div_mod_spec. Qed.
Print Assumptions C01_div_rem_truncate.

(* the only quotient that does not fit: MIN / -1 wraps to MIN at 8 and 16 bits (the 32/64-bit case faults in the
   machine division and is left undefined: Sem.div_traps) *)
Theorem C01_div_overflow_wraps :
  forall t, signed t = true -> bits t < 32 ->
    arith Div t (tmin t) (-1) = Some (tmin t) /\ arith Mod t (tmin t) (-1) = Some 0.
Proof. exact div_overflow_wraps. Qed.
Print Assumptions C01_div_overflow_wraps.

(* the reference prescribes a behaviour for every accepted program: a program accepted by the reference type checker
   never gets stuck, whatever the fuel (type safety of FerretCore) — the oracle of the correspondence run is total *)
From FV Require Import Core.Typing Proofs.SafetyP.
Theorem C01_reference_total : forall structs p, check_prog structs p = TOk tt -> forall fuel, run structs p fuel <> Stuck.
Proof. exact type_safety. Qed.
Print Assumptions C01_reference_total.

(* the reference outcome does not depend on the fuel: OutOfFuel is the only fuel-dependent answer, so the comparison of an
   executable with `run p FUEL` (harness/c01.py) is a comparison with THE behaviour of p whenever the run finishes *)
From FV Require Import Proofs.CongrP.
Theorem C01_reference_fuel_independent :
  forall structs p fuel fuel', (fuel <= fuel')%nat -> run structs p fuel <> OutOfFuel -> run structs p fuel' = run structs p fuel.
Proof. exact run_fuel_independent. Qed.
Print Assumptions C01_reference_fuel_independent.

Theorem C01_reference_deterministic :
  forall structs p f1 f2, run structs p f1 <> OutOfFuel -> run structs p f2 <> OutOfFuel -> run structs p f1 = run structs p f2.
Proof. exact run_finished_agree. Qed.
Print Assumptions C01_reference_deterministic.

(* non-vacuity for calls with by-reference arguments: the accepted program
     f0(s: &'S0, k: i32) { s.F0 = k; }   main { let v = {1, 2} as S0; f0(&'v, 3); print v.F0 }
   prints the value written through the reference *)
Import ListNotations.
Theorem C01_reference_by_ref_example :
  check_prog [[I32; U8]] byref_sample = TOk tt /\ run [[I32; U8]] byref_sample 5 = Done [[OInt 3]].
Proof. exact (conj byref_sample_accepted byref_sample_runs). Qed.
Print Assumptions C01_reference_by_ref_example.

(* non-vacuity for strings: main { print("ab" + "cd", "ab" + "cd" == "abcd"); } is accepted and prints abcd true *)
Theorem C01_reference_string_example :
  check_prog [] str_sample = TOk tt /\ run [] str_sample 1 = Done [[OStr "abcd"; OBool true]].
Proof. exact (conj str_sample_accepted str_sample_runs). Qed.
Print Assumptions C01_reference_string_example.

(* ---- instruction selection of the native back end, over the table regenerated from the emitter on every run ---- *)
From FV Require Import Models.Qbe Models.ISel Proofs.ISelSound Proofs.ISelThm gen.Gen_QbeSel.
Import ListNotations.

(* for every (operator, type) row and ALL canonical register contents on which the reference is defined, the emitted
   QBE code returns a canonical register of the result type that denotes the reference result *)
Theorem C01_isel_sound : forall k f, In (k, f) qbe_code -> sound_q k f.
Proof. exact isel_qbe_sound. Qed.
Print Assumptions C01_isel_sound.

Theorem C01_isel_sound_binary : forall o t f, In (KBin o t, f) qbe_code ->
  forall ra rb, canon t ra -> canon t rb ->
  forall v, ref (KBin o t) [denote t ra; denote t rb] = Some v ->
  forall m sp, exists r, qexec f [ra; rb] m sp = Some r /\ canonV (resty (KBin o t)) r /\ denoteV (resty (KBin o t)) r = v.
Proof. exact isel_qbe_sound_bin. Qed.
Print Assumptions C01_isel_sound_binary.

Theorem C01_isel_table_covers : covers qbe_code = true.
Proof. exact (proj1 isel_tables_cover). Qed.
Print Assumptions C01_isel_table_covers.
