(* C01 — native executables behave as FerretCore's reference semantics prescribes.
   This file: what the reference prescribes for arithmetic (for all operand values).  The tie to the
   compiler is the correspondence run of harness/c01.py (generated programs, compiled and executed). *)
From Coq Require Import ZArith List Bool.
From FV Require Import Core.Syntax Core.Sem Proofs.CoreArith.
Local Open Scope Z_scope.

(* fixed-width two's-complement: the result of +,-,*,neg,cast is the unique value of the type congruent to the
   mathematical result modulo 2^N *)
Theorem C01_wrap_is_twos_complement :
  forall t x, tmin t <= wrap t x <= tmax t /\ (wrap t x - x) mod 2 ^ bits t = 0 /\
              (forall y, tmin t <= y <= tmax t -> (y - x) mod 2 ^ bits t = 0 -> wrap t x = y).
Proof. intros t x. split; [apply wrap_in_range|split; [apply wrap_congruent|intros y; apply wrap_unique]]. Qed.
Print Assumptions C01_wrap_is_twos_complement.

(* truncating division and remainder: a = (a/b)*b + a%b, |a%b| < |b|, remainder takes the sign of the dividend *)
Theorem C01_div_rem_truncate :
  forall t a b q r, tmin t <= a <= tmax t -> tmin t <= b <= tmax t ->
    arith Div t a b = Some q -> arith Mod t a b = Some r ->
    a = q * b + r /\ Z.abs r < Z.abs b /\ (r = 0 \/ Z.sgn r = Z.sgn a) /\ q = Z.quot a b /\ r = Z.rem a b.
Proof. exact div_mod_spec. Qed.
Print Assumptions C01_div_rem_truncate.
