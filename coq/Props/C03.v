(* C03 — statically ill-typed programs are rejected (reference side, FerretCore fragment).
   (1) closure: the checker reaches every expression position of every function body, in any nesting of
       statements and expressions — an ill-typed subterm anywhere is fatal;
   (2) at each position it enforces the catalogue's rule.
   The real compiler is tied to this reference by the correspondence run of harness/c03.py: every mutant the
   reference rejects (one rule violated at one site) must be rejected by `ferret`, for all rule classes x contexts. *)
From Coq Require Import ZArith List Bool.
From FV Require Import Core.Syntax Core.Typing Proofs.TypingP.
Import ListNotations.

Theorem C03_context_closure :
  forall structs p, check_prog structs p = TOk tt ->
  forall f e, In f p -> occurs e (fbody f) -> exists G t, check_expr structs (map sig_of p) G e = TOk t.
Proof. exact prog_every_expr_typed. Qed.
Print Assumptions C03_context_closure.

Theorem C03_subexpressions_typed :
  forall structs sigs G e t, check_expr structs sigs G e = TOk t -> forall e', subexpr e' e -> exists t', check_expr structs sigs G e' = TOk t'.
Proof. exact subexpr_typed. Qed.
Print Assumptions C03_subexpressions_typed.

(* arithmetic / ordering between different numeric types is never well typed; the only non-integer use of an arithmetic
   operator is `+` on two strings (concatenation) *)
Theorem C03_rule_operands :
  forall structs sigs G o a b t,
    (o = Add \/ o = Sub \/ o = Mul \/ o = Div \/ o = Mod -> check_expr structs sigs G (EBin o a b) = TOk t ->
       (exists x, check_expr structs sigs G a = TOk (TInt x) /\ check_expr structs sigs G b = TOk (TInt x) /\ t = TInt x) \/
       (o = Add /\ check_expr structs sigs G a = TOk TStr /\ check_expr structs sigs G b = TOk TStr /\ t = TStr)) /\
    (o = Lt \/ o = Le \/ o = Gt \/ o = Ge -> check_expr structs sigs G (EBin o a b) = TOk t ->
       exists x, check_expr structs sigs G a = TOk (TInt x) /\ check_expr structs sigs G b = TOk (TInt x) /\ t = TBool) /\
    (o = Eq \/ o = Ne -> check_expr structs sigs G (EBin o a b) = TOk t ->
       t = TBool /\ exists ta, check_expr structs sigs G a = TOk ta /\ check_expr structs sigs G b = TOk ta /\
                               ((exists x, ta = TInt x) \/ ta = TBool \/ ta = TStr)).
Proof. intros. split; [apply rule_arith_operands|split; [apply rule_order_operands|apply rule_equality_operands]]. Qed.
Print Assumptions C03_rule_operands.

(* conditions and operands of logical operators are bool *)
Theorem C03_rule_bool :
  forall structs sigs,
    (forall ret inl G c a b G', check_stmt structs sigs ret inl G (SIf c a b) = TOk G' -> check_expr structs sigs G c = TOk TBool) /\
    (forall ret inl G c a G', check_stmt structs sigs ret inl G (SWhile c a) = TOk G' -> check_expr structs sigs G c = TOk TBool) /\
    (forall G o a b t, o = And \/ o = Or -> check_expr structs sigs G (EBin o a b) = TOk t ->
       check_expr structs sigs G a = TOk TBool /\ check_expr structs sigs G b = TOk TBool /\ t = TBool) /\
    (forall G a t, check_expr structs sigs G (EUn Not a) = TOk t -> check_expr structs sigs G a = TOk TBool /\ t = TBool).
Proof.
  intros structs sigs. refine (conj _ (conj _ (conj _ _))).
  - apply rule_condition_bool.
  - apply rule_loop_condition_bool.
  - intros; eapply rule_logical_operands; eauto.
  - intros; eapply rule_not_operand; eauto.
Qed.
Print Assumptions C03_rule_bool.

(* calls: the callee is a declared function, the argument count and every argument type match *)
Theorem C03_rule_call :
  forall structs sigs G f es t, check_expr structs sigs G (ECall f es) = TOk t ->
    exists pts, nth_error sigs f = Some (pts, t) /\ length es = length pts /\
                Forall2 (fun e pt => check_expr structs sigs G e = TOk pt) es pts.
Proof. exact rule_call. Qed.
Print Assumptions C03_rule_call.

(* calls with by-reference arguments: additionally, an argument is passed by reference exactly where the parameter is a mutable
   reference, such an argument is a variable, every argument has the type the parameter has inside the callee, and no variable
   is passed by reference twice in one call *)
Theorem C03_rule_call_by_reference :
  forall structs sigs G f args t, check_expr structs sigs G (ECallR f args) = TOk t ->
    exists pts, nth_error sigs f = Some (pts, t) /\ length args = length pts /\ distinct_refs args = true /\
                Forall2 (fun a pt => fst a = is_ref pt /\ (fst a = true -> exists x, snd a = EVar x) /\
                                     check_expr structs sigs G (snd a) = TOk (pty_in pt)) args pts.
Proof. exact rule_callr. Qed.
Print Assumptions C03_rule_call_by_reference.

(* names: used names are declared, a name is not declared twice in one scope; initialisers and assignments
   have exactly the declared type (no implicit narrowing); literals fit their type *)
Theorem C03_rule_names_and_assignment :
  forall structs sigs,
    (forall G x t, check_expr structs sigs G (EVar x) = TOk t -> tlookup x G = Some t) /\
    (forall ret inl G x t e G', check_stmt structs sigs ret inl G (SLet x t e) = TOk G' ->
       in_current x G = false /\ check_expr structs sigs G e = TOk t /\ t <> TVoid) /\
    (forall ret inl G x e G', check_stmt structs sigs ret inl G (SAssign x e) = TOk G' ->
       exists t, tlookup x G = Some t /\ check_expr structs sigs G e = TOk t) /\
    (forall G t v t', check_expr structs sigs G (ELit t v) = TOk t' -> in_range t v = true /\ t' = TInt t).
Proof.
  intros structs sigs. refine (conj _ (conj _ (conj _ _))).
  - apply rule_var_defined.
  - apply rule_let.
  - apply rule_assign.
  - apply rule_literal_range.
Qed.
Print Assumptions C03_rule_names_and_assignment.

(* returns: a value of exactly the declared type, and never a bare `return;` in a non-void function *)
Theorem C03_rule_return :
  forall structs sigs ret inl G G',
    (forall e, check_stmt structs sigs ret inl G (SReturn (Some e)) = TOk G' -> ret <> TVoid /\ check_expr structs sigs G e = TOk ret) /\
    (check_stmt structs sigs ret inl G (SReturn None) = TOk G' -> ret = TVoid).
Proof. intros. split; [intros e; apply rule_return_value|apply rule_return_missing_value]. Qed.
Print Assumptions C03_rule_return.

(* non-vacuity: a program with calls, loops and nested expressions that the checker accepts *)
Definition sample : prog :=
  [ {| fparams := [(1, TInt I32); (2, TInt I32)]; fret := TInt I32;
       fbody := SSeq (SIf (EBin Lt (EVar 1) (EVar 2)) (SReturn (Some (EVar 2))) SSkip) (SReturn (Some (EBin Add (EVar 1) (ELit I32 1%Z)))) |};
    {| fparams := []; fret := TVoid;
       fbody := SSeq (SLet 3 (TInt I32) (ECall 0 [ELit I32 2%Z; ELit I32 5%Z]))
                     (SWhile (EBin Lt (EVar 3) (ELit I32 9%Z)) (SSeq (SAssign 3 (EBin Add (EVar 3) (ELit I32 1%Z))) (SPrint [EVar 3]))) |} ].
Theorem C03_nonvacuous : check_prog [[I32; U8]] sample = TOk tt.
Proof. vm_compute. reflexivity. Qed.
Print Assumptions C03_nonvacuous.

(* ... and one with a by-reference call; passing the same variable twice by reference, or a by-value argument where the
   parameter is a reference, is rejected *)
Definition sample_ref (args : list (bool * expr)) : prog :=
  [ {| fparams := [(0, TMutRef 0); (1, TMutRef 0)]; fret := TVoid; fbody := SAssignField 0 0 (EField (EVar 1) 0) |};
    {| fparams := []; fret := TVoid;
       fbody := SSeq (SLet 1 (TStruct 0) (EStructLit 0 [ELit I32 1%Z; ELit U8 2%Z]))
               (SSeq (SLet 2 (TStruct 0) (EVar 1))
               (SSeq (SExpr (ECallR 0 args)) (SPrint [EField (EVar 1) 0]))) |} ].
Theorem C03_nonvacuous_by_reference :
  check_prog [[I32; U8]] (sample_ref [(true, EVar 1); (true, EVar 2)]) = TOk tt /\
  check_prog [[I32; U8]] (sample_ref [(true, EVar 1); (true, EVar 1)]) = TErr EArgType /\
  check_prog [[I32; U8]] (sample_ref [(true, EVar 1); (false, EVar 2)]) = TErr EArgType.
Proof. vm_compute. repeat split. Qed.
Print Assumptions C03_nonvacuous_by_reference.
