(* C06 — Immutable bindings cannot be modified.
   Model: Models/Mut.v, a port of ref.go + the guards of the mutation forms in typechecker.go, for the code repaired
   by fixes/C06-immutable-places.patch; tied to the working tree by harness/c06.py on every run. *)
From Coq Require Import List Bool Arith ZArith.
From FV Require Import Models.Mut Proofs.MutP.
Import ListNotations.

(* FULL STATEMENT.  Whatever the mutation form f (=, compound assignment, ++/--, &', passing to a &' parameter as
   f(&'p) or f(p), calling a &'-receiver method) would change when applied to the place p — the slot p designates,
   or the referent when p is itself a reference — if that target is frozen (it is a const / for index / catch
   variable, a field or an element of one at any depth, or it is reached through an immutable reference anywhere on
   the access path), the program is rejected.  Unbounded in the length of the path and in the scope. *)
Theorem C06_full :
  forall (E : env) (f : form) (p : place), TargetFrozen E f p -> allowed E f p = false.
Proof. exact full. Qed.
Print Assumptions C06_full.

(* the shape listed in the property text: an immutable root (const, index variable, catch variable, immutable
   reference parameter / receiver / local), any access path of fields, indexes and parens, every mutation form *)
Theorem C06_paths :
  forall (E : env) (p : place) (s : sym),
    E (root_of p) = Some s -> imm_root_sym s -> plain_path p = true -> forall f, allowed E f p = false.
Proof. exact paths. Qed.
Print Assumptions C06_paths.

Theorem C06_root_forms :
  forall (E : env) (x : nat) (s : sym),
    E x = Some s -> imm_root_sym s ->
    forall f, allowed E f (PIdent x) = false /\ allowed E f (PParen (PIdent x)) = false.
Proof. exact root_forms. Qed.
Print Assumptions C06_root_forms.

(* the index variable of a two-variable for loop (port of markForIteratorIndexReadOnly): the first of at least two
   iterator variables is read-only whatever the second one is — a name or the placeholder `_` — in every form *)
Theorem C06_for_index :
  forall (x : nat) (second : option nat) (rest : list (option nat)) (f : form),
    allowed (env_of (for_syms (Some x :: second :: rest))) f (PIdent x) = false /\
    allowed (env_of (for_syms (Some x :: second :: rest))) f (PParen (PIdent x)) = false.
Proof. exact for_index_forms. Qed.
Print Assumptions C06_for_index.

(* and the other iterator variables stay mutable: `for x in e`, `for _, x in e`, `for y, x in e` *)
Theorem C06_for_controls :
  forall x y : nat,
    env_of (for_syms [Some x]) x = Some (mkSym SVariable false RNone) /\
    env_of (for_syms [None; Some x]) x = Some (mkSym SVariable false RNone) /\
    (x <> y -> env_of (for_syms [Some y; Some x]) x = Some (mkSym SVariable false RNone)).
Proof. exact for_controls. Qed.
Print Assumptions C06_for_controls.

(* THE RULE AS A FUNCTION OVER THE ACCESS CHAIN.  For root symbol s and links l (value field, &T field, &'T field,
   fixed-array element, dynamic-array element; any length) the port rejects a write (=, compound assignment, ++/--)
   to  root.l1...ln  exactly when chain_error s l: an immutable reference lies anywhere on the path, or the root is a
   constant / read-only variable and no link before the written slot goes through a reference.  Holds for EVERY root
   kind: value receiver and by-value parameter included (they get no exemption from the immutable-reference test). *)
Theorem C06_chain_rule_exact :
  forall (E : env) (x : nat) (s : sym) (l : list link) (f : form),
    E x = Some s -> write_form f = true ->
    allowed E f (place_from (PIdent x) l) = negb (chain_error s l).
Proof. exact chain_exact. Qed.
Print Assumptions C06_chain_rule_exact.

(* ... and the rule agrees with the reference judgement: it fires iff the target is frozen, or the written
   expression lies in a read-only binding (a const holding a reference, where the compiler is stricter than needed) *)
Theorem C06_chain_rule_agrees :
  forall (E : env) (x : nat) (s : sym) (l : list link) (f : form),
    E x = Some s -> write_form f = true ->
    (chain_error s l = true <->
     TargetFrozen E f (place_from (PIdent x) l) \/ InReadonlyBinding E (place_from (PIdent x) l)).
Proof. exact chain_rule_agrees. Qed.
Print Assumptions C06_chain_rule_agrees.

(* a by-value root (value receiver, by-value parameter, let) whose field is an immutable reference: every write
   through that field is rejected, whatever follows *)
Theorem C06_value_root_imm_field :
  forall (E : env) (x : nat) (k : skind) (l : list link) (f : form),
    E x = Some (mkSym k false RNone) -> write_form f = true ->
    allowed E f (place_from (PIdent x) (LImm :: l)) = false.
Proof. exact value_root_imm_field_rejected. Qed.
Print Assumptions C06_value_root_imm_field.

(* no over-rejection: a target that is not frozen passes the mutability checks in every applicable form *)
Theorem C06_mutable_accepted :
  forall (E : env) (f : form) (p : place),
    ~ SlotFrozen E p -> ~ ReferentFrozen E p -> form_applicable E f p = true -> allowed E f p = true.
Proof. exact mutable_accepted. Qed.
Print Assumptions C06_mutable_accepted.

(* the chain walk of checkMutability is exact for the storage of read-only bindings *)
Theorem C06_root_walk_exact :
  forall (E : env) (p : place),
    InReadonlyBinding E p <-> exists s, find_readonly_root E p = Some s.
Proof. exact root_walk_exact. Qed.
Print Assumptions C06_root_walk_exact.

(* non-vacuity: in a concrete scope (const struct, &S parameter, let, for index, catch variable, &'S parameter,
   const holding &'S) frozen targets exist at depth 3, are rejected in all forms, and the mutable controls pass *)
Theorem C06_nonvacuous :
  TargetFrozen E0 FAssign (deep 0) /\ TargetFrozen E0 FCallMut (deep 1) /\
  TargetFrozen E0 FIncDec (PParen (PIdent 3)) /\ TargetFrozen E0 FBorrowMut (PField (PIdent 4) RNone) /\
  forallb (fun f => negb (allowed E0 f (deep 0)) && negb (allowed E0 f (deep 1))) all_forms = true /\
  forallb (fun f => allowed E0 f (deep 2) || match f with FPassRef => true | _ => false end) all_forms = true /\
  allowed E0 FPassRef (PIdent 5) = true /\ allowed E0 FAssign (PField (PIdent 5) RNone) = true /\
  allowed E0 FAssign (PField (PIdent 6) RNone) = true /\ allowed E0 FAssign (PIdent 6) = false.
Proof. exact nonvacuous. Qed.
Print Assumptions C06_nonvacuous.

(* the code before the repair (identifier-only constant test, no guard on &'-receiver calls, no immutable-reference
   test for &') violates the full statement: `const c: S; c.N = 1`, `c.A[0]++`, `c.bump()`, `r.bump()` and
   `set(&'r.N)` with r: &S, `catch e { e.N = 1 }` *)
Theorem C06_unpatched_refuted :
  (TargetFrozen E0 FAssign (PField (PIdent 0) RNone) /\ old_allowed E0 FAssign (PField (PIdent 0) RNone) = true) /\
  (TargetFrozen E0 FIncDec (PIndex (PIdent 0) IFixed RNone) /\ old_allowed E0 FIncDec (PIndex (PIdent 0) IFixed RNone) = true) /\
  (TargetFrozen E0 FCallMut (PIdent 0) /\ old_allowed E0 FCallMut (PIdent 0) = true) /\
  (TargetFrozen E0 FCallMut (PIdent 1) /\ old_allowed E0 FCallMut (PIdent 1) = true) /\
  (TargetFrozen E0 FPassBorrow (PField (PIdent 1) RNone) /\ old_allowed E0 FPassBorrow (PField (PIdent 1) RNone) = true) /\
  (TargetFrozen E0 FAssign (PField (PIdent 4) RNone) /\ old_allowed E0 FAssign (PField (PIdent 4) RNone) = true).
Proof. exact unpatched_refuted. Qed.
Print Assumptions C06_unpatched_refuted.
