(* C14 — compilation is deterministic under every schedule (temporary: witnesses only) *)
From Coq Require Import List Arith Bool ZArith Permutation.
From FV Require Import Models.Sched Proofs.SchedWit.
Import ListNotations.

Theorem C14_cycle_site_refuted :
  exists P roots s1 s2, complete (run false P roots s1) = true /\ complete (run false P roots s2) = true /\
    sorted_diags (run false P roots s1) <> sorted_diags (run false P roots s2).
Proof. exact cycle_site_refuted. Qed.
Print Assumptions C14_cycle_site_refuted.
