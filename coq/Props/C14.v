(* C14 — compilation is deterministic under every schedule.
   Closed statements about the port Models/Sched.v.  The positive theorems quantify over ALL schedules /
   ALL Go map iteration orders; the `_refuted` theorems are witnesses where the faithful model of the code
   is schedule dependent (open findings F-C14-CYCLE-SITE etc.), the C14_prefix theorems are about the code before the two
   fix patches (the two patches under fixes) and justify them.  Partial: the back ends and the sequential phases after
   parsing are not modelled; `C14_full` is the whole-model statement and `C14_full_refuted` shows that the
   current code does not satisfy it (diagnostics). *)
From Coq Require Import List Arith Bool ZArith Permutation.
From FV Require Import Models.Sched Proofs.SchedSort Proofs.SchedNames Proofs.SchedTopo Proofs.SchedWit.
Import ListNotations.

(* the full statement over the model: every observable of two complete runs agrees *)
Definition C14_full : Prop :=
  forall P roots s1 s2,
    complete (run false P roots s1) = true -> complete (run false P roots s2) = true ->
    exit_status (run false P roots s1) = exit_status (run false P roots s2) /\
    sorted_diags (run false P roots s1) = sorted_diags (run false P roots s2) /\
    (forall m, names_of (run false P roots s1) m = names_of (run false P roots s2) m).

(* ---- literal names (repaired numbering: one LitCounters per Parser) *)
Theorem C14_lit_names_local : forall P roots sched m,
  finished (run false P roots sched) m = true ->
  names_of (run false P roots sched) m = local_names ctr0 (events_of P m None).
Proof. exact lit_names_local. Qed.
Print Assumptions C14_lit_names_local.

Theorem C14_lit_names_sched_indep : forall P roots s1 s2 m,
  finished (run false P roots s1) m = true -> finished (run false P roots s2) m = true ->
  names_of (run false P roots s1) m = names_of (run false P roots s2) m.
Proof. exact lit_names_sched_indep. Qed.
Print Assumptions C14_lit_names_sched_indep.

Theorem C14_lit_names_nonvacuous :
  finished (run false P_lits [3] s_ab) 1 = true /\ finished (run false P_lits [3] s_ba) 1 = true /\
  names_of (run false P_lits [3] s_ab) 1 = [(KFn, 1)] /\ names_of (run false P_lits [3] s_ab) 2 = [(KFn, 1)] /\
  s_names (run false P_lits [3] s_ab) <> s_names (run false P_lits [3] s_ba).
Proof. exact names_nonvacuous. Qed.
Print Assumptions C14_lit_names_nonvacuous.

(* ---- diagnostics: the emitted order depends only on the per-key subsequences of the bag, hence not on the
        interleaving as long as diagnostics with equal (nil, file, line) key keep their relative order
        (e.g. because they come from one goroutine) *)
Theorem C14_diag_sort_indep : forall b1 b2,
  (forall k, filter (equiv diag_less k) b1 = filter (equiv diag_less k) b2) -> sort_diags b1 = sort_diags b2.
Proof. exact sort_diags_by_key. Qed.
Print Assumptions C14_diag_sort_indep.

Theorem C14_diag_sort_nonvacuous :
  [dA; dB] <> [dB; dA] /\
  (forall k, filter (equiv diag_less k) [dA; dB] = filter (equiv diag_less k) [dB; dA]).
Proof. exact diag_sort_nonvacuous. Qed.
Print Assumptions C14_diag_sort_nonvacuous.

(* ---- module order: independent of the enumeration order of ctx.Modules and of every enumeration of ctx.DepGraph *)
Theorem C14_topo_perm_indep : forall g mo1 mo2 iter1 iter2,
  NoDup (map fst g) -> Permutation mo1 mo2 ->
  (forall i, Permutation g (iter1 i)) -> (forall i, Permutation g (iter2 i)) ->
  topo g mo1 iter1 = topo g mo2 iter2.
Proof. exact topo_perm_indep. Qed.
Print Assumptions C14_topo_perm_indep.

Theorem C14_topo_nonvacuous :
  NoDup (map fst g_dia) /\ Permutation g_dia (rev g_dia) /\
  topo g_dia [0; 1; 2; 3] (fun _ => g_dia) = [0; 1; 2; 3] /\
  topo g_dia [3; 1; 0; 2] (fun k => if Nat.even k then rev g_dia else g_dia) = [0; 1; 2; 3].
Proof. exact topo_nonvacuous. Qed.
Print Assumptions C14_topo_nonvacuous.

(* ---- emitTypeIDs (repaired): independent of the enumeration order of mir.Module.TypeIDs *)
Theorem C14_typeids_perm_indep : forall m1 m2, NoDup (map fst m1) -> Permutation m1 m2 ->
  emit_typeids m1 = emit_typeids m2.
Proof. exact emit_typeids_perm. Qed.
Print Assumptions C14_typeids_perm_indep.

Theorem C14_typeids_nonvacuous :
  NoDup (map fst m_tid) /\ Permutation m_tid (rev m_tid) /\ m_tid <> rev m_tid /\
  map fst (emit_typeids m_tid) = [[95; 49]; [95; 49; 48]; [95; 50]].
Proof. exact typeids_nonvacuous. Qed.
Print Assumptions C14_typeids_nonvacuous.

(* ---- where the current code is schedule dependent (open findings; replayed on the real compiler) *)
Theorem C14_cycle_site_refuted :
  exists P roots s1 s2, complete (run false P roots s1) = true /\ complete (run false P roots s2) = true /\
    sorted_diags (run false P roots s1) <> sorted_diags (run false P roots s2).
Proof. exact cycle_site_refuted. Qed.
Print Assumptions C14_cycle_site_refuted.

Theorem C14_missing_site_refuted :
  exists P roots s1 s2, complete (run false P roots s1) = true /\ complete (run false P roots s2) = true /\
    sorted_diags (run false P roots s1) <> sorted_diags (run false P roots s2).
Proof. exact missing_site_refuted. Qed.
Print Assumptions C14_missing_site_refuted.

Theorem C14_same_line_diag_refuted :
  exists P roots s1 s2, complete (run false P roots s1) = true /\ complete (run false P roots s2) = true /\
    sorted_diags (run false P roots s1) <> sorted_diags (run false P roots s2).
Proof. exact same_line_diag_refuted. Qed.
Print Assumptions C14_same_line_diag_refuted.

Theorem C14_full_refuted : ~ C14_full.
Proof.
  intros H. destruct cycle_site_refuted as (P & roots & s1 & s2 & H1 & H2 & Hne).
  apply Hne. exact (proj1 (proj2 (H P roots s1 s2 H1 H2))).
Qed.
Print Assumptions C14_full_refuted.

(* ---- the code before the fix patches *)
Theorem C14_prefix_global_names_refuted :
  exists P roots s1 s2, complete (run true P roots s1) = true /\ complete (run true P roots s2) = true /\
    exists m, names_of (run true P roots s1) m <> names_of (run true P roots s2) m.
Proof. exact prefix_global_names_refuted. Qed.
Print Assumptions C14_prefix_global_names_refuted.

Theorem C14_prefix_typeids_refuted :
  exists (m1 m2 : tidmap), Permutation m1 m2 /\ emit_typeids_prefix m1 <> emit_typeids_prefix m2.
Proof. exact prefix_typeids_refuted. Qed.
Print Assumptions C14_prefix_typeids_refuted.
