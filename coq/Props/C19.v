(* C19 — layout of the source text does not change meaning; diagnostics follow the text.
   Models: Models/Trivia.v (Position.Advance, the lexer's pattern table and main loop), Models/DocComment.v (the parser's
   comment handling, hasExternTag).  Only closed statements; every one is followed by Print Assumptions. *)
From Coq Require Import ZArith List Bool.
From FV Require Import Models.Trivia Models.DocComment Proofs.TriviaP.
Import ListNotations.
Open Scope Z_scope.

(* ---- (1) positions.  Position.Advance commutes with the shift of the gap, for every byte string (valid UTF-8 or
   not, with or without tabs): same line as the gap -> line and column move, later lines -> only the line moves. *)
Theorem C19_advance_shift : forall L dl dc di p s,
  L <= line p -> advance (shiftp L dl dc di p) s = shiftp L dl dc di (advance p s).
Proof. exact advance_shift. Qed.
Print Assumptions C19_advance_shift.

(* Whatever moved the lexer's cursor at the gap from P to P', every token and every unrecognised-character diagnostic of
   the rest of the text (any text: accepted or rejected program) is the old one with its start and end moved by
   gap_shift P P' — so the expected line:column of every later diagnostic is computable. *)
Theorem C19_positions_shift : forall fuel P P' post,
  lex_loop fuel P' post = map (gap_shift_tok P P') (lex_loop fuel P post) /\
  bad_loop fuel P' post = map (gap_shift P P') (bad_loop fuel P post).
Proof. intros; split; [apply positions_shift | apply bad_positions_shift]. Qed.
Print Assumptions C19_positions_shift.

Theorem C19_shift_reading : forall P P' p,
  (line p = line P -> line (gap_shift P P' p) = line P' /\ col (gap_shift P P' p) = col P' + (col p - col P)) /\
  (line p <> line P -> line (gap_shift P P' p) = line p + (line P' - line P) /\ col (gap_shift P P' p) = col p).
Proof. intros; split; [apply gap_shift_same_line | apply gap_shift_later_line]. Qed.
Print Assumptions C19_shift_reading.

(* Full statement for inserted whitespace (spaces, tabs, newlines, CR, FF) in front of a token or at end of file:
   the run is consumed by one match, and the rest is shifted by what advance computes over the run. *)
Theorem C19_ws_insert_shift : forall fuel P t post, t <> [] -> all_ws t -> starts_non_ws post ->
  lex_loop (S fuel) P (t ++ post) = map (gap_shift_tok P (advance P t)) (lex_loop fuel P post) /\
  bad_loop (S fuel) P (t ++ post) = map (gap_shift P (advance P t)) (bad_loop fuel P post).
Proof. exact ws_insert_shift. Qed.
Print Assumptions C19_ws_insert_shift.

Theorem C19_ws_insert_nonvacuous :
  let P := mkpos 3 7 40 in let t := [32; 13; 10; 9; 9] in let post := [98; 59] in
  all_ws t /\ starts_non_ws post /\ advance P t = mkpos 4 9 45 /\
  map (fun x => (line (tstart x), col (tstart x))) (lex_loop 4 P (t ++ post)) = [(4, 9); (4, 10); (4, 11)].
Proof. exact ws_insert_example. Qed.
Print Assumptions C19_ws_insert_nonvacuous.

(* ---- (2) token sequence.  Boundary lemmas of the ported recognisers: a match that ends at a token boundary is
   unchanged when the following text is replaced by text starting with a trivia byte c (whitespace or `/`).
   Proved: identifiers/keywords, string literals, block comments, the whole operator table.  NOT proved: numbers and
   byte literals (bounded look-ahead), and the composition through the ordered table (an earlier pattern must still
   fail): these are covered by the differential tie only.  Hence _partial; the full statement is C19_tokens_invariant_full. *)
Theorem C19_tokens_boundary_partial :
  (forall m r c r', m <> [] -> m_ident (m ++ r) = length m -> is_alnum_ c = false -> m_ident (m ++ c :: r') = length m) /\
  (forall m r r', m <> [] -> m_string (m ++ r) = length m -> m_string (m ++ r') = length m) /\
  (forall m r r', m_block (m ++ r) = length m -> (0 < length m)%nat -> m_block (m ++ r') = length m) /\
  (forall m r c r', m <> [] -> trivia_start c = true -> m_op (m ++ r) = length m -> m_op (m ++ c :: r') = length m).
Proof.
  exact (conj m_ident_boundary (conj m_string_boundary (conj m_block_boundary m_op_boundary))).
Qed.
Print Assumptions C19_tokens_boundary_partial.

Definition C19_tokens_invariant_full : Prop :=
  forall s g t, is_gap s g = true -> inserted_is_trivia s g t = true -> lex_bad s = [] ->
    map (fun x => (tcls x, traw x)) (significant (lex (insert_at s g t))) =
    map (fun x => (tcls x, traw x)) (significant (lex s)).

(* the two side conditions of the full statement are necessary *)
Theorem C19_slash_fuse_refuted : exists s g t,
  is_gap s g = true /\ lex_bad s = [] /\ inserted_is_trivia s g t = false /\
  map traw (significant (lex (insert_at s g t))) <> map traw (significant (lex s)).
Proof. exact slash_fuse_refuted. Qed.
Print Assumptions C19_slash_fuse_refuted.

Theorem C19_lone_quote_refuted : exists s g t,
  is_gap s g = true /\ lex_bad s <> [] /\
  map traw (significant (lex (insert_at s g t))) <> map traw (significant (lex s)).
Proof. exact lone_quote_refuted. Qed.
Print Assumptions C19_lone_quote_refuted.

(* ---- the column does NOT always move with the inserted text (open finding F-C19-TAB-QUIRK):
   in `a TAB b` one space inserted directly in front of b moves no token. *)
Theorem C19_column_follows_text_refuted : exists s g t,
  t = [32] /\ is_gap s g = true /\
  map (fun x => (tcls x, line (tstart x), col (tstart x))) (lex (insert_at s g t)) =
  map (fun x => (tcls x, line (tstart x), col (tstart x))) (lex s).
Proof. exact column_follows_text_refuted. Qed.
Print Assumptions C19_column_follows_text_refuted.

(* ---- (3) documentation comments are not inert (open finding F-C19-EXTERN-DOC): a comment inserted above a fn sets its
   extern flag although the significant tokens are unchanged; a blank line inserted below such a comment clears it. *)
Theorem C19_doc_inert_refuted :
  (exists s t, doc_flags s [0] = [false] /\ doc_flags (insert_at s 0 t) [Z.of_nat (length t)] = [true] /\
               map traw (significant (lex (insert_at s 0 t))) = map traw (significant (lex s))) /\
  (exists s g, doc_flags s [Z.of_nat g] = [true] /\ doc_flags (insert_at s g [10]) [Z.of_nat g + 1] = [false]).
Proof. exact doc_inert_refuted. Qed.
Print Assumptions C19_doc_inert_refuted.

(* ---- (2') token boundaries, continued (Models/TriviaNum.v, Proofs/TriviaNumP.v).  This closes the two recognisers that
   C19_tokens_boundary_partial leaves out and the composition through the ordered table for ONE token; what is still
   not proved is the induction over the whole token sequence of the text in front of the gap
   (C19_tokens_invariant_full stays a Definition). *)
From FV Require Import Models.TriviaNum Proofs.TriviaNumP.

(* Numbers (NumberPattern: optional minus, 0x/0o/0b with `_` groups, decimal with `_` groups, fraction, exponent):
   a match that ends at the boundary of m is the same on m ++ r' for every r' that is empty or starts with a num_stop
   byte: not a hex digit, `_`, `.`, x, X, o, O, `+`, `-`.  Whitespace and `/` are num_stop bytes. *)
Theorem C19_number_boundary : forall m r r',
  m_number (m ++ r) = length m -> num_follow r' -> m_number (m ++ r') = length m.
Proof. exact m_number_boundary. Qed.
Print Assumptions C19_number_boundary.

Theorem C19_number_boundary_trivia :
  (forall c, trivia_start c = true -> num_stop c = true) /\
  (forall r, starts_trivia r = true -> num_follow r) /\
  (forall m r c r', trivia_start c = true -> m_number (m ++ r) = length m -> m_number (m ++ c :: r') = length m).
Proof. exact (conj trivia_start_num_stop (conj starts_trivia_num_follow m_number_boundary_trivia)). Qed.
Print Assumptions C19_number_boundary_trivia.

(* Every spelling, complete or with a malformed tail (0x, 1e, 1e+, 1_, 1.): the match on m followed by trivia does not
   depend on the trivia, equals the match on m alone, and lies inside m. *)
Theorem C19_number_trivia_indep : forall m r r', num_follow r -> num_follow r' ->
  m_number (m ++ r) = m_number (m ++ r') /\ m_number (m ++ r) = m_number m /\ (m_number m <= length m)%nat.
Proof. exact m_number_trivia_indep. Qed.
Print Assumptions C19_number_trivia_indep.

(* a recogniser that stays inside m (in particular: fails) on m ++ r does the same on m ++ r' *)
Theorem C19_number_inside : forall m r r', (m_number (m ++ r) <= length m)%nat -> num_follow r' ->
  m_number (m ++ r') = m_number (m ++ r).
Proof. exact m_number_U. Qed.
Print Assumptions C19_number_inside.

Theorem C19_number_boundary_nonvacuous :
  let tok := [48; 120; 49; 95; 102] in let bad := [49; 101] in
  m_number (tok ++ [43; 49]) = length tok /\ num_follow [47; 42; 32; 42; 47] /\ num_follow [9] /\
  m_number (tok ++ [47; 42; 32; 42; 47]) = 5%nat /\
  m_number (bad ++ [32; 53]) = 1%nat /\ m_number (bad ++ [53]) = 3%nat.
Proof. exact number_boundary_example. Qed.
Print Assumptions C19_number_boundary_nonvacuous.

(* Byte literals: unchanged for every following text that is empty or does not start with a quote; the restriction
   is necessary (quote backslash quote is a complete literal, followed by a quote it is a longer one). *)
Theorem C19_byte_boundary : forall m r r', m <> [] ->
  m_byte (m ++ r) = length m -> byte_follow r' -> m_byte (m ++ r') = length m.
Proof. exact m_byte_boundary. Qed.
Print Assumptions C19_byte_boundary.

Theorem C19_byte_boundary_trivia : forall m r c r', m <> [] -> trivia_start c = true ->
  m_byte (m ++ r) = length m -> m_byte (m ++ c :: r') = length m.
Proof. exact m_byte_boundary_trivia. Qed.
Print Assumptions C19_byte_boundary_trivia.

Theorem C19_byte_follow_necessary :
  let m := [39; 92; 39] in
  m_byte (m ++ [120]) = length m /\ m_byte (m ++ [39]) <> length m /\ m_byte (m ++ [32; 39]) = length m.
Proof. exact byte_follow_necessary. Qed.
Print Assumptions C19_byte_follow_necessary.

(* Composition through the ordered table (step = first pattern of lexer.New's table that matches at offset 0): for a
   significant token m of ANY kind (string, byte literal, number, identifier/keyword, operator/punctuation), if the
   table yields m on m ++ r (any r), it yields the same class and length on m ++ r' whenever r' is empty, starts with
   whitespace, or starts with `/` and m is not the operator `/` itself.  Comment tokens are excluded: a line comment
   followed by a space is a longer line comment (trivia, not a significant token). *)
Theorem C19_token_boundary_all_kinds : forall m r r' k,
  m <> [] -> significant_cls k -> step (m ++ r) = (Tok k, length m) -> trivia_follows m r' ->
  step (m ++ r') = (Tok k, length m).
Proof. exact token_boundary_all_kinds. Qed.
Print Assumptions C19_token_boundary_all_kinds.

(* the same with the inserted text characterised as trivia: it starts with whitespace, `//` or `/` `*`;
   directly after the operator `/` only whitespace *)
Theorem C19_token_boundary_trivia : forall m r t k,
  m <> [] -> significant_cls k -> step (m ++ r) = (Tok k, length m) -> starts_trivia t = true ->
  (m <> [47] \/ is_ws (hd 0 t) = true) ->
  step (m ++ t) = (Tok k, length m).
Proof. exact token_boundary_trivia. Qed.
Print Assumptions C19_token_boundary_trivia.

(* Token sequence at one gap: whitespace t inserted between an ASCII token m and the rest post.  Both texts yield the
   token m at P; the reformatted text continues with the tokens and bad-character diagnostics of post moved by the
   shift of the gap, the original text with those of post unmoved. *)
Theorem C19_ws_after_token_sequence : forall fuel P m post t k,
  m <> [] -> significant_cls k -> ascii_bytes m -> step (m ++ post) = (Tok k, length m) ->
  t <> [] -> all_ws t -> starts_non_ws post ->
  let Q := advance P m in
  lex_loop (S (S fuel)) P (m ++ t ++ post) =
    mktok k P Q m :: map (gap_shift_tok Q (advance Q t)) (lex_loop fuel Q post) /\
  lex_loop (S fuel) P (m ++ post) = mktok k P Q m :: lex_loop fuel Q post /\
  bad_loop (S (S fuel)) P (m ++ t ++ post) = map (gap_shift Q (advance Q t)) (bad_loop fuel Q post) /\
  bad_loop (S fuel) P (m ++ post) = bad_loop fuel Q post.
Proof. exact ws_after_token_sequence. Qed.
Print Assumptions C19_ws_after_token_sequence.

Theorem C19_all_kinds_nonvacuous :
  step ([34; 97; 34] ++ [59]) = (Tok K_STRING, 3%nat) /\
  step ([39; 92; 110; 39] ++ [59]) = (Tok K_BYTE, 4%nat) /\
  step ([49; 46; 53; 101; 45; 51] ++ [43; 49]) = (Tok K_NUMBER, 6%nat) /\
  step ([120; 49] ++ [40]) = (Tok K_IDENT, 2%nat) /\
  step ([60; 61] ++ [45; 49]) = (Tok K_OP, 2%nat) /\
  step ([47] ++ [49]) = (Tok K_OP, 1%nat) /\
  trivia_follows [49; 46; 53; 101; 45; 51] [47; 42; 42; 47; 43; 49] /\
  step ([49; 46; 53; 101; 45; 51] ++ [47; 42; 42; 47; 43; 49]) = (Tok K_NUMBER, 6%nat) /\
  ~ trivia_follows [47] [47; 42; 42; 47; 49] /\
  step ([47] ++ [47; 42; 42; 47; 49]) = (Tok K_COMMENT, 6%nat).
Proof. exact all_kinds_example. Qed.
Print Assumptions C19_all_kinds_nonvacuous.
