From Coq Require Import ZArith List.
From FV Require Import Models.Trivia Models.DocComment.
Theorem C19_stub : advance pos0 nil = pos0.
Proof. reflexivity. Qed.
Print Assumptions C19_stub.
