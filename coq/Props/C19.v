(* C19 — layout of the source text does not change meaning; diagnostics follow the text.
   Models: Models/Trivia.v (Position.Advance, the lexer's pattern table and main loop), Models/DocComment.v (the parser's
   comment handling, hasExternTag).  Only closed statements; every one is followed by Print Assumptions. *)
From Coq Require Import ZArith List Bool.
From FV Require Import Models.Trivia Models.DocComment Proofs.TriviaP.
Import ListNotations.
Open Scope Z_scope.

(* ---- (1) positions.  Position.Advance commutes with the shift of the gap, for every byte string (valid UTF-8 or
   not, with or without tabs): same line as the gap -> line and column move, later lines -> only the line moves. *)
Theorem C19_advance_shift : forall L dl dc di p s,
  L <= line p -> advance (shiftp L dl dc di p) s = shiftp L dl dc di (advance p s).
Proof. exact advance_shift. Qed.
Print Assumptions C19_advance_shift.

(* Whatever moved the lexer's cursor at the gap from P to P', every token and every unrecognised-character diagnostic of
   the rest of the text (any text: accepted or rejected program) is the old one with its start and end moved by
   gap_shift P P' — so the expected line:column of every later diagnostic is computable. *)
Theorem C19_positions_shift : forall fuel P P' post,
  lex_loop fuel P' post = map (gap_shift_tok P P') (lex_loop fuel P post) /\
  bad_loop fuel P' post = map (gap_shift P P') (bad_loop fuel P post).
Proof. intros; split; [apply positions_shift | apply bad_positions_shift]. Qed.
Print Assumptions C19_positions_shift.

Theorem C19_shift_reading : forall P P' p,
  (line p = line P -> line (gap_shift P P' p) = line P' /\ col (gap_shift P P' p) = col P' + (col p - col P)) /\
  (line p <> line P -> line (gap_shift P P' p) = line p + (line P' - line P) /\ col (gap_shift P P' p) = col p).
Proof. intros; split; [apply gap_shift_same_line | apply gap_shift_later_line]. Qed.
Print Assumptions C19_shift_reading.

(* Full statement for inserted whitespace (spaces, tabs, newlines, CR, FF) in front of a token or at end of file:
   the run is consumed by one match, and the rest is shifted by what advance computes over the run. *)
Theorem C19_ws_insert_shift : forall fuel P t post, t <> [] -> all_ws t -> starts_non_ws post ->
  lex_loop (S fuel) P (t ++ post) = map (gap_shift_tok P (advance P t)) (lex_loop fuel P post) /\
  bad_loop (S fuel) P (t ++ post) = map (gap_shift P (advance P t)) (bad_loop fuel P post).
Proof. exact ws_insert_shift. Qed.
Print Assumptions C19_ws_insert_shift.

Theorem C19_ws_insert_nonvacuous :
  let P := mkpos 3 7 40 in let t := [32; 13; 10; 9; 9] in let post := [98; 59] in
  all_ws t /\ starts_non_ws post /\ advance P t = mkpos 4 9 45 /\
  map (fun x => (line (tstart x), col (tstart x))) (lex_loop 4 P (t ++ post)) = [(4, 9); (4, 10); (4, 11)].
Proof. exact ws_insert_example. Qed.
Print Assumptions C19_ws_insert_nonvacuous.

(* ---- (2) token sequence.  Boundary lemmas of the ported recognisers: a match that ends at a token boundary is
   unchanged when the following text is replaced by text starting with a trivia byte c (whitespace or `/`).
   Proved: identifiers/keywords, string literals, block comments, the whole operator table.  NOT proved: numbers and
   byte literals (bounded look-ahead), and the composition through the ordered table (an earlier pattern must still
   fail): these are covered by the differential tie only.  Hence _partial; the full statement is C19_tokens_invariant_full. *)
Theorem C19_tokens_boundary_partial :
  (forall m r c r', m <> [] -> m_ident (m ++ r) = length m -> is_alnum_ c = false -> m_ident (m ++ c :: r') = length m) /\
  (forall m r r', m <> [] -> m_string (m ++ r) = length m -> m_string (m ++ r') = length m) /\
  (forall m r r', m_block (m ++ r) = length m -> (0 < length m)%nat -> m_block (m ++ r') = length m) /\
  (forall m r c r', m <> [] -> trivia_start c = true -> m_op (m ++ r) = length m -> m_op (m ++ c :: r') = length m).
Proof.
  exact (conj m_ident_boundary (conj m_string_boundary (conj m_block_boundary m_op_boundary))).
Qed.
Print Assumptions C19_tokens_boundary_partial.

Definition C19_tokens_invariant_full : Prop :=
  forall s g t, is_gap s g = true -> inserted_is_trivia s g t = true -> lex_bad s = [] ->
    map (fun x => (tcls x, traw x)) (significant (lex (insert_at s g t))) =
    map (fun x => (tcls x, traw x)) (significant (lex s)).

(* the two side conditions of the full statement are necessary *)
Theorem C19_slash_fuse_refuted : exists s g t,
  is_gap s g = true /\ lex_bad s = [] /\ inserted_is_trivia s g t = false /\
  map traw (significant (lex (insert_at s g t))) <> map traw (significant (lex s)).
Proof. exact slash_fuse_refuted. Qed.
Print Assumptions C19_slash_fuse_refuted.

Theorem C19_lone_quote_refuted : exists s g t,
  is_gap s g = true /\ lex_bad s <> [] /\
  map traw (significant (lex (insert_at s g t))) <> map traw (significant (lex s)).
Proof. exact lone_quote_refuted. Qed.
Print Assumptions C19_lone_quote_refuted.

(* ---- the column does NOT always move with the inserted text (open finding F-C19-TAB-QUIRK):
   in `a TAB b` one space inserted directly in front of b moves no token. *)
Theorem C19_column_follows_text_refuted : exists s g t,
  t = [32] /\ is_gap s g = true /\
  map (fun x => (tcls x, line (tstart x), col (tstart x))) (lex (insert_at s g t)) =
  map (fun x => (tcls x, line (tstart x), col (tstart x))) (lex s).
Proof. exact column_follows_text_refuted. Qed.
Print Assumptions C19_column_follows_text_refuted.

(* ---- (3) documentation comments are not inert (open finding F-C19-EXTERN-DOC): a comment inserted above a fn sets its
   extern flag although the significant tokens are unchanged; a blank line inserted below such a comment clears it. *)
Theorem C19_doc_inert_refuted :
  (exists s t, doc_flags s [0] = [false] /\ doc_flags (insert_at s 0 t) [Z.of_nat (length t)] = [true] /\
               map traw (significant (lex (insert_at s 0 t))) = map traw (significant (lex s))) /\
  (exists s g, doc_flags s [Z.of_nat g] = [true] /\ doc_flags (insert_at s g [10]) [Z.of_nat g + 1] = [false]).
Proof. exact doc_inert_refuted. Qed.
Print Assumptions C19_doc_inert_refuted.
