(* C04 — Fixed-size array accesses are in bounds and hit the indexed element.

   Model: Models/ConstIdx.v (port of the consteval walk + checkArrayBounds, of constArrayIndex/lowerIndexAddr as
   repaired by fixes/C04-fixed-array-index.patch, and of emitBoundsCheckedIndex; ArrLang programs).
   ssem = source semantics: every read/write touches element  norm N v  where v is the value the index expression
   has at that moment, and the program panics iff v is outside [-N, N)   (sres / checked, characterised below).
   csem = what the compiled program does.   accepted p = the compile-time walk reports neither T0009 nor T0028. *)
From Coq Require Import ZArith List Bool.
From FV Require Import Models.ConstIdx Proofs.ConstIdxP.
Import ListNotations.
Open Scope Z_scope.

(* the full statement: for every accepted program and every execution prefix (fuel), the compiled program performs
   exactly the accesses, prints and panic of the source semantics *)
Theorem C04_full :
  forall p, small_arrs (p_arrs p) -> accepted p -> forall fuel, csem fuel p = ssem fuel p.
Proof. exact csem_eq_ssem. Qed.
Print Assumptions C04_full.

(* ... and never touches an element outside the array *)
Theorem C04_in_bounds :
  forall p, small_arrs (p_arrs p) -> accepted p ->
  forall fuel t r, csem fuel p = (t, r) -> Forall (ev_ok (lens_of (p_arrs p))) t.
Proof. exact csem_in_bounds. Qed.
Print Assumptions C04_in_bounds.

(* what the source semantics selects: exactly the element named by the run-time value, negative from the end *)
Theorem C04_selected_element :
  forall n v k, checked n v = Some k <-> (- n <= v < n /\ k = norm n v).
Proof. exact checked_spec. Qed.
Print Assumptions C04_selected_element.

(* ... and a panic exactly when the value is outside [-N, N) *)
Theorem C04_panic_iff_outside :
  forall n v, checked n v = None <-> ~ (- n <= v < n).
Proof. exact checked_none. Qed.
Print Assumptions C04_panic_iff_outside.

(* emitBoundsCheckedIndex (i32) is that check *)
Theorem C04_runtime_check_exact :
  forall n v, 0 <= n < 2147483648 -> in_i32 v -> bci n v = checked n v.
Proof. exact bci_checked. Qed.
Print Assumptions C04_runtime_check_exact.

(* a literal index outside [-N, N) is rejected at compile time (T0009), whatever the analysis table holds *)
Theorem C04_literal_out_of_range_rejected :
  forall c n i v,
  is_lit i = true -> ceval cempty i = Some v -> - 9223372036854775808 <= v < 9223372036854775808 ->
  0 <= n -> ~ (- n <= v < n) -> check_bounds c n i = [DOutOfBounds].
Proof. exact literal_oob_rejected. Qed.
Print Assumptions C04_literal_out_of_range_rejected.

(* the code before the repair (reads resolved with Symbol.ConstValue as left by the whole walk) violates the
   property: witness  let i := 0; Println(a[i]); i = 2; Println(a[i]);  prints a[2] twice *)
Theorem C04_stale_const_index_refuted :
  exists p, small_arrs (p_arrs p) /\ accepted p /\ exists fuel, csem_stale fuel p <> ssem fuel p.
Proof. exact stale_refuted. Qed.
Print Assumptions C04_stale_const_index_refuted.

(* non-vacuity: accepted programs with a loop-carried index that walks off the end (three accesses, then the
   panic) and with negative literal / variable indices on writes *)
Theorem C04_nonvacuous :
  accepted w_loop /\ small_arrs (p_arrs w_loop) /\
  csem 50 w_loop = ([EvRd 0 0; EvOut 10; EvRd 0 1; EvOut 20; EvRd 0 2; EvOut 30], Panicked) /\
  accepted w_neg /\
  csem 50 w_neg = ([EvWr 0 2 7; EvRd 0 0; EvWr 0 0 11], Done).
Proof. exact nonvacuous. Qed.
Print Assumptions C04_nonvacuous.
