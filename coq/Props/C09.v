(* C09 — behaviour does not depend on what the compiler can evaluate early (reference side).
   The four rewrite kinds of the property, as equalities of the reference semantics that hold for every environment,
   output prefix, loop bound and meaning of calls.  `let` -> `const` is the identity on the reference (one node, SLet).
   The compiler is tied to this by the metamorphic correspondence run of harness/c09.py. *)
From Coq Require Import ZArith List Bool.
From FV Require Import Core.Syntax Core.Sem Proofs.RewriteP Proofs.CongrP Proofs.BindP.
Import ListNotations.

Theorem C09_if_true_wrap :
  forall structs callf k s s' en out,
    exec structs callf k (SIf (EBool true) s s') en out = exec structs callf k (SBlock s) en out.
Proof. exact if_true_else_irrelevant. Qed.
Print Assumptions C09_if_true_wrap.

Theorem C09_literal_as_call :
  forall structs p g t z fuel en out,
    nth_error p g = Some {| fparams := []; fret := TInt t; fbody := SReturn (Some (ELit t z)) |} ->
    eval structs (call structs p (S fuel)) (ECall g []) en out = eval structs (call structs p (S fuel)) (ELit t z) en out.
Proof. intros. apply lit_call_local with (fin := []). apply const_fn_returns. assumption. Qed.
Print Assumptions C09_literal_as_call.

(* side-effect-free subexpressions print nothing and leave every variable as it was (evaluation returns the environment it was
   given), so evaluating them earlier (bound to a fresh immutable local) cannot change the order or content of the output *)
Theorem C09_pure_subexpr_no_output_partial :
  forall structs callf e en out r out', callfree e = true -> eval structs callf e en out = Ok r out' -> out' = out /\ snd r = en.
Proof. exact callfree_no_output. Qed.
Print Assumptions C09_pure_subexpr_no_output_partial.

(* --- lifting to whole programs.  `rle r r'`: r is r' unless r ran out of fuel.  Every single-hole context (an expression
   position at any depth of an expression: operands, cast, call / by-value reference-call / struct-literal arguments, field
   base; an expression or statement position at any depth of a statement: sequence, if, while, for bounds/step/body, block,
   return, print argument) preserves the refinement order, under related meanings of calls. --- *)
Theorem C09_context_refinement :
  forall structs callf callf', cle callf callf' ->
  forall s s' e e',
    (forall k en out, rle (exec structs callf k s en out) (exec structs callf' k s' en out)) ->
    (forall en out, rle (eval structs callf e en out) (eval structs callf' e' en out)) ->
    forall C K k en out,
      rle (exec structs callf k (splug K s (eplug C e)) en out) (exec structs callf' k (splug K s' (eplug C e')) en out).
Proof. exact ctx_refinement. Qed.
Print Assumptions C09_context_refinement.

(* `if true { a } else { b }` at ANY statement position of ANY function of ANY program, replaced by `{ a }`: the same
   outcome (output lines, termination kind) for every fuel *)
Theorem C09_if_true_program :
  forall structs p f fd K a b e, nth_error p f = Some fd ->
  forall fuel, run structs (upd_body p f (splug K (SIf (EBool true) a b) e)) fuel =
               run structs (upd_body p f (splug K (SBlock a) e)) fuel.
Proof. exact if_true_program. Qed.
Print Assumptions C09_if_true_program.

(* a call `g()` of `fn g() -> t { return z; }` at ANY expression position of ANY statement of ANY other function, replaced
   by the literal z (the rewrite of the property read right to left): whenever the program with the call finishes within
   the fuel, the program with the literal has the same outcome with the same fuel (converse and equivalence below). *)
Theorem C09_literal_as_call_program :
  forall structs p f fd g t z K s C,
  nth_error p f = Some fd -> g <> f ->
  nth_error p g = Some {| fparams := []; fret := TInt t; fbody := SReturn (Some (ELit t z)) |} ->
  forall fuel, run structs (upd_body p f (splug K s (eplug C (ECall g [])))) fuel <> OutOfFuel ->
               run structs (upd_body p f (splug K s (eplug C (ELit t z)))) fuel =
               run structs (upd_body p f (splug K s (eplug C (ECall g [])))) fuel.
Proof. exact lit_call_program. Qed.
Print Assumptions C09_literal_as_call_program.

(* the converse, with one more unit of fuel for the program that contains the call *)
Theorem C09_literal_as_call_program_conv :
  forall structs p f fd g t z K s C,
  nth_error p f = Some fd -> g <> f ->
  nth_error p g = Some {| fparams := []; fret := TInt t; fbody := SReturn (Some (ELit t z)) |} ->
  forall fuel, run structs (upd_body p f (splug K s (eplug C (ELit t z)))) fuel <> OutOfFuel ->
               run structs (upd_body p f (splug K s (eplug C (ECall g [])))) (S fuel) =
               run structs (upd_body p f (splug K s (eplug C (ELit t z)))) fuel.
Proof. exact lit_call_program_conv. Qed.
Print Assumptions C09_literal_as_call_program_conv.

(* hence: replacing a literal by a call to a function returning it (at ANY expression position of ANY statement of ANY other
   function) does not change the set of finished outcomes of the program - output lines and termination kind *)
Theorem C09_literal_as_call_program_equiv :
  forall structs p f fd g t z K s C,
  nth_error p f = Some fd -> g <> f ->
  nth_error p g = Some {| fparams := []; fret := TInt t; fbody := SReturn (Some (ELit t z)) |} ->
  forall r, r <> OutOfFuel ->
    ((exists fuel, run structs (upd_body p f (splug K s (eplug C (ECall g [])))) fuel = r) <->
     (exists fuel, run structs (upd_body p f (splug K s (eplug C (ELit t z)))) fuel = r)).
Proof. exact lit_call_program_equiv. Qed.
Print Assumptions C09_literal_as_call_program_equiv.

(* non-vacuity of the program-level statements: a two-function program whose main prints g() + 1 inside a loop body *)
Theorem C09_program_nonvacuous :
  let g := {| fparams := []; fret := TInt I32; fbody := SReturn (Some (ELit I32 7%Z)) |} in
  let main := {| fparams := []; fret := TVoid; fbody := SSkip |} in
  let K := KForB 1 I32 (ELit I32 0%Z) (ELit I32 2%Z) false (ELit I32 1%Z) (KPrint [] []) in
  let C := CBinL Add CHole (ELit I32 1%Z) in
  run [] (upd_body [g; main] 1 (splug K SSkip (eplug C (ECall 0 [])))) 5 = Done [[OInt 8%Z]; [OInt 8%Z]].
Proof. vm_compute. reflexivity. Qed.
Print Assumptions C09_program_nonvacuous.

(* --- binding a side-effect-free subexpression to a fresh immutable local just before its use.
   A call-free expression is a function of the environment alone (`peval`), evaluated without output and without touching the
   environment (C09_callfree_is_pure).  If e has the value v, then after `let x = e;` the expression C[x] has exactly the value
   C[e] had before, for every call-free context C in which the fresh x does not occur (C09_bind_subexpr_value); as statements,
   `{ let x = e; print(C[x]); }` and `print(C[e]);` are equal: output, control flow and resulting environment (C09_bind_subexpr_print).
   Together with C09_context_refinement the statement form lifts to any position of any function.  Not proved: the un-bracketed
   form `let x = e; s` for statements s that declare variables of their own (x stays in scope: equivalence holds modulo the fresh
   name), and contexts containing calls. --- *)
Theorem C09_callfree_is_pure :
  forall structs callf e en out, callfree e = true ->
    eval structs callf e en out = lift (peval structs e en) en out.
Proof. exact eval_callfree. Qed.
Print Assumptions C09_callfree_is_pure.

Theorem C09_bind_subexpr_value :
  forall structs x v C e en, cfctx x C = true -> peval structs e en = PV v ->
    peval structs (eplug C (EVar x)) (declare x v en) = peval structs (eplug C e) en.
Proof. exact peval_bind. Qed.
Print Assumptions C09_bind_subexpr_value.

Theorem C09_bind_subexpr_print :
  forall structs callf k x t v C e en out,
    cfctx x C = true -> callfree e = true -> peval structs e en = PV v ->
    exec structs callf k (SBlock (SSeq (SLet x t e) (SPrint [eplug C (EVar x)]))) en out =
    exec structs callf k (SPrint [eplug C e]) en out.
Proof. exact bind_subexpr_print. Qed.
Print Assumptions C09_bind_subexpr_print.

Theorem C09_bind_subexpr_return :
  forall structs callf k x t v C e en out,
    cfctx x C = true -> callfree e = true -> peval structs e en = PV v ->
    exec structs callf k (SBlock (SSeq (SLet x t e) (SReturn (Some (eplug C (EVar x)))))) en out =
    exec structs callf k (SReturn (Some (eplug C e))) en out.
Proof. exact bind_subexpr_return. Qed.
Print Assumptions C09_bind_subexpr_return.

Theorem C09_bind_subexpr_assign :
  forall structs callf k x t v y C e en out,
    Nat.eqb y x = false -> cfctx x C = true -> callfree e = true -> peval structs e en = PV v ->
    exec structs callf k (SBlock (SSeq (SLet x t e) (SAssign y (eplug C (EVar x))))) en out =
    exec structs callf k (SAssign y (eplug C e)) en out.
Proof. exact bind_subexpr_assign. Qed.
Print Assumptions C09_bind_subexpr_assign.

Theorem C09_bind_subexpr_exprstmt :
  forall structs callf k x t v C e en out,
    cfctx x C = true -> callfree e = true -> peval structs e en = PV v ->
    exec structs callf k (SBlock (SSeq (SLet x t e) (SExpr (eplug C (EVar x))))) en out =
    exec structs callf k (SExpr (eplug C e)) en out.
Proof. exact bind_subexpr_exprstmt. Qed.
Print Assumptions C09_bind_subexpr_exprstmt.

Theorem C09_bind_nonvacuous :
  let e := EBin Mul (EVar 1) (ELit I32 3%Z) in
  let C := CBinR Add (EVar 2) (CCast CHole I64) in
  cfctx 9 C = true /\ callfree e = true /\
  peval [] e [[(1, VInt I32 5%Z); (2, VInt I64 7%Z)]] = PV (VInt I32 15%Z) /\
  exec [] (fun _ _ _ => Wrong) 0 (SPrint [eplug C e]) [[(1, VInt I32 5%Z); (2, VInt I64 7%Z)]] [] =
    Ok ([[(1, VInt I32 5%Z); (2, VInt I64 7%Z)]], FNormal) [[OInt 22%Z]].
Proof. vm_compute. repeat split; reflexivity. Qed.
Print Assumptions C09_bind_nonvacuous.

(* Rewrites at several sites compose by transitivity of `rle` (CongrP.rle_trans). *)

Theorem C09_nonvacuous :
  exists structs callf k s en out r, exec structs callf k (SIf (EBool true) s SSkip) en out = Ok r out /\ s <> SSkip.
Proof.
  exists [], (fun _ _ _ => Wrong), 1%nat, (SLet 1 (TInt I32) (ELit I32 5%Z)), [[]], [].
  eexists. split; [vm_compute; reflexivity|discriminate].
Qed.
Print Assumptions C09_nonvacuous.
