(* C09 — behaviour does not depend on what the compiler can evaluate early (reference side).
   The four rewrite kinds of the property, as equalities of the reference semantics that hold for every environment,
   output prefix, loop bound and meaning of calls.  `let` -> `const` is the identity on the reference (one node, SLet).
   The compiler is tied to this by the metamorphic correspondence run of harness/c09.py. *)
From Coq Require Import ZArith List Bool.
From FV Require Import Core.Syntax Core.Sem Proofs.RewriteP.
Import ListNotations.

Theorem C09_if_true_wrap :
  forall structs callf k s s' en out,
    exec structs callf k (SIf (EBool true) s s') en out = exec structs callf k (SBlock s) en out.
Proof. exact if_true_else_irrelevant. Qed.
Print Assumptions C09_if_true_wrap.

Theorem C09_literal_as_call :
  forall structs p g t z fuel en out,
    nth_error p g = Some {| fparams := []; fret := TInt t; fbody := SReturn (Some (ELit t z)) |} ->
    eval structs (call structs p (S fuel)) (ECall g []) en out = eval structs (call structs p (S fuel)) (ELit t z) en out.
Proof. intros. apply lit_call_local with (fin := []). apply const_fn_returns. assumption. Qed.
Print Assumptions C09_literal_as_call.

(* side-effect-free subexpressions print nothing and leave every variable as it was (evaluation returns the environment it was
   given), so evaluating them earlier (bound to a fresh immutable local) cannot change the order or content of the output *)
Theorem C09_pure_subexpr_no_output_partial :
  forall structs callf e en out r out', callfree e = true -> eval structs callf e en out = Ok r out' -> out' = out /\ snd r = en.
Proof. exact callfree_no_output. Qed.
Print Assumptions C09_pure_subexpr_no_output_partial.

(* The bind-subexpression rewrite itself (environment equivalence modulo the fresh name) and the lifting of these local
   equalities to arbitrary program contexts are NOT proved; they are covered by the metamorphic runs only. *)

Theorem C09_nonvacuous :
  exists structs callf k s en out r, exec structs callf k (SIf (EBool true) s SSkip) en out = Ok r out /\ s <> SSkip.
Proof.
  exists [], (fun _ _ _ => Wrong), 1%nat, (SLet 1 (TInt I32) (ELit I32 5%Z)), [[]], [].
  eexists. split; [vm_compute; reflexivity|discriminate].
Qed.
Print Assumptions C09_nonvacuous.
