(* C17 — Runtime maps and dynamic arrays behave as abstract maps and lists, memory-safely.
   Models/MapRt.v and Models/ArrayRt.v are line-by-line ports of runtime/core/map.c, array.c (+ optional.c, len.c,
   append.c); harness/c17.py ties them to the working tree on every run.  All map theorems hold for EVERY hash
   function `hash` and every key type with a correct equality test `eqb` (map.c: hash_fn / equals_fn).
   Memory safety is `_partial`: what is proved is that every modelled access to a heap block (bucket array, element
   block) is in range for every history; use-after-free and the C-level accesses themselves are observed by ASan. *)
From stdpp Require Import gmap.
From Coq Require Import ZArith.
From FV Require Import Models.MapRt Models.ArrayRt Proofs.MapRtP Proofs.MapRtG Proofs.ArrayRtP.

(* Every history that starts with new / from_pairs produces, step by step, the results of the same history on a
   gmap (get, has, size exactly; the iteration sequence up to order). *)
Theorem C17_map_refines :
  forall (K : Type) `{Countable K} (V : Type) (eqb : K -> K -> bool) (hash : K -> Z),
    (forall a b, eqb a b = true <-> a = b) ->
    forall (m0 : map_t K V) (g0 : gmap K V) (o : op K V) (ops : list (op K V)),
      is_ctor o ->
      Forall2 res_equiv (run K V eqb hash m0 (o :: ops)) (spec_run g0 (o :: ops)).
Proof. exact (fun K _ _ V => @map_refines K _ _ V). Qed.
Print Assumptions C17_map_refines.

(* ... and the reached state satisfies the representation invariant and agrees with the gmap on every key. *)
Theorem C17_map_state_refines :
  forall (K : Type) `{Countable K} (V : Type) (eqb : K -> K -> bool) (hash : K -> Z),
    (forall a b, eqb a b = true <-> a = b) ->
    forall (m0 : map_t K V) (g0 : gmap K V) (o : op K V) (ops : list (op K V)),
      is_ctor o ->
      R eqb hash (final K V eqb hash m0 (o :: ops)) (spec_final g0 (o :: ops)).
Proof. exact (fun K _ _ V => @final_refines_ctor K _ _ V). Qed.
Print Assumptions C17_map_state_refines.

(* gmap-free: after any sequence of stores the value returned for k is the one most recently stored under k. *)
Theorem C17_get_latest :
  forall (K V : Type) (eqb : K -> K -> bool) (hash : K -> Z),
    (forall a b, eqb a b = true <-> a = b) ->
    forall (ps : list (K * V)) (k : K),
      map_get K V eqb hash (fold_left (fun m p => map_set K V eqb hash m (fst p) (snd p)) ps map_new) k
      = last_set K V eqb k ps None.
Proof. exact get_latest. Qed.
Print Assumptions C17_get_latest.

(* from_pairs (pre-sized table) = storing the pairs in order *)
Theorem C17_from_pairs :
  forall (K V : Type) (eqb : K -> K -> bool) (hash : K -> Z),
    (forall a b, eqb a b = true <-> a = b) ->
    forall (ps : list (K * V)),
      minv K V hash (map_from_pairs K V eqb hash ps) /\
      forall k, map_get K V eqb hash (map_from_pairs K V eqb hash ps) k = last_set K V eqb k ps None.
Proof. exact from_pairs_is_fold. Qed.
Print Assumptions C17_from_pairs.

(* size = number of distinct keys *)
Theorem C17_size_distinct :
  forall (K : Type) `{Countable K} (V : Type) (eqb : K -> K -> bool) (hash : K -> Z),
    (forall a b, eqb a b = true <-> a = b) ->
    forall (m : map_t K V) (g : gmap K V), R eqb hash m g -> map_size K V m = Z.of_nat (size (dom g)).
Proof. exact (fun K _ _ V => @size_distinct K _ _ V). Qed.
Print Assumptions C17_size_distinct.

(* iteration visits every entry exactly once: no key twice, exactly the stored pairs, `size` many *)
Theorem C17_iter_once :
  forall (K : Type) `{Countable K} (V : Type) (eqb : K -> K -> bool) (hash : K -> Z),
    (forall a b, eqb a b = true <-> a = b) ->
    forall (m : map_t K V) (g : gmap K V), R eqb hash m g ->
      NoDup (map_iterate K V m).*1 /\
      (forall k v, (k, v) ∈ map_iterate K V m <-> map_get K V eqb hash m k = Some v) /\
      Z.of_nat (length (map_iterate K V m)) = map_size K V m.
Proof. exact (fun K _ _ V => @iter_once K _ _ V). Qed.
Print Assumptions C17_iter_once.

(* the invariant is preserved by set, also across the rehash (load factor 0.75, doubling) *)
Theorem C17_inv_set :
  forall (K V : Type) (eqb : K -> K -> bool) (hash : K -> Z),
    (forall a b, eqb a b = true <-> a = b) ->
    forall m k v, minv K V hash m -> minv K V hash (map_set K V eqb hash m k v).
Proof. exact set_inv. Qed.
Print Assumptions C17_inv_set.

(* memory safety, modelled part: the bucket index used by get / set lies inside the bucket array *)
Theorem C17_map_index_in_range_partial :
  forall (K V : Type) (hash : K -> Z) (m : map_t K V) (k : K),
    minv K V hash m -> (bidx (hash k) (length (buckets m)) < length (buckets m))%nat.
Proof. exact bucket_index_in_range. Qed.
Print Assumptions C17_map_index_in_range_partial.

(* optional out-layout: what get_optional_out writes, unwrap_or reads back (value, or the default when absent) *)
Theorem C17_optional_roundtrip :
  forall vsize (r : option bytes) (d out out' : bytes),
    vsize <> 0%nat -> (forall v, r = Some v -> length v = vsize) -> length d = vsize ->
    (vsize < length out)%nat -> length out' = vsize ->
    optional_unwrap_or (write_optional vsize r out) (Some d) out' vsize = match r with Some v => v | None => d end.
Proof. exact optional_roundtrip. Qed.
Print Assumptions C17_optional_roundtrip.

(* ---- dynamic arrays: every history gives the results of the same history on a list
   (append / set in order, len = number of appends, out-of-range get / set refused) *)
Theorem C17_arr_refines :
  forall (E : Type) (junk : E) (a0 : arr_t E) (c : Z) (ops : list (aop E)),
    arun E junk a0 (ANew c :: ops) = spec_arun E [] (ANew c :: ops).
Proof. exact arr_refines. Qed.
Print Assumptions C17_arr_refines.

Theorem C17_arr_appends_in_order :
  forall (E : Type) (junk : E) (a0 : arr_t E) (c : Z) (xs : list E),
    let a := afinal E junk a0 (ANew c :: map AAppend xs) in
    abs E a = xs /\ arr_len E a = Z.of_nat (length xs) /\
    forall i, arr_get E a i = if in_range E xs i
                              then match nth_error xs (Z.to_nat i) with Some x => Ok x | None => Refused end
                              else Refused.
Proof. exact arr_appends_in_order. Qed.
Print Assumptions C17_arr_appends_in_order.

(* invariant after every history: 0 <= length <= capacity = size of the element block *)
Theorem C17_arr_inv :
  forall (E : Type) (junk : E) (a0 : arr_t E) (c : Z) (ops : list (aop E)),
    ainv E (afinal E junk a0 (ANew c :: ops)).
Proof. exact arr_inv. Qed.
Print Assumptions C17_arr_inv.

(* memory safety, modelled part: no history reads or writes an element slot outside the allocated block *)
Theorem C17_arr_no_oob_partial :
  forall (E : Type) (junk : E) (a0 : arr_t E) (c : Z) (ops : list (aop E)),
    ~ In AOob (arun E junk a0 (ANew c :: ops)).
Proof. exact arr_no_oob. Qed.
Print Assumptions C17_arr_no_oob_partial.

(* ---- non-vacuity: the hypothesis on eqb is met by the executable instance (byte-string keys, FNV-1a), and a concrete
   history with 13 distinct keys crosses the resize threshold (16 -> 32 buckets) with the expected answers *)
Theorem C17_nonvacuous :
  (forall a b, bytes_eqb a b = true <-> a = b) /\
  skipn 15 (run bytes bytes bytes_eqb fnv1a map_new demo_ops) =
    [RGet (Some [7%Z]); RGet (Some [112%Z]); RGet None; RBool true; RSize 13] /\
  length (buckets (final bytes bytes bytes_eqb fnv1a map_new demo_ops)) = 32%nat /\
  length (map_iterate bytes bytes (final bytes bytes bytes_eqb fnv1a map_new demo_ops)) = 13%nat.
Proof. exact (conj bytes_eqb_spec demo_run). Qed.
Print Assumptions C17_nonvacuous.
