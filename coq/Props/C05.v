(* C05 — A non-void function always returns a value from a return statement. *)
From Coq Require Import List Bool Arith.
From FV Require Import Models.Returns Proofs.ReturnsP.

Theorem C05_nonvacuous : accepted PFunc ex_body = true /\ accepted PFuncLit ex_body = true.
Proof. exact nonvacuous_accept. Qed.
Print Assumptions C05_nonvacuous.
