(* C05 — A non-void function always returns a value from a return statement.
   Model: Models/Returns.v (port of cfg.go + analyzer.go for the tree with fixes/C05-*.patch applied) and the path
   semantics run_* over abstract guard outcomes; Models/ReturnsSpec.v is the specification-side decision procedure. *)
From Coq Require Import List Bool Arith.
From FV Require Import Models.Returns Models.ReturnsSpec Proofs.ReturnsDfs Proofs.ReturnsSpecP.

(* The property at full strength (NOT proved in general, see C05_sound_small_partial and C05_sound_given_cover_partial):
   an accepted body, in any of the three positions, ends every terminating execution in `return <value>`. *)
Definition C05_full : Prop :=
  forall p body, accepted p body = true -> returns_value_always body.

(* The specification is decidable, and decided exactly by the compositional analysis outs_*: the theorem quantifies
   over all bodies, nesting depths and guard assignments (any iteration count, "no arm matches"). *)
Theorem C05_spec_decided :
  forall body, spec_ok body = true <-> returns_value_always body.
Proof. exact spec_ok_iff. Qed.
Print Assumptions C05_spec_decided.

Theorem C05_falls_off_decided :
  forall body, falls_off body <-> o_n (outs_block body) = true.
Proof. exact falls_off_iff. Qed.
Print Assumptions C05_falls_off_decided.

(* AllPathsReturn's search is complete on every graph: it answers true only if no path entry ->* exit avoids the
   blocks whose Returns flag is set (unbounded: any graph, any fuel outcome). *)
Theorem C05_search_complete :
  forall t, all_paths_return t = true -> ~ path t ENTRY EXIT.
Proof. exact all_paths_return_no_path. Qed.
Print Assumptions C05_search_complete.

(* Soundness of acceptance, reduced to the one remaining obligation about buildBlock/buildIf/...: the built graph
   contains a path for every falling run. *)
Theorem C05_sound_given_cover_partial :
  forall body p, graph_covers_runs body -> accepted p body = true -> ~ falls_off body.
Proof. exact accepted_no_fall_given_cover. Qed.
Print Assumptions C05_sound_given_cover_partial.

(* C05_full for every body of the exhaustive family In_small (76 650 bodies: all nesting-depth-1 statements over
   {simple, return v, return, break, continue} in blocks of length <= 2, and each of them under one more
   while(true)/while/for/if/if-else/match/match-default level), in the three positions. *)
Theorem C05_sound_small_partial :
  forall b p, In_small b -> accepted p b = true -> returns_value_always b.
Proof. exact small_bodies_sound. Qed.
Print Assumptions C05_sound_small_partial.

(* non-vacuity: a body with early return, while(true)+break, match without and with default is accepted in all
   three positions and satisfies the specification *)
Theorem C05_nonvacuous :
  accepted PFunc ex_body = true /\ accepted PMethod ex_body = true /\ accepted PFuncLit ex_body = true /\
  returns_value_always ex_body.
Proof. exact nonvacuous_accept. Qed.
Print Assumptions C05_nonvacuous.

(* the three defects repaired by fixes/C05-*.patch: the bodies violate the specification and are now rejected *)
Theorem C05_repaired_defects_rejected :
  accepted PFunc ex_match_nodefault = false /\ falls_off ex_match_nodefault /\
  accepted PFuncLit ex_lit_missing = false /\ falls_off ex_lit_missing /\
  accepted PFunc ex_bare = false /\ run_block ex_bare (OReturn false).
Proof. exact repaired_defects_rejected. Qed.
Print Assumptions C05_repaired_defects_rejected.
