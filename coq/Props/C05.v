(* C05 — A non-void function always returns a value from a return statement.
   Model: Models/Returns.v (port of cfg.go + analyzer.go for the tree with the C05 fixes) and the path semantics run_*
   over abstract guard outcomes; Models/ReturnsSpec.v is the specification-side decision procedure.
   Proof structure: Proofs/ReturnsBuildP.v + ReturnsBuildCases.v (invariant of the graph builder, by induction over
   build_stmt/build_block/build_ifs/build_els/build_arms), Proofs/ReturnsDfs.v (completeness of the search),
   Proofs/ReturnsSound.v (assembly), Proofs/ReturnsSpecP.v (exactness of the specification decider). *)
From Coq Require Import List Bool Arith.
From FV Require Import Models.Returns Models.ReturnsSpec Proofs.ReturnsDfs Proofs.ReturnsSpecP
                       Proofs.ReturnsBuildP Proofs.ReturnsBuildCases Proofs.ReturnsSound.

(* The property at full strength, for every body (any nesting of if / else-if / else, match with and without default,
   while (true or not) / for with break / continue, early and bare returns, nested blocks), every position
   (function, method, function literal) and every assignment of guard outcomes / iteration counts:
   an accepted body ends every terminating execution in `return <value>`. *)
Theorem C05_full :
  forall p body, accepted p body = true -> returns_value_always body.
Proof. exact accepted_sound. Qed.
Print Assumptions C05_full.

(* in the wording of the design: an accepted body has no path that reaches its end without returning *)
Theorem C05_no_fall_off :
  forall p body, accepted p body = true -> ~ falls_off body.
Proof. exact accepted_no_fall. Qed.
Print Assumptions C05_no_fall_off.

(* the builder invariant's top-level consequence: the graph built by buildBlock/buildIf/buildMatch/buildWhile/buildFor
   has a return-free path entry ->* exit for every run that falls off the end of the body *)
Theorem C05_graph_covers_runs :
  forall body, run_block body ONormal -> path (build_function body) ENTRY EXIT.
Proof. exact graph_covers_falling_runs. Qed.
Print Assumptions C05_graph_covers_runs.

(* AllPathsReturn's search is complete on every graph: it answers true only if no path entry ->* exit avoids the
   blocks whose Returns flag is set. *)
Theorem C05_search_complete :
  forall t, all_paths_return t = true -> ~ path t ENTRY EXIT.
Proof. exact all_paths_return_no_path. Qed.
Print Assumptions C05_search_complete.

(* The specification is decidable, and decided exactly by the compositional analysis outs_* (used as the Coq-side
   oracle of the correspondence check). *)
Theorem C05_spec_decided :
  forall body, spec_ok body = true <-> returns_value_always body.
Proof. exact spec_ok_iff. Qed.
Print Assumptions C05_spec_decided.

Theorem C05_falls_off_decided :
  forall body, falls_off body <-> o_n (outs_block body) = true.
Proof. exact falls_off_iff. Qed.
Print Assumptions C05_falls_off_decided.

(* the ported analysis never accepts a body the specification decider rejects *)
Theorem C05_accepted_implies_spec_ok :
  forall p body, accepted p body = true -> spec_ok body = true.
Proof. exact accepted_spec_ok. Qed.
Print Assumptions C05_accepted_implies_spec_ok.

(* non-vacuity: a body with early return, while(true)+break, match without and with default is accepted in all
   three positions and satisfies the specification *)
Theorem C05_nonvacuous :
  accepted PFunc ex_body = true /\ accepted PMethod ex_body = true /\ accepted PFuncLit ex_body = true /\
  returns_value_always ex_body.
Proof. exact nonvacuous_accept. Qed.
Print Assumptions C05_nonvacuous.

(* the three repaired defects: the bodies violate the specification and are rejected *)
Theorem C05_repaired_defects_rejected :
  accepted PFunc ex_match_nodefault = false /\ falls_off ex_match_nodefault /\
  accepted PFuncLit ex_lit_missing = false /\ falls_off ex_lit_missing /\
  accepted PFunc ex_bare = false /\ run_block ex_bare (OReturn false).
Proof. exact repaired_defects_rejected. Qed.
Print Assumptions C05_repaired_defects_rejected.
