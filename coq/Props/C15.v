(* C15 — Import graphs: every cycle is rejected, every DAG builds, under all schedules.
   Statements are about the port Models/DepGraph.v of context_v2.AddDependency / findCycle / hasCyclePath /
   ComputeTopologicalOrder; the port is tied to the working tree on every run by harness/c15.py.
   A schedule of the parser goroutines is a sequence of atomic AddDependency calls (ctx.mu is held for the whole
   call); the theorems quantify over ALL sequences / all permutations of the requested edges, a superset of the
   interleavings that respect each importer's file order. *)
From Coq Require Import List Arith Bool ZArith Permutation.
Import ListNotations.
From FV Require Import Models.DepGraph Models.ImportSched Proofs.DepGraphP Proofs.DepGraphRun Proofs.DepGraphTopo
  Proofs.DepGraphKahn Proofs.ImportSchedP.

(* the DFS with visited set and fuel S (S |g|) decides reachability exactly (fuel is always sufficient) *)
Theorem C15_find_cycle_exact :
  forall g a b, (exists c, find_cycle g a b = Some c) <-> reach g a b.
Proof. exact find_cycle_iff. Qed.
Print Assumptions C15_find_cycle_exact.

(* every graph reachable from the empty one by any sequence of calls is acyclic and duplicate-free *)
Theorem C15_inv_acyclic :
  forall calls, acyclic (fst (run [] calls)) /\ NoDup (fst (run [] calls)).
Proof. exact inv_acyclic. Qed.
Print Assumptions C15_inv_acyclic.

(* every edge list containing a cycle (any length, self-import included) is rejected under every order of the calls *)
Theorem C15_cycle_rejected :
  forall E calls, Permutation E calls -> cyclic E -> existsb is_err (snd (run [] calls)) = true.
Proof. exact cycle_rejected. Qed.
Print Assumptions C15_cycle_rejected.

(* every acyclic edge list (repeats allowed) is accepted in full under every order of the calls:
   no call errs and the stored edge set is exactly the requested one, each edge once *)
Theorem C15_dag_accepted :
  forall E calls, Permutation E calls -> acyclic E ->
    existsb is_err (snd (run [] calls)) = false /\
    (forall e, In e (fst (run [] calls)) <-> In e E) /\ NoDup (fst (run [] calls)).
Proof. exact dag_accepted. Qed.
Print Assumptions C15_dag_accepted.

(* a call errs exactly when its edge would close a cycle with the edges accepted before it *)
Theorem C15_call_rejected_iff :
  forall g u v, is_err (snd (add_dependency g u v)) = true <-> reach g v u.
Proof. exact call_rejected_iff. Qed.
Print Assumptions C15_call_rejected_iff.

(* the reported cycle is a genuine closed walk through the offending edge *)
Theorem C15_reported_cycle_genuine :
  forall g u v c, snd (add_dependency g u v) = ErrCycle c ->
    is_walk (g ++ [(u, v)]) c /\ hd_error c = Some u /\ last c v = u /\ 2 <= length c.
Proof. exact reported_cycle_genuine. Qed.
Print Assumptions C15_reported_cycle_genuine.

(* the deciders the harness evaluates on the implementation's answers are exact *)
Theorem C15_cyclic_decider_exact : forall g, cyclic_b g = true <-> cyclic g.
Proof. exact cyclic_b_iff. Qed.
Print Assumptions C15_cyclic_decider_exact.

Theorem C15_topo_decider_exact :
  forall g mods order, topo_valid_b g mods order = true <-> topo_valid g mods order.
Proof. exact topo_valid_b_iff. Qed.
Print Assumptions C15_topo_decider_exact.

(* ComputeTopologicalOrder on an acyclic duplicate-free graph whose nodes are all registered modules:
   a duplicate-free enumeration of exactly the modules with every dependency before its importers *)
Theorem C15_topo_valid :
  forall g mods, acyclic g -> NoDup g -> NoDup mods -> all_registered g mods = true ->
    topo_valid g mods (topo g mods).
Proof. exact topo_valid_thm. Qed.
Print Assumptions C15_topo_valid.

(* ... in particular after ANY schedule of AddDependency calls (rejected edges are simply absent), provided every
   DepGraph node is a registered module — which parse.go guarantees by AddModule before AddDependency/processModule *)
Theorem C15_order_after_any_schedule :
  forall calls mods, NoDup mods -> all_registered (fst (run [] calls)) mods = true ->
    topo_valid (fst (run [] calls)) mods (topo (fst (run [] calls)) mods).
Proof. exact run_topo_valid. Qed.
Print Assumptions C15_order_after_any_schedule.

(* without the registration hypothesis (any duplicate-free graph, cyclic or not, unregistered nodes allowed) the
   order is still duplicate-free, lists only modules/importers, puts every dependency of a listed module before it,
   and lists every module all of whose dependencies are listed; an importer of an unregistered path is dropped *)
Theorem C15_topo_sound :
  forall g mods, NoDup g -> NoDup mods ->
    let order := topo g mods in
    NoDup order /\
    (forall m, In m order -> In m mods \/ exists d, edge g m d) /\
    (forall u v, In u order -> edge g u v -> In v order /\ index_of v order < index_of u order) /\
    (forall m, In m mods -> (forall d, edge g m d -> In d order) -> In m order).
Proof. exact topo_sound. Qed.
Print Assumptions C15_topo_sound.

Theorem C15_topo_drops_importer_of_unregistered :
  topo [(0, 1)] [0] = [] /\ topo [(0, 1)] [0; 1] = [1; 0].
Proof. exact topo_drops_example. Qed.
Print Assumptions C15_topo_drops_importer_of_unregistered.

(* ---- the concurrent parse phase (Models/ImportSched.v: one task per parser goroutine, one step = one atomic action
   of an arbitrary task, hence every interleaving) *)

(* no deadlock: while a goroutine is alive some step is enabled *)
Theorem C15_no_deadlock : forall P s, st_tasks s <> [] -> exists s', step P s s'.
Proof. exact progress. Qed.
Print Assumptions C15_no_deadlock.

(* no livelock: over a finite set U of module files closed under imports every schedule has bounded length *)
Theorem C15_schedules_finite :
  forall P U e, In e U -> (forall a, In a U -> incl (P a) U) ->
    forall n s, nsteps P n (init P e) s -> n <= mu P U (init P e).
Proof. exact schedules_finite. Qed.
Print Assumptions C15_schedules_finite.

(* ... and every partial schedule can be completed (wg.Wait returns) *)
Theorem C15_terminal_reachable :
  forall P U e, In e U -> (forall a, In a U -> incl (P a) U) ->
    forall s, steps P (init P e) s -> exists s', steps P s s' /\ terminal s'.
Proof. exact terminal_reachable. Qed.
Print Assumptions C15_terminal_reachable.

(* under every schedule: exactly the modules reachable from the entry file are parsed, each exactly once, and every
   import statement of a parsed module is submitted to AddDependency exactly once *)
Theorem C15_parsed_exactly_once :
  forall P e s, steps P (init P e) s -> terminal s ->
    NoDup (st_seen s) /\ (forall m, In m (st_seen s) <-> reachP P e m) /\
    Permutation (edges_of P (st_seen s)) (st_calls s) /\
    run [] (st_calls s) = (st_g s, st_res s).
Proof. exact terminal_spec. Qed.
Print Assumptions C15_parsed_exactly_once.

(* under every schedule: a cyclic reachable import graph yields a circular-import error, an acyclic one yields none
   and the stored graph is the whole import graph (so C15_order_after_any_schedule orders all of it) *)
Theorem C15_pipeline_verdict :
  forall P e s, steps P (init P e) s -> terminal s ->
    (cyclic (edges_of P (st_seen s)) -> existsb is_err (st_res s) = true) /\
    (acyclic (edges_of P (st_seen s)) ->
       existsb is_err (st_res s) = false /\ forall x, In x (st_g s) <-> In x (edges_of P (st_seen s))).
Proof. exact verdict. Qed.
Print Assumptions C15_pipeline_verdict.

(* import lists are LISTS with repetition: the dependency relation built from a project equals the one built from its
   de-duplicated import lists (same edges, same cyclicity) ... *)
Theorem C15_dedup_same_relation :
  forall P ms,
    (forall m d, In d (P m) <-> In d (nodup Nat.eq_dec (P m))) /\
    (forall e, In e (edges_of P ms) <-> In e (edges_of (fun m => nodup Nat.eq_dec (P m)) ms)) /\
    (cyclic (edges_of P ms) <-> cyclic (edges_of (fun m => nodup Nat.eq_dec (P m)) ms)).
Proof. exact dedup_same_relation. Qed.
Print Assumptions C15_dedup_same_relation.

(* ... and the outcome of the parse phase depends only on the SET of targets each module imports — not on how often
   or in which order they are written, nor on the schedule: same parsed modules, same verdict.  (This is what justifies
   the harness oracle, which computes reachability and cyclicity on sets; a scanner that stops at a repeated import
   changes the set and is therefore observable.) *)
Theorem C15_verdict_multiplicity_order_independent :
  forall P Q e s s',
    (forall m d, In d (P m) <-> In d (Q m)) ->
    steps P (init P e) s -> terminal s -> steps Q (init Q e) s' -> terminal s' ->
    (forall m, In m (st_seen s) <-> In m (st_seen s')) /\
    existsb is_err (st_res s) = existsb is_err (st_res s').
Proof. exact verdict_multiplicity_order_independent. Qed.
Print Assumptions C15_verdict_multiplicity_order_independent.

(* non-vacuity of the closure hypotheses and of both verdict branches *)
Theorem C15_sched_nonvacuous :
  (In 0 [0; 1] /\ forall a, In a [0; 1] -> incl (proj_cycle2 a) [0; 1]) /\
  (In 0 [0; 1; 2; 3] /\ forall a, In a [0; 1; 2; 3] -> incl (proj_diamond a) [0; 1; 2; 3]) /\
  cyclic (edges_of proj_cycle2 [0; 1]) /\ acyclic (edges_of proj_diamond [0; 1; 2; 3]).
Proof. exact examples_closed. Qed.
Print Assumptions C15_sched_nonvacuous.

(* non-vacuity: a diamond with a shared leaf, requested with a repeat in a scrambled order, is accepted and
   ordered; the same edges plus one back edge are rejected; a self-import is rejected *)
Theorem C15_nonvacuous :
  let dag := [(2,3); (0,1); (1,3); (0,2); (0,1)] in
  acyclic dag /\ snd (run [] dag) = [Ok; Ok; Ok; Ok; Ok] /\
  topo (fst (run [] dag)) [0;1;2;3] = [3;1;2;0] /\
  cyclic (dag ++ [(3,0)]) /\ snd (run [] ((3,0) :: dag)) = [Ok; Ok; Ok; ErrCycle [1;3;0;1]; ErrCycle [0;2;3;0]; Ok] /\
  snd (run [] [(5,5)]) = [ErrCycle [5;5]].
Proof. exact nonvacuous. Qed.
Print Assumptions C15_nonvacuous.
