(* C16 — 128- and 256-bit integer arithmetic is exact modulo 2^N.
   Theorems about the port Models/Bigint.v of runtime/core/bigint.c (64-bit limbs), generic in the limb count
   n = length of the little-endian limb vectors (n = 2: i128/u128, n = 4: i256/u256).  `value` is the unsigned and
   `svalue` the two's complement reading; `modulus n` = 2^(64 n); wrapS reduces into [-2^(N-1), 2^(N-1)).
   The tie to the code is the correspondence run of harness/c16.py (every run, working tree).
   ferret_sub_limbs is modelled in its repaired form (fixes/C16-sub-borrow.patch); C16_sub_unpatched_refuted
   is the defect of the code as found. *)
From Coq Require Import ZArith List Bool.
From FV Require Import Models.Bigint Proofs.BigintP Proofs.BigintMulP Proofs.BigintDecP Proofs.BigintPowP Proofs.BigintTextP
  Proofs.BigintBitsP Proofs.BigintDivP Proofs.BigintShiftP Proofs.BigintAllP.
Import ListNotations.
Open Scope Z_scope.

(* operands n a b  :=  n <> 0 /\ length a = n /\ length b = n /\ limbs_ok a /\ limbs_ok b      (Proofs/BigintAllP.v) *)

(* ---- the full statement of the property over the model *)
Definition C16_full : Prop :=
  forall n a b, operands n a b ->
  let m := modulus n in
  (* + - * *)
     value (add_limbs a b) = (value a + value b) mod m
  /\ svalue (add_limbs a b) = wrapS m (svalue a + svalue b)
  /\ value (sub_limbs a b) = (value a - value b) mod m
  /\ svalue (sub_limbs a b) = wrapS m (svalue a - svalue b)
  /\ value (u_mul a b) = (value a * value b) mod m
  /\ svalue (s_mul a b) = wrapS m (svalue a * svalue b)
  (* truncating division and remainder (MIN / -1 wraps to MIN) *)
  /\ (value b <> 0 -> value (u_div a b) = value a / value b /\ value (u_mod a b) = value a mod value b)
  /\ (svalue b <> 0 -> svalue (s_div a b) = wrapS m (Z.quot (svalue a) (svalue b))
                      /\ svalue (s_mod a b) = wrapS m (Z.rem (svalue a) (svalue b)))
  (* comparisons *)
  /\ limbs_eqb a b = (value a =? value b) /\ limbs_eqb a b = (svalue a =? svalue b)
  /\ u_lt a b = (value a <? value b) /\ u_gt a b = (value a >? value b)
  /\ s_lt a b = (svalue a <? svalue b) /\ s_gt a b = (svalue a >? svalue b)
  (* bitwise *)
  /\ value (and_limbs a b) = Z.land (value a) (value b)
  /\ value (or_limbs a b) = Z.lor (value a) (value b)
  /\ value (xor_limbs a b) = Z.lxor (value a) (value b)
  /\ value (not_limbs a) = m - 1 - value a
  (* shifts: every count k >= 0, also k >= N; counts <= 0 leave the operand unchanged *)
  /\ (forall k, 0 <= k -> value (shift_left_limbs a k) = (value a * 2 ^ k) mod m
                        /\ value (shift_right_limbs a k) = value a / 2 ^ k
                        /\ svalue (shift_right_signed_limbs a k) = svalue a / 2 ^ k)
  /\ (forall k, k <= 0 -> shift_left_limbs a k = a /\ shift_right_limbs a k = a /\ shift_right_signed_limbs a k = a)
  (* exponentiation, exponent >= 0 *)
  /\ (exists r, u_pow a b = Some r /\ value r = (value a ^ value b) mod m)
  /\ (0 <= svalue b -> exists r, s_pow a b = Some r /\ svalue r = wrapS m (svalue a ^ svalue b))
  (* 64-bit conversions *)
  /\ (forall x, limb_ok x -> value (from_u64 n x) = x
                          /\ value (from_i64 n x) = (if x >=? 2 ^ 63 then x - B else x) mod m)
  /\ to_u64 a = value a mod B
  (* decimal text.  number -> text (the types that exist have at most four limbs): never overruns the 80 byte
     buffer, digits only, denotes the number; text -> number for digit strings, with and without '-' *)
  /\ ((n <= 4)%nat -> exists s, u_to_string a = Some s /\ all_digits 10 s /\ num 10 s 0 = value a)
  /\ (forall s, all_digits 10 s -> has_digit s ->
        value (u_from_string n s) = (num 10 s 0) mod m
     /\ svalue (s_from_string n (45 :: s)) = wrapS m (- num 10 s 0)).

(* ---- proved, for all operands and every limb count *)

Theorem C16_add : forall n a b, operands n a b ->
  value (add_limbs a b) = (value a + value b) mod modulus n /\
  svalue (add_limbs a b) = wrapS (modulus n) (svalue a + svalue b).
Proof.
  intros n a b (Hn & La & Lb & Ha & Hb). subst n. split.
  - apply add_limbs_correct; congruence.
  - apply s_add_correct; auto; try congruence; try (intros E; subst a; apply Hn; reflexivity).
Qed.
Print Assumptions C16_add.

Theorem C16_sub : forall n a b, operands n a b ->
  value (sub_limbs a b) = (value a - value b) mod modulus n /\
  svalue (sub_limbs a b) = wrapS (modulus n) (svalue a - svalue b).
Proof.
  intros n a b (Hn & La & Lb & Ha & Hb). subst n. split.
  - apply sub_limbs_correct; auto; congruence.
  - apply s_sub_correct; auto; try congruence; try (intros E; subst a; apply Hn; reflexivity).
Qed.
Print Assumptions C16_sub.

(* the code as found in the tree (before fixes/C16-sub-borrow.patch): a lost borrow over four limbs *)
Theorem C16_sub_unpatched_refuted :
  exists a b, length a = 4%nat /\ length b = 4%nat /\ limbs_ok a /\ limbs_ok b /\
    value (sub_limbs_orig a b) <> (value a - value b) mod modulus 4.
Proof. exact sub_orig_refuted. Qed.
Print Assumptions C16_sub_unpatched_refuted.

Theorem C16_neg : forall v, limbs_ok v ->
  value (negate_limbs v) = (- value v) mod modulus (length v).
Proof. exact negate_limbs_correct. Qed.
Print Assumptions C16_neg.

Theorem C16_mul : forall n a b, operands n a b ->
  value (u_mul a b) = (value a * value b) mod modulus n /\
  svalue (s_mul a b) = wrapS (modulus n) (svalue a * svalue b).
Proof.
  intros n a b (Hn & La & Lb & Ha & Hb). subst n. split.
  - apply mul_limbs_correct; congruence.
  - apply s_mul_correct; auto; try congruence; try (intros E; subst a; apply Hn; reflexivity).
Qed.
Print Assumptions C16_mul.

Theorem C16_cmp : forall n a b, operands n a b ->
  limbs_eqb a b = (value a =? value b) /\ limbs_eqb a b = (svalue a =? svalue b) /\
  u_lt a b = (value a <? value b) /\ u_gt a b = (value a >? value b) /\
  s_lt a b = (svalue a <? svalue b) /\ s_gt a b = (svalue a >? svalue b).
Proof.
  intros n a b (Hn & La & Lb & Ha & Hb). subst n.
  assert (L : length a = length b) by congruence.
  assert (Hne : a <> []) by (intros E; subst a; apply Hn; reflexivity).
  repeat split.
  - apply limbs_eqb_correct; auto.
  - rewrite limbs_eqb_correct; auto. apply value_inj_s; auto.
  - apply u_lt_correct; auto.
  - apply u_gt_correct; auto.
  - apply s_lt_correct; auto.
  - apply s_gt_correct; auto.
Qed.
Print Assumptions C16_cmp.

Theorem C16_not : forall a, value (not_limbs a) = modulus (length a) - 1 - value a.
Proof. exact not_limbs_value. Qed.
Print Assumptions C16_not.

Theorem C16_conv64 : forall n a x, n <> O -> length a = n -> limbs_ok a -> limb_ok x ->
  value (from_u64 n x) = x /\
  value (from_i64 n x) = (if x >=? 2 ^ 63 then x - B else x) mod modulus n /\
  to_u64 a = value a mod B.
Proof.
  intros n a x Hn La Ha Hx. repeat split.
  - apply from_u64_correct, Hn.
  - apply from_i64_correct; auto.
  - apply to_u64_correct; auto. intros E. subst a. apply Hn. symmetry. exact La.
Qed.
Print Assumptions C16_conv64.

(* exponentiation by squaring: the loop never runs out of fuel (N+1 iterations) and yields base^exp mod 2^N *)
Theorem C16_pow : forall n a b, operands n a b ->
  (exists r, u_pow a b = Some r /\ value r = (value a ^ value b) mod modulus n) /\
  (0 <= svalue b -> exists r, s_pow a b = Some r /\ svalue r = wrapS (modulus n) (svalue a ^ svalue b)).
Proof.
  intros n a b (Hn & La & Lb & Ha & Hb). subst n.
  assert (L : length a = length b) by congruence.
  assert (Hne : a <> []) by (intros E; subst a; apply Hn; reflexivity).
  split.
  - destruct (u_pow_correct a b L Ha Hb Hne) as (r & E & V & _). exists r. auto.
  - intros Hp. apply s_pow_correct; auto.
Qed.
Print Assumptions C16_pow.

(* number -> decimal text (unsigned, at most four limbs): the digit loop stays inside digits[80], emits decimal
   digits only, and the text denotes the number *)
Theorem C16_to_decimal : forall a, limbs_ok a -> (length a <= 4)%nat ->
  exists s, u_to_string a = Some s /\ all_digits 10 s /\ num 10 s 0 = value a.
Proof. exact to_decimal_correct. Qed.
Print Assumptions C16_to_decimal.

(* signed number -> text: the digits of the value, or '-' and the digits of the magnitude (also for -2^(N-1)) *)
Theorem C16_to_decimal_signed : forall a, limbs_ok a -> a <> [] -> (length a <= 4)%nat ->
  exists s, s_to_string a = Some s /\
    (0 <= svalue a -> all_digits 10 s /\ num 10 s 0 = svalue a) /\
    (svalue a < 0 -> exists d, s = 45 :: d /\ all_digits 10 d /\ num 10 d 0 = - svalue a).
Proof. exact s_to_string_correct. Qed.
Print Assumptions C16_to_decimal_signed.

(* text -> number for decimal digit strings ('_' separators allowed, any length, so overflow wraps): the whole of
   ferret_parse_uint + the *_from_string wrappers, with and without a leading '-' *)
Theorem C16_from_decimal : forall n s, n <> O -> all_digits 10 s -> has_digit s ->
  value (u_from_string n s) = (num 10 s 0) mod modulus n /\
  svalue (s_from_string n s) = wrapS (modulus n) (num 10 s 0) /\
  svalue (s_from_string n (45 :: s)) = wrapS (modulus n) (- num 10 s 0).
Proof.
  intros n s Hn H D. split; [apply u_from_string_correct; auto|].
  split; [apply s_from_string_plain_correct; auto | apply s_from_string_minus_correct; auto].
Qed.
Print Assumptions C16_from_decimal.

(* round trip: printing an unsigned value and reading the text back yields the same limbs' value *)
Theorem C16_decimal_roundtrip : forall a, limbs_ok a -> a <> [] -> (length a <= 4)%nat ->
  exists s, u_to_string a = Some s /\ value (u_from_string (length a) s) = value a.
Proof. exact decimal_roundtrip. Qed.
Print Assumptions C16_decimal_roundtrip.

(* ferret_div_mod_u_limbs through ferret_u*_div / ferret_u*_mod: floor quotient and remainder (divisor <> 0).
   Loop invariant (Proofs/BigintDivP.v divmod_go_spec): after the bits above k, quot = Q * 2^k,
   numer / 2^k = Q * denom + rem and rem < denom; the shifted remainder never overflows N bits. *)
Theorem C16_divmod_u : forall n a b, operands n a b -> value b <> 0 ->
  value (u_div a b) = value a / value b /\ value (u_mod a b) = value a mod value b.
Proof. exact all_divmod_u. Qed.
Print Assumptions C16_divmod_u.

(* signed division truncates towards zero (Z.quot), wrapped: MIN / -1 = 2^(N-1) wraps to MIN *)
Theorem C16_div_s : forall n a b, operands n a b -> svalue b <> 0 ->
  svalue (s_div a b) = wrapS (modulus n) (Z.quot (svalue a) (svalue b)).
Proof. exact all_div_s. Qed.
Print Assumptions C16_div_s.

(* signed remainder has the sign of the dividend (Z.rem) *)
Theorem C16_mod_s : forall n a b, operands n a b -> svalue b <> 0 ->
  svalue (s_mod a b) = wrapS (modulus n) (Z.rem (svalue a) (svalue b)).
Proof. exact all_mod_s. Qed.
Print Assumptions C16_mod_s.

Theorem C16_min_div_minus_one : forall n a b, operands n a b ->
  svalue a = - (modulus n / 2) -> svalue b = -1 ->
  svalue (s_div a b) = - (modulus n / 2) /\ svalue (s_mod a b) = 0.
Proof. exact min_div_m1. Qed.
Print Assumptions C16_min_div_minus_one.

(* shifts, every count: k <= 0 is the identity (as the code defines it), k >= N gives 0 (or -1 for sar of a
   negative value) because the formulas below do *)
Theorem C16_shl : forall a k, limbs_ok a ->
  value (shift_left_limbs a k) = if k <=? 0 then value a else (value a * 2 ^ k) mod modulus (length a).
Proof. exact all_shl. Qed.
Print Assumptions C16_shl.

Theorem C16_shr : forall a k, limbs_ok a ->
  value (shift_right_limbs a k) = if k <=? 0 then value a else value a / 2 ^ k.
Proof. exact all_shr. Qed.
Print Assumptions C16_shr.

(* arithmetic shift of the two's complement value: floor division by 2^k (repaired code: returns after the copy
   for k <= 0, fixes/C16-shr-negative-count.patch) *)
Theorem C16_sar : forall a k, limbs_ok a -> a <> [] ->
  svalue (shift_right_signed_limbs a k) = if k <=? 0 then svalue a else svalue a / 2 ^ k.
Proof. exact all_sar. Qed.
Print Assumptions C16_sar.

Theorem C16_bitwise : forall n a b, operands n a b ->
  value (and_limbs a b) = Z.land (value a) (value b) /\
  value (or_limbs a b) = Z.lor (value a) (value b) /\
  value (xor_limbs a b) = Z.lxor (value a) (value b).
Proof. exact all_bitwise. Qed.
Print Assumptions C16_bitwise.

(* text -> number, the part proved: the digit loop of ferret_parse_uint accumulates the denoted number modulo 2^N
   (any base, '_' skipped); sign, prefix and the number -> text direction are covered by correspondence only *)
Theorem C16_parse_digits_partial : forall s base out any, all_digits base s ->
  exists q, value (fst (parse_digits s base out any)) = num base s (value out) + modulus (length out) * q.
Proof.
  intros s base out any H. destruct (parse_digits_cong s base out any H) as [q [E _]]. exists q. exact E.
Qed.
Print Assumptions C16_parse_digits_partial.

(* the full statement holds of the port: every operation the property names, all operands, every limb count.
   (Outside it, and tied by correspondence only: text -> number beyond decimal digit strings with an optional '-':
   prefixes 0x/0o/0b, '+', leading white space, stopping at the first bad character; division by zero and
   negative exponents return 0.) *)
Theorem C16_all : C16_full.
Proof. exact full_holds. Qed.
Print Assumptions C16_all.

(* non-vacuity: concrete limb-boundary operands satisfy the hypotheses, and the carry / borrow really travels
   through an all-ones / all-zero interior limb *)
Theorem C16_nonvacuous :
  operands 4 [LMAX; LMAX; LMAX; 0] [1; 0; 0; 0] /\
  add_limbs [LMAX; LMAX; LMAX; 0] [1; 0; 0; 0] = [0; 0; 0; 1] /\
  sub_limbs [0; 0; 0; 0] [1; LMAX; 0; 0] = [LMAX; 0; LMAX; LMAX] /\
  sub_limbs_orig [0; 0; 0; 0] [1; LMAX; 0; 0] = [LMAX; 0; 0; 0] /\
  operands 2 [0; 2 ^ 63] [LMAX; LMAX] /\
  s_mul [0; 2 ^ 63] [LMAX; LMAX] = [0; 2 ^ 63] /\
  svalue [0; 2 ^ 63] = - 2 ^ 127 /\ svalue [LMAX; LMAX] = -1.
Proof.
  assert (O4 : operands 4 [LMAX; LMAX; LMAX; 0] [1; 0; 0; 0]).
  { unfold operands. split; [discriminate|]. split; [reflexivity|]. split; [reflexivity|].
    split; apply limbs_okb_ok; vm_compute; reflexivity. }
  assert (O2 : operands 2 [0; 2 ^ 63] [LMAX; LMAX]).
  { unfold operands. split; [discriminate|]. split; [reflexivity|]. split; [reflexivity|].
    split; apply limbs_okb_ok; vm_compute; reflexivity. }
  split; [exact O4|]. split; [vm_compute; reflexivity|]. split; [vm_compute; reflexivity|].
  split; [vm_compute; reflexivity|]. split; [exact O2|]. split; [vm_compute; reflexivity|].
  split; vm_compute; reflexivity.
Qed.
Print Assumptions C16_nonvacuous.

(* non-vacuity of the division / shift theorems: the witness of the original defect (2^128 mod (2^128 - 2^64 + 1)),
   MIN / -1, and shifts across a limb boundary *)
Theorem C16_nonvacuous_div :
  operands 4 [0; 0; 1; 0] [1; LMAX; 0; 0] /\ value [1; LMAX; 0; 0] <> 0 /\
  u_mod [0; 0; 1; 0] [1; LMAX; 0; 0] = [LMAX; 0; 0; 0] /\
  operands 2 [0; 2 ^ 63] [LMAX; LMAX] /\ svalue [0; 2 ^ 63] = - (modulus 2 / 2) /\ svalue [LMAX; LMAX] = -1 /\
  s_div [0; 2 ^ 63] [LMAX; LMAX] = [0; 2 ^ 63] /\
  shift_right_signed_limbs [0; 2 ^ 63] 127 = [LMAX; LMAX] /\
  shift_left_limbs [LMAX; LMAX] 65 = [0; 2 ^ 64 - 2].
Proof.
  assert (O4 : operands 4 [0; 0; 1; 0] [1; LMAX; 0; 0]).
  { unfold operands. split; [discriminate|]. split; [reflexivity|]. split; [reflexivity|].
    split; apply limbs_okb_ok; vm_compute; reflexivity. }
  assert (O2 : operands 2 [0; 2 ^ 63] [LMAX; LMAX]).
  { unfold operands. split; [discriminate|]. split; [reflexivity|]. split; [reflexivity|].
    split; apply limbs_okb_ok; vm_compute; reflexivity. }
  split; [exact O4|]. split; [vm_compute; discriminate|]. split; [vm_compute; reflexivity|].
  split; [exact O2|]. split; [vm_compute; reflexivity|]. split; [vm_compute; reflexivity|].
  split; [vm_compute; reflexivity|]. split; vm_compute; reflexivity.
Qed.
Print Assumptions C16_nonvacuous_div.
