(* C12 — Visibility by capitalisation is enforced across modules and types.
   Reference model Models/Vis.v (ported rules: strings.IsCapitalized, resolver.resolveStaticAccess / resolveExpr /
   resolveTypeNode, typechecker.checkSelectorExpr), written for the behaviour after fixes/C12-visibility-contexts.patch
   and tied to the compiler on every run by harness/c12.py.  Syntactic positions are the `step` relation of
   Proofs/VisP.v (one rule per child position of every expression, statement and type form, with the receiver
   visibility threaded through shadowing binders); `access_site P M y` says that y occurs, at any depth, in some
   declaration of module M of project P. *)
From Coq Require Import List String ZArith.
From FV Require Import Models.Vis Proofs.VisP Proofs.VisExact.
Import ListNotations.
Open Scope string_scope.

(* Symbol.Exported: a name is exported iff its first byte is in 'A'..'Z' *)
Theorem C12_exported_iff_capital :
  forall s, exported s = true <-> exists c tl, s = String c tl /\ (65 <= Ascii.nat_of_ascii c <= 90)%nat.
Proof. exact is_capitalized_spec. Qed.
Print Assumptions C12_exported_iff_capital.

(* context closure, module symbols in expression positions: a private function / constant / variable / type of another
   module named as m::n in ANY position of ANY declaration makes the project fail with that diagnostic *)
Theorem C12_closure_module_symbol_expr :
  forall P M r m n path,
    access_site P M (r, NE (EQual m n)) -> forbidden_qual P M.(m_imports) m n path ->
    In (VNotExported path n) (check_project P) /\ project_ok P = false.
Proof. exact closure_project_qual_e. Qed.
Print Assumptions C12_closure_module_symbol_expr.

(* ... and in type positions (annotation, parameter, return, field, element, cast target, closure signature ...) *)
Theorem C12_closure_module_symbol_type :
  forall P M r m n path,
    access_site P M (r, NT (TQual m n)) -> forbidden_qual P M.(m_imports) m n path ->
    In (VNotExported path n) (check_project P) /\ project_ok P = false.
Proof. exact closure_project_qual_t. Qed.
Print Assumptions C12_closure_module_symbol_type.

(* context closure, private fields: e.f with f lowercase, anywhere (read, assignment target, compound assignment, ++,
   range bound ...), is rejected unless e is the identifier that denotes the receiver at that point *)
Theorem C12_closure_private_field :
  forall P M r b f,
    access_site P M (r, NE (ESel b f)) -> forbidden_sel r b f ->
    In (VPrivateField f) (check_project P) /\ project_ok P = false.
Proof. exact closure_project_sel. Qed.
Print Assumptions C12_closure_private_field.

(* exported symbols and fields remain accessible everywhere *)
Theorem C12_exported_symbol_ok :
  forall P imps m n path M,
    assoc m imps = Some path -> lookup_mod P path = Some M -> declares M n = true -> exported n = true ->
    static_access P imps m n = [].
Proof. exact exported_qual_ok. Qed.
Print Assumptions C12_exported_symbol_ok.

Theorem C12_exported_field_ok :
  forall P imps r b f, exported f = true -> chk_e P imps r (ESel b f) = chk_e P imps r b.
Proof. exact exported_sel_ok. Qed.
Print Assumptions C12_exported_field_ok.

(* no visibility diagnostic is ever raised for an uppercase name, in any project *)
Theorem C12_only_lowercase_rejected :
  forall P z, In z (check_project P) ->
    match z with
    | VNotExported _ n => is_capitalized n = false
    | VPrivateField f => is_capitalized f = false
    | _ => True
    end.
Proof. exact visibility_errors_lowercase. Qed.
Print Assumptions C12_only_lowercase_rejected.

(* private fields are accessible through the receiver inside a method *)
Theorem C12_receiver_field_ok :
  forall P imps x f, chk_e P imps (Some x) (ESel (EVar x) f) = [].
Proof. exact recv_sel_ok. Qed.
Print Assumptions C12_receiver_field_ok.

(* struct literals may initialise private fields: the initialised names are never checked *)
Theorem C12_literal_ok :
  forall P imps r l, chk_e P imps r (EStruct (lit_inits l)) = [].
Proof. exact literal_ok. Qed.
Print Assumptions C12_literal_ok.

Theorem C12_literal_step :
  forall P imps r f v rest,
    chk_e P imps r (EStruct (EInit f v rest)) = (chk_e P imps r v ++ chk_e P imps r (EStruct rest))%list.
Proof. exact literal_step. Qed.
Print Assumptions C12_literal_step.

(* exactness: check_project raises z iff z is raised at some position occurring in some declaration of some module
   (so the closure theorems above lose nothing, and nothing else is ever reported) *)
Theorem C12_exact :
  forall P z, In z (check_project P) <-> offending P z.
Proof. exact check_project_exact. Qed.
Print Assumptions C12_exact.

(* a project is accepted iff no position holds an offending access *)
Theorem C12_accepted_iff_no_offending_access :
  forall P, project_ok P = true <-> (forall z, ~ offending P z).
Proof. exact project_ok_exact. Qed.
Print Assumptions C12_accepted_iff_no_offending_access.

(* what can be raised at a position: only m::n (expression or type) through resolveStaticAccess, or e.f with f
   lowercase and e not the receiver identifier *)
Theorem C12_offending_forms :
  forall P imps y z, leaf_err P imps y z ->
    (exists m n, (snd y = NE (EQual m n) \/ snd y = NT (TQual m n)) /\ In z (static_access P imps m n)) \/
    (exists b f, snd y = NE (ESel b f) /\ z = VPrivateField f /\ exported f = false /\ is_recv (fst y) b = false).
Proof. exact leaf_err_cases. Qed.
Print Assumptions C12_offending_forms.

(* the rule implemented by the compiler does not cover methods: a lowercase method declared in another module is
   callable (open finding F-C12-PRIVATE-METHOD; replayed on the implementation by harness/c12.py) *)
Theorem C12_private_method_refuted :
  exists P M L r b m args,
    In L P /\ L <> M /\
    access_site P M (r, NE (EMeth b m args)) /\
    exported m = false /\
    (exists rv rty ps rt body, In (DMethod rv rty m ps rt body) L.(m_decls)) /\
    project_ok P = true.
Proof. exact private_method_refuted. Qed.
Print Assumptions C12_private_method_refuted.

(* the hypotheses of the three closure theorems are satisfiable (range bound, element type of a parameter, compound
   assignment target), and a project with exported accesses, a receiver access inside a closure of a method and a
   literal initialising a private field is accepted *)
Theorem C12_nonvacuous :
  (access_site [ex_lib; ex_main_bad] ex_main_bad (None, NE (EQual "lib" "secret")) /\
   forbidden_qual [ex_lib; ex_main_bad] ex_main_bad.(m_imports) "lib" "secret" "proj/lib") /\
  (access_site [ex_lib; ex_main_bad_ty] ex_main_bad_ty (None, NT (TQual "lib" "hidden")) /\
   forbidden_qual [ex_lib; ex_main_bad_ty] ex_main_bad_ty.(m_imports) "lib" "hidden" "proj/lib") /\
  (access_site [ex_lib; ex_main_bad_fld] ex_main_bad_fld (None, NE (ESel (EVar "q") "y")) /\
   forbidden_sel None (EVar "q") "y") /\
  project_ok [ex_lib; ex_main_ok] = true.
Proof. exact nonvacuous. Qed.
Print Assumptions C12_nonvacuous.
