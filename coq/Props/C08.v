(* C08 — Dynamic arrays and strings are bounds-checked at run time, not mis-rejected. *)
From Coq Require Import ZArith List Bool.
From FV Require Import Models.Bounds Proofs.BoundsP.
Import ListNotations.
Open Scope Z_scope.

(* (a) The check generated for an index of any of the 13 integer types, for every value of that type and every
   length an array or string can have: it yields the normalised position exactly when the index is valid for the
   current length, and panics otherwise. *)
Theorem C08_check_exact :
  forall t v len, in_ty t v -> 0 <= len < 2147483648 ->
  index_i32 t v len = if valid_index v len then Some (norm_index v len) else None.
Proof. exact index_i32_exact. Qed.
Print Assumptions C08_check_exact.

Theorem C08_check_some :
  forall t v len k, in_ty t v -> 0 <= len < 2147483648 -> index_i32 t v len = Some k ->
  0 <= k < len /\ -len <= v < len /\ k = (if v <? 0 then v + len else v).
Proof. exact index_i32_some. Qed.
Print Assumptions C08_check_some.

Theorem C08_check_none :
  forall t v len, in_ty t v -> 0 <= len < 2147483648 -> (index_i32 t v len = None <-> ~ (-len <= v < len)).
Proof. exact index_i32_none. Qed.
Print Assumptions C08_check_none.

(* The property for every straight-line history (literal construction, append, re-assignment by a literal,
   element assignment, indexing of the array and of a string with literal / constant / opaque indices of any
   integer type and through any access path, len, prints, and calls that hand the array by plain name to a user
   function which appends k >= 0 elements or only reads): either the program is accepted and what reaches the pipe, and how the program ends
   (exit 0 / "panic: index out of bounds" with a non-zero status), is exactly what the list semantics `spec`
   prescribes — every valid index (negative ones and positions created by appends included) yields the stored
   element, the first invalid one panics, all lines printed before the panic are delivered — or it is rejected
   at compile time and then it really does index out of range. *)
Theorem C08_run_refines_spec :
  forall p, prog_wf p ->
  (run p = (true, fst (spec_run p), snd (spec_run p))) \/
  (run p = (false, [], Exited) /\ snd (spec_run p) = Panicked).
Proof. exact run_refines_spec. Qed.
Print Assumptions C08_run_refines_spec.

(* (b) not mis-rejected: a history all of whose indices are valid for the current length is accepted *)
Theorem C08_not_mis_rejected :
  forall p, snd (spec_run p) = Exited -> static_accepts p = true.
Proof. exact not_mis_rejected. Qed.
Print Assumptions C08_not_mis_rejected.

(* (c) lines printed before a panic are delivered: the panic path hands the whole stdio buffer to the pipe *)
Theorem C08_panic_delivers_buffer :
  forall c, delivered (ch_panic c) = delivered c ++ buffered c.
Proof. exact panic_flush_delivers. Qed.
Print Assumptions C08_panic_delivers_buffer.

(* the runtime array agrees with the list it represents: a checked read returns the stored element, a checked
   write changes exactly that element *)
Theorem C08_get_stored :
  forall a l k, inv a l -> 0 <= k < Z.of_nat (length l) -> rt_get a k = Some (nth (Z.to_nat k) l 0).
Proof. exact rt_get_ok. Qed.
Print Assumptions C08_get_stored.

Theorem C08_set_frame :
  forall l k j v, j <> k -> nth j (upd l k v) 0 = nth j l 0.
Proof. exact upd_nth_other. Qed.
Print Assumptions C08_set_frame.

Theorem C08_set_stores :
  forall l k v, (k < length l)%nat -> nth k (upd l k v) 0 = v.
Proof. exact upd_nth_same. Qed.
Print Assumptions C08_set_stores.

(* The outcome of an access depends only on (length, index), not on how the container is reached: replacing every
   access path (by-value / & / &' parameter, reference local, struct field by value or through a reference,
   element of an array of containers) by the direct local leaves the generated-code model and the reference
   unchanged. The correspondence run ranges over the paths; this is what it is compared against. *)
Theorem C08_path_irrelevant_exec :
  forall mem ops a c, exec mem (map direct_op ops) a c = exec mem ops a c.
Proof. exact exec_path_irrelevant. Qed.
Print Assumptions C08_path_irrelevant_exec.

Theorem C08_path_irrelevant_spec :
  forall str ops l out, spec str (map direct_op ops) l out = spec str ops l out.
Proof. exact spec_path_irrelevant. Qed.
Print Assumptions C08_path_irrelevant_spec.

(* why the three repairs are needed: the code before them violates the property (witnesses replayed by the harness) *)
Theorem C08_trunc_refuted :
  in_ty I64 4294967296 /\ index_i32_trunc I64 4294967296 3 = Some 0 /\
  in_ty U32 4294967295 /\ index_i32_trunc U32 4294967295 3 = Some 2 /\
  in_ty U64 18446744073709551615 /\ index_i32_trunc U64 18446744073709551615 3 = Some 2.
Proof. exact trunc_wide_index_wrong. Qed.
Print Assumptions C08_trunc_refuted.

Theorem C08_stale_tracker_refuted :
  static_ops_stale (Some 3) (p_ops append_witness) = false /\ spec_run append_witness = ([4], Exited) /\
  static_accepts append_witness = true.
Proof. exact stale_tracker_misrejects. Qed.
Print Assumptions C08_stale_tracker_refuted.

Theorem C08_byvalue_tracker_refuted :
  static_ops_byvalue (Some 3) (p_ops grow_witness) = false /\ spec_run grow_witness = ([40; 1; 51], Exited) /\
  run grow_witness = (true, [40; 1; 51], Exited).
Proof. exact byvalue_tracker_misrejects. Qed.
Print Assumptions C08_byvalue_tracker_refuted.

Theorem C08_noflush_refuted :
  delivered (ch_panic_noflush (ch_println ch_empty 7)) = [] /\ delivered (ch_panic (ch_println ch_empty 7)) = [7].
Proof. exact panic_noflush_loses. Qed.
Print Assumptions C08_noflush_refuted.

(* non-vacuity: a well-formed history exercising appends, negative / wide / constant indices, assignment, string
   indexing and a final out-of-range wide index *)
Theorem C08_nonvacuous :
  prog_wf demo /\ run demo = (true, [50; 10; 99; 121; 5; 70; 11; 7], Panicked) /\ spec_run demo = ([50; 10; 99; 121; 5; 70; 11; 7], Panicked).
Proof. exact (conj demo_wf demo_runs). Qed.
Print Assumptions C08_nonvacuous.

(* Not covered by a theorem (recorded in the evidence): programs with control flow around the array — the static
   tracker is flow-insensitive, see the open finding F-C08-STATIC-FLOW; histories are straight-line, which is the
   quantifier of C08. *)
