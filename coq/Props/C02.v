(* C02 — the QBE (native) and WebAssembly back ends agree.
   (1) instruction selection: over the two tables regenerated from the emitters on every run, every (operator, type)
       row present in both denotes the same value for all canonical operands;
   (2) layout: the store/load non-interference and copy theorems of C18 hold at both pointer sizes (8 native, 4 wasm),
       so field order and the values read back coincide although offsets differ.
   Program-level agreement (control flow, calls, runtime imports) is tied by harness/c02.py. *)
From Coq Require Import ZArith List.
From FV Require Import Core.Syntax Core.Sem Models.Qbe Models.WasmSem Models.ISel Proofs.ISelThm
                       Models.Layout Proofs.LayoutP Proofs.LayoutThm gen.Gen_QbeSel gen.Gen_WasmSel.
Import ListNotations.
Local Open Scope Z_scope.

Theorem C02_isel_agree : forall k fq fw, In (k, fq) qbe_code -> In (k, fw) wasm_code ->
  forall rs, Forall2 canonV (argtys k) rs ->
  forall v, ref k (denotes (argtys k) rs) = Some v ->
  forall mq sp mw brk, exists r, qexec fq rs mq sp = Some r /\ wexec fw rs mw brk = Some r
                                 /\ canonV (resty k) r /\ denoteV (resty k) r = v.
Proof. exact isel_agree. Qed.
Print Assumptions C02_isel_agree.

Theorem C02_tables_cover : covers qbe_code = true /\ covers wasm_code = true.
Proof. exact isel_tables_cover. Qed.
Print Assumptions C02_tables_cover.

(* layout: what is written to a component is read back, everything else unchanged — for pointer size 8 and 4 alike *)
Theorem C02_layout_agree : forall ps, ps = 8 \/ ps = 4 ->
  forall t base m p o tp bs,
  wfz t -> resolve ps t p = Some (o, tp) -> Z.of_nat (length bs) = size_of ps tp ->
  load_bytes (store_bytes m (base + o) bs) (base + o) (length bs) = bs /\
  (forall q o2 tq, resolve ps t q = Some (o2, tq) -> paths_separate p q = true ->
     load_bytes (store_bytes m (base + o) bs) (base + o2) (Z.to_nat (size_of ps tq)) =
     load_bytes m (base + o2) (Z.to_nat (size_of ps tq))).
Proof.
  intros ps Hps t base m p o tp bs Hw Hr Hl.
  assert (Hp : 1 <= ps) by (destruct Hps; subst; discriminate).
  destruct (thm_store_load ps t base m p o tp bs Hp Hw Hr Hl) as [H1 [H2 _]]. split; assumption.
Qed.
Print Assumptions C02_layout_agree.
