(* C11 — Implicit numeric conversions never lose information.
   implicit_rows / cast_rows are the compiler's own verdicts, regenerated from /repo's working tree on every run
   (17 x 17 ordered pairs x 4 assignment-like positions, black box through `ferret -t`). *)
From Coq Require Import ZArith List.
From FV Require Import Models.Compat Proofs.CompatP Proofs.C11Table gen.Gen_Compat.

(* Whenever S is accepted where T is expected without a cast, every value of S is exactly representable in T. *)
Theorem C11_implicit_lossless :
  forall p s t, In (p, s, t) implicit_rows -> forall v, dom s v -> dom t v.
Proof. exact table_lossless. Qed.
Print Assumptions C11_implicit_lossless.

(* The decision procedure used above is exact: it answers true iff the value sets are nested. *)
Theorem C11_decision_exact :
  forall s t, contained_b s t = true <-> (forall v, dom s v -> dom t v).
Proof. exact contained_iff. Qed.
Print Assumptions C11_decision_exact.

(* in every assignment-like position the verdict is the same *)
Theorem C11_positions_agree :
  forall p q s t, In (p, s, t) implicit_rows -> In (q, s, t) implicit_rows.
Proof. exact table_positions_agree. Qed.
Print Assumptions C11_positions_agree.

(* all other numeric conversions require — and have — the explicit cast *)
Theorem C11_cast_available :
  forall s t, s <> t -> ~ In (PLet, s, t) implicit_rows -> In (s, t) cast_rows.
Proof. exact table_cast_available. Qed.
Print Assumptions C11_cast_available.

(* the same for user-declared named numeric types: named_rows lists the underlying (S, T) of every implicit conversion
   prim -> named, named -> prim, named -> named that the compiler accepts (let and argument positions) *)
Theorem C11_named_lossless :
  forall s t, In (s, t) named_rows -> forall v, dom s v -> dom t v.
Proof. exact table_named_lossless. Qed.
Print Assumptions C11_named_lossless.

(* and at the remaining sites where a typed value meets an expected numeric type: compound assignment, operands, const,
   struct field initialiser and assignment, array literal and element, optional, method argument *)
Theorem C11_other_sites_lossless :
  forall s t, In (s, t) other_rows -> forall v, dom s v -> dom t v.
Proof. exact table_other_lossless. Qed.
Print Assumptions C11_other_sites_lossless.

Theorem C11_nonvacuous :
  In (PLet, I8, I16) implicit_rows /\ In (PArg, U32, I64) implicit_rows /\ In (PRet, F32, F64) implicit_rows.
Proof. exact table_nonvacuous. Qed.
Print Assumptions C11_nonvacuous.
