(* C02 (binary encoders): what the wasm back end writes as a constant, an index, a length, a section or a
   locals declaration decodes, by the LEB128 / vector / section / locals grammar of the WebAssembly binary
   format, to exactly the value it was given -- for every value of the Go type and whatever bytes follow.
   Models/WasmEnc.v holds the ports of module.go's encodeU32 / encodeS32 / encodeS64 / encodeString /
   emitSection / encodeLocals / encodeLimits and the specification decoders; harness/c02enc.py ties the ports
   to the working tree on every run.  Only closed statements here. *)
From Coq Require Import ZArith List Bool.
From FV Require Import Models.WasmEnc Proofs.WasmEncP.
Import ListNotations.
Open Scope Z_scope.

(* ---- round trips through the specification decoder, any value of the type, any following bytes *)

Theorem C02_enc_u32_roundtrip : forall v rest, 0 <= v < 2 ^ 32 ->
  decode_u32 (encodeU32 v ++ rest) = Some (v, rest).
Proof. exact encU32_roundtrip. Qed.
Print Assumptions C02_enc_u32_roundtrip.

Theorem C02_enc_s32_roundtrip : forall v rest, - 2 ^ 31 <= v < 2 ^ 31 ->
  decode_s32 (encodeS32 v ++ rest) = Some (v, rest).
Proof. exact encS32_roundtrip. Qed.
Print Assumptions C02_enc_s32_roundtrip.

Theorem C02_enc_s64_roundtrip : forall v rest, - 2 ^ 63 <= v < 2 ^ 63 ->
  decode_s64 (encodeS64 v ++ rest) = Some (v, rest).
Proof. exact encS64_roundtrip. Qed.
Print Assumptions C02_enc_s64_roundtrip.

(* ---- shape: at most 5 / 5 / 10 bytes; every byte but the last is 128..255 (continuation bit set), the last
        is 0..127 (continuation bit clear) *)

Theorem C02_enc_u32_shape : forall v, 0 <= v < 2 ^ 32 ->
  (length (encodeU32 v) <= 5)%nat /\ leb_wf (encodeU32 v).
Proof. exact encU32_shape. Qed.
Print Assumptions C02_enc_u32_shape.

Theorem C02_enc_s32_shape : forall v, - 2 ^ 31 <= v < 2 ^ 31 ->
  (length (encodeS32 v) <= 5)%nat /\ leb_wf (encodeS32 v).
Proof. exact encS32_shape. Qed.
Print Assumptions C02_enc_s32_shape.

Theorem C02_enc_s64_shape : forall v, - 2 ^ 63 <= v < 2 ^ 63 ->
  (length (encodeS64 v) <= 10)%nat /\ leb_wf (encodeS64 v).
Proof. exact encS64_shape. Qed.
Print Assumptions C02_enc_s64_shape.

(* ---- the loops terminate within the fuel of the model (5 / 5 / 10 iterations), and more fuel changes nothing *)

Theorem C02_enc_fuel_sufficient :
  (forall v f, 0 <= v < 2 ^ 32 -> (5 <= f)%nat -> encodeU32_fuel f v = Some (encodeU32 v))
  /\ (forall v f, - 2 ^ 31 <= v < 2 ^ 31 -> (5 <= f)%nat -> encodeS_fuel 32 f v = Some (encodeS32 v))
  /\ (forall v f, - 2 ^ 63 <= v < 2 ^ 63 -> (10 <= f)%nat -> encodeS_fuel 64 f v = Some (encodeS64 v)).
Proof. exact (conj encU32_fuel_enough (conj encS32_fuel_enough encS64_fuel_enough)). Qed.
Print Assumptions C02_enc_fuel_sufficient.

(* ---- canonical shortest form: k bytes suffice for a value of 7k (signed: 7k including the sign) bits ... *)

Theorem C02_enc_shortest :
  (forall v k, 0 <= v < 2 ^ 32 -> (1 <= k)%nat ->
     v < 2 ^ (7 * Z.of_nat k) -> (length (encodeU32 v) <= k)%nat)
  /\ (forall v k, - 2 ^ 31 <= v < 2 ^ 31 -> (1 <= k)%nat ->
     - 2 ^ (7 * Z.of_nat k - 1) <= v < 2 ^ (7 * Z.of_nat k - 1) -> (length (encodeS32 v) <= k)%nat)
  /\ (forall v k, - 2 ^ 63 <= v < 2 ^ 63 -> (1 <= k)%nat ->
     - 2 ^ (7 * Z.of_nat k - 1) <= v < 2 ^ (7 * Z.of_nat k - 1) -> (length (encodeS64 v) <= k)%nat).
Proof. exact (conj encU32_shortest (conj encS32_shortest encS64_shortest)). Qed.
Print Assumptions C02_enc_shortest.

(* ---- ... and no byte string that the specification decoder reads as v is shorter than the encoder's *)

Theorem C02_enc_minimal :
  (forall v bs rest, 0 <= v < 2 ^ 32 ->
     decode_u32 (bs ++ rest) = Some (v, rest) -> (length (encodeU32 v) <= length bs)%nat)
  /\ (forall v bs rest, - 2 ^ 31 <= v < 2 ^ 31 ->
     decode_s32 (bs ++ rest) = Some (v, rest) -> (length (encodeS32 v) <= length bs)%nat)
  /\ (forall v bs rest, - 2 ^ 63 <= v < 2 ^ 63 ->
     decode_s64 (bs ++ rest) = Some (v, rest) -> (length (encodeS64 v) <= length bs)%nat).
Proof. exact (conj encU32_minimal (conj encS32_minimal encS64_minimal)). Qed.
Print Assumptions C02_enc_minimal.

(* ---- vectors of bytes (names, data), sections, limits *)

Theorem C02_enc_string_roundtrip : forall s rest, Z.of_nat (length s) < 2 ^ 32 ->
  decode_bytes (encodeString s ++ rest) = Some (s, rest).
Proof. exact encString_roundtrip. Qed.
Print Assumptions C02_enc_string_roundtrip.

Theorem C02_enc_section_roundtrip : forall id c rest, Z.of_nat (length c) < 2 ^ 32 ->
  parse_section (emitSection id c ++ rest) = Some (id, c, rest).
Proof. exact emitSection_roundtrip. Qed.
Print Assumptions C02_enc_section_roundtrip.

Theorem C02_enc_limits_roundtrip : forall v rest, 0 <= v < 2 ^ 32 ->
  decode_limits (encodeLimits v ++ rest) = Some (v, None, rest).
Proof. exact encLimits_roundtrip. Qed.
Print Assumptions C02_enc_limits_roundtrip.

(* ---- locals: the run-length groups expand back to the declared list, and the groups are maximal runs *)

Theorem C02_enc_locals_roundtrip : forall l rest,
  Forall (fun t => is_valtype t = true) l -> Z.of_nat (length l) < 2 ^ 32 ->
  decode_locals (encodeLocals l ++ rest) = Some (l, rest).
Proof. exact encLocals_roundtrip. Qed.
Print Assumptions C02_enc_locals_roundtrip.

Theorem C02_enc_locals_maximal_runs : forall l, no_equal_neighbours (local_groups l).
Proof. exact local_groups_neighbours. Qed.
Print Assumptions C02_enc_locals_maximal_runs.

(* ---- non-vacuity: concrete bytes (the LEB128 examples of the DWARF / WebAssembly documents and the extremes) *)

Theorem C02_enc_nonvacuous :
  encodeU32 624485 = [229; 142; 38]                                    (* E5 8E 26 *)
  /\ encodeS64 (-129) = [255; 126]                                     (* FF 7E *)
  /\ encodeS32 (-123456) = [192; 187; 120]                             (* C0 BB 78 *)
  /\ encodeS32 64 = [192; 0] /\ encodeS32 (-65) = [191; 127]
  /\ encodeU32 (2 ^ 32 - 1) = [255; 255; 255; 255; 15]
  /\ encodeS32 (- 2 ^ 31) = [128; 128; 128; 128; 120]
  /\ encodeS64 (2 ^ 63 - 1) = [255; 255; 255; 255; 255; 255; 255; 255; 255; 0]
  /\ encodeS64 (- 2 ^ 63) = [128; 128; 128; 128; 128; 128; 128; 128; 128; 127]
  /\ decode_s64 [255; 126; 7] = Some (-129, [7])
  /\ decode_u32 [128; 0] = Some (0, [])                                (* accepted by the grammar, not minimal *)
  /\ decode_u32 [255; 255; 255; 255; 16] = None                        (* 33rd bit set: rejected *)
  /\ decode_s32 [128; 128; 128; 128; 8] = None                         (* bad sign extension in the 5th byte *)
  /\ encodeLocals [127; 127; 126; 127] = [3; 2; 127; 1; 126; 1; 127]
  /\ decode_locals [3; 2; 127; 1; 126; 1; 127; 11] = Some ([127; 127; 126; 127], [11])
  /\ parse_section (emitSection 10 [1; 2; 3] ++ [4]) = Some (10, [1; 2; 3], [4]).
Proof. vm_compute. repeat split; reflexivity. Qed.
Print Assumptions C02_enc_nonvacuous.

(* ---- which encoder an `i32.const` immediate needs.  The immediate is a SIGNED LEB128 integer: written with the unsigned
   encoder, an address whose last 7-bit group has bit 6 set is read back negative.  This was the state of the tree for the
   initialiser of the __data_end global and for data-segment offsets (repaired by 43ac19e): with 9000 bytes of string
   literals after the data base 1024 the module declared __data_end = -6360. *)
Theorem C02_enc_i32_const_unsigned_refuted :
  decode_s32 (encodeU32 (1024 + 9000)) = Some (-6360, []) /\ decode_s32 (encodeS32 (1024 + 9000)) = Some (10024, []).
Proof. vm_compute. split; reflexivity. Qed.
Print Assumptions C02_enc_i32_const_unsigned_refuted.
