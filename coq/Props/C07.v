(* C07 — References obey aliasing-xor-mutation and never outlive their referent.
   BorLang conditions of if / while are a flag, a comparison reading a place, or a call taking a reference (a use of it);
   `else if` chains are SIf c1 A [SIf c2 B C] (the checker treats a nested IfStmt like a block holding only that if);
   the correspondence renders them with real `else if` syntax.
   Model: Models/Borrow.v = port of internal/hir/analysis/borrow.go over BorLang (`bc`, `accept`), the loan-liveness
   specification `safe`, and a store model (`vget`/`vset`) for write-through.  The port is tied to the working tree on
   every run by harness/c07.py (diagnostic kinds per generated script; python oracle; program output).

   Full statement of the property over the model.  Its soundness conjunct is proved for all bodies (C07_sound_decl),
   write-through is proved (C07_write_through); the two completeness conjuncts are proved at the level of the
   primitives for all states (C07_complete_disjoint, C07_diverging_fields_disjoint) and decided at program level only
   for the places of the test structure (C07_complete_*_partial). *)
From Coq Require Import List Bool ZArith.
From FV Require Import Models.Borrow Proofs.BorrowP Proofs.BorrowP2 Proofs.BorrowSoundP.
Import ListNotations.

Definition C07_full : Prop :=
  (* soundness: every accepted well-formed body is safe under loan liveness, incl. no reference to a local returned *)
  (forall params body, wf body -> vscoped params body -> accept params body = true -> safe params body = true) /\
  (* completeness families: disjoint places and expired borrows never make the checker reject *)
  (forall m1 m2 p q, pathsOverlap p q = false -> accept [] (disjoint_prog m1 m2 p q) = true) /\
  (forall m p, accept [] (expired_prog m p) = true) /\
  (* write-through: the reference and its referent are the same store location *)
  (forall v p w v', vset v p w = Some v' ->
     vget v' p = Some w /\ (forall q, cdisjoint p q = true -> vget v' q = vget v q)).

(* --- algebra of the overlap test used by every conflict decision --- *)
Theorem C07_overlap_sym : forall a b, pathsOverlap a b = pathsOverlap b a.
Proof. exact pathsOverlap_sym. Qed.
Print Assumptions C07_overlap_sym.

(* pathsOverlap is exactly "one path is a prefix of the other, an index segment matching everything after it" *)
Theorem C07_overlap_prefix : forall a b, pathsOverlap a b = true <-> overlapR a b.
Proof. exact pathsOverlap_iff. Qed.
Print Assumptions C07_overlap_prefix.

Theorem C07_overlap_prefix_fields : forall a b, index_free a -> index_free b ->
  (pathsOverlap a b = true <-> (exists c, b = a ++ c) \/ (exists c, a = b ++ c)).
Proof. exact pathsOverlap_prefix. Qed.
Print Assumptions C07_overlap_prefix_fields.

(* the checker's overlap never misses a true overlap of places (constant indices compared by value in the spec) *)
Theorem C07_overlap_conservative : forall a b, spec_overlap a b = true -> pathsOverlap a b = true.
Proof. exact spec_overlap_conservative. Qed.
Print Assumptions C07_overlap_conservative.

(* --- conflict detection by the primitives: every conflict with a loan that is present in `borrows` is reported (all
       states, all places): read vs &' loan, write vs any loan, new &' vs any loan, new & vs &' loan.  (These are the
       building blocks of C07_sound_decl below; the names are kept from the round in which only they were proved.) --- *)
Theorem C07_sound_read_partial : forall s pl e,
  In e (borrows s) -> e_base e = fst pl -> spec_overlap (snd pl) (e_path e) = true -> e_mut e = true ->
  adds_error s (checkRead pl s).
Proof. exact checkRead_detects. Qed.
Print Assumptions C07_sound_read_partial.

Theorem C07_sound_write_partial : forall s pl e,
  In e (borrows s) -> e_base e = fst pl -> spec_overlap (snd pl) (e_path e) = true ->
  adds_error s (checkWrite pl s).
Proof. exact checkWrite_detects. Qed.
Print Assumptions C07_sound_write_partial.

Theorem C07_sound_borrow_partial : forall s b p m tag e,
  In e (borrows s) -> e_base e = b -> spec_overlap p (e_path e) = true -> (m = true \/ e_mut e = true) ->
  fst (addBorrow b p m tag s) = false /\ adds_error s (snd (addBorrow b p m tag s)).
Proof. exact addBorrow_detects. Qed.
Print Assumptions C07_sound_borrow_partial.

(* bounded: all scripts of <= 2 statements over 41 atoms (5 places, 3 references, calls, copies) in 5 shapes
   (flat, block, while, if, inner block) after `let p`: accepted and well-formed implies safe *)
Theorem C07_sound_bounded_partial : bounded_sound 2 = true.
Proof. exact bounded_sound_2. Qed.
Print Assumptions C07_sound_bounded_partial.

(* --- soundness, unbounded: for every BorLang body (any length, any nesting of blocks / if / while; references
       introduced by `let r = &pl | &'pl | r2`), if every reference is declared once (wf) and every variable is declared
       before a borrow of it (vscoped: the front end rejects the opposite), then acceptance by the ported checker implies
       safety under loan liveness: no read/write/borrow of a place overlapping a live conflicting loan (liveness = the
       reference is mentioned in the continuation, true place overlap), and no returned reference designates a local or a
       by-value parameter.  Proof: invariant "every loan the specification considers live is in `borrows` and `bindings`";
       computeLastUse returns an index >= every statement mentioning the reference, releaseExpiredRefs at i only removes
       references whose last use is <= i, popScope only removes references of the closed block. --- *)
Theorem C07_sound_decl : forall params body,
  wf body -> vscoped params body -> accept params body = true -> safe params body = true.
Proof. exact sound_decl. Qed.
Print Assumptions C07_sound_decl.

(* the same with decidable hypotheses (this is what the harness evaluates on every generated script) *)
Theorem C07_sound_decl_decidable : forall params body,
  wfb body = true -> vsL (params ++ varsDeep body) params body = true ->
  accept params body = true -> safe params body = true.
Proof. exact sound_decl_b. Qed.
Print Assumptions C07_sound_decl_decidable.

(* the scoping hypothesis cannot be dropped: `locals` is filled in traversal order, so `return &v` placed before
   `let v` is accepted by the checker (such a program never reaches it: the front end rejects the undeclared variable) *)
Theorem C07_sound_scoping_needed : exists body, wf body /\ accept [] body = true /\ safe [] body = false.
Proof. exact sound_needs_scoping. Qed.
Print Assumptions C07_sound_scoping_needed.

(* non-vacuity of C07_sound_decl: a nested body (if on a place, inner block with its own local, while with a re-declared
   reference, copy, call with temporaries, return of the reference parameter) satisfies all three hypotheses *)
Theorem C07_sound_decl_nonvacuous : wf demo_body /\ vscoped [3] demo_body /\ accept [3] demo_body = true.
Proof. exact demo_hyps. Qed.
Print Assumptions C07_sound_decl_nonvacuous.

(* --- completeness --- *)
(* primitives, all states: a place disjoint from every loan of its base is read, written and borrowed without error *)
Theorem C07_complete_disjoint : forall s pl m tag,
  disjoint_from (fst pl) (snd pl) (borrows s) ->
  checkRead pl s = s /\ checkWrite pl s = s /\
  addBorrow (fst pl) (snd pl) m tag s = (true, setBorrows (borrows s ++ [mkE (fst pl) (snd pl) m tag]) s).
Proof. exact complete_disjoint_prims. Qed.
Print Assumptions C07_complete_disjoint.

(* places that diverge at a field (before any index) are disjoint for the checker, whatever follows *)
Theorem C07_diverging_fields_disjoint : forall pre f g a b,
  index_free pre -> f <> g -> pathsOverlap (pre ++ SF f :: a) (pre ++ SF g :: b) = false.
Proof. exact diverging_fields_disjoint. Qed.
Print Assumptions C07_diverging_fields_disjoint.

(* program level, partial (decided for the 14 places of the test structure x both mutabilities, not for all paths):
   two live references to non-overlapping places are accepted and safe *)
Theorem C07_complete_disjoint_partial : disjoint_family = true.
Proof. exact complete_disjoint_family. Qed.
Print Assumptions C07_complete_disjoint_partial.

(* borrows whose last use has passed: the place is written, read and mutably re-borrowed afterwards *)
Theorem C07_complete_expired_partial : expired_family = true.
Proof. exact complete_expired_family. Qed.
Print Assumptions C07_complete_expired_partial.

(* non-vacuity of the rejection side: while the reference is still used, write (both kinds) / read (&') is rejected,
   and a read under a shared reference is accepted *)
Theorem C07_live_rejected_partial : live_family = true.
Proof. exact live_family_rejected. Qed.
Print Assumptions C07_live_rejected_partial.

(* scope exit ends a loan; a reference to a local / to a by-value parameter (directly or through a reference variable)
   is not returned; returning a copy of the reference parameter is accepted *)
Theorem C07_scope_and_return_partial : scope_return_family = true.
Proof. exact scope_return_family_ok. Qed.
Print Assumptions C07_scope_and_return_partial.

(* --- write-through --- *)
Theorem C07_write_through : forall v p w v',
  vset v p w = Some v' ->
  vget v' p = Some w /\ (forall q, cdisjoint p q = true -> vget v' q = vget v q).
Proof. exact write_through_both. Qed.
Print Assumptions C07_write_through.

(* non-vacuity: a concrete store, a reference to p.Ns[1].V, a write through it, reads of the place and of a sibling *)
Theorem C07_nonvacuous :
  let v := VRec [(0, VInt 1); (4, VArr [VRec [(5, VInt 8); (6, VInt 9)]; VRec [(5, VInt 10); (6, VInt 11)]])] in
  (exists v', vset v [CF 4; CI 1; CF 6] (VInt 42) = Some v' /\ vget v' [CF 4; CI 1; CF 6] = Some (VInt 42)
              /\ vget v' [CF 4; CI 1; CF 5] = Some (VInt 10)) /\
  accept [3] [SVar 0; SLet 0 true (0, [SF 2]); SWt 0; SLet 1 false (0, [SF 0]); SRead (0, [SF 2; SF 5]); SUse 1; SRetRef 100] = true /\
  safe [3] [SVar 0; SLet 0 true (0, [SF 2]); SWt 0; SLet 1 false (0, [SF 0]); SRead (0, [SF 2; SF 5]); SUse 1; SRetRef 100] = true /\
  accept [3] [SVar 0; SLet 0 true (0, [SF 2]); SRead (0, [SF 2; SF 5]); SWt 0] = false.
Proof. cbv zeta. split; [eexists; repeat split; vm_compute; reflexivity | repeat split; vm_compute; reflexivity]. Qed.
Print Assumptions C07_nonvacuous.
