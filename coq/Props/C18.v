(* C18 — Composite values keep every component intact (layout soundness).
   Model: Models/Layout.v, a port of internal/mir/layout.go (SizeOf, AlignOf, StructLayout, alignTo, clampAlign) and of
   the offset consumers (optional flag offset, qbe resultTagOffset, element and field addresses), tied to the working
   tree on every run by harness/c18.py (hook `layout`, both pointer sizes) and by generated programs.
   ps is the pointer size; `wfz` = sizes and array lengths are not negative (enough for non-interference);
   `wf` = primitive sizes are powers of two (needed only for the alignment statements);
   a component is named by a path of steps (field i / element i / optional payload / optional flag /
   result ok / result err / result tag); `paths_separate p q` = the paths first differ in two steps naming
   different storage (different fields or elements, payload vs discriminant). *)
From Coq Require Import ZArith List.
From FV Require Import Models.Layout Proofs.LayoutP Proofs.LayoutThm gen.Gen_C18Prims.
Import ListNotations.
Open Scope Z_scope.

(* alignments are positive, sizes are not negative *)
Theorem C18_align_pos : forall ps t, 1 <= ps -> wfz t -> 1 <= align_of ps t /\ 0 <= size_of ps t.
Proof. exact thm_align_pos. Qed.
Print Assumptions C18_align_pos.

(* the alignment is a power of two and divides the size (array elements i * SizeOf stay aligned) *)
Theorem C18_size_multiple : forall ps t, is_pow2 ps -> wf t ->
  is_pow2 (align_of ps t) /\ (align_of ps t | size_of ps t).
Proof. exact thm_size_multiple. Qed.
Print Assumptions C18_size_multiple.

(* struct fields: inside the struct, aligned, pairwise disjoint and in declaration order *)
Theorem C18_fields_disjoint_inside_aligned : forall ps fs i j oi ti oj tj, 1 <= ps -> wfz (TStruct fs) ->
  step_into ps (TStruct fs) (SField i) = Some (oi, ti) ->
  step_into ps (TStruct fs) (SField j) = Some (oj, tj) ->
  (0 <= oi /\ oi + size_of ps ti <= size_of ps (TStruct fs) /\ (align_of ps ti | oi)) /\
  (i <> j -> oi + size_of ps ti <= oj \/ oj + size_of ps tj <= oi) /\
  ((i < j)%nat -> oi + size_of ps ti <= oj).
Proof. exact thm_fields. Qed.
Print Assumptions C18_fields_disjoint_inside_aligned.

(* fixed array elements: inside the array and disjoint *)
Theorem C18_elems_disjoint_inside : forall ps n e i j, 1 <= ps -> wfz (TArr n e) -> 0 <= i < n -> 0 <= j < n ->
  (0 <= elem_offset ps e i /\ elem_offset ps e i + size_of ps e <= size_of ps (TArr n e)) /\
  (i < j -> elem_offset ps e i + size_of ps e <= elem_offset ps e j).
Proof. exact thm_elems. Qed.
Print Assumptions C18_elems_disjoint_inside.

(* the optional's flag byte (code generator, optional.c, map.c: at SizeOf(inner)) is after the payload and inside *)
Theorem C18_opt_flag_inside : forall ps i, 1 <= ps -> wfz i ->
  size_of ps i <= opt_flag_offset ps i /\ opt_flag_offset ps i + 1 <= size_of ps (TOpt i).
Proof. exact thm_opt_flag. Qed.
Print Assumptions C18_opt_flag_inside.

(* the result's tag byte (qbe resultTagOffset) is after both payloads and inside *)
Theorem C18_res_tag_inside : forall ps a b, 1 <= ps -> wfz a -> wfz b ->
  Z.max (size_of ps a) (size_of ps b) <= res_tag_offset ps a b /\
  res_tag_offset ps a b + 1 <= size_of ps (TRes a b).
Proof. exact thm_res_tag. Qed.
Print Assumptions C18_res_tag_inside.

(* layout.go's SizeOf reserves exactly the byte the consumers use for the discriminant *)
Theorem C18_consumers_agree : forall ps a b i, 1 <= ps -> wfz a -> wfz b -> wfz i ->
  size_of ps (TRes a b) = align_to (res_tag_offset ps a b + 1) (Z.max (Z.max (align_of ps a) (align_of ps b)) 1) /\
  size_of ps (TOpt i) = align_to (opt_flag_offset ps i + 1) (Z.max (align_of ps i) 1).
Proof. exact thm_consumers_agree. Qed.
Print Assumptions C18_consumers_agree.

(* any component at any depth lies inside the value *)
Theorem C18_component_inside : forall ps t p o tp, 1 <= ps -> wfz t -> resolve ps t p = Some (o, tp) ->
  0 <= o /\ o + size_of ps tp <= size_of ps t.
Proof. exact thm_component_inside. Qed.
Print Assumptions C18_component_inside.

(* any two separate components at any depth occupy disjoint byte ranges *)
Theorem C18_components_disjoint : forall ps t p q o1 t1 o2 t2, 1 <= ps -> wfz t ->
  resolve ps t p = Some (o1, t1) -> resolve ps t q = Some (o2, t2) -> paths_separate p q = true ->
  o1 + size_of ps t1 <= o2 \/ o2 + size_of ps t2 <= o1.
Proof. exact thm_components_disjoint. Qed.
Print Assumptions C18_components_disjoint.

(* any component at any depth of a value placed at an aligned address is aligned *)
Theorem C18_components_aligned : forall ps t p o tp base, is_pow2 ps -> wf t ->
  resolve ps t p = Some (o, tp) -> (align_of ps t | base) -> (align_of ps tp | base + o).
Proof. exact thm_components_aligned. Qed.
Print Assumptions C18_components_aligned.

(* THE PROPERTY: storing SizeOf(component) bytes into a component of a value at address base and reading it back
   returns the bytes written; every separate component (field, element, discriminant, at any depth) reads as
   before; every byte outside [base, base + SizeOf t) — neighbouring variables — is unchanged *)
Theorem C18_store_load : forall ps t base m p o tp bs,
  1 <= ps -> wfz t -> resolve ps t p = Some (o, tp) -> Z.of_nat (length bs) = size_of ps tp ->
  load_bytes (store_bytes m (base + o) bs) (base + o) (length bs) = bs /\
  (forall q o2 tq, resolve ps t q = Some (o2, tq) -> paths_separate p q = true ->
     load_bytes (store_bytes m (base + o) bs) (base + o2) (Z.to_nat (size_of ps tq)) =
     load_bytes m (base + o2) (Z.to_nat (size_of ps tq))) /\
  (forall x, x < base \/ base + size_of ps t <= x -> store_bytes m (base + o) bs x = m x).
Proof. exact thm_store_load. Qed.
Print Assumptions C18_store_load.

(* copying a composite (ferret_memcpy of SizeOf t bytes) copies every component *)
Theorem C18_copy_all : forall ps t m dst src q o tq,
  1 <= ps -> wfz t ->
  dst + size_of ps t <= src \/ src + size_of ps t <= dst ->
  resolve ps t q = Some (o, tq) ->
  load_bytes (memcpy m dst src (Z.to_nat (size_of ps t))) (dst + o) (Z.to_nat (size_of ps tq)) =
  load_bytes m (src + o) (Z.to_nat (size_of ps tq)).
Proof. exact thm_copy_all. Qed.
Print Assumptions C18_copy_all.

(* the hypotheses are met by the working tree: primitive sizes regenerated from types.go are powers of two within
   1..32, fn / enum sizes too, pointer sizes 4 and 8 are powers of two; wf implies wfz *)
Theorem C18_prims_wf : Forall is_pow2 prim_sizes /\ Forall is_pow2 other_sizes /\ is_pow2 4 /\ is_pow2 8 /\
  Forall (fun s => 1 <= s <= 32) prim_sizes.
Proof. exact thm_prims_wf. Qed.
Print Assumptions C18_prims_wf.

Theorem C18_wf_wfz : forall t, wf t -> wfz t.
Proof. exact thm_wf_wfz. Qed.
Print Assumptions C18_wf_wfz.

(* non-vacuity: struct{i8; [3]struct{i8; i64; i16; i64?}; ptr ! i32; i8} is well-formed, its components resolve
   (both targets), flag / payload / tag paths are separate, and ok / err views of a result are not *)
Theorem C18_nonvacuous :
  wf ex_outer /\ wfz ex_outer /\
  size_of 8 ex_inner = 40 /\ size_of 4 ex_inner = 28 /\ size_of 8 ex_outer = 152 /\ size_of 4 ex_outer = 100 /\
  resolve 8 ex_outer [SField 1; SElem 2; SField 3; SOptFlag] = Some (120, flag_ty) /\
  resolve 8 ex_outer [SField 1; SElem 2; SField 3; SOptVal] = Some (112, TPrim 8) /\
  resolve 8 ex_outer [SField 2; SResTag] = Some (136, flag_ty) /\
  paths_separate [SField 1; SElem 2; SField 3; SOptFlag] [SField 1; SElem 2; SField 3; SOptVal] = true /\
  paths_separate [SField 1; SElem 2; SField 1] [SField 1; SElem 1; SField 3] = true /\
  paths_separate [SField 2; SResOk] [SField 2; SResErr] = false.
Proof. exact thm_nonvacuous. Qed.
Print Assumptions C18_nonvacuous.
