(* C10 — Integer literals are range-checked exactly and keep their value.
   Model: Models/Numeric.v, a port of numeric.go / value.go (NewNumericValue as repaired by
   fixes/C10-literal-base-sign.patch) / fitsInType / inferLiteralType / parseIntLiteral / checkFitness /
   normalizeInt / emitLargeConst / ferret_parse_uint; tied to the working tree by harness/c10.py on every run.
   wf_lit s : s is a literal token: optional '-', then 0x/0X + hex digits, 0o/0O + octal digits, 0b/0B + binary digits,
   or decimal digits; single '_' allowed between digits; unbounded length.
   lit_value s : sign * value of its digit characters in the announced base (decimal without prefix). *)
From Coq Require Import ZArith List Ascii String.
From FV Require Import Models.Numeric Proofs.NumericP Proofs.NumericDec Proofs.NumericMain Proofs.NumericLex.
Import ListNotations.
Open Scope Z_scope.

(* Accepted exactly when the mathematical value lies in the type's range: all 12 types, all literals. *)
Theorem C10_accept_exact :
  forall (t : ity) (s : str), wf_lit s = true ->
    (accepts t s = true <-> lo t <= lit_value s <= hi t).
Proof. exact accept_exact. Qed.
Print Assumptions C10_accept_exact.

(* When accepted, the running program observes exactly that value (QBE constant for <= 64 bits, decimal string +
   ferret_parse_uint modulo 2^N for 128/256 bits). *)
Theorem C10_value_kept :
  forall (t : ity) (s : str), wf_lit s = true -> accepts t s = true ->
    observed t s = Some (lit_value s).
Proof. exact value_kept. Qed.
Print Assumptions C10_value_kept.

(* The two range checks of the type checker (inferLiteralType on the raw text, checkFitness on the evaluated constant)
   never disagree, so the verdict does not depend on which one a position consults first. *)
Theorem C10_checks_agree :
  forall (t : ity) (s : str), wf_lit s = true -> fits_in_type s t = check_fitness t s.
Proof. exact checks_agree. Qed.
Print Assumptions C10_checks_agree.

(* The lexer's NumberPattern cuts every well-formed literal out of the source as one integer token
   (followed by text that cannot continue a number: nothing, or a character that is no digit, letter, '_' or '.'). *)
Theorem C10_lexed_whole :
  forall (s rest : str), wf_lit s = true -> stops rest = true ->
    lex_number (s ++ rest) = LexInt s rest.
Proof. exact lexed_whole. Qed.
Print Assumptions C10_lexed_whole.

(* parsePrimary never takes an integer literal for a float, whatever digits it contains (-0x7e, 0x1e5: hex digit e) ... *)
Theorem C10_int_token_kind :
  forall s : str, wf_lit s = true -> literal_kind s = KInt.
Proof. exact int_token_kind. Qed.
Print Assumptions C10_int_token_kind.

(* ... while the exponent forms the lexer takes as one number token are float literals (they were INT before
   fixes/C10-exponent-float-kind.patch: last conjunct). *)
Theorem C10_exponent_forms_kind :
  literal_kind (str_of "1e5") = KFloat /\ literal_kind (str_of "1E5") = KFloat /\ literal_kind (str_of "1e+5") = KFloat /\
  literal_kind (str_of "-1e-5") = KFloat /\ literal_kind (str_of "1_0e2") = KFloat /\ literal_kind (str_of "1.5") = KFloat /\
  literal_kind (str_of "-2.5E+0_2") = KFloat /\
  lex_number (str_of "1e5;") = LexFloat /\ lex_number (str_of "-1_0E-2;") = LexFloat /\
  literal_kind (str_of "0x1e5") = KInt /\ literal_kind (str_of "-0x7e") = KInt /\ literal_kind (str_of "-0XE") = KInt /\
  lex_number (str_of "-0x7e;") = LexInt (str_of "-0x7e") (str_of ";") /\
  literal_kind_orig (str_of "1e5") = KInt.
Proof. exact exponent_forms_kind. Qed.
Print Assumptions C10_exponent_forms_kind.

(* Regression theorems about the code as it was before the repair (NewNumericValue with strconv.ParseInt(s, 0, 64) first). *)
Theorem C10_orig_refuted_leading_zero :
  exists t s, wf_lit s = true /\ accepts_orig t s = true /\ observed_orig t s <> Some (lit_value s).
Proof. exact orig_refuted_leading_zero. Qed.
Print Assumptions C10_orig_refuted_leading_zero.

Theorem C10_orig_refuted_neg_prefixed :
  exists t s, wf_lit s = true /\ lo t <= lit_value s <= hi t /\ accepts_orig t s = false.
Proof. exact orig_refuted_neg_prefixed. Qed.
Print Assumptions C10_orig_refuted_neg_prefixed.

(* Non-vacuity: the hypotheses are satisfiable by non-trivial literals at both ends of a range. *)
Theorem C10_nonvacuous :
  wf_lit (str_of "-0x8000_0000_0000_0000_0000_0000_0000_0000") = true /\
  accepts I128 (str_of "-0x8000_0000_0000_0000_0000_0000_0000_0000") = true /\
  observed I128 (str_of "-0x8000_0000_0000_0000_0000_0000_0000_0000") = Some (- 2 ^ 127) /\
  accepts I128 (str_of "0x8000_0000_0000_0000_0000_0000_0000_0000") = false /\
  wf_lit (str_of "0177") = true /\ accepts I16 (str_of "0177") = true /\ observed I16 (str_of "0177") = Some 177 /\
  accepts U8 (str_of "0b1_0000_0000") = false /\ accepts U8 (str_of "0o377") = true /\
  wf_lit (str_of "1__0") = false /\ wf_lit (str_of "0x_f") = false /\ wf_lit (str_of "1_") = false.
Proof. exact nonvacuous. Qed.
Print Assumptions C10_nonvacuous.
