(* C20 — TOML configuration survives a write/parse round trip.
   Model: Models/Toml.v (port of toml/writer.go and toml/parser.go with fixes/C20-*.patch applied). Float formatting and
   parsing are abstract: F, fmt_f = strconv.FormatFloat(x,'f',-1,64), parse_f = strconv.ParseFloat(s,64); their
   documented behaviour appears as the premises H2 / H1 / H1' of the theorems (checked on every generated float by the
   harness), never as axioms.

   Writable domain (Proofs/TomlLine.v, Proofs/TomlFile.v):
     writable d   every table the writer looks at has distinct keys, keys are printable ASCII without '=' not starting
                  with '#' or '[', values are: well-formed UTF-8 strings without quote, backslash, LF and not spelled
                  true/false (CR, '#', blanks, any Unicode allowed); booleans; 64-bit ints; finite floats
     cm_ok cm     inline comments are arbitrary byte strings without LF *)
From Coq Require Import ZArith List.
From FV Require Import Models.Toml Proofs.TomlBasics Proofs.TomlLine Proofs.TomlFile Proofs.TomlMisc.
Import ListNotations.
Open Scope Z_scope.

(* Round trip, any key order the writer's map iteration produces (the order of the lists), any LF-free comments:
   the reader returns exactly the written tables, listed in the writer's section order. *)
Theorem C20_roundtrip :
  forall (F : Type) (fmt_f : F -> bytes) (parse_f : bytes -> option F) (fin : F -> Prop),
    (forall x, fin x -> Forall num_byte (fmt_f x) /\ fmt_f x <> []) ->           (* H2 *)
    (forall x, fin x -> parse_f (fmt_f x) = Some x) ->                              (* H1 *)
    (forall x, fin x -> ~ In 46 (fmt_f x) -> parse_f (fmt_f x ++ s_dot0) = Some x) -> (* H1 for the ".0" suffix *)
    forall cm : comments, cm_ok cm ->
    forall d : data F, writable F fin d ->
    parse_file F parse_f (write F fmt_f cm d) = Some (canon F d).
Proof. exact roundtrip. Qed.
Print Assumptions C20_roundtrip.

(* ... and that result is the written configuration itself (as a map from section to table; tables are returned
   as the very lists that were written) when only known sections occur and the default table is not empty. *)
Theorem C20_result_is_input :
  forall (F : Type) (d : data F), known_sections F d -> default_not_empty F d ->
  forall s, assoc s (canon F d) = assoc s d.
Proof. exact canon_same_map. Qed.
Print Assumptions C20_result_is_input.

(* Comments never change the parsed values: with and without comments the same data is read. *)
Theorem C20_comments_inert :
  forall (F : Type) (fmt_f : F -> bytes) (parse_f : bytes -> option F) (fin : F -> Prop),
    (forall x, fin x -> Forall num_byte (fmt_f x) /\ fmt_f x <> []) ->
    (forall x, fin x -> parse_f (fmt_f x) = Some x) ->
    (forall x, fin x -> ~ In 46 (fmt_f x) -> parse_f (fmt_f x ++ s_dot0) = Some x) ->
    forall cm : comments, cm_ok cm -> forall d : data F, writable F fin d ->
    parse_file F parse_f (write F fmt_f cm d) = parse_file F parse_f (write F fmt_f no_comments d).
Proof. exact comments_inert. Qed.
Print Assumptions C20_comments_inert.

(* Blank lines and full-line comments are inert wherever they stand, in every file (not only written ones). *)
Theorem C20_blank_and_comment_lines_inert :
  forall (F : Type) (parse_f : bytes -> option F) (l1 : list bytes) (c : bytes) (l2 : list bytes) st,
    skip_line (trim_space (drop_cr c)) = true ->
    parse_lines F parse_f (l1 ++ c :: l2) st = parse_lines F parse_f (l1 ++ l2) st.
Proof. exact skip_lines_inert. Qed.
Print Assumptions C20_blank_and_comment_lines_inert.

(* Surrounding ASCII blanks disappear before a line is interpreted. *)
Theorem C20_surrounding_blanks_trimmed :
  forall ws l, Forall (fun c => ascii_space c = true) ws -> trim_left (ws ++ l) = trim_left l.
Proof. exact trim_left_blanks. Qed.
Print Assumptions C20_surrounding_blanks_trimmed.

Theorem C20_trailing_blanks_trimmed :
  forall ws l, Forall (fun c => ascii_space c = true /\ 0 <= c < 128) ws -> trim_right (l ++ ws) = trim_right l.
Proof. exact trim_right_blanks. Qed.
Print Assumptions C20_trailing_blanks_trimmed.

(* The reader is total on all byte strings; it fails only on a line without '=' and slices a header line only when
   it has at least two bytes. *)
Theorem C20_total :
  forall (F : Type) (parse_f : bytes -> option F) (content : bytes),
    (exists d, parse_file F parse_f content = Some d) \/
    (parse_file F parse_f content = None /\
     exists raw, In raw (split_lines content) /\ split_eq (trim_space (drop_cr raw)) = None).
Proof. exact parse_total. Qed.
Print Assumptions C20_total.

Theorem C20_header_slice_in_range : forall l, is_header l = true -> (2 <= length l)%nat.
Proof. exact header_slice_in_range. Qed.
Print Assumptions C20_header_slice_in_range.

(* Integers: Atoi (Itoa i) = i on the whole int64 range. *)
Theorem C20_atoi_itoa : forall i, int_min <= i <= int_max -> atoi (itoa i) = Some i.
Proof. exact atoi_itoa. Qed.
Print Assumptions C20_atoi_itoa.

(* OPEN FINDING F-C20-empty-default: a configuration whose default table is empty is not read back. *)
Theorem C20_refuted_empty_default :
  exists d : data unit, assoc s_default d = Some [] /\
    parse_file unit (fun _ => None) (write unit (fun _ => []) no_comments d) = Some [].
Proof. exact empty_default_lost. Qed.
Print Assumptions C20_refuted_empty_default.

(* Non-vacuity: the float hypotheses hold for a concrete formatter/parser pair, and a concrete configuration with a
   string (with '#', blank and a two-byte rune), a negative int, an integral and a fractional float, a bool, an empty
   string and an inline comment lies in the domain and is read back as itself. *)
Theorem C20_nonvacuous :
  ((forall x : bool, True -> Forall num_byte (fmt2 x) /\ fmt2 x <> []) /\
   (forall x : bool, True -> parse2 (fmt2 x) = Some x) /\
   (forall x : bool, True -> ~ In 46 (fmt2 x) -> parse2 (fmt2 x ++ s_dot0) = Some x)) /\
  writable bool (fun _ => True) d_ex /\ cm_ok cm_ex /\
  parse_file bool parse2 (write bool fmt2 cm_ex d_ex) = Some d_ex /\ canon bool d_ex = d_ex.
Proof. exact (conj inst_ok (conj ex_writable (conj ex_cm_ok ex_roundtrip))). Qed.
Print Assumptions C20_nonvacuous.
