(* C13 — The compiler is total: it never crashes or hangs and reports failure faithfully.   (PARTIAL)

   Proved here (unbounded, for every byte string / every diagnostic history):
     - the lexer (port of tokenizer.go Tokenize + positions.go Advance, operator table and keyword set regenerated
       from the working tree) terminates on EVERY byte string within |src| iterations, advances >= 1 byte per
       iteration, never slices beyond |src|, and ends its token list with exactly one EOF token at index |src|;
     - the exit-status glue (DiagnosticBag counters, return sites of compiler.Compile regenerated from the working
       tree, exit code of main.go): exit status 0 <-> no error text printed, >= 1 error text on failure, and an
       error returned by the pipeline (QBE / linker failure) can never end in exit status 0.
   NOT proved (explored by the seeded malformed stream of harness/c13.py, labelled exploration in the evidence):
   crash-freedom and bounded time of parser, collector, resolver, type checker, HIR/MIR, emitter; locations inside
   the file; no artifact after failure.  The full statement is C13_full below. *)
From Coq Require Import ZArith List Bool.
From FV Require Import Models.LexerTot Models.ExitStatus Proofs.LexerTotP Proofs.ExitStatusP Proofs.LexerTotTable gen.Gen_C13.
From FV Require Import Models.DualLabel Proofs.DualLabelP.
Import ListNotations.
Open Scope Z_scope.

(* The full property, as a predicate on the whole compiler seen as a function from projects (lists of file contents)
   to observations: what would have to be proved of all of /repo.  It is NOT proved. *)
Record observation := mkObs {
  o_terminated : bool; o_crashed : bool; o_exit : Z; o_error_texts : Z; o_located_inside : bool; o_artifact_left : bool }.
Definition C13_full (compile : list (list Z) -> observation) : Prop :=
  forall project : list (list Z),
    let o := compile project in
    o_terminated o = true /\ o_crashed o = false /\ (o_exit o = 0 <-> o_error_texts o = 0) /\
    (o_exit o <> 0 -> 1 <= o_error_texts o /\ o_located_inside o = true /\ o_artifact_left o = false).

(* 1. totality of the lexer: no fuel exhaustion for ANY byte string, exactly one EOF token, placed at index |src| *)
Theorem C13_lexer_total_partial : forall src : bytes,
  exists toks errs, tokenize lex_ops lex_keywords src = Some (toks, errs) /\ ends_with_single_eof src toks.
Proof. exact lexer_total. Qed.
Print Assumptions C13_lexer_total_partial.

(* 2. every iteration of the main loop advances the index by >= 1 byte and stays inside the input *)
Theorem C13_lexer_progress : forall src st, no_eof st -> (pidx (spos st) < List.length src)%nat ->
  (pidx (spos st) + 1 <= pidx (spos (step lex_ops lex_keywords src st)) <= List.length src)%nat.
Proof. exact lexer_progress. Qed.
Print Assumptions C13_lexer_progress.

(* 3. no slice beyond |src|: remainder non-empty, match inside it, >= 2 bytes where two delimiters are stripped *)
Theorem C13_no_oob_slice : forall src idx n h, (idx < List.length src)%nat ->
  let rem := skipn idx src in
  rem <> [] /\
  (first_match (patterns lex_ops) rem = Some (n, h) ->
     (idx + n <= List.length src)%nat /\ (1 <= n)%nat /\ (needs2 h -> (2 <= n)%nat)).
Proof. exact lexer_no_oob. Qed.
Print Assumptions C13_no_oob_slice.

(* 4. Position.Advance is byte-exact on every byte string (the pre-patch code added 3 for an invalid byte) *)
Theorem C13_advance_index_exact : forall s p, pidx (advance s p) = (pidx p + List.length s)%nat.
Proof. exact advance_exact. Qed.
Print Assumptions C13_advance_index_exact.

(* 5. exit status 0 <-> no error text; failure prints >= 1 error text — at every regenerated return site, for every
      history of diagnostics and both outcomes of p.Run() *)
Theorem C13_status : forall s l run_err, In s compile_sites ->
  let r := run_site compile_run_checked main_fail_exit s (bag_of l) run_err in
  (fst r = 0 <-> snd r = 0) /\ (fst r <> 0 -> 1 <= snd r).
Proof. exact status_faithful. Qed.
Print Assumptions C13_status.

(* 6. a failed pipeline run (e.g. QBE or the linker rejecting the generated code) never yields exit status 0 *)
Theorem C13_run_error_reported : forall s l, In s compile_sites -> s_pipeline s = true ->
  fst (run_site compile_run_checked main_fail_exit s (bag_of l) true) <> 0.
Proof. exact run_error_never_exit0. Qed.
Print Assumptions C13_run_error_reported.

(* 6'. the pre-patch Compile (p.Run() result dropped) admits exit 0 after a failed run: the defect repaired by
       fixes/C13-report-pipeline-error.patch *)
Theorem C13_unchecked_run_error_refuted :
  exists s b, s_pipeline s = true /\ fst (run_site false 1 s b true) = 0.
Proof. exists (mkSite SNotHasErrors false true false true), bag_empty. split; [reflexivity|exact unchecked_run_error_exit0]. Qed.
Print Assumptions C13_unchecked_run_error_refuted.

(* 7. the bag's counter is exactly the number of Error diagnostics it holds; HasErrors <-> some Error was added *)
Theorem C13_bag_exact : forall l,
  errorCount (bag_of l) = printed_errors (bag_of l) /\
  (has_errors (bag_of l) = true <-> exists s, In s l /\ is_error s = true).
Proof. intro l. split; [apply bag_count_exact|apply has_errors_iff]. Qed.
Print Assumptions C13_bag_exact.

(* the remaining static facts about main.go / bag.go the model relies on, re-read from the tree on every run *)
Theorem C13_glue_as_ported :
  bag_glue_as_ported = true /\ main_other_exits_after_compile = 0 /\ main_fail_exit <> 0 /\ compile_run_checked = true.
Proof. split; [exact gen_glue|split; [exact gen_no_other_exit|split; [exact gen_fail_exit|exact gen_run_checked]]]. Qed.
Print Assumptions C13_glue_as_ported.

(* 8. the emitter's underline arithmetic (printLabel, printCompactDualLabel): for ALL pairs of label spans on one line
      whose start columns are >= 1 (nested, overlapping, adjacent, identical, reversed, ending on a later line) every
      count handed to strings.Repeat is non-negative and both underlines are non-empty: rendering two labels on one
      line cannot panic *)
Theorem C13_dual_label_counts_nonneg : forall p s : span, 1 <= fst p -> 1 <= fst s ->
  Forall (fun n => 0 <= n) (dual_counts (dual_layout p s)) /\
  1 <= d_left_len (dual_layout p s) /\ 1 <= d_right_len (dual_layout p s).
Proof.
  intros p s Hp Hs. split; [exact (dual_counts_nonneg p s Hp Hs)|].
  destruct (dual_nonneg p s Hp Hs) as [_ [B [_ D]]]. split; assumption.
Qed.
Print Assumptions C13_dual_label_counts_nonneg.

Theorem C13_single_label_counts_nonneg : forall s : span, 1 <= fst s ->
  0 <= fst (single_layout s) /\ 1 <= snd (single_layout s).
Proof. exact single_nonneg. Qed.
Print Assumptions C13_single_label_counts_nonneg.

(* 8'. when the left underline does not run into the right label, the right underline sits under its own column *)
Theorem C13_dual_label_aligned : forall p s : span, 1 <= fst p -> 1 <= fst s ->
  let d := dual_layout p s in
  let r := if d_left_primary d then s else p in
  d_left_pad d + d_left_len d <= fst r - 1 -> d_left_pad d + d_left_len d + d_space d = fst r - 1.
Proof. exact dual_aligned. Qed.
Print Assumptions C13_dual_label_aligned.

(* 8''. non-vacuity / sharpness: shrinking the right underline by the overlap (instead of clamping the gap) goes negative
       on a nested pair — the arithmetic above is not trivially safe *)
Theorem C13_dual_label_shrinking_variant_refuted :
  exists p s : span, 1 <= fst p /\ 1 <= fst s /\ dual_layout_shrinking p s < 0.
Proof. exact shrinking_variant_negative. Qed.
Print Assumptions C13_dual_label_shrinking_variant_refuted.

(* non-vacuity *)
Theorem C13_nonvacuous_lexer :
  match tokenize lex_ops lex_keywords sample_src with
  | Some (toks, errs) => (List.length toks =? 22)%nat && (List.length errs =? 5)%nat &&
                         (pidx (tend (last toks (mkTok [] [] pos0 pos0))) =? List.length sample_src)%nat
  | None => false
  end = true.
Proof. exact lexer_sample. Qed.
Print Assumptions C13_nonvacuous_lexer.

Theorem C13_nonvacuous_status :
  (exists s, In s compile_sites /\ s_pipeline s = true /\
     run_site compile_run_checked main_fail_exit s (bag_of [SevWarning; SevError; SevInfo]) false = (1, 1) /\
     run_site compile_run_checked main_fail_exit s (bag_of [SevWarning]) false = (0, 0) /\
     run_site compile_run_checked main_fail_exit s (bag_of [SevWarning]) true = (1, 1)) /\
  (exists s, In s compile_sites /\ s_pipeline s = false /\ fst (run_site compile_run_checked main_fail_exit s bag_empty false) = 1).
Proof. exact status_nonvacuous. Qed.
Print Assumptions C13_nonvacuous_status.
