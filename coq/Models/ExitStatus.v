(* C13 — port of the exit-status glue: diagnostics.DiagnosticBag (Add / HasErrors / ErrorCount, bag.go), the return
   sites of compiler.Compile (compiler.go) and the exit code chosen by main.go.  Definitions only.
   The list of return sites is regenerated from the working tree (gen/Gen_C13.v). *)
From Coq Require Import ZArith List Bool.
Import ListNotations.
Open Scope Z_scope.

Inductive severity := SevError | SevWarning | SevInfo | SevHint.

Record bag := mkBag { diags : list severity; errorCount : Z; warnCount : Z }.
Definition bag_empty : bag := mkBag [] 0 0.

(* func (db *DiagnosticBag) Add *)
Definition bag_add (b : bag) (s : severity) : bag :=
  match s with
  | SevError => mkBag (diags b ++ [s]) (errorCount b + 1) (warnCount b)
  | SevWarning => mkBag (diags b ++ [s]) (errorCount b) (warnCount b + 1)
  | _ => mkBag (diags b ++ [s]) (errorCount b) (warnCount b)
  end.
(* HasErrors: db.errorCount > 0 *)
Definition has_errors (b : bag) : bool := 0 <? errorCount b.

Definition bag_of (l : list severity) : bag := fold_left bag_add l bag_empty.

Definition is_error (s : severity) : bool := match s with SevError => true | _ => false end.
(* what emitAll prints: one `error...` block per Error diagnostic in the bag *)
Definition printed_errors (b : bag) : Z := Z.of_nat (List.length (filter is_error (diags b))).

(* the expression after `Success:` at a return site of Compile *)
Inductive succ_expr := SFalse | SNotHasErrors | SOther.

Record site := mkSite {
  s_expr : succ_expr;
  s_reports : bool;     (* a ctx.ReportError(...) dominates the return *)
  s_emits : bool;       (* EmitDiagnostics() / EmitAllToString() dominates the return *)
  s_output : bool;      (* the Result carries a literal failure message in Output (printed by main.go) *)
  s_pipeline : bool     (* the return is after p.Run() *)
}.

(* One run through a return site.  b = the bag as the phases left it, run_err = p.Run() returned an error,
   run_checked = Compile turns an unreported p.Run() error into an error diagnostic,
   fail_exit = the code main.go passes to os.Exit when !result.Success.   Result: (exit status, error texts printed). *)
Definition run_site (run_checked : bool) (fail_exit : Z) (s : site) (b : bag) (run_err : bool) : Z * Z :=
  let b1 := if s_reports s then bag_add b SevError else b in
  let b2 := if s_pipeline s && run_checked && run_err && negb (has_errors b1) then bag_add b1 SevError else b1 in
  let success := match s_expr s with SFalse => false | SNotHasErrors => negb (has_errors b2) | SOther => true end in
  let printed := (if s_emits s then printed_errors b2 else 0) + (if negb success && s_output s then 1 else 0) in
  (if success then 0 else fail_exit, printed).

(* the static condition checked on the regenerated site list *)
Definition site_ok (run_checked : bool) (s : site) : bool :=
  match s_expr s with
  | SFalse => (s_reports s && s_emits s) || s_output s
  | SNotHasErrors => s_emits s && negb (s_output s) && (negb (s_pipeline s) || run_checked)
  | SOther => false
  end.
