(* C17 — port of runtime/core/map.c (chained hash table) and of the optional out-layout helpers
   (map.c ferret_map_get_optional_out, optional.c ferret_optional_unwrap_or).
   Definitions only.  The generic part is parameterised by the key type, its equality test (equals_fn) and the hash
   function (hash_fn); the executable instance at the end uses byte strings and FNV-1a exactly as map.c does, so that
   the bucket order (hence the iteration order) of the real implementation is reproduced.

   Mutation through pointers becomes functions returning the new map.  A chain is a list of entries (head first,
   `next` = tail).  malloc failure paths are not modelled (every allocation succeeds). *)
From Coq Require Import ZArith List Bool.
Import ListNotations.
Open Scope Z_scope.

(* buckets[j] = f (buckets[j]) ; out-of-range j leaves the table unchanged (never happens: j = hash mod count) *)
Fixpoint upd {A} (j : nat) (f : A -> A) (l : list A) {struct l} : list A :=
  match l, j with
  | [], _ => []
  | x :: t, O => f x :: t
  | x :: t, S j' => x :: upd j' f t
  end.

Section MapModel.
Variables K V : Type.
Variable eqb : K -> K -> bool.        (* map->equals_fn *)
Variable hash : K -> Z.               (* map->hash_fn (uint32_t) *)

(* ferret_map_entry_t {key, value, next, hash} — `next` is the tail of the chain *)
Record entry := mkEntry { e_key : K; e_hash : Z; e_val : V }.
(* ferret_map_t {buckets, bucket_count = length buckets, size} *)
Record map_t := mkMap { buckets : list (list entry); msize : Z }.

Definition initial_buckets : nat := 16.                  (* FERRET_MAP_INITIAL_BUCKETS *)
Definition threshold (n : nat) : Z := (3 * Z.of_nat n) / 4.   (* (size_t)(bucket_count * 0.75) *)
Definition bidx (hv : Z) (n : nat) : nat := Z.to_nat (hv mod Z.of_nat n).   (* hash % bucket_count *)

(* ferret_map_new *)
Definition map_new : map_t := mkMap (repeat [] initial_buckets) 0.

(* ferret_map_resize: calloc(new_bucket_count); for i in 0..bucket_count: walk the chain from its head, recompute
   the hash, prepend the entry to new_buckets[hash % new_bucket_count] *)
Definition rehash_one (n : nat) (nb : list (list entry)) (e : entry) : list (list entry) :=
  let hv := hash (e_key e) in
  upd (bidx hv n) (cons (mkEntry (e_key e) hv (e_val e))) nb.
Definition map_resize (m : map_t) (n : nat) : map_t :=
  mkMap (fold_left (rehash_one n) (concat (buckets m)) (repeat [] n)) (msize m).

(* the chain walk of ferret_map_get / ferret_map_set: first entry with entry->hash == hash && equals_fn(...) *)
Fixpoint chain_find (hv : Z) (k : K) (c : list entry) : option entry :=
  match c with
  | [] => None
  | e :: t => if (e_hash e =? hv) && eqb (e_key e) k then Some e else chain_find hv k t
  end.

(* memcpy(entry->value, value, value_size) on the first matching entry *)
Fixpoint chain_replace (hv : Z) (k : K) (v : V) (c : list entry) : list entry :=
  match c with
  | [] => []
  | e :: t => if (e_hash e =? hv) && eqb (e_key e) k then mkEntry (e_key e) (e_hash e) v :: t
              else e :: chain_replace hv k v t
  end.

(* ferret_map_get (NULL = None) *)
Definition map_get (m : map_t) (k : K) : option V :=
  let hv := hash k in
  option_map e_val (chain_find hv k (nth (bidx hv (length (buckets m))) (buckets m) [])).

(* ferret_map_has *)
Definition map_has (m : map_t) (k : K) : bool :=
  match map_get m k with Some _ => true | None => false end.

(* ferret_map_size *)
Definition map_size (m : map_t) : Z := msize m.

(* ferret_map_set *)
Definition map_set (m : map_t) (k : K) (v : V) : map_t :=
  let m1 := if msize m >=? threshold (length (buckets m))
            then map_resize m (2 * length (buckets m)) else m in
  let hv := hash k in
  let j := bidx hv (length (buckets m1)) in
  match chain_find hv k (nth j (buckets m1) []) with
  | Some _ => mkMap (upd j (chain_replace hv k v) (buckets m1)) (msize m1)
  | None => mkMap (upd j (cons (mkEntry k hv v)) (buckets m1)) (msize m1 + 1)
  end.

(* ferret_map_from_pairs: needed = (size_t)(count / 0.75) + 1; round 16 up by doubling; resize; set each pair *)
Fixpoint grow_pow2 (fuel : nat) (nb : nat) (needed : Z) : nat :=
  match fuel with
  | O => nb
  | S f => if Z.of_nat nb <? needed then grow_pow2 f (2 * nb) needed else nb
  end.
Definition map_from_pairs (ps : list (K * V)) : map_t :=
  let count := Z.of_nat (length ps) in
  let needed := (4 * count) / 3 + 1 in
  let m0 := map_new in
  let m1 := if needed >? Z.of_nat (length (buckets m0))
            then map_resize m0 (grow_pow2 64 initial_buckets needed) else m0 in
  fold_left (fun m p => map_set m (fst p) (snd p)) ps m1.

(* ---- iteration.  ferret_map_iter_t {bucket_index, entry}: `entry` is represented by the rest of the chain starting
   at it (nil = NULL) and `bucket_index` by the list of buckets *after* that index. *)
Definition iter_t : Type := (list (list entry) * list entry)%type.

(* while (bucket_index < bucket_count) { if (buckets[bucket_index] != NULL) {entry = ...; return} bucket_index++ } *)
Fixpoint scan (rest : list (list entry)) : iter_t :=
  match rest with
  | [] => ([], [])
  | b :: t => match b with [] => scan t | _ :: _ => (t, b) end
  end.

(* ferret_map_iter_begin — REPAIRED behaviour (fixes/C17-iter-begin-empty.patch): the iterator is initialised
   (entry = NULL) before the emptiness test, so that a following iter_next sees NULL and stops. *)
Definition iter_begin (m : map_t) : bool * iter_t :=
  if msize m =? 0 then (false, ([], []))
  else let it := scan (buckets m) in
       (match snd it with [] => false | _ :: _ => true end, it).

(* ferret_map_iter_next: yields the current entry and advances *)
Definition iter_next (it : iter_t) : option ((K * V) * iter_t) :=
  match snd it with
  | [] => None                                             (* iter->entry == NULL: return false *)
  | e :: rest =>
      Some ((e_key e, e_val e),
            match rest with
            | _ :: _ => (fst it, rest)                     (* entry = entry->next *)
            | [] => scan (fst it)                          (* next non-empty bucket, or entry = NULL *)
            end)
  end.

(* iter_begin (result ignored, as the compiler does); while (iter_next(..)) collect *)
Fixpoint iter_loop (fuel : nat) (it : iter_t) : list (K * V) :=
  match fuel with
  | O => []
  | S f => match iter_next it with
           | None => []
           | Some (kv, it') => kv :: iter_loop f it'
           end
  end.
Definition map_iterate (m : map_t) : list (K * V) :=
  iter_loop (S (length (concat (buckets m)))) (snd (iter_begin m)).

(* ---- operation histories *)
Inductive op :=
| ONew | OFromPairs (ps : list (K * V)) | OSet (k : K) (v : V) | OGet (k : K) | OHas (k : K) | OSize | OIter.
Inductive res :=
| RUnit | RGet (r : option V) | RBool (b : bool) | RSize (n : Z) | RIter (l : list (K * V)).

Definition step (m : map_t) (o : op) : map_t * res :=
  match o with
  | ONew => (map_new, RUnit)
  | OFromPairs ps => (map_from_pairs ps, RUnit)
  | OSet k v => (map_set m k v, RUnit)
  | OGet k => (m, RGet (map_get m k))
  | OHas k => (m, RBool (map_has m k))
  | OSize => (m, RSize (map_size m))
  | OIter => (m, RIter (map_iterate m))
  end.

Fixpoint run (m : map_t) (ops : list op) : list res :=
  match ops with
  | [] => []
  | o :: t => let '(m', r) := step m o in r :: run m' t
  end.

Fixpoint final (m : map_t) (ops : list op) : map_t :=
  match ops with
  | [] => m
  | o :: t => final (fst (step m o)) t
  end.

End MapModel.

Arguments mkEntry {K V}.
Arguments e_key {K V}.
Arguments e_hash {K V}.
Arguments e_val {K V}.
Arguments mkMap {K V}.
Arguments buckets {K V}.
Arguments msize {K V}.
Arguments map_new {K V}.
Arguments ONew {K V}.
Arguments OFromPairs {K V}.
Arguments OSet {K V}.
Arguments OGet {K V}.
Arguments OHas {K V}.
Arguments OSize {K V}.
Arguments OIter {K V}.
Arguments RUnit {K V}.
Arguments RGet {K V}.
Arguments RBool {K V}.
Arguments RSize {K V}.
Arguments RIter {K V}.

(* ------------------------------------------------------------------------------------------------------------
   Optional out-layout: value bytes followed by a 1-byte flag at offset value_size. *)
Definition bytes := list Z.

(* ferret_map_get_optional_out(map, key, out): memcpy(out, value_ptr, value_size); out[value_size] = 1   or
   out[value_size] = 0 (value bytes left untouched) *)
Definition write_optional (vsize : nat) (r : option bytes) (out : bytes) : bytes :=
  match r with
  | Some v => firstn vsize v ++ 1 :: skipn (S vsize) out
  | None => firstn vsize out ++ 0 :: skipn (S vsize) out
  end.

(* ferret_optional_unwrap_or(opt, default_val, out, val_size) with opt != NULL, out != NULL *)
Definition optional_unwrap_or (opt : bytes) (default : option bytes) (out : bytes) (vsize : nat) : bytes :=
  if Nat.eqb vsize 0 then out
  else if nth vsize opt 0 =? 0
       then match default with
            | Some d => firstn vsize d ++ skipn vsize out
            | None => repeat 0 vsize ++ skipn vsize out
            end
       else firstn vsize opt ++ skipn vsize out.

(* ------------------------------------------------------------------------------------------------------------
   Executable instance: keys and values are byte strings.
   i32 / i64 keys are their 4 / 8 little-endian bytes (ferret_map_hash_i32/i64 = fnv1a_hash over sizeof bytes,
   equality of the integers = equality of the bytes); byte-blob keys are key_size bytes (fnv1a_hash over key_size,
   memcmp); string keys are the bytes before the terminating NUL (fnv1a_hash_str, strcmp). *)
Definition fnv_step (h b : Z) : Z := (Z.lxor h b * 16777619) mod 4294967296.
Definition fnv1a (bs : bytes) : Z := fold_left fnv_step bs 2166136261.

Fixpoint bytes_eqb (a b : bytes) : bool :=
  match a, b with
  | [], [] => true
  | x :: a', y :: b' => (x =? y) && bytes_eqb a' b'
  | _, _ => false
  end.

Fixpoint le_bytes (n : nat) (z : Z) : bytes :=
  match n with O => [] | S n' => (z mod 256) :: le_bytes n' (z / 256) end.
Fixpoint of_le (bs : bytes) : Z :=
  match bs with [] => 0 | b :: t => b + 256 * of_le t end.

Definition bmap := map_t bytes bytes.
Definition bget : bmap -> bytes -> option bytes := map_get bytes bytes bytes_eqb fnv1a.
Definition bset : bmap -> bytes -> bytes -> bmap := map_set bytes bytes bytes_eqb fnv1a.

(* compact history encoding used by the correspondence check (harness/c17.py):
   a key is (length, little-endian integer of its bytes); a value is the little-endian integer of its vsize bytes *)
Inductive cop :=
| CNew | CFP (ps : list (Z * Z * Z)) | CSet (kl k v : Z) | CGet (kl k : Z) | CHas (kl k : Z) | CSize | CIter
| COpt (kl k d : Z).          (* get_optional_out into a buffer pre-filled with 0xEE, then unwrap_or default d *)
Inductive cres :=
| XUnit | XNone | XSome (v : Z) | XBool (b : bool) | XSize (n : Z) | XIter (l : list (Z * Z * Z))
| XOpt (buf unwrapped : Z).

Definition ckey (kl k : Z) : bytes := le_bytes (Z.to_nat kl) k.
Definition enc_kv (kv : bytes * bytes) : Z * Z * Z :=
  (Z.of_nat (length (fst kv)), of_le (fst kv), of_le (snd kv)).

Definition cstep (vsize : nat) (m : bmap) (o : cop) : bmap * cres :=
  match o with
  | CNew => (map_new, XUnit)
  | CFP ps => (map_from_pairs bytes bytes bytes_eqb fnv1a
                 (map (fun p => (ckey (fst (fst p)) (snd (fst p)), le_bytes vsize (snd p))) ps), XUnit)
  | CSet kl k v => (bset m (ckey kl k) (le_bytes vsize v), XUnit)
  | CGet kl k => (m, match bget m (ckey kl k) with Some v => XSome (of_le v) | None => XNone end)
  | CHas kl k => (m, XBool (map_has bytes bytes bytes_eqb fnv1a m (ckey kl k)))
  | CSize => (m, XSize (map_size bytes bytes m))
  | CIter => (m, XIter (map enc_kv (map_iterate bytes bytes m)))
  | COpt kl k d =>
      let buf := write_optional vsize (bget m (ckey kl k)) (repeat 238 (S vsize)) in
      (m, XOpt (of_le buf)
               (of_le (firstn vsize (optional_unwrap_or buf (Some (le_bytes vsize d)) (repeat 204 vsize) vsize))))
  end.

Fixpoint crun (vsize : nat) (m : bmap) (ops : list cop) : list cres :=
  match ops with
  | [] => []
  | o :: t => let '(m', r) := cstep vsize m o in r :: crun vsize m' t
  end.

(* ---- comparison of observed results with the model's *)
Definition t3_eqb (a b : Z * Z * Z) : bool :=
  (fst (fst a) =? fst (fst b)) && (snd (fst a) =? snd (fst b)) && (snd a =? snd b).
Definition t3_leb (a b : Z * Z * Z) : bool :=
  match fst (fst a) ?= fst (fst b) with
  | Lt => true | Gt => false
  | Eq => match snd (fst a) ?= snd (fst b) with
          | Lt => true | Gt => false
          | Eq => snd a <=? snd b
          end
  end.
Fixpoint t3_insert (x : Z * Z * Z) (l : list (Z * Z * Z)) :=
  match l with [] => [x] | y :: t => if t3_leb x y then x :: l else y :: t3_insert x t end.
Definition t3_sort (l : list (Z * Z * Z)) := fold_right t3_insert [] l.
Fixpoint t3s_eqb (a b : list (Z * Z * Z)) : bool :=
  match a, b with
  | [], [] => true
  | x :: a', y :: b' => t3_eqb x y && t3s_eqb a' b'
  | _, _ => false
  end.

(* strict = iteration compared in order; otherwise as a multiset *)
Definition cres_eqb (strict : bool) (a b : cres) : bool :=
  match a, b with
  | XUnit, XUnit => true
  | XNone, XNone => true
  | XSome x, XSome y => x =? y
  | XBool x, XBool y => Bool.eqb x y
  | XSize x, XSize y => x =? y
  | XIter x, XIter y => t3s_eqb x y || (negb strict && t3s_eqb (t3_sort x) (t3_sort y))
  | XOpt x u, XOpt y w => (x =? y) && (u =? w)
  | _, _ => false
  end.
Fixpoint cress_eqb (strict : bool) (a b : list cres) : bool :=
  match a, b with
  | [], [] => true
  | x :: a', y :: b' => cres_eqb strict x y && cress_eqb strict a' b'
  | _, _ => false
  end.

Record mcase := MCase { mc_id : Z; mc_vsize : nat; mc_ops : list cop; mc_obs : list cres }.

Definition mcase_ok (strict : bool) (c : mcase) : bool :=
  cress_eqb strict (crun (mc_vsize c) map_new (mc_ops c)) (mc_obs c).
(* ids of the histories on which model and implementation differ on an observable (iteration as a multiset) *)
Definition bad_ids (cs : list mcase) : list Z :=
  map mc_id (filter (fun c => negb (mcase_ok false c)) cs).
(* ids on which only the iteration *order* differs from the port's *)
Definition order_ids (cs : list mcase) : list Z :=
  map mc_id (filter (fun c => mcase_ok false c && negb (mcase_ok true c)) cs).
