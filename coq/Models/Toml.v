(* C20 — TOML writer / reader of /repo/toml, ported line by line (definitions only).

   Byte strings are [list Z] (one Z per byte, 0..255).  Go's [strconv.FormatFloat(x,'f',-1,64)] and
   [strconv.ParseFloat(s,64)] are NOT ported: they are the Section variables [fmt_f] / [parse_f] over an abstract
   float type [F]; theorems take their documented behaviour as explicit premises (H1-H3 of DESIGN.md C20), the
   correspondence check instantiates them with finite tables obtained from strconv itself.

   The model describes the tree WITH fixes/C20-integral-float.patch and fixes/C20-long-line.patch applied:
     - formatTOMLValue appends ".0" to a float text without '.'
     - the line scanner has no 64 KiB token limit (scanner.Buffer(nil, math.MaxInt)), so the only parse error
       is "invalid line".
   The empty [default] table being lost is NOT repaired: the model has it (see C20_refuted_empty_default). *)
From Coq Require Import ZArith List Bool String Ascii.
Import ListNotations.
Open Scope Z_scope.

Definition bytes := list Z.

Definition b (s : string) : bytes := List.map (fun a => Z.of_N (N_of_ascii a)) (list_ascii_of_string s).

Definition s_true : bytes := Eval compute in b "true".
Definition s_false : bytes := Eval compute in b "false".
Definition s_default : bytes := Eval compute in b "default".
Definition s_sep : bytes := Eval compute in b " = ".         
Definition s_cmt : bytes := Eval compute in b " # ".         (* getInlineComment *)
Definition s_dot0 : bytes := Eval compute in b ".0".

(* ------------------------------------------------------------------ generic helpers *)

Fixpoint beq (x y : bytes) : bool :=
  match x, y with
  | [], [] => true
  | c :: x', d :: y' => (c =? d) && beq x' y'
  | _, _ => false
  end.

(* List.rev is quadratic; the tail-recursive reversal is used for evaluation (frev l = rev l by List.rev_alt) *)
Definition frev (l : bytes) : bytes := rev_append l [].

(* strings.HasPrefix *)
Fixpoint has_prefix (p l : bytes) : bool :=
  match p, l with
  | [], _ => true
  | c :: p', d :: l' => (c =? d) && has_prefix p' l'
  | _ :: _, [] => false
  end.

(* strings.HasSuffix *)
Definition has_suffix (p l : bytes) : bool := has_prefix (frev p) (frev l).

Fixpoint mem (c : Z) (l : bytes) : bool :=
  match l with [] => false | d :: r => (c =? d) || mem c r end.

Fixpoint assoc {A} (k : bytes) (l : list (bytes * A)) : option A :=
  match l with
  | [] => None
  | (k', v) :: r => if beq k k' then Some v else assoc k r
  end.

(* ------------------------------------------------------------------ strings.TrimSpace (unicode.IsSpace on runes) *)

Definition ascii_space (c : Z) : bool :=
  (c =? 9) || (c =? 10) || (c =? 11) || (c =? 12) || (c =? 13) || (c =? 32).

(* the third byte of the E2 80 xx white-space runes: U+2000..U+200A, U+2028, U+2029, U+202F *)
Definition e280_space (c : Z) : bool :=
  ((128 <=? c) && (c <=? 138)) || (c =? 168) || (c =? 169) || (c =? 175).

(* number of bytes of the white-space rune whose UTF-8 encoding is at the head of l; 0 if there is none.
   Non-ASCII White_Space: U+0085 (C2 85), U+00A0 (C2 A0), U+1680 (E1 9A 80), U+2000-200A/2028/2029/202F (E2 80 xx),
   U+205F (E2 81 9F), U+3000 (E3 80 80). *)
Definition space_len (l : bytes) : nat :=
  match l with
  | [] => 0%nat
  | c :: r =>
    if ascii_space c then 1%nat
    else if c =? 194 then
      match r with d :: _ => if (d =? 133) || (d =? 160) then 2%nat else 0%nat | _ => 0%nat end
    else if c =? 225 then
      match r with d :: e :: _ => if (d =? 154) && (e =? 128) then 3%nat else 0%nat | _ => 0%nat end
    else if c =? 226 then
      match r with
      | d :: e :: _ => if ((d =? 128) && e280_space e) || ((d =? 129) && (e =? 159)) then 3%nat else 0%nat
      | _ => 0%nat
      end
    else if c =? 227 then
      match r with d :: e :: _ => if (d =? 128) && (e =? 128) then 3%nat else 0%nat | _ => 0%nat end
    else 0%nat
  end.

(* the same on the reversed string (head = last byte): utf8.DecodeLastRuneInString yields a white-space rune
   exactly when the string ends with the encoding of one (continuation bytes are not rune starts). *)
Definition space_len_rev (l : bytes) : nat :=
  match l with
  | [] => 0%nat
  | c :: r =>
    if ascii_space c then 1%nat
    else match r with
      | d :: r' =>
        if (d =? 194) && ((c =? 133) || (c =? 160)) then 2%nat
        else match r' with
          | e :: _ =>
            if (e =? 225) && (d =? 154) && (c =? 128) then 3%nat
            else if (e =? 226) && (((d =? 128) && e280_space c) || ((d =? 129) && (c =? 159))) then 3%nat
            else if (e =? 227) && (d =? 128) && (c =? 128) then 3%nat
            else 0%nat
          | [] => 0%nat
          end
      | [] => 0%nat
      end
  end.

Fixpoint trim_with (len : bytes -> nat) (skip : nat) (l : bytes) : bytes :=
  match l with
  | [] => []
  | _ :: r =>
    match skip with
    | S k => trim_with len k r
    | O => match len l with O => l | S k => trim_with len k r end
    end
  end.

Definition trim_left (l : bytes) : bytes := trim_with space_len 0 l.
Definition trim_right (l : bytes) : bytes := frev (trim_with space_len_rev 0 (frev l)).
Definition trim_space (l : bytes) : bytes := trim_right (trim_left l).

(* ------------------------------------------------------------------ stripInlineComment (rune loop) *)

Definition cont (c : Z) : bool := (128 <=? c) && (c <=? 191).
Definition second3 (b0 b1 : Z) : bool :=
  if b0 =? 224 then (160 <=? b1) && (b1 <=? 191)
  else if b0 =? 237 then (128 <=? b1) && (b1 <=? 159) else cont b1.
Definition second4 (b0 b1 : Z) : bool :=
  if b0 =? 240 then (144 <=? b1) && (b1 <=? 191)
  else if b0 =? 244 then (128 <=? b1) && (b1 <=? 143) else cont b1.

(* byte length (2..4) of the well-formed non-ASCII UTF-8 sequence at the head of l; 0 if ill-formed
   (Go's range loop then yields U+FFFD and advances one byte) *)
Definition seq_len (l : bytes) : nat :=
  match l with
  | b0 :: b1 :: t =>
    if (194 <=? b0) && (b0 <=? 223) then (if cont b1 then 2%nat else 0%nat)
    else if (224 <=? b0) && (b0 <=? 239) then
      (if second3 b0 b1 then match t with b2 :: _ => if cont b2 then 3%nat else 0%nat | [] => 0%nat end else 0%nat)
    else if (240 <=? b0) && (b0 <=? 244) then
      (if second4 b0 b1 then
         match t with b2 :: b3 :: _ => if cont b2 && cont b3 then 4%nat else 0%nat | _ => 0%nat end
       else 0%nat)
    else 0%nat
  | _ => 0%nat
  end.

(* the loop of stripInlineComment; [skip] = continuation bytes of the current (already validated) rune that
   are still to be copied by result.WriteRune. An ill-formed byte is rewritten to EF BF BD (WriteRune(U+FFFD)). *)
Fixpoint strip_go (l : bytes) (inq esc : bool) (skip : nat) : bytes :=
  match l with
  | [] => []
  | c :: r =>
    match skip with
    | S k => c :: strip_go r inq esc k
    | O =>
      if c <? 128 then
        if esc then c :: strip_go r inq false 0
        else if c =? 92 then c :: strip_go r inq true 0
        else if c =? 34 then c :: strip_go r (negb inq) false 0
        else if (c =? 35) && negb inq then []
        else c :: strip_go r inq false 0
      else
        match seq_len l with
        | O => 239 :: 191 :: 189 :: strip_go r inq false 0
        | S k => c :: strip_go r inq false k
        end
    end
  end.

Definition strip_inline_comment (v : bytes) : bytes := trim_space (strip_go v false false 0).

(* ------------------------------------------------------------------ strconv.Atoi (64-bit int) / strconv.Itoa *)

Definition is_digit (c : Z) : bool := (48 <=? c) && (c <=? 57).

Fixpoint digits_val (l : bytes) (acc : Z) : option Z :=
  match l with
  | [] => Some acc
  | c :: r => if is_digit c then digits_val r (acc * 10 + (c - 48)) else None
  end.

Definition int_min : Z := -9223372036854775808.
Definition int_max : Z := 9223372036854775807.

(* optional sign, at least one digit, only digits (base 10: no underscores), value in the int64 range *)
Definition atoi (s : bytes) : option Z :=
  match s with
  | [] => None
  | c :: r =>
    let neg := c =? 45 in
    let body := if neg || (c =? 43) then r else s in
    match body with
    | [] => None
    | _ => match digits_val body 0 with
           | None => None
           | Some n => let v := if neg then - n else n in
                       if (int_min <=? v) && (v <=? int_max) then Some v else None
           end
    end
  end.

Fixpoint utoa (fuel : nat) (n : Z) (acc : bytes) : bytes :=
  match fuel with
  | O => acc
  | S f => let acc' := (48 + n mod 10) :: acc in
           if n <? 10 then acc' else utoa f (n / 10) acc'
  end.

Definition itoa (i : Z) : bytes := if i <? 0 then 45 :: utoa 20 (- i) [] else utoa 20 i [].

(* ------------------------------------------------------------------ values, tables, data *)

Section WithFloat.
Variable F : Type.
Variable fmt_f : F -> bytes.               (* strconv.FormatFloat(x, 'f', -1, 64) *)
Variable parse_f : bytes -> option F.      (* strconv.ParseFloat(s, 64), None = error *)

Inductive value := VStr (s : bytes) | VBool (x : bool) | VInt (i : Z) | VFloat (f : F).
Definition table := list (bytes * value).
Definition data := list (bytes * table).

(* strings.Trim(val, quote) : all leading and trailing quote bytes *)
Fixpoint drop_quotes (l : bytes) : bytes :=
  match l with c :: r => if c =? 34 then drop_quotes r else l | [] => [] end.
Definition trim_quotes (l : bytes) : bytes := frev (drop_quotes (frev (drop_quotes l))).

(* parseValue *)
Definition parse_value (v : bytes) : value :=
  if has_prefix [34] v && has_suffix [34] v then VStr (trim_quotes v)
  else if beq v s_true then VBool true
  else if beq v s_false then VBool false
  else match atoi v with
       | Some i => VInt i
       | None => match parse_f v with Some f => VFloat f | None => VStr v end
       end.

(* data[section][key] = value  (insertion order kept; Go's map is unordered, comparison is as maps) *)
Fixpoint tset (k : bytes) (v : value) (t : table) : table :=
  match t with
  | [] => [(k, v)]
  | (k', v') :: r => if beq k k' then (k', v) :: r else (k', v') :: tset k v r
  end.

(* ensureSectionExists *)
Definition ensure (s : bytes) (d : data) : data :=
  match assoc s d with Some _ => d | None => d ++ [(s, [])] end.

Fixpoint dset (s k : bytes) (v : value) (d : data) : data :=
  match d with
  | [] => []
  | (s', t) :: r => if beq s s' then (s', tset k v t) :: r else (s', t) :: dset s k v r
  end.

(* ------------------------------------------------------------------ parser *)

(* bufio.ScanLines: split at '\n' (a final empty piece is harmless: empty lines are skipped), dropCR *)
Fixpoint split_lines (l : bytes) : list bytes :=
  match l with
  | [] => [[]]
  | c :: r =>
    if c =? 10 then [] :: split_lines r
    else match split_lines r with h :: t => (c :: h) :: t | [] => [[c]] end
  end.

Definition drop_cr (l : bytes) : bytes :=
  match frev l with c :: r => if c =? 13 then frev r else l | [] => l end.

(* shouldSkipLine *)
Definition skip_line (l : bytes) : bool :=
  match l with [] => true | c :: _ => c =? 35 end.

(* isSectionHeader *)
Definition is_header (l : bytes) : bool := has_prefix [91] l && has_suffix [93] l.

(* line[1 : len(line)-1] — only evaluated under is_header, where len >= 2 *)
Definition middle (l : bytes) : bytes := removelast (tl l).

(* strings.SplitN(line, "=", 2) *)
Fixpoint split_eq (l : bytes) : option (bytes * bytes) :=
  match l with
  | [] => None
  | c :: r => if c =? 61 then Some ([], r)
              else match split_eq r with Some (k, v) => Some (c :: k, v) | None => None end
  end.

(* getEffectiveSection *)
Definition effective (cur : bytes) : bytes := match cur with [] => s_default | _ => cur end.

(* one iteration of the scanner loop in ParseTOMLFile; None = "invalid line" error *)
Definition parse_line (st : data * bytes) (raw : bytes) : option (data * bytes) :=
  let (d, cur) := st in
  let line := trim_space (drop_cr raw) in
  if skip_line line then Some st
  else if is_header line then
    let s := trim_space (middle line) in Some (ensure s d, s)
  else match split_eq line with
       | None => None
       | Some (k, v) =>
         let key := trim_space k in
         let value := parse_value (strip_inline_comment (trim_space v)) in
         let sec := effective cur in
         Some (dset sec key value (ensure sec d), cur)
       end.

Fixpoint parse_lines (ls : list bytes) (st : data * bytes) : option (data * bytes) :=
  match ls with
  | [] => Some st
  | l :: r => match parse_line st l with Some st' => parse_lines r st' | None => None end
  end.

(* ParseTOMLFile on the file content; None = error "invalid line: ..." (the map is then nil) *)
Definition parse_file (content : bytes) : option data :=
  match parse_lines (split_lines content) ([], []) with Some (d, _) => Some d | None => None end.

(* ------------------------------------------------------------------ writer *)

Definition section_order : list bytes :=
  Eval compute in List.map b ["default"; "compiler"; "build"; "cache"; "external"; "neighbors"; "dependencies"]%string.

(* needsQuoting *)
Definition needs_quoting (s : bytes) : bool := negb (beq s s_true || beq s s_false).

(* the float case of formatTOMLValue (finite x), with the integral-float fix *)
Definition fmt_float (x : F) : bytes :=
  let s := fmt_f x in if mem 46 s then s else s ++ s_dot0.

(* formatTOMLValue *)
Definition fmt_value (v : value) : bytes :=
  match v with
  | VStr s => if needs_quoting s then 34 :: s ++ [34] else s
  | VBool x => if x then s_true else s_false
  | VInt i => itoa i
  | VFloat x => fmt_float x
  end.

Definition comments := bytes -> bytes -> option bytes.    (* inlineComments[section][key] *)
Definition no_comments : comments := fun _ _ => None.

(* writeTOMLKeyValue: key = value comment LF *)
Definition write_kv (cm : comments) (sec : bytes) (kv : bytes * value) : bytes :=
  fst kv ++ s_sep ++ fmt_value (snd kv)
  ++ match cm sec (fst kv) with Some c => s_cmt ++ c | None => [] end ++ [10].

(* writeTOMLSection: LF [name] LF except for default; the list order is the map iteration order *)
Definition write_section (cm : comments) (sec : bytes) (t : table) : bytes :=
  (if beq sec s_default then [] else 10 :: 91 :: sec ++ [93; 10]) ++ List.concat (List.map (write_kv cm sec) t).

(* writeTOMLSections *)
Definition write (cm : comments) (d : data) : bytes :=
  List.concat (List.map (fun s => match assoc s d with Some t => write_section cm s t | None => [] end) section_order).

End WithFloat.

Arguments VStr {F}. Arguments VBool {F}. Arguments VInt {F}. Arguments VFloat {F}.

