(* Instruction selection of both back ends against the reference meaning of FerretCore's scalar operators.
   Definitions only:
     - mexpr: data-flow expression over machine words; qsym / wsym turn a straight-line QBE body / wasm body into the
       expression it returns plus the list of every intermediate expression it computes (all must be defined for
       the code not to trap) -- temporaries' names, local indices and the order of independent instructions vanish;
     - key: the table rows (operator x type); canon / denote: the register representation invariant;
       ref: the reference meaning (wrap / arith / compare of Core);
     - shape_ok / entry_ok_q / entry_ok_w: the decidable recognisers evaluated on the regenerated tables. *)
From Coq Require Import ZArith List Bool.
From FV Require Import Core.Syntax Core.Sem Models.Qbe Models.WasmSem.
Import ListNotations.
Local Open Scope Z_scope.

(* ------------------------------------------------------------------ expressions *)

Inductive mexpr :=
| MArg (n : nat)
| MConst (c : cls) (z : Z)
| MBin (c : cls) (o : bop) (a b : mexpr)
| MCmp (c : cls) (o : cop) (a b : mexpr)
| MUn (o : uop) (a : mexpr).

Fixpoint meval (args : list wval) (e : mexpr) : option wval :=
  match e with
  | MArg n => nth_error args n
  | MConst c z => Some (c, z mod cmod c)
  | MBin c o a b =>
      match meval args a, meval args b with
      | Some (ca, x), Some (cb, y) =>
          if cls_eqb ca c && cls_eqb cb c then
            match sem_bop c o x y with Some r => Some (c, r) | None => None end
          else None
      | _, _ => None
      end
  | MCmp c o a b =>
      match meval args a, meval args b with
      | Some (ca, x), Some (cb, y) =>
          if cls_eqb ca c && cls_eqb cb c then Some (W, Z.b2z (sem_cop c o x y)) else None
      | _, _ => None
      end
  | MUn o a =>
      match meval args a with
      | Some (ca, x) => if cls_eqb ca (uop_arg o) then Some (uop_res o, sem_uop o x) else None
      | None => None
      end
  end.

Definition bop_eqb (a b : bop) : bool :=
  match a, b with
  | Oadd, Oadd | Osub, Osub | Omul, Omul | Odivs, Odivs | Odivu, Odivu | Orems, Orems | Oremsw, Oremsw
  | Oremu, Oremu | Oand, Oand | Oor, Oor | Oxor, Oxor | Oshl, Oshl | Oshrs, Oshrs | Oshru, Oshru => true
  | _, _ => false
  end.
Definition cop_eqb (a b : cop) : bool :=
  match a, b with
  | Ceq, Ceq | Cne, Cne | Clts, Clts | Cltu, Cltu | Cles, Cles | Cleu, Cleu | Cgts, Cgts | Cgtu, Cgtu
  | Cges, Cges | Cgeu, Cgeu => true
  | _, _ => false
  end.
Definition uop_eqb (a b : uop) : bool :=
  match a, b with
  | Uexts32, Uexts32 | Uextu32, Uextu32 | Uwrap, Uwrap | Uext8s, Uext8s | Uext8u, Uext8u
  | Uext16s, Uext16s | Uext16u, Uext16u => true
  | Ueqz c, Ueqz d => cls_eqb c d
  | _, _ => false
  end.
Fixpoint mexpr_eqb (a b : mexpr) : bool :=
  match a, b with
  | MArg n, MArg k => Nat.eqb n k
  | MConst c z, MConst d y => cls_eqb c d && (z =? y)
  | MBin c o x y, MBin d p u v => cls_eqb c d && bop_eqb o p && mexpr_eqb x u && mexpr_eqb y v
  | MCmp c o x y, MCmp d p u v => cls_eqb c d && cop_eqb o p && mexpr_eqb x u && mexpr_eqb y v
  | MUn o x, MUn p u => uop_eqb o p && mexpr_eqb x u
  | _, _ => false
  end.
Fixpoint subterm_b (x e : mexpr) : bool :=
  mexpr_eqb x e ||
  match e with
  | MBin _ _ a b | MCmp _ _ a b => subterm_b x a || subterm_b x b
  | MUn _ a => subterm_b x a
  | _ => false
  end.

(* ------------------------------------------------------------------ QBE body -> expression *)

Definition senv := list (nat * (cls * mexpr)).

Definition sfetch (c : cls) (e : senv) (a : qarg) : option mexpr :=
  match a with
  | Imm z => Some (MConst c z)
  | Tmp n => match qlookup n e with
             | Some (cn, x) => match c, cn with
                               | W, W | L, L => Some x
                               | W, L => Some (MUn Uwrap x)
                               | L, W => None
                               end
             | None => None
             end
  end.

Fixpoint qsym_run (rc : cls) (body : list qinstr) (e : senv) (effs : list mexpr) : option (mexpr * list mexpr) :=
  match body with
  | [] => None
  | i :: rest =>
    match i with
    | QRet a => match rest with
                | [] => match sfetch rc e a with Some x => Some (x, x :: effs) | None => None end
                | _ => None
                end
    | QBin d c o a b =>
        match sfetch c e a, sfetch c e b with
        | Some x, Some y => let r := MBin c o x y in qsym_run rc rest ((d, (c, r)) :: e) (r :: effs)
        | _, _ => None
        end
    | QCmp d ac o a b =>
        match sfetch ac e a, sfetch ac e b with
        | Some x, Some y => let r := MCmp ac o x y in qsym_run rc rest ((d, (W, r)) :: e) (r :: effs)
        | _, _ => None
        end
    | QCopy d c a =>
        match sfetch c e a with
        | Some x => qsym_run rc rest ((d, (c, x)) :: e) (x :: effs)
        | None => None
        end
    | QExt d c o a =>
        if is_ext o && cls_eqb c (uop_res o) then
          match sfetch W e a with
          | Some x => let r := MUn o x in qsym_run rc rest ((d, (c, r)) :: e) (r :: effs)
          | None => None
          end
        else None
    | QAlloc _ _ _ | QLoad _ _ _ _ | QStore _ _ _ => None
    end
  end.

Fixpoint sinit (n : nat) (ps : list cls) : senv :=
  match ps with
  | [] => []
  | c :: r => (n, (c, MArg n)) :: sinit (S n) r
  end.

Definition qsym (f : qfun) : option (mexpr * list mexpr) := qsym_run (qret f) (qbody f) (sinit 0 (qparams f)) [].

(* ------------------------------------------------------------------ wasm body -> expression *)

Definition sval := (cls * mexpr)%type.

Fixpoint wsym_run (rc : cls) (body : list winstr) (st : list sval) (loc : list sval) (effs : list mexpr)
  : option (mexpr * list mexpr) :=
  match body with
  | [] => None
  | i :: rest =>
    match i with
    | WReturn => match st with
                 | [(c, x)] => if cls_eqb c rc then Some (x, x :: effs) else None
                 | _ => None
                 end
    | WGet n => match nth_error loc n with
                | Some v => wsym_run rc rest (v :: st) loc effs
                | None => None
                end
    | WSet n => match st, nth_error loc n with
                | (c, x) :: st', Some (c0, _) =>
                    if cls_eqb c c0 then wsym_run rc rest st' (set_nth n (c, x) loc) (x :: effs) else None
                | _, _ => None
                end
    | WConst c z => wsym_run rc rest ((c, MConst c z) :: st) loc effs
    | WBin c o => match st with
                  | (cy, y) :: (cx, x) :: st' =>
                      if cls_eqb cx c && cls_eqb cy c then
                        let r := MBin c o x y in wsym_run rc rest ((c, r) :: st') loc (r :: effs)
                      else None
                  | _ => None
                  end
    | WCmp c o => match st with
                  | (cy, y) :: (cx, x) :: st' =>
                      if cls_eqb cx c && cls_eqb cy c then
                        let r := MCmp c o x y in wsym_run rc rest ((W, r) :: st') loc (r :: effs)
                      else None
                  | _ => None
                  end
    | WUn o => match st with
               | (cx, x) :: st' =>
                   if cls_eqb cx (uop_arg o) then
                     let r := MUn o x in wsym_run rc rest ((uop_res o, r) :: st') loc (r :: effs)
                   else None
               | _ => None
               end
    | WAlloc | WLoad _ _ | WStore _ _ => None
    end
  end.

Fixpoint winit (n : nat) (ps : list cls) : list sval :=
  match ps with
  | [] => []
  | c :: r => (c, MArg n) :: winit (S n) r
  end.

Definition wsym (f : wfun) : option (mexpr * list mexpr) :=
  wsym_run (wret f) (wbody f) [] (winit 0 (wparams f) ++ map (fun c => (c, MConst c 0)) (wlocals f)) [].

(* ------------------------------------------------------------------ keys, representation, reference meaning *)

Inductive vty := VI (t : ity) | VB.

Inductive key :=
| KBin (o : binop) (t : ity)      (* a o b on integers of type t: + - * / % == != < <= > >= *)
| KBBin (o : binop)               (* a o b on bool: == != && || (non short-circuit operator instruction) *)
| KNeg (t : ity)                  (* -a *)
| KNot                            (* !a *)
| KCast (s t : ity)               (* a as t, a : s *)
| KRt (v : vty).                  (* alloca v; store a; load *)

Definition binop_eqb (a b : binop) : bool :=
  match a, b with
  | Add, Add | Sub, Sub | Mul, Mul | Div, Div | Mod, Mod | Eq, Eq | Ne, Ne | Lt, Lt | Le, Le | Gt, Gt | Ge, Ge
  | And, And | Or, Or => true
  | _, _ => false
  end.
Definition vty_eqb (a b : vty) : bool :=
  match a, b with VI s, VI t => ity_eqb s t | VB, VB => true | _, _ => false end.
Definition key_eqb (a b : key) : bool :=
  match a, b with
  | KBin o t, KBin p u => binop_eqb o p && ity_eqb t u
  | KBBin o, KBBin p => binop_eqb o p
  | KNeg t, KNeg u => ity_eqb t u
  | KNot, KNot => true
  | KCast s t, KCast u v => ity_eqb s u && ity_eqb t v
  | KRt v, KRt w => vty_eqb v w
  | _, _ => false
  end.

(* register class of a type: 64-bit types live in class l / i64, everything else in class w / i32 *)
Definition tcls (t : ity) : cls := if bits t =? 64 then L else W.
Definition vcls (v : vty) : cls := match v with VI t => tcls t | VB => W end.

(* Representation invariant maintained by both back ends: a register holding a value of type t contains the
   two's complement encoding of that value in the register's full width -- i.e. 8/16-bit signed values are
   sign-extended to 32 bits, 8/16-bit unsigned values zero-extended (this is what constants, loads
   (loadsb/loadub/loadsh/loaduh, i32.load8_s/8_u/16_s/16_u) and casts (shl+sar / and mask) produce and what
   comparisons, division and widening casts consume). *)
Definition denote (t : ity) (r : Z) : Z := wrap t r.
Definition canon (t : ity) (r : Z) : Prop := 0 <= r < cmod (tcls t) /\ wrap t r mod cmod (tcls t) = r.
Definition encode (t : ity) (v : Z) : Z := v mod cmod (tcls t).

Definition canonV (v : vty) (r : Z) : Prop := match v with VI t => canon t r | VB => r = 0 \/ r = 1 end.
Definition denoteV (v : vty) (r : Z) : Z := match v with VI t => denote t r | VB => r end.
Definition canonVb (v : vty) (r : Z) : bool :=
  match v with
  | VI t => (0 <=? r) && (r <? cmod (tcls t)) && (wrap t r mod cmod (tcls t) =? r)
  | VB => (r =? 0) || (r =? 1)
  end.

Definition argtys (k : key) : list vty :=
  match k with
  | KBin _ t => [VI t; VI t]
  | KBBin _ => [VB; VB]
  | KNeg t => [VI t]
  | KNot => [VB]
  | KCast s _ => [VI s]
  | KRt v => [v]
  end.
Definition resty (k : key) : vty :=
  match k with
  | KBin o t => if is_arith o then VI t else VB
  | KBBin _ => VB
  | KNeg t => VI t
  | KNot => VB
  | KCast _ t => VI t
  | KRt v => v
  end.

Fixpoint denotes (ts : list vty) (rs : list Z) : list Z :=
  match ts, rs with
  | t :: ts', r :: rs' => denoteV t r :: denotes ts' rs'
  | _, _ => []
  end.

(* reference meaning on mathematical values (booleans as 0/1); None = undefined (x / 0, MIN / -1) or not a row *)
Definition ref (k : key) (vs : list Z) : option Z :=
  match k, vs with
  | KBin o t, [a; b] => if is_arith o then arith o t a b
                        else match compare o a b with Some c => Some (Z.b2z c) | None => None end
  | KBBin o, [a; b] => match o with
                       | Eq => Some (Z.b2z (a =? b))
                       | Ne => Some (Z.b2z (negb (a =? b)))
                       | And => Some (Z.min a b)
                       | Or => Some (Z.max a b)
                       | _ => None
                       end
  | KNeg t, [a] => Some (wrap t (- a))
  | KNot, [a] => Some (1 - a)
  | KCast _ t, [a] => Some (wrap t a)
  | KRt _, [a] => Some a
  | _, _ => None
  end.

(* ------------------------------------------------------------------ recognised shapes *)

Definition A0 := MArg 0.
Definition A1 := MArg 1.
Definition subword (t : ity) : bool := bits t <? 32.
Definition contained (s t : ity) : bool := (tmin t <=? tmin s) && (tmax s <=? tmax t).

(* accepted ways of re-establishing the invariant for an 8/16-bit type on a w-class expression x *)
Definition norms (t : ity) (x : mexpr) : list mexpr :=
  if subword t then
    if signed t then
      [MBin W Oshrs (MBin W Oshl x (MConst W (32 - bits t))) (MConst W (32 - bits t));
       MUn (if bits t =? 8 then Uext8s else Uext16s) x]
    else
      [MBin W Oand x (MConst W (2 ^ bits t - 1));
       MUn (if bits t =? 8 then Uext8u else Uext16u) x]
  else [].

Definition core (k : key) : list mexpr :=
  match k with
  | KBin o t =>
      let c := tcls t in
      let s := signed t in
      match o with
      | Add => [MBin c Oadd A0 A1]
      | Sub => [MBin c Osub A0 A1]
      | Mul => [MBin c Omul A0 A1]
      | Div => [MBin c (if s then Odivs else Odivu) A0 A1]
      | Mod => if s then [MBin c Orems A0 A1; MBin c Oremsw A0 A1] else [MBin c Oremu A0 A1]
      | Eq => [MCmp c Ceq A0 A1]
      | Ne => [MCmp c Cne A0 A1]
      | Lt => [MCmp c (if s then Clts else Cltu) A0 A1]
      | Le => [MCmp c (if s then Cles else Cleu) A0 A1]
      | Gt => [MCmp c (if s then Cgts else Cgtu) A0 A1]
      | Ge => [MCmp c (if s then Cges else Cgeu) A0 A1]
      | And | Or => []
      end
  | KBBin o =>
      match o with
      | Eq => [MCmp W Ceq A0 A1]
      | Ne => [MCmp W Cne A0 A1]
      | And => [MBin W Oand A0 A1]
      | Or => [MBin W Oor A0 A1]
      | _ => []
      end
  | KNeg t => [MBin (tcls t) Osub (MConst (tcls t) 0) A0]
  | KNot => [MCmp W Ceq A0 (MConst W 0); MUn (Ueqz W) A0]
  | KCast s t =>
      match tcls s, tcls t with
      | W, L => [MUn (if signed s then Uexts32 else Uextu32) A0]
      | L, W => [MUn Uwrap A0]
      | _, _ => [A0]
      end
  | KRt _ => []
  end.

(* rows whose bare machine operation leaves the invariant broken for 8/16-bit types
   (signed division: MIN / -1 = -MIN does not fit, e.g. i8 -128 / -1 leaves +128 in the 32-bit register;
   the remainder and the unsigned quotient always fit) *)
Definition must_norm (k : key) : bool :=
  match k with
  | KBin (Add | Sub | Mul) t => subword t
  | KBin Div t => subword t && signed t
  | KNeg t => subword t
  | KCast s t => subword t && negb (contained s t)
  | _ => false
  end.
Definition may_norm (k : key) : option ity :=
  match k with
  | KBin o t => if is_arith o then Some t else None
  | KNeg t => Some t
  | KCast _ t => Some t
  | _ => None
  end.

Definition shape_ok (k : key) (e : mexpr) : bool :=
  existsb (fun c => (negb (must_norm k) && mexpr_eqb e c)
                    || match may_norm k with
                       | Some t => existsb (mexpr_eqb e) (norms t c)
                       | None => false
                       end) (core k).

Definition cls_list_eqb (a b : list cls) : bool :=
  (Nat.eqb (length a) (length b)) && forallb (fun p => cls_eqb (fst p) (snd p)) (combine a b).

(* ---- load/store round trips are recognised as literal instruction sequences *)
Definition ldk_eqb (a b : ldk) : bool :=
  match a, b with
  | LDsb, LDsb | LDub, LDub | LDsh, LDsh | LDuh, LDuh | LDsw, LDsw | LDuw, LDuw | LDl, LDl => true
  | _, _ => false
  end.
Definition stk_eqb (a b : stk) : bool :=
  match a, b with STb, STb | STh, STh | STw, STw | STl, STl => true | _, _ => false end.

Definition vbytes (v : vty) : Z := match v with VI t => bits t / 8 | VB => 1 end.
Definition vsigned (v : vty) : bool := match v with VI t => signed t | VB => false end.
Definition rt_st (v : vty) : stk :=
  match vbytes v with 1 => STb | 2 => STh | 4 => STw | _ => STl end.
(* loads that re-establish the invariant for v *)
Definition rt_ld_ok (v : vty) (k : ldk) : bool :=
  match vbytes v with
  | 1 => ldk_eqb k (if vsigned v then LDsb else LDub)
  | 2 => ldk_eqb k (if vsigned v then LDsh else LDuh)
  | 4 => ldk_eqb k LDsw || ldk_eqb k LDuw
  | _ => ldk_eqb k LDl
  end.

Definition rt_ok_q (v : vty) (f : qfun) : bool :=
  match qbody f with
  | [QAlloc a _ size; QStore sk (Tmp 0) (Tmp a1); QLoad d c lk (Tmp a2); QRet (Tmp d')] =>
      Nat.eqb a 1 && Nat.eqb a1 1 && Nat.eqb a2 1 && Nat.eqb d 2 && Nat.eqb d' 2
      && (vbytes v <=? size) && stk_eqb sk (rt_st v) && rt_ld_ok v lk && cls_eqb c (vcls v)
      && negb (cls_eqb c W && ldk_eqb lk LDl)
  | _ => false
  end.

(* the wasm round trip is recognised literally: locals 1, 2 are the emitter's block / scratch registers, 3 the address,
   4 the loaded value *)
Definition rt_ok_w (v : vty) (f : wfun) : bool :=
  cls_list_eqb (wlocals f) [W; W; W; vcls v] &&
  match wbody f with
  | [WConst L size; WAlloc; WSet 3; WGet 3; WGet 0; WStore sc sk; WGet 3; WLoad lc lk; WSet 4; WGet 4; WReturn] =>
      (vbytes v <=? size) && stk_eqb sk (rt_st v) && cls_eqb sc (vcls v)
      && rt_ld_ok v lk && cls_eqb lc (vcls v) && wld_ok lc lk
  | _ => false
  end.

(* ------------------------------------------------------------------ the checkers run on the regenerated tables *)

Definition sig_ok (k : key) (ps : list cls) (r : cls) : bool :=
  cls_list_eqb ps (map vcls (argtys k)) && cls_eqb r (vcls (resty k)).

Definition entry_ok_q (k : key) (f : qfun) : bool :=
  sig_ok k (qparams f) (qret f) &&
  match k with
  | KRt v => rt_ok_q v f
  | _ => match qsym f with
         | Some (e, effs) => shape_ok k e && forallb (fun x => subterm_b x e) effs
         | None => false
         end
  end.

Definition entry_ok_w (k : key) (f : wfun) : bool :=
  sig_ok k (wparams f) (wret f) &&
  match k with
  | KRt v => rt_ok_w v f
  | _ => match wsym f with
         | Some (e, effs) => shape_ok k e && forallb (fun x => subterm_b x e) effs
         | None => false
         end
  end.

Definition bad_entries_q (tbl : list (key * qfun)) : list key :=
  map fst (filter (fun p => negb (entry_ok_q (fst p) (snd p))) tbl).
Definition bad_entries_w (tbl : list (key * wfun)) : list key :=
  map fst (filter (fun p => negb (entry_ok_w (fst p) (snd p))) tbl).

(* every row the hooks are asked to produce (completeness of the regenerated tables is checked against it) *)
Definition all_ity : list ity := [I8; I16; I32; I64; U8; U16; U32; U64].
Definition all_keys : list key :=
  flat_map (fun t => map (fun o => KBin o t) [Add; Sub; Mul; Div; Mod; Lt; Le; Gt; Ge; Eq; Ne]) all_ity
  ++ map KNeg all_ity
  ++ flat_map (fun s => flat_map (fun t => if ity_eqb s t then [] else [KCast s t]) all_ity) all_ity
  ++ map (fun t => KRt (VI t)) all_ity ++ [KRt VB]
  ++ map KBBin [Eq; Ne; And; Or] ++ [KNot].

Definition covers {A} (tbl : list (key * A)) : bool :=
  forallb (fun k => existsb (fun p => key_eqb k (fst p)) tbl) all_keys.

(* first table entry for a key *)
Fixpoint find_key {A} (k : key) (tbl : list (key * A)) : option A :=
  match tbl with
  | [] => None
  | (k', f) :: r => if key_eqb k k' then Some f else find_key k r
  end.

(* ------------------------------------------------------------------ witness search (used by harness/isel.py)
   evaluate an entry on concrete canonical operands and compare with the reference *)
Definition zero_mem : mem := fun _ => 0.
Definition probe_q (k : key) (f : qfun) (rs : list Z) : (option Z * option Z) :=
  (ref k (denotes (argtys k) rs),
   match qexec f rs zero_mem 4096 with
   | Some r => if canonVb (resty k) r then Some (denoteV (resty k) r) else Some (r + 2 ^ 100)
   | None => None
   end).
Definition probe_w (k : key) (f : wfun) (rs : list Z) : (option Z * option Z) :=
  (ref k (denotes (argtys k) rs),
   match wexec f rs zero_mem 4096 with
   | Some r => if canonVb (resty k) r then Some (denoteV (resty k) r) else Some (r + 2 ^ 100)
   | None => None
   end).
