(* Semantics of the WebAssembly subset the Ferret wasm emitter selects for scalar integer code
   (internal/codegen/wasm/emit.go: emitBinary, emitUnary, emitCast, emitLoad, emitStore, emitAlloca, emitTerm/Return;
   opcodes.go: binaryOpcode, castOpcode, loadOpcode, storeOpcode).  Definitions only.
   A stack machine over i32 (class W) / i64 (class L) words with typed locals; the word arithmetic is the one of
   Models/Qbe.v part 1.  The translator (harness/isel.py) strips the emitter's block-dispatch frame
   (`i32.const 0; local.set B; loop; local.get B; i32.const 0; i32.eq; if ... end; br 0; end; <default>; return`)
   after checking it byte for byte, and hands the instructions of the single block to this model. *)
From Coq Require Import ZArith List Bool.
From FV Require Import Models.Qbe.
Import ListNotations.
Local Open Scope Z_scope.

Inductive winstr :=
| WGet (n : nat)                      (* local.get *)
| WSet (n : nat)                      (* local.set *)
| WConst (c : cls) (z : Z)            (* i32.const / i64.const (signed LEB value) *)
| WBin (c : cls) (o : bop)            (* i32./i64. add sub mul div_s div_u rem_s rem_u and or xor shl shr_s shr_u *)
| WCmp (c : cls) (o : cop)            (* eq ne lt_s lt_u gt_s gt_u le_s le_u ge_s ge_u *)
| WUn (o : uop)                       (* i64.extend_i32_s/u, i32.wrap_i64, i32.extend8_s/16_s, i32.eqz, i64.eqz *)
| WAlloc                              (* call $ferret_alloc : [i64] -> [i32] *)
| WLoad (c : cls) (k : ldk)           (* i32.load8_s/8_u/16_s/16_u, i32.load, i64.load; offset 0 *)
| WStore (c : cls) (k : stk)          (* i32.store8/16, i32.store, i64.store; offset 0 *)
| WReturn.

(* locals 0..|wparams|-1 are the parameters, then the declared locals (zero-initialised) *)
Record wfun := { wparams : list cls; wlocals : list cls; wret : cls; wbody : list winstr }.

Definition wval := (cls * Z)%type.
Record wstate := { w_stack : list wval; w_locals : list wval; w_mem : mem; w_brk : Z }.

Fixpoint set_nth {A} (n : nat) (v : A) (l : list A) : list A :=
  match n, l with
  | _, [] => []
  | O, _ :: r => v :: r
  | S n', x :: r => x :: set_nth n' v r
  end.

Definition wpush (v : wval) (s : wstate) (st : list wval) : wstate :=
  {| w_stack := v :: st; w_locals := w_locals s; w_mem := w_mem s; w_brk := w_brk s |}.

(* wasm loads: class of the result and whether the kind exists for that class *)
Definition wld_ok (c : cls) (k : ldk) : bool :=
  match c, k with
  | W, (LDsb | LDub | LDsh | LDuh | LDsw) => true      (* i32.load = LDsw read as a 32-bit word *)
  | L, LDl => true
  | _, _ => false
  end.
Definition wst_ok (c : cls) (k : stk) : bool :=
  match c, k with
  | W, (STb | STh | STw) => true
  | L, STl => true
  | _, _ => false
  end.

Fixpoint wrun (rc : cls) (body : list winstr) (s : wstate) : option Z :=
  match body with
  | [] => None
  | i :: rest =>
    match i with
    | WReturn => match w_stack s with
                 | [(c, v)] => if cls_eqb c rc then Some v else None
                 | _ => None
                 end
    | WGet n => match nth_error (w_locals s) n with
                | Some v => wrun rc rest (wpush v s (w_stack s))
                | None => None
                end
    | WSet n => match w_stack s, nth_error (w_locals s) n with
                | (c, v) :: st, Some (c0, _) =>
                    if cls_eqb c c0 then
                      wrun rc rest {| w_stack := st; w_locals := set_nth n (c, v) (w_locals s);
                                      w_mem := w_mem s; w_brk := w_brk s |}
                    else None
                | _, _ => None
                end
    | WConst c z => wrun rc rest (wpush (c, z mod cmod c) s (w_stack s))
    | WBin c o => match w_stack s with
                  | (cy, y) :: (cx, x) :: st =>
                      if cls_eqb cx c && cls_eqb cy c then
                        match sem_bop c o x y with
                        | Some r => wrun rc rest (wpush (c, r) s st)
                        | None => None
                        end
                      else None
                  | _ => None
                  end
    | WCmp c o => match w_stack s with
                  | (cy, y) :: (cx, x) :: st =>
                      if cls_eqb cx c && cls_eqb cy c then wrun rc rest (wpush (W, Z.b2z (sem_cop c o x y)) s st)
                      else None
                  | _ => None
                  end
    | WUn o => match w_stack s with
               | (cx, x) :: st =>
                   if cls_eqb cx (uop_arg o) then wrun rc rest (wpush (uop_res o, sem_uop o x) s st) else None
               | _ => None
               end
    | WAlloc => match w_stack s with
                | (L, size) :: st =>
                    wrun rc rest {| w_stack := (W, w_brk s) :: st; w_locals := w_locals s; w_mem := w_mem s;
                                    w_brk := w_brk s + size |}
                | _ => None
                end
    | WLoad c k => match w_stack s with
                   | (W, p) :: st =>
                       if wld_ok c k then
                         match ld_val k c (load_bytes (ld_bytes k) p (w_mem s)) with
                         | Some v => wrun rc rest (wpush (c, v) s st)
                         | None => None
                         end
                       else None
                   | _ => None
                   end
    | WStore c k => match w_stack s with
                    | (cv, v) :: (W, p) :: st =>
                        if wst_ok c k && cls_eqb cv c then
                          wrun rc rest {| w_stack := st; w_locals := w_locals s;
                                          w_mem := store_bytes (st_bytes k) p v (w_mem s); w_brk := w_brk s |}
                        else None
                    | _ => None
                    end
    end
  end.

Definition wexec (f : wfun) (args : list Z) (m : mem) (brk : Z) : option Z :=
  if Nat.eqb (length args) (length (wparams f)) then
    wrun (wret f) (wbody f)
         {| w_stack := []; w_locals := combine (wparams f) args ++ map (fun c => (c, 0)) (wlocals f);
            w_mem := m; w_brk := brk |}
  else None.
