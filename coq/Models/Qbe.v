(* Machine-level semantics of the QBE IL subset the Ferret emitter selects for scalar integer code
   (internal/codegen/qbe_embeddings/emit.go: emitBinary, emitUnary, emitCast, handleIntegerCast, emitLoad,
   emitStore, emitAlloca).  Definitions only.

   Part 1 (shared with Models/WasmSem.v): two's complement machine words of class w (32 bit) and l (64 bit),
   held as Z in [0, 2^32) resp. [0, 2^64), and the meaning of the arithmetic / comparison / extension
   operators on them.  Part 2: QBE instructions, temporaries, a byte-map memory and a straight-line executor. *)
From Coq Require Import ZArith List Bool.
Import ListNotations.
Local Open Scope Z_scope.

(* ------------------------------------------------------------------ machine words *)

Inductive cls := W | L.
Definition cls_eqb (a b : cls) : bool := match a, b with W, W | L, L => true | _, _ => false end.
Definition cbits (c : cls) : Z := match c with W => 32 | L => 64 end.
Definition cmod (c : cls) : Z := 2 ^ cbits c.
(* signed reading of a word x in [0, cmod c) *)
Definition sgn (c : cls) (x : Z) : Z := if x <? cmod c / 2 then x else x - cmod c.

Inductive bop := Oadd | Osub | Omul | Odivs | Odivu | Orems | Oremsw | Oremu | Oand | Oor | Oxor | Oshl | Oshrs | Oshru.
Inductive cop := Ceq | Cne | Clts | Cltu | Cles | Cleu | Cgts | Cgtu | Cges | Cgeu.
(* Uexts32/Uextu32 : w -> l (extsw/extuw, i64.extend_i32_s/u); Uwrap : l -> w (a w-class use of an l temporary,
   i32.wrap_i64); Uext8s.. : w -> w (extsb/extub/extsh/extuh, i32.extend8_s/16_s); Ueqz c : c -> w (i32.eqz/i64.eqz) *)
Inductive uop := Uexts32 | Uextu32 | Uwrap | Uext8s | Uext8u | Uext16s | Uext16u | Ueqz (c : cls).

(* None = the machine traps (division by zero; MIN / -1 for the signed division of x86 `idiv` and of wasm `div_s`).
   Orems is the x86 remainder (traps on MIN % -1 as well), Oremsw the wasm one (MIN % -1 = 0). *)
Definition sem_bop (c : cls) (o : bop) (x y : Z) : option Z :=
  let M := cmod c in
  match o with
  | Oadd => Some ((x + y) mod M)
  | Osub => Some ((x - y) mod M)
  | Omul => Some ((x * y) mod M)
  | Odivs => if y =? 0 then None
             else if (sgn c x =? - (M / 2)) && (sgn c y =? -1) then None
             else Some (Z.quot (sgn c x) (sgn c y) mod M)
  | Orems => if y =? 0 then None
             else if (sgn c x =? - (M / 2)) && (sgn c y =? -1) then None
             else Some (Z.rem (sgn c x) (sgn c y) mod M)
  | Oremsw => if y =? 0 then None else Some (Z.rem (sgn c x) (sgn c y) mod M)
  | Odivu => if y =? 0 then None else Some (x / y)
  | Oremu => if y =? 0 then None else Some (x mod y)
  | Oand => Some (Z.land x y)
  | Oor => Some (Z.lor x y)
  | Oxor => Some (Z.lxor x y)
  | Oshl => Some ((x * 2 ^ (y mod cbits c)) mod M)
  | Oshrs => Some ((sgn c x / 2 ^ (y mod cbits c)) mod M)
  | Oshru => Some (x / 2 ^ (y mod cbits c))
  end.

Definition sem_cop (c : cls) (o : cop) (x y : Z) : bool :=
  match o with
  | Ceq => x =? y
  | Cne => negb (x =? y)
  | Clts => sgn c x <? sgn c y
  | Cltu => x <? y
  | Cles => sgn c x <=? sgn c y
  | Cleu => x <=? y
  | Cgts => sgn c y <? sgn c x
  | Cgtu => y <? x
  | Cges => sgn c y <=? sgn c x
  | Cgeu => y <=? x
  end.

Definition sx (n x : Z) : Z := let v := x mod 2 ^ n in if v <? 2 ^ (n - 1) then v else v - 2 ^ n.

Definition uop_arg (o : uop) : cls :=
  match o with Uwrap => L | Ueqz c => c | _ => W end.
Definition uop_res (o : uop) : cls :=
  match o with Uexts32 | Uextu32 => L | _ => W end.
Definition sem_uop (o : uop) (x : Z) : Z :=
  match o with
  | Uexts32 => sgn W x mod cmod L
  | Uextu32 => x
  | Uwrap => x mod cmod W
  | Uext8s => sx 8 x mod cmod W
  | Uext8u => x mod 2 ^ 8
  | Uext16s => sx 16 x mod cmod W
  | Uext16u => x mod 2 ^ 16
  | Ueqz _ => Z.b2z (x =? 0)
  end.

(* ------------------------------------------------------------------ byte-map memory (little endian) *)

Definition mem := Z -> Z.
Definition mupd (m : mem) (p v : Z) : mem := fun q => if q =? p then v else m q.
Fixpoint store_bytes (n : nat) (p v : Z) (m : mem) : mem :=
  match n with
  | O => m
  | S n' => mupd (store_bytes n' (p + 1) (v / 256) m) p (v mod 256)
  end.
Fixpoint load_bytes (n : nat) (p : Z) (m : mem) : Z :=
  match n with
  | O => 0
  | S n' => m p + 256 * load_bytes n' (p + 1) m
  end.

Inductive ldk := LDsb | LDub | LDsh | LDuh | LDsw | LDuw | LDl.
Inductive stk := STb | STh | STw | STl.
Definition ld_bytes (k : ldk) : nat :=
  match k with LDsb | LDub => 1 | LDsh | LDuh => 2 | LDsw | LDuw => 4 | LDl => 8 end%nat.
Definition st_bytes (k : stk) : nat := match k with STb => 1 | STh => 2 | STw => 4 | STl => 8 end%nat.
Definition st_cls (k : stk) : cls := match k with STl => L | _ => W end.
(* value produced by a load of kind k into a register of class c from the raw little-endian number *)
Definition ld_val (k : ldk) (c : cls) (raw : Z) : option Z :=
  match k, c with
  | LDsb, _ => Some (sx 8 raw mod cmod c)
  | LDub, _ => Some raw
  | LDsh, _ => Some (sx 16 raw mod cmod c)
  | LDuh, _ => Some raw
  | LDsw, _ => Some (sx 32 raw mod cmod c)
  | LDuw, _ => Some raw
  | LDl, L => Some raw
  | LDl, W => None
  end.

(* ------------------------------------------------------------------ QBE *)

Inductive qarg := Tmp (n : nat) | Imm (z : Z).

Inductive qinstr :=
| QBin (d : nat) (c : cls) (o : bop) (a b : qarg)      (* %d =c op a, b *)
| QCmp (d : nat) (ac : cls) (o : cop) (a b : qarg)     (* %d =w c<op><ac> a, b *)
| QCopy (d : nat) (c : cls) (a : qarg)                 (* %d =c copy a *)
| QExt (d : nat) (c : cls) (o : uop) (a : qarg)        (* %d =c ext{s,u}{b,h,w} a *)
| QAlloc (d : nat) (align size : Z)                    (* %d =l alloc<align> size *)
| QLoad (d : nat) (c : cls) (k : ldk) (a : qarg)       (* %d =c load<k> a *)
| QStore (k : stk) (v a : qarg)                        (* store<k> v, a *)
| QRet (a : qarg).

(* parameters are the temporaries 0, 1, ...; other temporaries are numbered by the translator in order of first
   appearance (so renaming temporaries in the emitter does not change the table) *)
Record qfun := { qparams : list cls; qret : cls; qbody : list qinstr }.

Definition qenv := list (nat * (cls * Z)).
Fixpoint qlookup {A} (n : nat) (e : list (nat * A)) : option A :=
  match e with
  | [] => None
  | (k, v) :: r => if Nat.eqb n k then Some v else qlookup n r
  end.

(* use of an operand in a position of class c: a w position may read an l temporary (low half), not conversely *)
Definition fetch (c : cls) (e : qenv) (a : qarg) : option Z :=
  match a with
  | Imm z => Some (z mod cmod c)
  | Tmp n => match qlookup n e with
             | Some (cn, v) => match c, cn with
                               | W, W | L, L => Some v
                               | W, L => Some (v mod cmod W)
                               | L, W => None
                               end
             | None => None
             end
  end.

Definition is_ext (o : uop) : bool :=
  match o with Uexts32 | Uextu32 | Uext8s | Uext8u | Uext16s | Uext16u => true | _ => false end.

Record qstate := { q_env : qenv; q_mem : mem; q_sp : Z }.

Definition qbind (d : nat) (c : cls) (v : Z) (s : qstate) : qstate :=
  {| q_env := (d, (c, v)) :: q_env s; q_mem := q_mem s; q_sp := q_sp s |}.

(* straight-line execution up to the first `ret`; None = trap or ill-formed code *)
Fixpoint qrun (rc : cls) (body : list qinstr) (s : qstate) : option Z :=
  match body with
  | [] => None
  | i :: rest =>
    match i with
    | QRet a => match rest with [] => fetch rc (q_env s) a | _ => None end
    | QBin d c o a b =>
        match fetch c (q_env s) a, fetch c (q_env s) b with
        | Some x, Some y => match sem_bop c o x y with
                            | Some r => qrun rc rest (qbind d c r s)
                            | None => None
                            end
        | _, _ => None
        end
    | QCmp d ac o a b =>
        match fetch ac (q_env s) a, fetch ac (q_env s) b with
        | Some x, Some y => qrun rc rest (qbind d W (Z.b2z (sem_cop ac o x y)) s)
        | _, _ => None
        end
    | QCopy d c a =>
        match fetch c (q_env s) a with
        | Some x => qrun rc rest (qbind d c x s)
        | None => None
        end
    | QExt d c o a =>
        if is_ext o && cls_eqb c (uop_res o) then
          match fetch W (q_env s) a with
          | Some x => qrun rc rest (qbind d c (sem_uop o x) s)
          | None => None
          end
        else None
    | QAlloc d _ size =>
        if 0 <=? size then
          qrun rc rest {| q_env := (d, (L, q_sp s)) :: q_env s; q_mem := q_mem s; q_sp := q_sp s + size |}
        else None
    | QLoad d c k a =>
        match fetch L (q_env s) a with
        | Some p => match ld_val k c (load_bytes (ld_bytes k) p (q_mem s)) with
                    | Some v => qrun rc rest (qbind d c v s)
                    | None => None
                    end
        | None => None
        end
    | QStore k v a =>
        match fetch (st_cls k) (q_env s) v, fetch L (q_env s) a with
        | Some x, Some p =>
            qrun rc rest {| q_env := q_env s; q_mem := store_bytes (st_bytes k) p x (q_mem s); q_sp := q_sp s |}
        | _, _ => None
        end
    end
  end.

Fixpoint qinit (n : nat) (ps : list cls) (args : list Z) : option qenv :=
  match ps, args with
  | [], [] => Some []
  | c :: ps', v :: args' => match qinit (S n) ps' args' with
                            | Some e => Some ((n, (c, v)) :: e)
                            | None => None
                            end
  | _, _ => None
  end.

(* call f with argument words args (each in [0, cmod) of its parameter class) in memory m, stack pointer sp *)
Definition qexec (f : qfun) (args : list Z) (m : mem) (sp : Z) : option Z :=
  match qinit 0 (qparams f) args with
  | Some e => qrun (qret f) (qbody f) {| q_env := e; q_mem := m; q_sp := sp |}
  | None => None
  end.
