(* C12 — visibility by capitalisation.  Reference model of a small multi-module project language together with an
   executable check implementing the visibility rules of the compiler (written for the behaviour after
   fixes/C12-visibility-contexts.patch: every expression / type position is visited).

   Ports:
     is_capitalized   internal/utils/strings/string.go  IsCapitalized   (utils.IsExported = IsCapitalized;
                      collector.go sets Symbol.Exported = utils.IsExported(name))
     static_access    internal/semantics/resolver/resolver.go  resolveStaticAccess  (module::symbol branch)
     chk_ty           resolver.go resolveTypeNode
     chk_e / chk_s    resolver.go resolveExpr / resolveNode  (module accesses)  merged with
                      typechecker.go checkSelectorExpr        (private field: receiver only)
     is_recv / kill / after   the scope-chain walk of checkSelectorExpr: the base must be an identifier whose innermost
                      visible declaration is the method receiver (a later `let`, a closure parameter, a loop variable of
                      the same name shadows it; the shadowing ends with the block).
   Not modelled (assumptions recorded in the evidence): enums (`Type::Variant` uses the same syntax but is resolved
   before module aliases), typing (ESel denotes a well-typed selection of a struct field, EMeth a method call; methods
   are not subject to any visibility rule in the compiler), interfaces. *)
From Coq Require Import List String Ascii Bool ZArith Arith.
Import ListNotations.
Open Scope string_scope.

(* ---- strings.IsCapitalized: first byte in 'A'..'Z' *)
Definition is_capitalized (s : string) : bool :=
  match s with
  | EmptyString => false
  | String c _ => (65 <=? nat_of_ascii c)%nat && (nat_of_ascii c <=? 90)%nat
  end.
Definition exported (s : string) : bool := is_capitalized s.

(* ---- syntax *)
Inductive ty : Type :=
| TName (n : string)                 (* primitive or type of the current module *)
| TQual (m n : string)               (* m::n *)
| TVoid
| TArr (t : ty) | TOpt (t : ty) | TRef (t : ty)
| TMap (k v : ty) | TRes (v e : ty) | TFn (p r : ty).

(* argument lists, array elements and struct-literal initialisers are encoded with ENil / ECons / EInit so that the
   syntax is one mutual pair (expr, stmt) with the standard induction scheme *)
Inductive expr : Type :=
| ELit (z : Z)
| EVar (x : string)
| EQual (m n : string)                         (* m::n *)
| ESel (e : expr) (f : string)                 (* e.f   (field) *)
| EMeth (e : expr) (m : string) (args : expr)  (* e.m(args) *)
| ECall (f : expr) (args : expr)
| ENil
| ECons (e rest : expr)
| EBin (a b : expr)
| EUn (a : expr)
| EIndex (a i : expr)
| ECast (e : expr) (t : ty)                    (* e as T *)
| EStruct (inits : expr)                       (* { .f = e, ... } *)
| EInit (f : string) (e rest : expr)
| EArr (elems : expr)
| ERange (lo hi : expr)
| ERangeStep (lo hi st : expr)
| ECoalesce (a b : expr)
| ECatch (call fb : expr)
| EClosure (ps : list (string * ty)) (r : ty) (body : stmt)
with stmt : Type :=
| SSkip
| SSeq (a b : stmt)
| SLet (x : string) (t : option ty) (e : expr)
| SAssign (l r : expr)
| SOpAssign (l r : expr)                       (* l += r *)
| SIncr (l : expr)                             (* l++ / l-- *)
| SIf (c : expr) (t e : stmt)
| SWhile (c : expr) (b : stmt)
| SFor (x : string) (range : expr) (b : stmt)
| SMatch (e : expr) (cases : stmt)
| SCase (pat : expr) (b : stmt)
| SDefault (b : stmt)
| SReturn (e : expr)
| SExpr (e : expr)
| SBlock (b : stmt).

Inductive decl : Type :=
| DFn (name : string) (ps : list (string * ty)) (r : ty) (body : stmt)
| DMethod (recv : string) (rty : ty) (name : string) (ps : list (string * ty)) (r : ty) (body : stmt)
| DConst (name : string) (t : option ty) (e : expr)
| DVar (name : string) (t : option ty) (e : expr)
| DType (name : string) (fields : list (string * ty))      (* struct type *)
| DAlias (name : string) (t : ty).

Record module : Type := { m_path : string; m_imports : list (string * string) (* alias, path *); m_decls : list decl }.
Definition project := list module.

(* module-scope symbols (methods live on their type, not in the module scope) *)
Definition decl_name (d : decl) : option string :=
  match d with
  | DFn n _ _ _ | DConst n _ _ | DVar n _ _ | DType n _ | DAlias n _ => Some n
  | DMethod _ _ _ _ _ _ => None
  end.

Inductive verr : Type :=
| VNotExported (path n : string)     (* "symbol 'n' is not exported from module 'path'" *)
| VPrivateField (f : string)         (* "field 'f' is private" *)
| VNotModule (m : string)
| VNotFound (path n : string).

Fixpoint assoc (k : string) (l : list (string * string)) : option string :=
  match l with
  | [] => None
  | (a, b) :: tl => if String.eqb a k then Some b else assoc k tl
  end.

Definition lookup_mod (P : project) (path : string) : option module :=
  find (fun M => String.eqb M.(m_path) path) P.

Definition declares (M : module) (n : string) : bool :=
  existsb (fun d => match decl_name d with Some x => String.eqb x n | None => false end) M.(m_decls).

Definition static_access (P : project) (imps : list (string * string)) (m n : string) : list verr :=
  match assoc m imps with
  | None => [VNotModule m]
  | Some path =>
      match lookup_mod P path with
      | None => [VNotModule m]
      | Some M => if declares M n then (if exported n then [] else [VNotExported path n]) else [VNotFound path n]
      end
  end.

Definition kill (r : option string) (x : string) : option string :=
  match r with
  | Some y => if String.eqb x y then None else Some y
  | None => None
  end.
Definition kill_params (r : option string) (ps : list (string * ty)) : option string :=
  fold_left (fun r p => kill r (fst p)) ps r.

Definition is_recv (r : option string) (e : expr) : bool :=
  match e, r with
  | EVar x, Some y => String.eqb x y
  | _, _ => false
  end.

(* receiver visibility after a statement of the same block *)
Fixpoint after (r : option string) (s : stmt) : option string :=
  match s with
  | SLet x _ _ => kill r x
  | SSeq a b => after (after r a) b
  | _ => r
  end.

Fixpoint chk_ty (P : project) (imps : list (string * string)) (t : ty) : list verr :=
  match t with
  | TName _ | TVoid => []
  | TQual m n => static_access P imps m n
  | TArr a | TOpt a | TRef a => chk_ty P imps a
  | TMap a b | TRes a b | TFn a b => chk_ty P imps a ++ chk_ty P imps b
  end.
Definition chk_oty (P : project) (imps : list (string * string)) (o : option ty) : list verr :=
  match o with Some t => chk_ty P imps t | None => [] end.
Definition chk_params (P : project) (imps : list (string * string)) (ps : list (string * ty)) : list verr :=
  flat_map (fun p => chk_ty P imps (snd p)) ps.

Definition field_rule (r : option string) (b : expr) (f : string) : list verr :=
  if exported f then [] else if is_recv r b then [] else [VPrivateField f].

(* P and imps are parameters of the fixpoint itself (not Section variables) so that `simpl` refolds the mutual pair *)
Fixpoint chk_e (P : project) (imps : list (string * string)) (r : option string) (e : expr) {struct e} : list verr :=
  match e with
  | ELit _ | EVar _ | ENil => []
  | EQual m n => static_access P imps m n
  | ESel b f => chk_e P imps r b ++ field_rule r b f
  | EMeth b _ args => chk_e P imps r b ++ chk_e P imps r args
  | ECall f args => chk_e P imps r f ++ chk_e P imps r args
  | ECons a rest => chk_e P imps r a ++ chk_e P imps r rest
  | EBin a b => chk_e P imps r a ++ chk_e P imps r b
  | EUn a => chk_e P imps r a
  | EIndex a b => chk_e P imps r a ++ chk_e P imps r b
  | ECast a t => chk_e P imps r a ++ chk_ty P imps t
  | EStruct a => chk_e P imps r a
  | EInit _ v rest => chk_e P imps r v ++ chk_e P imps r rest     (* the initialised field name is never checked *)
  | EArr a => chk_e P imps r a
  | ERange a b => chk_e P imps r a ++ chk_e P imps r b
  | ERangeStep a b c => chk_e P imps r a ++ chk_e P imps r b ++ chk_e P imps r c
  | ECoalesce a b => chk_e P imps r a ++ chk_e P imps r b
  | ECatch a b => chk_e P imps r a ++ chk_e P imps r b
  | EClosure ps rt body => chk_params P imps ps ++ chk_ty P imps rt ++ chk_s P imps (kill_params r ps) body
  end
with chk_s (P : project) (imps : list (string * string)) (r : option string) (s : stmt) {struct s} : list verr :=
  match s with
  | SSkip => []
  | SSeq a b => chk_s P imps r a ++ chk_s P imps (after r a) b
  | SLet _ t e => chk_oty P imps t ++ chk_e P imps r e
  | SAssign l v => chk_e P imps r l ++ chk_e P imps r v
  | SOpAssign l v => chk_e P imps r l ++ chk_e P imps r v
  | SIncr l => chk_e P imps r l
  | SIf c t e => chk_e P imps r c ++ chk_s P imps r t ++ chk_s P imps r e
  | SWhile c b => chk_e P imps r c ++ chk_s P imps r b
  | SFor x rg b => chk_e P imps (kill r x) rg ++ chk_s P imps (kill r x) b
  | SMatch e cs => chk_e P imps r e ++ chk_s P imps r cs
  | SCase p b => chk_e P imps r p ++ chk_s P imps r b
  | SDefault b => chk_s P imps r b
  | SReturn e => chk_e P imps r e
  | SExpr e => chk_e P imps r e
  | SBlock b => chk_s P imps r b
  end.

Definition chk_decl (P : project) (imps : list (string * string)) (d : decl) : list verr :=
  match d with
  | DFn _ ps rt body => chk_params P imps ps ++ chk_ty P imps rt ++ chk_s P imps None body
  | DMethod rv rty _ ps rt body =>
      chk_ty P imps rty ++ chk_params P imps ps ++ chk_ty P imps rt ++ chk_s P imps (Some rv) body
  | DConst _ t e => chk_oty P imps t ++ chk_e P imps None e
  | DVar _ t e => chk_oty P imps t ++ chk_e P imps None e
  | DType _ fs => chk_params P imps fs
  | DAlias _ t => chk_ty P imps t
  end.

Definition chk_module (P : project) (M : module) : list verr := flat_map (chk_decl P M.(m_imports)) M.(m_decls).
Definition check_project (P : project) : list verr := flat_map (chk_module P) P.
Definition project_ok (P : project) : bool := match check_project P with [] => true | _ => false end.

(* ---- correspondence support: compare the set of visibility diagnostics with what the compiler printed *)
Definition verr_eqb (a b : verr) : bool :=
  match a, b with
  | VNotExported p n, VNotExported q k => String.eqb p q && String.eqb n k
  | VPrivateField f, VPrivateField g => String.eqb f g
  | VNotModule m, VNotModule k => String.eqb m k
  | VNotFound p n, VNotFound q k => String.eqb p q && String.eqb n k
  | _, _ => false
  end.
Definition mem (a : verr) (l : list verr) : bool := existsb (verr_eqb a) l.
Definition same_set (a b : list verr) : bool := forallb (fun x => mem x b) a && forallb (fun x => mem x a) b.

(* one case: id, project (only the modules the entry reaches), accepted by the compiler?, visibility diagnostics printed *)
Definition case := (Z * project * bool * list verr)%type.
Definition case_bad (c : case) : bool :=
  match c with
  | (_, P, ok, obs) => negb (Bool.eqb (project_ok P) ok && same_set (check_project P) obs)
  end.
Definition bad_ids (cs : list case) : list Z :=
  flat_map (fun c => if case_bad c then [fst (fst (fst c))] else []) cs.
