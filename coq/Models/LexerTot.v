(* C13 — port of the lexer main loop (internal/frontend/lexer/tokenizer.go) and of Position.Advance
   (internal/source/positions.go) over byte lists.  Definitions only.

   The port describes the REPAIRED behaviour (fixes/C13-lexer-byte-advance.patch): Advance adds to Index the number
   of source bytes a rune occupies (an invalid byte is one U+FFFD rune occupying ONE byte), and the unrecognised-byte
   branch of Tokenize skips exactly one byte.  (Before the patch an invalid byte added 3 and an unrecognised byte
   >= 0x80 added 2 to Index, so that bytes — newlines included — were jumped over and every later position was off.)

   Bytes are Z (0..255 for real inputs; every definition is total on all of Z).  The operator patterns (all
   `defaultHandler` entries of the pattern table, in table order) and the keyword set are parameters: they are
   regenerated from the working tree into gen/Gen_C13.v on every run. *)
From Coq Require Import ZArith List Bool String Ascii.
Import ListNotations.
Open Scope Z_scope.

Definition bytes := list Z.

Fixpoint bs (s : string) : bytes :=
  match s with EmptyString => [] | String a r => Z.of_N (N_of_ascii a) :: bs r end.

Definition inr (lo hi b : Z) : bool := (lo <=? b) && (b <=? hi).

Fixpoint beqb (a b : bytes) : bool :=
  match a, b with
  | [], [] => true
  | x :: a', y :: b' => (x =? y) && beqb a' b'
  | _, _ => false
  end.

(* strings.HasPrefix *)
Fixpoint starts (lit s : bytes) : bool :=
  match lit, s with
  | [], _ => true
  | x :: l', y :: s' => (x =? y) && starts l' s'
  | _ :: _, [] => false
  end.

Fixpoint span (f : Z -> bool) (s : bytes) : nat :=
  match s with b :: t => if f b then S (span f t) else O | [] => O end.

(* ------------------------------------------------------------------------------------------------ UTF-8
   utf8.DecodeRuneInString: number of bytes the first rune of s occupies (1 for an invalid or truncated sequence). *)
Definition cont (b : Z) : bool := inr 128 191 b.

Definition rune_size (s : bytes) : nat :=
  match s with
  | [] => 1%nat
  | b0 :: t =>
    if b0 <? 128 then 1%nat
    else if inr 194 223 b0 then
      match t with b1 :: _ => if cont b1 then 2%nat else 1%nat | _ => 1%nat end
    else if inr 224 239 b0 then
      match t with
      | b1 :: b2 :: _ =>
        if inr (if b0 =? 224 then 160 else 128) (if b0 =? 237 then 159 else 191) b1 && cont b2 then 3%nat else 1%nat
      | _ => 1%nat end
    else if inr 240 244 b0 then
      match t with
      | b1 :: b2 :: b3 :: _ =>
        if inr (if b0 =? 240 then 144 else 128) (if b0 =? 244 then 143 else 191) b1 && cont b2 && cont b3
        then 4%nat else 1%nat
      | _ => 1%nat end
    else 1%nat
  end.

(* ------------------------------------------------------------------------------------------------ positions *)
Record pos := mkPos { pline : Z; pcol : Z; pidx : nat }.
Definition pos0 : pos := mkPos 1 1 0.

(* Position.Advance(toSkip).  `skip` = bytes of the current rune still to be passed over (the Go loop steps rune by
   rune; here the recursion is structural on the byte list).  pt = prevWasTab. *)
Fixpoint adv (s : bytes) (skip : nat) (pt : bool) (p : pos) : pos :=
  match s with
  | [] => p
  | b :: t =>
    match skip with
    | S k => adv t k pt p
    | O =>
      if b =? 10 then adv t 0 false (mkPos (pline p + 1) 1 (S (pidx p)))
      else if b =? 9 then adv t 0 true (mkPos (pline p) (pcol p + 4) (S (pidx p)))
      else let w := rune_size s in
           adv t (w - 1) false (mkPos (pline p) (if pt then pcol p else pcol p + 1) (pidx p + w))
    end
  end.
Definition advance (s : bytes) (p : pos) : pos := adv s 0 false p.

(* ------------------------------------------------------------------------------------------------ matchers
   Each regular expression of the pattern table as a recogniser anchored at the start of the remaining input,
   returning the List.length of Go's (leftmost-first) match.  `regex.FindStringIndex(rem)` followed by `loc[0] == 0`
   succeeds iff an anchored match exists, and `regex.FindString(rem)` in the handler then returns that same match. *)
Definition matcher := bytes -> option nat.

(* \s+   (Go/RE2: [\t\n\f\r ]) *)
Definition is_ws (b : Z) : bool := (b =? 9) || (b =? 10) || (b =? 12) || (b =? 13) || (b =? 32).
Definition m_ws : matcher := fun s => match span is_ws s with O => None | n => Some n end.

(* //[^\n\r]* *)
Definition not_eol (b : Z) : bool := negb ((b =? 10) || (b =? 13)).
Definition m_line_comment : matcher := fun s =>
  if starts [47; 47] s then Some (2 + span not_eol (skipn 2 s))%nat else None.

(* block comment pattern (dot matches newline, lazy star): List.length up to and including the first star-slash *)
Fixpoint find_close (s : bytes) : option nat :=
  match s with
  | a :: t =>
    match t with
    | b :: _ => if (a =? 42) && (b =? 47) then Some 2%nat
                else match find_close t with Some n => Some (S n) | None => None end
    | [] => None
    end
  | [] => None
  end.
Definition m_block_comment : matcher := fun s =>
  if starts [47; 42] s then match find_close (skipn 2 s) with Some n => Some (2 + n)%nat | None => None end else None.

(* string literal pattern: dquote, any non-dquote bytes, dquote *)
Definition not_quote (b : Z) : bool := negb (b =? 34).
Definition m_string : matcher := fun s =>
  match s with
  | q :: t => if q =? 34 then
                let n := span not_quote t in
                match skipn n t with _ :: _ => Some (n + 2)%nat | [] => None end
              else None
  | [] => None
  end.

(* byte literal pattern: quote, then  backslash-x-HH | backslash-anychar-but-newline | one ASCII byte,  then quote *)
Definition is_hex (b : Z) : bool := inr 48 57 b || inr 97 102 b || inr 65 70 b.
Definition byte_alt1 (t : bytes) : option nat :=
  match t with
  | b1 :: b2 :: h1 :: h2 :: q :: _ =>
    if (b1 =? 92) && (b2 =? 120) && is_hex h1 && is_hex h2 && (q =? 39) then Some 6%nat else None
  | _ => None end.
Definition byte_alt2 (t : bytes) : option nat :=
  match t with
  | b1 :: r =>
    if b1 =? 92 then
      match r with
      | c0 :: _ => if c0 =? 10 then None else
                   let w := rune_size r in
                   match skipn w r with q :: _ => if q =? 39 then Some (3 + w)%nat else None | [] => None end
      | [] => None end
    else None
  | [] => None end.
Definition byte_alt3 (t : bytes) : option nat :=
  match t with
  | c :: q :: _ => if inr 0 127 c && (q =? 39) then Some 3%nat else None
  | _ => None end.
Definition orelse {A} (a b : option A) : option A := match a with Some _ => a | None => b end.
Definition m_byte : matcher := fun s =>
  match s with
  | q :: t => if q =? 39 then orelse (byte_alt1 t) (orelse (byte_alt2 t) (byte_alt3 t)) else None
  | [] => None end.

(* numeric.NumberPattern = -?(?:Hex|Oct|Bin|Float) *)
Definition is_dec (b : Z) : bool := inr 48 57 b.
Definition is_oct (b : Z) : bool := inr 48 55 b.
Definition is_bin (b : Z) : bool := inr 48 49 b.
(* (?:D|_D)*  greedy *)
Fixpoint groups (d : Z -> bool) (s : bytes) : nat :=
  match s with
  | a :: t =>
    if d a then S (groups d t)
    else if a =? 95 then match t with b :: t' => if d b then S (S (groups d t')) else O | [] => O end
    else O
  | [] => O
  end.
Definition m_prefixed (x X : Z) (d : Z -> bool) : matcher := fun s =>
  match s with
  | z :: p :: d0 :: t => if (z =? 48) && ((p =? x) || (p =? X)) && d d0 then Some (3 + groups d t)%nat else None
  | _ => None end.
Definition m_decnum : matcher := fun s =>
  match s with d0 :: t => if is_dec d0 then Some (1 + groups is_dec t)%nat else None | [] => None end.
Definition optlen (m : option nat) : nat := match m with Some n => n | None => O end.
Definition m_frac : matcher := fun s =>          (* \.D(?:D|_D)* *)
  match s with dot :: t => if dot =? 46 then match m_decnum t with Some n => Some (S n) | None => None end else None
             | [] => None end.
Definition m_exp : matcher := fun s =>           (* [eE][+-]?D(?:D|_D)* *)
  match s with
  | e :: t =>
    if (e =? 101) || (e =? 69) then
      match t with
      | sg :: t' => if (sg =? 43) || (sg =? 45)
                    then match m_decnum t' with Some n => Some (2 + n)%nat | None => None end
                    else match m_decnum t with Some n => Some (1 + n)%nat | None => None end
      | [] => None end
    else None
  | [] => None end.
Definition m_float : matcher := fun s =>
  match m_decnum s with
  | Some n => let r := skipn n s in
              let f := optlen (m_frac r) in
              let e := optlen (m_exp (skipn f r)) in
              Some (n + f + e)%nat
  | None => None end.
Definition m_unsigned : matcher := fun s =>
  orelse (m_prefixed 120 88 is_hex s) (orelse (m_prefixed 111 79 is_oct s) (orelse (m_prefixed 98 66 is_bin s) (m_float s))).
Definition m_number : matcher := fun s =>
  match s with
  | c :: t => if c =? 45 then match m_unsigned t with Some n => Some (S n) | None => None end else m_unsigned s
  | [] => None end.

(* [a-zA-Z_][a-zA-Z0-9_]* *)
Definition is_id_start (b : Z) : bool := inr 97 122 b || inr 65 90 b || (b =? 95).
Definition is_id_cont (b : Z) : bool := is_id_start b || inr 48 57 b.
Definition m_ident : matcher := fun s =>
  match s with a :: t => if is_id_start a then Some (S (span is_id_cont t)) else None | [] => None end.

(* a literal operator pattern *)
Definition m_lit (lit : bytes) : matcher := fun s => if starts lit s then Some (List.length lit) else None.

(* ------------------------------------------------------------------------------------------------ pattern table *)
Inductive handler := HSkip | HComment | HString | HByte | HNumber | HIdent | HDefault (tok : bytes).
Definition pattern := (matcher * handler)%type.

Definition fixed_patterns : list pattern :=
  [ (m_ws, HSkip); (m_line_comment, HComment); (m_block_comment, HComment); (m_string, HString);
    (m_byte, HByte); (m_number, HNumber); (m_ident, HIdent) ].
(* ops: (literal the regular expression stands for, string(token)) in table order *)
Definition op_patterns (ops : list (bytes * bytes)) : list pattern :=
  map (fun lt => (m_lit (fst lt), HDefault (snd lt))) ops.
Definition patterns (ops : list (bytes * bytes)) : list pattern := fixed_patterns ++ op_patterns ops.

(* the inner `for _, pattern := range lex.patterns` loop: first pattern that matches at offset 0 *)
Fixpoint first_match (ps : list pattern) (rem : bytes) : option (nat * handler) :=
  match ps with
  | [] => None
  | (m, h) :: ps' => match m rem with Some n => Some (n, h) | None => first_match ps' rem end
  end.

(* ------------------------------------------------------------------------------------------------ handlers *)
Record token := mkTok { tkind : bytes; ttext : bytes; tstart : pos; tend : pos }.

Inductive lexerr :=
| EUnrec (b : Z) (at_ : pos)                 (* unrecognized character '%c' *)
| EByteIncomplete (s e : pos)                (* incomplete hex escape sequence *)
| EByteUnknown (c : Z) (s e : pos).          (* unknown escape sequence '\%c' *)

Definition k_ident := bs "identifier".
Definition k_number := bs "numeric literal".
Definition k_string := bs "string literal".
Definition k_byte := bs "byte literal".
Definition k_comment := bs "comment".
Definition k_eof := bs "end_of_file".
Definition eof_text := bs "end of file".

Definition hexval (b : Z) : Z :=
  if inr 48 57 b then b - 48 else if inr 97 102 b then b - 87 else b - 55.

(* processStringEscapes; skip = bytes already consumed by the escape being processed *)
Fixpoint unescape (s : bytes) (skip : nat) : bytes :=
  match s with
  | [] => []
  | c :: t =>
    match skip with
    | S k => unescape t k
    | O =>
      if c =? 92 then
        match t with
        | [] => [c]
        | e :: t2 =>
          if e =? 110 then 10 :: unescape t 1
          else if e =? 114 then 13 :: unescape t 1
          else if e =? 116 then 9 :: unescape t 1
          else if e =? 48 then 0 :: unescape t 1
          else if e =? 92 then 92 :: unescape t 1
          else if e =? 34 then 34 :: unescape t 1
          else if e =? 120 then
            match t2 with
            | h1 :: h2 :: _ => if is_hex h1 && is_hex h2 then ((hexval h1 * 16 + hexval h2) mod 256) :: unescape t 3
                               else c :: unescape t 0
            | _ => c :: unescape t 0 end
          else c :: unescape t 0
        end
      else c :: unescape t 0
    end
  end.

(* normalizeCommentText *)
Definition normalize_comment (raw : bytes) : bytes :=
  if starts [47; 47] raw then
    let text := skipn 2 raw in
    match text with c :: t => if c =? 32 then t else text | [] => text end
  else if (4 <=? List.length raw)%nat && starts [47; 42] raw then firstn (List.length raw - 4) (skipn 2 raw)
  else raw.

Definition hexdigit (v : Z) : Z := if v <? 10 then 48 + v else 87 + v.

(* parseByteEscape: (token text, error) for the literal between the quotes *)
Inductive byte_res := BOk (text : bytes) | BIncomplete | BUnknown (c : Z).
Definition parse_byte_escape (lit : bytes) : byte_res :=
  match lit with
  | c0 :: c1 :: rest =>
    if c0 =? 92 then
      if c1 =? 110 then BOk [10] else if c1 =? 114 then BOk [13] else if c1 =? 116 then BOk [9]
      else if c1 =? 48 then BOk [0] else if c1 =? 92 then BOk [92] else if c1 =? 39 then BOk [39]
      else if c1 =? 34 then BOk [34]
      else if c1 =? 120 then
        match rest with
        | h1 :: h2 :: _ => let v := hexval h1 * 16 + hexval h2 in BOk [92; 120; hexdigit (v / 16); hexdigit (v mod 16)]
        | _ => BIncomplete end
      else BUnknown c1
    else BOk lit           (* unreachable through the pattern: kept total *)
  | _ => BOk lit
  end.

Definition is_keyword (kws : list bytes) (w : bytes) : bool := existsb (beqb w) kws.

(* string(tok) for a byte tok in the error message only; the lexer now skips remainder()[:1] *)

Record state := mkSt { spos : pos; stoks : list token; serrs : list lexerr }.   (* lists in reverse order *)

Definition run_handler (kws : list bytes) (h : handler) (m : bytes) (st : state) : state :=
  let p := spos st in
  match h with
  | HSkip => mkSt (advance m p) (stoks st) (serrs st)
  | HComment => let e := advance m p in mkSt e (mkTok k_comment (normalize_comment m) p e :: stoks st) (serrs st)
  | HString => let e := advance m p in
               mkSt e (mkTok k_string (unescape (firstn (List.length m - 2) (skipn 1 m)) 0) p e :: stoks st) (serrs st)
  | HNumber => let e := advance m p in mkSt e (mkTok k_number m p e :: stoks st) (serrs st)
  | HIdent => let e := advance m p in
              mkSt e (mkTok (if is_keyword kws m then m else k_ident) m p e :: stoks st) (serrs st)
  | HByte => let e := advance m p in
             let lit := firstn (List.length m - 2) (skipn 1 m) in
             match parse_byte_escape lit with
             | BOk text => mkSt e (mkTok k_byte text p e :: stoks st) (serrs st)
             | BIncomplete => mkSt e (mkTok k_byte lit p e :: stoks st) (EByteIncomplete p e :: serrs st)
             | BUnknown c => mkSt e (mkTok k_byte lit p e :: stoks st) (EByteUnknown c p e :: serrs st)
             end
  | HDefault tok => let e := advance tok p in mkSt e (mkTok tok tok p e :: stoks st) (serrs st)
  end.

(* one iteration of the `for !lex.atEOF()` loop body *)
Definition step (ops : list (bytes * bytes)) (kws : list bytes) (src : bytes) (st : state) : state :=
  let p := spos st in
  let rem := skipn (pidx p) src in                     (* lex.remainder() *)
  match first_match (patterns ops) rem with
  | Some (n, h) => run_handler kws h (firstn n rem) st
  | None =>
    match rem with
    | b :: _ => mkSt (advance [b] p) (stoks st) (EUnrec b p :: serrs st)
    | [] => st
    end
  end.

Definition at_eof (src : bytes) (st : state) : bool := (List.length src <=? pidx (spos st))%nat.

Definition finish (st : state) : list token * list lexerr :=
  (rev (mkTok k_eof eof_text (spos st) (spos st) :: stoks st), rev (serrs st)).

Fixpoint loop (fuel : nat) ops kws (src : bytes) (st : state) : option (list token * list lexerr) :=
  if at_eof src st then Some (finish st)
  else match fuel with
       | O => None                                       (* out of fuel: excluded by C13_lexer_total *)
       | S f => loop f ops kws src (step ops kws src st)
       end.

Definition st0 : state := mkSt pos0 [] [].
Definition tokenize ops kws (src : bytes) : option (list token * list lexerr) :=
  loop (List.length src) ops kws src st0.

(* ------------------------------------------------------------------------------------------------ correspondence *)
(* observed token: kind, text, start (line, col, idx), end (line, col, idx) *)
Definition otok := (bytes * bytes * (Z * Z * Z) * (Z * Z * Z))%type.
(* observed error: code (0 unrecognised byte, 1 incomplete hex escape, 2 unknown escape), argument byte, line, col *)
Definition oerr := (Z * Z * Z * Z)%type.

Definition opos (p : pos) : Z * Z * Z := (pline p, pcol p, Z.of_nat (pidx p)).
Definition otok_of (t : token) : otok := (tkind t, ttext t, opos (tstart t), opos (tend t)).
Definition oerr_of (e : lexerr) : oerr :=
  match e with
  | EUnrec b p => (0, b, pline p, pcol p)
  | EByteIncomplete s _ => (1, 0, pline s, pcol s)
  | EByteUnknown c s _ => (2, c, pline s, pcol s)
  end.

Definition pos3_eqb (a b : Z * Z * Z) : bool :=
  let '(a1, a2, a3) := a in let '(b1, b2, b3) := b in (a1 =? b1) && (a2 =? b2) && (a3 =? b3).
Definition otok_eqb (a b : otok) : bool :=
  let '(k1, t1, s1, e1) := a in let '(k2, t2, s2, e2) := b in
  beqb k1 k2 && beqb t1 t2 && pos3_eqb s1 s2 && pos3_eqb e1 e2.
Definition oerr_eqb (a b : oerr) : bool :=
  let '(c1, x1, l1, k1) := a in let '(c2, x2, l2, k2) := b in (c1 =? c2) && (x1 =? x2) && (l1 =? l2) && (k1 =? k2).
Fixpoint list_eqb {A} (f : A -> A -> bool) (a b : list A) : bool :=
  match a, b with
  | [], [] => true
  | x :: a', y :: b' => f x y && list_eqb f a' b'
  | _, _ => false
  end.

Definition lcase := (Z * bytes * list otok * list oerr)%type.     (* id, input, observed tokens, observed errors *)
Definition agrees ops kws (c : lcase) : bool :=
  let '(_, src, toks, errs) := c in
  match tokenize ops kws src with
  | Some (mt, me) => list_eqb otok_eqb (map otok_of mt) toks && list_eqb oerr_eqb (map oerr_of me) errs
  | None => false
  end.
Definition bad_ids ops kws (cs : list lcase) : list Z :=
  map (fun c => fst (fst (fst c))) (filter (fun c => negb (agrees ops kws c)) cs).
