(* C14 — compilation is deterministic under every schedule.  Definitions only.

   Port of the schedule-sensitive machinery of the compiler:
     internal/pipeline/parse.go      processModule / parseModule      -> event, gor, state, step, run
     internal/utils/literals.go      Generate*LitID / LitCounters      -> counters, bump (global and per parser)
     internal/diagnostics/bag.go     Add / sortDiagnostics            -> s_bag, diag_less, sort
     internal/context_v2/context.go  AddDependency / findCycle / hasCyclePath / ComputeTopologicalOrder
                                                                       -> add_dependency, topo
     internal/codegen/qbe_embeddings/qbe.go  emitTypeIDs               -> emit_typeids (fixed), emit_typeids_prefix

   Modules (and source files) are numbered by the rank of their import path (file name) in byte-wise string
   order, so sort.Strings / `iFile < jFile` are numeric comparisons here.  Go map iteration order is never
   assumed: every `range` over a map takes the order as an explicit parameter.

   A module is the sequence of events its parser goroutine performs (parseModule is sequential inside one
   goroutine): literal-name allocations and diagnostics in source order (lexer, parser), then one
   AddDependency per import, then one processModule per import.  A schedule is the list of module ids that
   take the next step; ids that are not runnable stutter.  `glob = true` is the numbering discipline of the
   code before fix C14-literal-names-per-module (process-global atomic counters), `glob = false` the repaired
   one (one LitCounters per Parser). *)
From Coq Require Import List Arith Bool ZArith.
Import ListNotations.

Definition node := nat.
Definition loc := option (nat * nat).        (* None = nil *source.Location ; Some (file rank, start line) *)

(* ---------------------------------------------------------------- utils/literals.go *)
Inductive lkind := KFn | KSt | KIntr | KEnum.
Definition lkind_eqb (a b : lkind) : bool :=
  match a, b with KFn, KFn | KSt, KSt | KIntr, KIntr | KEnum, KEnum => true | _, _ => false end.

Record counters := mkCtr { c_fn : nat; c_st : nat; c_intr : nat; c_enum : nat }.
Definition ctr0 : counters := mkCtr 0 0 0 0.
Definition ctr_get (k : lkind) (c : counters) : nat :=
  match k with KFn => c_fn c | KSt => c_st c | KIntr => c_intr c | KEnum => c_enum c end.
(* atomic.AddInt64(counter, 1) / c.fn++ : returns the incremented value *)
Definition bump (k : lkind) (c : counters) : counters * nat :=
  match k with
  | KFn => (mkCtr (S (c_fn c)) (c_st c) (c_intr c) (c_enum c), S (c_fn c))
  | KSt => (mkCtr (c_fn c) (S (c_st c)) (c_intr c) (c_enum c), S (c_st c))
  | KIntr => (mkCtr (c_fn c) (c_st c) (S (c_intr c)) (c_enum c), S (c_intr c))
  | KEnum => (mkCtr (c_fn c) (c_st c) (c_intr c) (S (c_enum c)), S (c_enum c))
  end.

(* ---------------------------------------------------------------- diagnostics *)
Inductive msg := MText (id : nat) | MCycle (cyc : list node).
(* every modelled diagnostic carries exactly one (primary) label; label-less diagnostics are outside the model *)
Record diag := mkDiag { d_loc : loc; d_msg : msg }.

(* the `less` closure of sortDiagnostics *)
Definition diag_less (a b : diag) : bool :=
  match d_loc a with
  | None => false                                     (* iLoc == nil *)
  | Some (fa, la) =>
      match d_loc b with
      | None => true                                  (* jLoc == nil *)
      | Some (fb, lb) =>
          if negb (fa =? fb) then fa <? fb            (* iFile != jFile *)
          else if negb (la =? lb) then la <? lb       (* Start.Line differs *)
          else false                                  (* same line: keep original order *)
      end
  end.

(* a stable sort: sort.SliceStable (for a strict weak order every stable sort computes this list) *)
Section Sort.
  Context {A : Type} (less : A -> A -> bool).
  Fixpoint insert (x : A) (l : list A) : list A :=
    match l with
    | [] => [x]
    | y :: l' => if less y x then y :: insert x l' else x :: l
    end.
  Fixpoint sort (l : list A) : list A :=
    match l with [] => [] | x :: l' => insert x (sort l') end.
  Definition equiv (x y : A) : bool := negb (less x y) && negb (less y x).
End Sort.

Definition sort_diags : list diag -> list diag := sort diag_less.
Definition sort_nat : list node -> list node := sort Nat.ltb.            (* sort.Strings on ranks *)

(* ---------------------------------------------------------------- DepGraph (map importer -> []imported) *)
Definition graph := list (node * list node).          (* one entry per key, in some (irrelevant) key order *)
Definition mem (x : node) (l : list node) : bool := existsb (Nat.eqb x) l.

Fixpoint deps (g : graph) (u : node) : list node :=
  match g with [] => [] | (k, ds) :: g' => if k =? u then ds else deps g' u end.
Fixpoint add_edge (g : graph) (u v : node) : graph :=
  match g with
  | [] => [(u, [v])]
  | (k, ds) :: g' => if k =? u then (k, ds ++ [v]) :: g' else (k, ds) :: add_edge g' u v
  end.

Fixpoint dfs_loop (rec : node -> list node -> option (list node) * list node)
         (ds : list node) (visited : list node) : option (list node) * list node :=
  match ds with
  | [] => (None, visited)
  | d :: ds' => match rec d visited with
                | (Some p, v) => (Some p, v)
                | (None, v) => dfs_loop rec ds' v
                end
  end.
(* hasCyclePath(start, target, visited, path) *)
Fixpoint has_cycle_path (fuel : nat) (g : graph) (target start : node)
         (visited path : list node) : option (list node) * list node :=
  match fuel with
  | O => (None, visited)
  | S f =>
      if start =? target then (Some path, visited)
      else if mem start visited then (None, visited)
      else dfs_loop (fun d v => has_cycle_path f g target d v (path ++ [start])) (deps g start) (start :: visited)
  end.
Definition dfs_fuel (g : graph) : nat := S (S (length (flat_map snd g) + length g)).
(* findCycle(from, to) *)
Definition find_cycle (g : graph) (from to : node) : option (list node) :=
  match fst (has_cycle_path (dfs_fuel g) g to from [] []) with
  | Some p => Some (to :: p ++ [to])
  | None => None
  end.
(* AddDependency(importer, imported): Some cycle = the "circular import detected" error *)
Definition add_dependency (g : graph) (importer imported : node) : graph * option (list node) :=
  match find_cycle g imported importer with
  | Some c => (g, Some c)
  | None => if mem imported (deps g importer) then (g, None) else (add_edge g importer imported, None)
  end.

(* ---------------------------------------------------------------- ComputeTopologicalOrder *)
Definition degmap := node -> Z.
Definition upd (d : degmap) (k : node) (v : Z) : degmap := fun x => if x =? k then v else d x.
(* after the first two loops *)
Definition deg0 (g : graph) : degmap := fun m => Z.of_nat (length (deps g m)).

(* `for _, dep := range deps` for one importer *)
Fixpoint relax_deps (imp : node) (ds : list node) (cur : node) (d : Z) : Z * list node :=
  match ds with
  | [] => (d, [])
  | x :: ds' =>
      if x =? cur then
        let d1 := (d - 1)%Z in
        let '(d2, nx) := relax_deps imp ds' cur d1 in
        (d2, if (d1 =? 0)%Z then imp :: nx else nx)
      else relax_deps imp ds' cur d
  end.
(* `for importer, deps := range ctx.DepGraph` in the iteration order `gs` *)
Fixpoint relax (gs : graph) (cur : node) (deg : degmap) : degmap * list node :=
  match gs with
  | [] => (deg, [])
  | (imp, ds) :: gs' =>
      let '(d', nx) := relax_deps imp ds cur (deg imp) in
      let '(deg2, nx2) := relax gs' cur (upd deg imp d') in
      (deg2, nx ++ nx2)
  end.
(* iter k = the order in which the k-th execution of the inner `range ctx.DepGraph` yields its entries *)
Fixpoint kahn (fuel : nat) (iter : nat -> graph) (k : nat) (queue sorted : list node) (deg : degmap) : list node :=
  match fuel with
  | O => sorted
  | S f =>
      match queue with
      | [] => sorted
      | cur :: q =>
          let '(deg', next) := relax (iter k) cur deg in
          kahn f iter (S k) (q ++ sort_nat next) (sorted ++ [cur]) deg'
      end
  end.
Definition topo_fuel (g : graph) (mods : list node) : nat := S (length mods + length (flat_map snd g)).
(* mo = the order in which `range ctx.Modules` yields the module keys *)
Definition topo (g : graph) (mo : list node) (iter : nat -> graph) : list node :=
  kahn (topo_fuel g mo) iter 0 (sort_nat (filter (fun m => (deg0 g m =? 0)%Z) mo)) [] (deg0 g).

(* ---------------------------------------------------------------- emitTypeIDs *)
Fixpoint str_lt (a b : list nat) : bool :=          (* Go string `<` : byte-wise lexicographic *)
  match a, b with
  | _, [] => false
  | [], _ :: _ => true
  | x :: a', y :: b' => if x <? y then true else if y <? x then false else str_lt a' b'
  end.
Definition tidmap := list (list nat * list nat).      (* global name -> type id string, in iteration order *)
Definition tid_less (a b : list nat * list nat) : bool := str_lt (fst a) (fst b).
(* repaired: keys collected, sort.Strings, emitted in that order *)
Definition emit_typeids (iter : tidmap) : tidmap := sort tid_less iter.
(* before the fix: emitted in map iteration order *)
Definition emit_typeids_prefix (iter : tidmap) : tidmap := iter.

(* ---------------------------------------------------------------- parse.go: events, goroutines, schedules *)
Inductive event :=
| ELit (k : lkind)                 (* parser: utils.Generate*LitID() / p.lits.*LitID() *)
| EDiag (d : diag)                 (* lexer / parser / pipeline: ctx.Diagnostics.Add *)
| EDep (v : node) (l : loc)        (* ctx.AddDependency(m, v); on error ReportError(err, l) *)
| ESpawn (v : node) (l : loc).     (* p.processModule(v, l): seen.LoadOrStore + go parseModule(v, l) *)

(* a module whose file cannot be found reports one error at the location of the import that requested it *)
Inductive body := Present (evs : list event) | Missing (msgid : nat).
Definition project := list (node * body).

Fixpoint lookup (P : project) (m : node) : option body :=
  match P with [] => None | (k, b) :: P' => if k =? m then Some b else lookup P' m end.
Definition events_of (P : project) (m : node) (req : loc) : list event :=
  match lookup P m with
  | Some (Present evs) => evs
  | Some (Missing id) => [EDiag (mkDiag req (MText id))]
  | None => []
  end.

Record gor := mkGor { g_mod : node; g_ctr : counters; g_evs : list event }.   (* g_ctr = Parser.lits *)

Record state := mkSt {
  s_gor : list gor;                          (* started goroutines (finished ones stay, with no events) *)
  s_seen : list node;                        (* Pipeline.seen *)
  s_graph : graph;                           (* ctx.DepGraph *)
  s_bag : list diag;                         (* ctx.Diagnostics, in Add order *)
  s_ctr : counters;                          (* utils.litCountermap *)
  s_names : list (node * lkind * nat)        (* every allocated literal name: (module, kind, number) *)
}.

(* remove the next event of m's goroutine; a literal event also advances that parser's own counters *)
Fixpoint take_ev (m : node) (gs : list gor) : option (event * nat) * list gor :=
  match gs with
  | [] => (None, [])
  | g :: gs' =>
      if g_mod g =? m then
        match g_evs g with
        | [] => (None, gs)
        | ELit k :: es => let '(c', n) := bump k (g_ctr g) in (Some (ELit k, n), mkGor m c' es :: gs')
        | e :: es => (Some (e, 0), mkGor m (g_ctr g) es :: gs')
        end
      else let '(r, gs'') := take_ev m gs' in (r, g :: gs'')
  end.

Definition spawn (P : project) (st : state) (v : node) (l : loc) (gs : list gor) : state :=
  if mem v (s_seen st)
  then mkSt gs (s_seen st) (s_graph st) (s_bag st) (s_ctr st) (s_names st)
  else mkSt (gs ++ [mkGor v ctr0 (events_of P v l)]) (s_seen st ++ [v]) (s_graph st) (s_bag st) (s_ctr st) (s_names st).

Definition step (glob : bool) (P : project) (st : state) (m : node) : state :=
  match take_ev m (s_gor st) with
  | (None, _) => st
  | (Some (e, ln), gs) =>
      match e with
      | ELit k =>
          let '(c', gn) := bump k (s_ctr st) in
          mkSt gs (s_seen st) (s_graph st) (s_bag st) c' (s_names st ++ [(m, k, if glob then gn else ln)])
      | EDiag d => mkSt gs (s_seen st) (s_graph st) (s_bag st ++ [d]) (s_ctr st) (s_names st)
      | EDep v l =>
          match add_dependency (s_graph st) m v with
          | (g', None) => mkSt gs (s_seen st) g' (s_bag st) (s_ctr st) (s_names st)
          | (g', Some cyc) => mkSt gs (s_seen st) g' (s_bag st ++ [mkDiag l (MCycle cyc)]) (s_ctr st) (s_names st)
          end
      | ESpawn v l => spawn P st v l gs
      end
  end.

Definition st0 : state := mkSt [] [] [] [] ctr0 [].
(* Run(): processModule(global, nil); processModule(entry, nil) *)
Definition init (P : project) (roots : list node) : state :=
  fold_left (fun st r => spawn P st r None (s_gor st)) roots st0.
Definition run (glob : bool) (P : project) (roots : list node) (sched : list node) : state :=
  fold_left (step glob P) sched (init P roots).

Definition is_nil {A} (l : list A) : bool := match l with [] => true | _ => false end.
(* wg.Wait() returns: every started goroutine has finished *)
Definition complete (st : state) : bool := forallb (fun g => is_nil (g_evs g)) (s_gor st).
Definition finished (st : state) (m : node) : bool :=
  existsb (fun g => (g_mod g =? m) && is_nil (g_evs g)) (s_gor st).

Definition names_of (st : state) (m : node) : list (lkind * nat) :=
  map (fun x => (snd (fst x), snd x)) (filter (fun x => fst (fst x) =? m) (s_names st)).

(* what a parser with its own counters assigns to the literal events of one module *)
Fixpoint local_names (c : counters) (evs : list event) : list (lkind * nat) :=
  match evs with
  | [] => []
  | ELit k :: es => let '(c', n) := bump k c in (k, n) :: local_names c' es
  | _ :: es => local_names c es
  end.

(* observables of one compilation up to code generation *)
Definition sorted_diags (st : state) : list diag := sort_diags (s_bag st).
Definition exit_status (st : state) : bool := is_nil (s_bag st).          (* true = success *)

(* a fair round-robin schedule long enough to finish every module of P *)
Definition total_events (P : project) : nat :=
  fold_right (fun nb acc => match snd nb with Present evs => length evs | Missing _ => 1 end + acc) 0 P.
Fixpoint repeat_list {A} (n : nat) (l : list A) : list A :=
  match n with O => [] | S n' => l ++ repeat_list n' l end.
Definition round_robin (P : project) : list node := repeat_list (S (total_events P)) (map fst P).
(* module-granular schedule: the modules run to completion one after the other in the given order *)
Definition sequential (P : project) (order : list node) : list node :=
  flat_map (fun m => repeat m (S (length (events_of P m None)))) order.

(* ---------------------------------------------------------------- decidable comparison for the harness *)
Fixpoint list_eqb {A} (eqb : A -> A -> bool) (a b : list A) : bool :=
  match a, b with
  | [], [] => true
  | x :: a', y :: b' => eqb x y && list_eqb eqb a' b'
  | _, _ => false
  end.
Definition nat_list_eqb := list_eqb Nat.eqb.
Definition name_eqb (a b : lkind * nat) : bool := lkind_eqb (fst a) (fst b) && (snd a =? snd b).
Definition loc_eqb (a b : loc) : bool :=
  match a, b with
  | None, None => true
  | Some (f, l), Some (f', l') => (f =? f') && (l =? l')
  | _, _ => false
  end.
Definition msg_eqb (a b : msg) : bool :=
  match a, b with
  | MText x, MText y => x =? y
  | MCycle x, MCycle y => nat_list_eqb x y
  | _, _ => false
  end.
Definition diag_eqb (a b : diag) : bool := loc_eqb (d_loc a) (d_loc b) && msg_eqb (d_msg a) (d_msg b).
Definition opt_cycle_eqb (a b : option (list node)) : bool :=
  match a, b with
  | None, None => true
  | Some x, Some y => nat_list_eqb x y
  | _, _ => false
  end.

(* the calls of one AddDependency sequence *)
Fixpoint run_calls (g : graph) (calls : list (node * node)) : graph * list (option (list node)) :=
  match calls with
  | [] => (g, [])
  | (u, v) :: cs =>
      let '(g1, r) := add_dependency g u v in
      let '(g2, rs) := run_calls g1 cs in
      (g2, r :: rs)
  end.

(* correspondence cases: inputs + what the implementation answered *)
Inductive ccase :=
(* literal names: project, roots, schedule, per module the names read off the implementation;
   fn_only = compare function-literal names only (all that generated code shows) *)
| CNames (id : Z) (P : project) (roots sched : list node) (fn_only : bool) (obs : list (node * list (lkind * nat)))
(* sortDiagnostics: bag in Add order, emitted order *)
| CSort (id : Z) (bag : list diag) (emitted : list diag)
(* pipeline diagnostics: project, roots, schedule; the implementation's emitted diagnostics *)
| CDiags (id : Z) (P : project) (roots sched : list node) (emitted : list diag)
(* AddDependency sequence + ComputeTopologicalOrder: modules, calls, per-call results, the order *)
| CTopo (id : Z) (mods : list node) (calls : list (node * node)) (res : list (option (list node))) (order : list node)
(* emitTypeIDs: the map, the emitted order of global names *)
| CTid (id : Z) (m : tidmap) (emitted : list (list nat)).

Definition keep_kind (fn_only : bool) (x : lkind * nat) : bool := if fn_only then lkind_eqb (fst x) KFn else true.

Definition case_ok (c : ccase) : bool :=
  match c with
  | CNames _ P roots sched fn_only obs =>
      let st := run false P roots sched in
      complete st &&
      forallb (fun mo => list_eqb name_eqb (filter (keep_kind fn_only) (names_of st (fst mo))) (snd mo)) obs
  | CSort _ bag emitted => list_eqb diag_eqb (sort_diags bag) emitted
  | CDiags _ P roots sched emitted =>
      let st := run false P roots sched in
      complete st && list_eqb diag_eqb (sorted_diags st) emitted
  | CTopo _ mods calls res order =>
      let '(g, rs) := run_calls [] calls in
      list_eqb opt_cycle_eqb rs res &&
      nat_list_eqb (topo g mods (fun _ => g)) order &&
      nat_list_eqb (topo g (rev mods) (fun k => if Nat.even k then rev g else g)) order
  | CTid _ m emitted =>
      list_eqb nat_list_eqb (map fst (emit_typeids m)) emitted &&
      list_eqb nat_list_eqb (map fst (emit_typeids (rev m))) emitted
  end.
Definition case_id (c : ccase) : Z :=
  match c with CNames i _ _ _ _ _ | CSort i _ _ | CDiags i _ _ _ _ | CTopo i _ _ _ _ | CTid i _ _ => i end.
Definition bad_ids (cs : list ccase) : list Z :=
  map case_id (filter (fun c => negb (case_ok c)) cs).
