(* C10 — integer literals: lexing, value parsing, range check, constant materialisation.
   PORT of the anchored code (definitions only; this file must always build):

     internal/utils/numeric/numeric.go   NumberPattern (integer alternatives), hexRegex/octalRegex/binaryRegex,
                                         StringToBigInt, FitsInBitSize
     internal/utils/numeric/value.go     cleanNumericString, NewNumericValue (as repaired by fixes/C10-literal-base-sign.patch:
                                         sign split first, base taken from the 0x/0o/0b prefix only), Int64Value.FitsInBitSize,
                                         BigIntValue.FitsInBitSize; the pre-repair NewNumericValue (strconv.ParseInt(s,0,64)
                                         first) is kept as new_numeric_value_orig for the regression theorems
     internal/semantics/typechecker      compatibility.go fitsInType, isLosslessNumericConversion (integer rows);
                                         inference.go inferLiteralType; typechecker.go parseIntLiteral,
                                         numericConstValueString, checkFitness, checkAssignLike
     internal/mir/gen/builder.go         lowerExpr(Literal) -> emitConst / emitLargeConst
     internal/codegen/qbe_embeddings     emit.go constValue -> normalizeInt
     runtime/core/bigint.c               ferret_parse_base, ferret_digit_value, ferret_parse_uint (value level, explicit
                                         mod 2^N), ferret_{i,u}{128,256}_from_string

   SPEC: lit_value (sign * value of the digit characters in the base announced by the prefix, decimal otherwise,
   separators ignored), lo/hi of the twelve types, wf_lit (the literal grammar). *)
From Coq Require Import ZArith List Ascii Bool Lia.
Import ListNotations.
Open Scope Z_scope.

Definition str := list ascii.

(* ------------------------------------------------------------------ characters *)
Definition code (c : ascii) : Z := Z.of_N (N_of_ascii c).
Definition chr (n : Z) : ascii := ascii_of_N (Z.to_N n).

Definition c_us    : ascii := "_"%char.
Definition c_minus : ascii := "-"%char.
Definition c_plus  : ascii := "+"%char.
Definition c_zero  : ascii := "0"%char.
Definition c_dot   : ascii := "."%char.

Definition in_range (a b : Z) (c : ascii) : bool := (a <=? code c) && (code c <=? b).
Definition is_dec (c : ascii) : bool := in_range 48 57 c.
Definition is_oct (c : ascii) : bool := in_range 48 55 c.
Definition is_bin (c : ascii) : bool := in_range 48 49 c.
Definition is_lower_af (c : ascii) : bool := in_range 97 102 c.
Definition is_upper_af (c : ascii) : bool := in_range 65 70 c.
Definition is_hex (c : ascii) : bool := is_dec c || is_lower_af c || is_upper_af c.

(* value of a digit character (any base up to 16) *)
Definition digit_val (c : ascii) : Z :=
  if is_dec c then code c - 48 else if is_lower_af c then code c - 87 else code c - 55.

Inductive base := Dec | Hex | Oct | Bin.
Definition radix (b : base) : Z := match b with Dec => 10 | Hex => 16 | Oct => 8 | Bin => 2 end.
Definition is_digit (b : base) : ascii -> bool :=
  match b with Dec => is_dec | Hex => is_hex | Oct => is_oct | Bin => is_bin end.

(* which base does the character after a leading 0 announce *)
Definition prefix_base (q : ascii) : option base :=
  if Ascii.eqb q "x" || Ascii.eqb q "X" then Some Hex
  else if Ascii.eqb q "o" || Ascii.eqb q "O" then Some Oct
  else if Ascii.eqb q "b" || Ascii.eqb q "B" then Some Bin
  else None.

(* ------------------------------------------------------------------ SPEC *)
Definition split_sign (s : str) : bool * str :=
  match s with
  | c :: t => if Ascii.eqb c c_minus then (true, t) else (false, s)
  | [] => (false, s)
  end.

Definition split_base (r : str) : base * str :=
  match r with
  | z :: q :: t => if Ascii.eqb z c_zero
                   then match prefix_base q with Some b => (b, t) | None => (Dec, r) end
                   else (Dec, r)
  | _ => (Dec, r)
  end.

(* value of the digit characters, separators skipped *)
Fixpoint digits_skip (r acc : Z) (s : str) : Z :=
  match s with
  | [] => acc
  | c :: t => if Ascii.eqb c c_us then digits_skip r acc t else digits_skip r (acc * r + digit_val c) t
  end.

Definition lit_mag (r : str) : Z := let (b, ds) := split_base r in digits_skip (radix b) 0 ds.
Definition lit_value (s : str) : Z := let (n, r) := split_sign s in if n then - lit_mag r else lit_mag r.

(* grammar: D (D | _D)*  *)
Fixpoint wf_tail (p : ascii -> bool) (s : str) : bool :=
  match s with
  | [] => true
  | c :: t => if p c then wf_tail p t
              else if Ascii.eqb c c_us
                   then match t with d :: t' => p d && wf_tail p t' | [] => false end
                   else false
  end.
Definition wf_groups (p : ascii -> bool) (s : str) : bool :=
  match s with c :: t => p c && wf_tail p t | [] => false end.

Definition wf_body (r : str) : bool := let (b, ds) := split_base r in wf_groups (is_digit b) ds.
(* a well-formed integer literal: -? (0[xX]H(_?H)* | 0[oO]O(_?O)* | 0[bB]B(_?B)* | D(_?D)* ) *)
Definition wf_lit (s : str) : bool := let (_, r) := split_sign s in wf_body r.

Inductive ity := I8 | I16 | I32 | I64 | I128 | I256 | U8 | U16 | U32 | U64 | U128 | U256.
Definition all_ity : list ity := [I8; I16; I32; I64; I128; I256; U8; U16; U32; U64; U128; U256].
Definition bits (t : ity) : Z :=
  match t with I8 | U8 => 8 | I16 | U16 => 16 | I32 | U32 => 32 | I64 | U64 => 64 | I128 | U128 => 128 | I256 | U256 => 256 end.
Definition signed (t : ity) : bool :=
  match t with I8 | I16 | I32 | I64 | I128 | I256 => true | _ => false end.
Definition lo (t : ity) : Z := if signed t then - 2 ^ (bits t - 1) else 0.
Definition hi (t : ity) : Z := if signed t then 2 ^ (bits t - 1) - 1 else 2 ^ bits t - 1.
Definition in_range_of (t : ity) (v : Z) : bool := (lo t <=? v) && (v <=? hi t).
Definition ity_eqb (a b : ity) : bool :=
  match a, b with
  | I8, I8 | I16, I16 | I32, I32 | I64, I64 | I128, I128 | I256, I256
  | U8, U8 | U16, U16 | U32, U32 | U64, U64 | U128, U128 | U256, U256 => true
  | _, _ => false
  end.

(* ------------------------------------------------------------------ PORT: lexer (tokenizer.go numberHandler, NumberPattern) *)
(* greedy (?:D|_D)* : returns (consumed, rest) *)
Fixpoint take_tail (p : ascii -> bool) (s : str) : str * str :=
  match s with
  | [] => ([], [])
  | c :: t =>
      if p c then let (a, r) := take_tail p t in (c :: a, r)
      else if Ascii.eqb c c_us
           then match t with
                | d :: t' => if p d then let (a, r) := take_tail p t' in (c :: d :: a, r) else ([], s)
                | [] => ([], s)
                end
           else ([], s)
  end.
(* D(?:D|_D)* *)
Definition take_groups (p : ascii -> bool) (s : str) : option (str * str) :=
  match s with
  | c :: t => if p c then let (a, r) := take_tail p t in Some (c :: a, r) else None
  | [] => None
  end.

Definition is_exp_start (r : str) : bool :=   (* [eE][+-]?D *)
  match r with
  | e :: t => (Ascii.eqb e "e" || Ascii.eqb e "E") &&
              match t with
              | d :: t' => is_dec d || ((Ascii.eqb d c_plus || Ascii.eqb d c_minus) &&
                                        match t' with d' :: _ => is_dec d' | [] => false end)
              | [] => false
              end
  | [] => false
  end.
Definition is_frac_start (r : str) : bool :=  (* \.D *)
  match r with d :: x :: _ => Ascii.eqb d c_dot && is_dec x | _ => false end.

Inductive lexres :=
| LexInt (tok rest : str)       (* an integer token *)
| LexFloat                      (* the float alternative continues with a fraction / exponent: not an integer literal *)
| LexNone.                      (* NumberPattern does not match at this position *)

(* leftmost-first alternation Hex | Oct | Bin | Float after the optional minus *)
Definition lex_body (r : str) : option (str * str) * bool :=
  let prefixed :=
    match r with
    | z :: q :: t =>
        if Ascii.eqb z c_zero
        then match prefix_base q with
             | Some b => match take_groups (is_digit b) t with
                         | Some (a, rest) => Some (z :: q :: a, rest)
                         | None => None
                         end
             | None => None
             end
        else None
    | _ => None
    end in
  match prefixed with
  | Some x => (Some x, false)
  | None => match take_groups is_dec r with
            | Some (a, rest) => if is_frac_start rest || is_exp_start rest then (None, true) else (Some (a, rest), false)
            | None => (None, false)
            end
  end.

Definition lex_number (s : str) : lexres :=
  let (n, r) := split_sign s in
  match lex_body r with
  | (Some (tok, rest), _) => LexInt (if n then c_minus :: tok else tok) rest
  | (None, true) => LexFloat
  | (None, false) => LexNone    (* with a consumed '-' the regexp backtracks and fails at '-' as well *)
  end.

(* ------------------------------------------------------------------ PORT: numeric.go / value.go *)
(* cleanNumericString, strings.ReplaceAll(s, "_", "") *)
Definition clean (s : str) : str := filter (fun c => negb (Ascii.eqb c c_us)) s.

(* ^0[xX]H(?:H|_H)*$ and friends (anchored, no sign) *)
Definition is_prefixed (p : ascii -> bool) (x X : ascii) (s : str) : bool :=
  match s with
  | z :: q :: t => Ascii.eqb z c_zero && (Ascii.eqb q x || Ascii.eqb q X) && wf_groups p t
  | _ => false
  end.
Definition is_hexadecimal := is_prefixed is_hex "x" "X".
Definition is_octal := is_prefixed is_oct "o" "O".
Definition is_binary := is_prefixed is_bin "b" "B".

Fixpoint parse_digits (r : Z) (p : ascii -> bool) (acc : Z) (s : str) : option Z :=
  match s with
  | [] => Some acc
  | c :: t => if p c then parse_digits r p (acc * r + digit_val c) t else None
  end.

(* big.Int.SetString(s, base) for base in {2, 8, 10, 16}: optional sign, at least one digit, every character a digit
   of the base, no separators, no prefix; the whole string must be consumed *)
Definition set_string (b : base) (s : str) : option Z :=
  let '(sg, r) := match s with
                  | c :: t => if Ascii.eqb c c_minus then (-1, t) else if Ascii.eqb c c_plus then (1, t) else (1, s)
                  | [] => (1, s)
                  end in
  match r with
  | [] => None
  | _ => match parse_digits (radix b) (is_digit b) 0 r with Some v => Some (sg * v) | None => None end
  end.

(* StringToBigInt *)
Definition string_to_bigint (s0 : str) : option Z :=
  let s := clean s0 in
  if is_hexadecimal s then set_string Hex (skipn 2 s)
  else if is_octal s then set_string Oct (skipn 2 s)
  else if is_binary s then set_string Bin (skipn 2 s)
  else set_string Dec s.

Inductive numval := Int64V (v : Z) | BigV (v : Z).
Definition numval_Z (n : numval) : Z := match n with Int64V v | BigV v => v end.
Definition is_int64 (v : Z) : bool := (- 2 ^ 63 <=? v) && (v <=? 2 ^ 63 - 1).
Definition mk_numval (v : Z) : numval := if is_int64 v then Int64V v else BigV v.

(* NewNumericValue — repaired version *)
Definition new_numeric_value (s0 : str) : option numval :=
  let s := clean s0 in
  let (neg, m) := split_sign s in
  match string_to_bigint m with
  | None => None
  | Some v => Some (mk_numval (if neg then - v else v))
  end.

(* strconv.ParseInt(s, 0, 64): sign, base from prefix (a bare leading 0 means octal), value must fit int64.
   Underscores are already removed by the caller. *)
Definition parse_int_base0 (s : str) : option Z :=
  match s with
  | [] => None
  | _ =>
    let '(neg, r) := match s with
                     | c :: t => if Ascii.eqb c c_plus then (false, t) else if Ascii.eqb c c_minus then (true, t) else (false, s)
                     | [] => (false, s)
                     end in
    let '(b, ds) := match r with
                    | z :: q :: t => if Ascii.eqb z c_zero
                                     then match prefix_base q with Some b => (b, t) | None => (Oct, q :: t) end
                                     else (Dec, r)
                    | _ => (Dec, r)
                    end in
    match ds with
    | [] => None
    | _ => match parse_digits (radix b) (is_digit b) 0 ds with
           | None => None
           | Some m => let v := if neg then - m else m in if is_int64 v then Some v else None
           end
    end
  end.

(* NewNumericValue — as it was before the repair (ParseInt base 0 first, StringToBigInt of the signed text second) *)
Definition new_numeric_value_orig (s0 : str) : option numval :=
  let s := clean s0 in
  match parse_int_base0 s with
  | Some v => Some (Int64V v)
  | None => match string_to_bigint s with Some v => Some (BigV v) | None => None end
  end.

(* FitsInBitSize (package function, big.Int) *)
Definition fits_big (v bitsz : Z) (sg : bool) : bool :=
  if sg then (- 2 ^ (bitsz - 1) <=? v) && (v <=? 2 ^ (bitsz - 1) - 1)
  else if v <? 0 then false else v <=? 2 ^ bitsz - 1.

(* Int64Value.FitsInBitSize *)
Definition fits_int64 (v bitsz : Z) (sg : bool) : bool :=
  if sg then
    if bitsz =? 8 then (-128 <=? v) && (v <=? 127)
    else if bitsz =? 16 then (-32768 <=? v) && (v <=? 32767)
    else if bitsz =? 32 then (-2147483648 <=? v) && (v <=? 2147483647)
    else if bitsz =? 64 then true
    else if (bitsz =? 128) || (bitsz =? 256) then true
    else fits_big v bitsz sg
  else
    if v <? 0 then false
    else if bitsz =? 8 then v <=? 255
    else if bitsz =? 16 then v <=? 65535
    else if bitsz =? 32 then v <=? 4294967295
    else if bitsz =? 64 then true
    else if (bitsz =? 128) || (bitsz =? 256) then true
    else fits_big v bitsz sg.

Definition fits (n : numval) (bitsz : Z) (sg : bool) : bool :=
  match n with Int64V v => fits_int64 v bitsz sg | BigV v => fits_big v bitsz sg end.

(* ------------------------------------------------------------------ decimal rendering (big.Int.String, strconv.FormatInt) *)
Fixpoint dec_digits (fuel : nat) (n : Z) (acc : str) : str :=
  match fuel with
  | O => acc
  | S f => let acc' := chr (48 + n mod 10) :: acc in
           if n / 10 =? 0 then acc' else dec_digits f (n / 10) acc'
  end.
Definition dec_fuel (n : Z) : nat := S (Z.to_nat (Z.log2 n)).
Definition dec_string_of_Z (v : Z) : str :=
  if v <? 0 then c_minus :: dec_digits (dec_fuel (- v)) (- v) [] else dec_digits (dec_fuel v) v [].

(* ------------------------------------------------------------------ PORT: type checker *)
Section Checker.
  (* the NewNumericValue in use: repaired or original *)
  Variable nnv : str -> option numval.

  (* fitsInType (integer branch) *)
  Definition fits_in_type_g (s : str) (t : ity) : bool :=
    match nnv s with None => false | Some n => fits n (bits t) (signed t) end.

  (* inferLiteralType (ast.INT) *)
  Definition infer_literal_type_g (s : str) (expected : option ity) : option ity :=
    let dflt := if fits_in_type_g s I32 then Some I32
                else if fits_in_type_g s I64 then Some I64
                else if fits_in_type_g s I128 then Some I128
                else if fits_in_type_g s I256 then Some I256
                else None in
    match expected with
    | Some t => if fits_in_type_g s t then Some t else dflt
    | None => dflt
    end.

  (* parseIntLiteral *)
  Definition parse_int_literal (s : str) : option Z :=
    let '(sg, r) := match s with
                    | c :: t => if Ascii.eqb c c_plus then (1, t) else if Ascii.eqb c c_minus then (-1, t) else (1, s)
                    | [] => (1, s)
                    end in
    match r with
    | [] => None
    | _ => match string_to_bigint r with Some v => Some (sg * v) | None => None end
    end.

  (* checkFitness: evaluateNumericConst (BasicLit) -> numericConstValueString -> fitsInType; true = no diagnostic *)
  Definition check_fitness_g (t : ity) (s : str) : bool :=
    match parse_int_literal s with
    | None => true
    | Some v => fits_in_type_g (dec_string_of_Z v) t
    end.
End Checker.

(* isLosslessNumericConversion restricted to integer targets *)
Definition lossless_int (src tgt : ity) : bool :=
  match src, tgt with
  | I8, (I16 | I32 | I64 | I128 | I256) => true
  | I16, (I32 | I64 | I128 | I256) => true
  | I32, (I64 | I128 | I256) => true
  | I64, (I128 | I256) => true
  | I128, I256 => true
  | U8, (U16 | U32 | U64 | I16 | I32 | I64) => true
  | U16, (U32 | U64 | I32 | I64) => true
  | U32, (U64 | I64) => true
  | _, _ => false
  end.
Definition compat_b (src tgt : ity) : bool := ity_eqb src tgt || lossless_int src tgt.

(* checkAssignLike / argument / return for a single literal token s against declared type t:
   the literal is typed by inferLiteralType with t expected, checkFitness must not complain, and the literal's type
   must be assignable to t *)
Definition accepts_g (nnv : str -> option numval) (t : ity) (s : str) : bool :=
  match infer_literal_type_g nnv s (Some t) with
  | None => false
  | Some rt => check_fitness_g nnv t s && compat_b rt t
  end.

Definition fits_in_type := fits_in_type_g new_numeric_value.
Definition infer_literal_type := infer_literal_type_g new_numeric_value.
Definition check_fitness := check_fitness_g new_numeric_value.
Definition accepts := accepts_g new_numeric_value.
Definition accepts_orig := accepts_g new_numeric_value_orig.

(* ------------------------------------------------------------------ PORT: materialisation *)
Definition wrapU (w x : Z) : Z := x mod 2 ^ w.
Definition wrapS (w x : Z) : Z := (x + 2 ^ (w - 1)) mod 2 ^ w - 2 ^ (w - 1).

(* emit.go normalizeInt: NewNumericValue(value).String(); the text goes into the QBE constant of the literal's type.
   The w-bit register/store keeps the value modulo 2^w; the print routine of the type reads it signed/unsigned. *)
Definition normalize_int_g (nnv : str -> option numval) (s : str) : option Z :=
  match nnv s with Some n => Some (numval_Z n) | None => None end.
Definition observed_small_g nnv (t : ity) (s : str) : option Z :=
  match normalize_int_g nnv s with
  | Some v => Some (if signed t then wrapS (bits t) v else wrapU (bits t) v)
  | None => None
  end.

(* builder.go emitLargeConst: the string handed to ferret_<T>_from_string_ptr *)
Definition emit_large_const_string (s : str) : str :=
  let (neg, c) := split_sign s in
  match string_to_bigint c with
  | Some v => dec_string_of_Z (if neg then - v else v)
  | None => clean s
  end.

(* bigint.c ferret_digit_value *)
Definition c_digit_value (c : ascii) : Z := if is_hex c then digit_val c else -1.
(* bigint.c ferret_parse_base *)
Definition c_parse_base (s : str) : Z * str :=
  match s with
  | z :: q :: t => if Ascii.eqb z c_zero
                   then match prefix_base q with Some b => (radix b, t) | None => (10, s) end
                   else (10, s)
  | _ => (10, s)
  end.
(* the digit loop of ferret_parse_uint; ferret_mul_add_small drops the carry out of the top limb: mod 2^N *)
Fixpoint c_parse_loop (N b acc : Z) (any : bool) (s : str) : Z * bool :=
  match s with
  | [] => (acc, any)
  | c :: t => if Ascii.eqb c c_us then c_parse_loop N b acc any t
              else let d := c_digit_value c in
                   if (d <? 0) || (b <=? d) then (acc, any)
                   else c_parse_loop N b ((acc * b + d) mod 2 ^ N) true t
  end.
(* ferret_parse_uint (no leading white space in our inputs): Some (magnitude mod 2^N, neg) or None = false *)
Definition c_parse_uint (allow_sign : bool) (N : Z) (s : str) : option (Z * bool) :=
  let '(neg, r) := match s with
                   | c :: t => if Ascii.eqb c c_plus then (false, t) else if Ascii.eqb c c_minus then (true, t) else (false, s)
                   | [] => (false, s)
                   end in
  if neg && negb allow_sign then None
  else let (b, ds) := c_parse_base r in
       let (v, any) := c_parse_loop N b 0 false ds in
       if any then Some (v, neg) else None.
(* ferret_{i,u}{128,256}_from_string: the N-bit pattern *)
Definition c_from_string (t : ity) (s : str) : Z :=
  match c_parse_uint (signed t) (bits t) s with
  | None => 0
  | Some (v, neg) => if signed t && neg then (2 ^ bits t - v) mod 2 ^ bits t else v
  end.
Definition observed_large (t : ity) (s : str) : option Z :=
  let pat := c_from_string t (emit_large_const_string s) in
  Some (if signed t then wrapS (bits t) pat else pat).

(* the value the running program prints for `let x: t = s; io::Println(x);` *)
Definition observed_g nnv (t : ity) (s : str) : option Z :=
  if bits t <=? 64 then observed_small_g nnv t s else observed_large t s.
Definition observed := observed_g new_numeric_value.
Definition observed_orig := observed_g new_numeric_value_orig.

(* ------------------------------------------------------------------ PORT: parser.go parsePrimary (NUMBER_TOKEN), as repaired by
   fixes/C10-exponent-float-kind.patch: kind = FLOAT iff tokens.IsFloat(tok) = numeric.IsFloat = floatRegex || scientificRegex
     floatRegex       = sign? digits '.' digits            (digits = decimal digits with single '_' between them)
     scientificRegex  = sign? digits ('.' digits)? [eE] [+-]? digits
   (what follows a digit group is never a digit or '_', so the greedy take_groups is exact) *)
Definition exp_full (r : str) : bool :=      (* [eE][+-]?D(_?D)*$ *)
  match r with
  | e :: t => (Ascii.eqb e "e" || Ascii.eqb e "E") &&
              let t' := match t with
                        | sg :: u => if Ascii.eqb sg c_plus || Ascii.eqb sg c_minus then u else t
                        | [] => t
                        end in
              match take_groups is_dec t' with Some (_, []) => true | _ => false end
  | [] => false
  end.
Definition is_float_token (s : str) : bool :=
  let (_, r) := split_sign s in
  match take_groups is_dec r with
  | None => false
  | Some (_, rest) =>
      match rest with
      | [] => false
      | d :: rest1 =>
          if Ascii.eqb d c_dot
          then match take_groups is_dec rest1 with
               | Some (_, rest2) => match rest2 with [] => true | _ => exp_full rest2 end
               | None => false
               end
          else exp_full rest
      end
  end.
Inductive litkind := KInt | KFloat.
Definition literal_kind (tok : str) : litkind := if is_float_token tok then KFloat else KInt.
(* before the repair: FLOAT iff the token contains a '.' *)
Definition literal_kind_orig (tok : str) : litkind := if existsb (fun c => Ascii.eqb c c_dot) tok then KFloat else KInt.

(* ------------------------------------------------------------------ correspondence cases *)
(* (id, type, literal, accepted by the implementation, printed value if accepted and run, oracle value computed by the harness) *)
Record case := Case { c_id : Z; c_ty : ity; c_lit : str; c_acc : bool; c_out : option Z; c_val : Z }.

Definition opt_Z_eqb (a b : option Z) : bool :=
  match a, b with Some x, Some y => x =? y | None, None => true | _, _ => false end.

Fixpoint str_eqb (a b : str) : bool :=
  match a, b with
  | [], [] => true
  | x :: a', y :: b' => Ascii.eqb x y && str_eqb a' b'
  | _, _ => false
  end.

(* model <-> implementation *)
Definition case_model_ok (c : case) : bool :=
  Bool.eqb (accepts (c_ty c) (c_lit c)) (c_acc c) &&
  match c_out c with Some _ => opt_Z_eqb (observed (c_ty c) (c_lit c)) (c_out c) | None => true end &&
  match lex_number (c_lit c ++ [";"%char]) with
  | LexInt tok rest => str_eqb tok (c_lit c) && str_eqb rest [";"%char]
  | _ => false
  end.
(* spec <-> implementation (the property itself) and harness oracle <-> Coq spec *)
Definition case_spec_ok (c : case) : bool :=
  wf_lit (c_lit c) && (lit_value (c_lit c) =? c_val c) &&
  Bool.eqb (in_range_of (c_ty c) (lit_value (c_lit c))) (c_acc c) &&
  match c_out c with Some o => o =? lit_value (c_lit c) | None => true end.

Definition bad_ids (f : case -> bool) (cs : list case) : list Z :=
  map c_id (filter (fun c => negb (f c)) cs).
Definition str_of (s : String.string) : str := String.list_ascii_of_string s.
