(* C17 — port of runtime/core/array.c (growable vector) with the wrappers runtime/libs/len.c ferret_len_array and
   runtime/libs/append.c ferret_append_array (which only forward).  Definitions only.

   The heap block `data` is a list of exactly `capacity` element slots; slots never written hold `junk`.
   Every access to the block goes through rd / wr, which answer None when the slot index is outside the block —
   None therefore *is* an out-of-bounds memory access of the C code.  Indices are C int32_t values given as Z.
   Not modelled: malloc/realloc failure, and int32 overflow of capacity * 2 (needs 2^30 elements). *)
From Coq Require Import ZArith List Bool.
Import ListNotations.
Open Scope Z_scope.

Section ArrayModel.
Variable E : Type.
Variable junk : E.            (* contents of uninitialised heap memory *)

(* ferret_array_t {data, length, capacity, elem_size} *)
Record arr_t := mkArr { adata : list E; alen : Z; acap : Z }.

Definition min_capacity : Z := 4.       (* FERRET_ARRAY_MIN_CAPACITY *)
Definition growth : Z := 2.             (* FERRET_ARRAY_GROWTH_FACTOR *)

(* ferret_array_new(elem_size, initial_capacity) *)
Definition arr_new (initial_capacity : Z) : arr_t :=
  let c := if initial_capacity <? min_capacity then min_capacity else initial_capacity in
  mkArr (repeat junk (Z.to_nat c)) 0 c.

(* (char* )data + i * elem_size, read / memcpy of one element *)
Definition rd (d : list E) (i : Z) : option E :=
  if i <? 0 then None else nth_error d (Z.to_nat i).
Fixpoint wr_nat (d : list E) (i : nat) (x : E) : option (list E) :=
  match d, i with
  | [], _ => None
  | _ :: t, O => Some (x :: t)
  | y :: t, S i' => option_map (cons y) (wr_nat t i' x)
  end.
Definition wr (d : list E) (i : Z) (x : E) : option (list E) :=
  if i <? 0 then None else wr_nat d (Z.to_nat i) x.

(* realloc(data, elem_size * new_capacity): keeps the old contents *)
Definition realloc (d : list E) (newcap : Z) : list E :=
  firstn (Z.to_nat newcap) d ++ repeat junk (Z.to_nat newcap - length d).

(* ferret_array_append — result None = out-of-bounds write *)
Definition arr_append (a : arr_t) (x : E) : option arr_t :=
  let a1 := if alen a >=? acap a
            then let nc0 := acap a * growth in
                 let nc := if nc0 <? min_capacity then min_capacity else nc0 in
                 mkArr (realloc (adata a) nc) (alen a) nc
            else a in
  match wr (adata a1) (alen a1) x with
  | Some d => Some (mkArr d (alen a1 + 1) (acap a1))
  | None => None
  end.

Inductive access (A : Type) := Refused | Ok (x : A) | OutOfBounds.
Arguments Refused {A}.
Arguments Ok {A}.
Arguments OutOfBounds {A}.

(* ferret_array_get: NULL (Refused) when index < 0 || index >= length *)
Definition arr_get (a : arr_t) (i : Z) : access E :=
  if (i <? 0) || (i >=? alen a) then Refused
  else match rd (adata a) i with Some x => Ok x | None => OutOfBounds end.

(* ferret_array_set: false (Refused) when index < 0 || index >= length *)
Definition arr_set (a : arr_t) (i : Z) (x : E) : access arr_t :=
  if (i <? 0) || (i >=? alen a) then Refused
  else match wr (adata a) i x with
       | Some d => Ok (mkArr d (alen a) (acap a))
       | None => OutOfBounds
       end.

(* ferret_array_len / ferret_len_array, ferret_array_cap *)
Definition arr_len (a : arr_t) : Z := alen a.
Definition arr_cap (a : arr_t) : Z := acap a.

(* ---- histories *)
Inductive aop := ANew (cap : Z) | AAppend (x : E) | AGet (i : Z) | ASet (i : Z) (x : E) | ALen.
Inductive ares := AUnit | AVal (x : E) | ARefused | ADone | ALength (n : Z) | AOob.

Definition astep (a : arr_t) (o : aop) : arr_t * ares :=
  match o with
  | ANew c => (arr_new c, AUnit)
  | AAppend x => match arr_append a x with Some a' => (a', ADone) | None => (a, AOob) end
  | AGet i => (a, match arr_get a i with Ok x => AVal x | Refused => ARefused | OutOfBounds => AOob end)
  | ASet i x => match arr_set a i x with Ok a' => (a', ADone) | Refused => (a, ARefused) | OutOfBounds => (a, AOob) end
  | ALen => (a, ALength (arr_len a))
  end.

Fixpoint arun (a : arr_t) (ops : list aop) : list ares :=
  match ops with
  | [] => []
  | o :: t => let '(a', r) := astep a o in r :: arun a' t
  end.

Fixpoint afinal (a : arr_t) (ops : list aop) : arr_t :=
  match ops with
  | [] => a
  | o :: t => afinal (fst (astep a o)) t
  end.

End ArrayModel.

Arguments mkArr {E}.
Arguments adata {E}.
Arguments alen {E}.
Arguments acap {E}.
Arguments Refused {A}.
Arguments Ok {A}.
Arguments OutOfBounds {A}.
Arguments ANew {E}.
Arguments AAppend {E}.
Arguments AGet {E}.
Arguments ASet {E}.
Arguments ALen {E}.
Arguments AUnit {E}.
Arguments AVal {E}.
Arguments ARefused {E}.
Arguments ADone {E}.
Arguments ALength {E}.
Arguments AOob {E}.

(* ---- executable instance used by the correspondence check: elements are integers (the little-endian value of the
   elem_size bytes); the capacity after every step is compared as well (a separate list: it is not an observable
   the property names). *)
Definition zres_eqb (a b : ares Z) : bool :=
  match a, b with
  | AUnit, AUnit => true
  | AVal x, AVal y => x =? y
  | ARefused, ARefused => true
  | ADone, ADone => true
  | ALength x, ALength y => x =? y
  | _, _ => false
  end.
Fixpoint zress_eqb (a b : list (ares Z)) : bool :=
  match a, b with
  | [], [] => true
  | x :: a', y :: b' => zres_eqb x y && zress_eqb a' b'
  | _, _ => false
  end.

Fixpoint acaps (a : arr_t Z) (ops : list (aop Z)) : list Z :=
  match ops with
  | [] => []
  | o :: t => let a' := fst (astep Z (-1) a o) in acap a' :: acaps a' t
  end.
Fixpoint zs_eqb (a b : list Z) : bool :=
  match a, b with
  | [], [] => true
  | x :: a', y :: b' => (x =? y) && zs_eqb a' b'
  | _, _ => false
  end.

Record acase := ACase { ac_id : Z; ac_ops : list (aop Z); ac_obs : list (ares Z); ac_caps : list Z }.

Definition arr0 : arr_t Z := mkArr [] 0 0.
Definition abad_ids (cs : list acase) : list Z :=
  map ac_id (filter (fun c => negb (zress_eqb (arun Z (-1) arr0 (ac_ops c)) (ac_obs c))) cs).
Definition acap_ids (cs : list acase) : list Z :=
  map ac_id (filter (fun c => negb (zs_eqb (acaps arr0 (ac_ops c)) (ac_caps c))) cs).
