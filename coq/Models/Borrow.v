(* C07 — port of internal/hir/analysis/borrow.go over a small statement language (BorLang), the independent
   specification of reference safety (loan liveness), and a tiny store model for write-through.

   BorLang (what the harness renders to Ferret, one statement per line):
     SVar v            let v: S = mk(k);                      (a local; registers v in `locals`)
     SLet r m pl       let r: &T / &'T = &pl / &'pl;          (checkVarDecl -> checkBorrowInit)
     SCopy r2 r        let r2: &T = r;                        (checkVarDecl -> bindRefFromIdent)
     SUse r            io::Println(r) / io::Println(r.F)      (read through the reference)
     SWt r             r = v; / r.F = v;                      (write through the reference)
     SRead pl          io::Println(pl) / let c: T = pl;       (checkExpr -> checkAccess read)
     SWrite pl         pl = v;                                (checkAssignStmt -> checkWriteTarget)
     SCall args        f(a1, .., an); ai = &pl | &'pl | pl | r   (ExprStmt, temporaries of withTempScope)
     SBlock b | SIf c b1 b2 | SWhile c b        c = cT | pl >= 0 (reads place pl) | pS(r) (uses reference r)
     `if c1 {A} else if c2 {B} else {C}` is SIf c1 A [SIf c2 B C]: checkIfStmt hands a nested *hir.IfStmt to checkNode,
     which does what checkBlock does for a block holding only that if statement (its scope declares nothing, so the
     push/pop and releaseExpiredRefs are no-ops) and collectRefUsesNode descends into both in the same way.
     SRetBor m pl      return &pl / &'pl;     SRetRef r   return r;
   Places are a base variable and a path of field / index segments.  Bases are never reference variables
   (re-borrow through a reference parameter is an open finding, see harness/meta/C07.findings.json) and the
   index variable of a dynamic index is never borrowed, so its read is vacuous.
   `loc` pointers of the Go code are modelled by an owner tag: S r for the loan created by the declaration of
   r, 0 for temporaries (temporaries with equal path and mutability are interchangeable). The per-base map
   `borrows` is flattened into one list with a base field (per-base order is preserved). *)
From Coq Require Import List Bool Arith ZArith.
Import ListNotations.

Inductive seg := SF (n : nat) | SI (i : option nat).
Definition path := list seg.
Definition place := (nat * path)%type.

Definition is_index (s : seg) : bool := match s with SI _ => true | SF _ => false end.
(* kind and name equal (index segments carry an empty name in the Go code) *)
Definition seg_same (a b : seg) : bool :=
  match a, b with SF x, SF y => Nat.eqb x y | SI _, SI _ => true | _, _ => false end.

(* borrow.go pathsOverlap *)
Fixpoint pathsOverlap (a b : path) : bool :=
  match a, b with
  | [], _ => true
  | _, [] => true
  | x :: a', y :: b' =>
      if is_index x || is_index y then true
      else if seg_same x y then pathsOverlap a' b' else false
  end.

(* borrow.go pathsEqual *)
Fixpoint pathsEqual (a b : path) : bool :=
  match a, b with
  | [], [] => true
  | x :: a', y :: b' => seg_same x y && pathsEqual a' b'
  | _, _ => false
  end.

Record entry := mkE { e_base : nat; e_path : path; e_mut : bool; e_tag : nat }.
Record scope := mkSc { sc_refs : list nat; sc_last : list (nat * nat) }.

Inductive err := EAccessMut | EModifyMut | EModifyShared | EBorrowMutMut | EBorrowMutShared
               | EBorrowSharedMut | EReturnLocal.

Record st := mkSt { borrows : list entry;             (* b.borrows, flattened *)
                    bindings : list (nat * entry);    (* b.bindings: ref -> place, mutable, loc *)
                    scopes : list scope;              (* b.scopes, innermost first *)
                    temp : list entry;                (* b.temp *)
                    locals : list nat;                (* b.locals *)
                    errs : list err }.                (* diagnostics, in order of emission *)

Definition st0 (params_local : list nat) : st := mkSt [] [] [] [] params_local [].

Definition setBorrows x s := mkSt x (bindings s) (scopes s) (temp s) (locals s) (errs s).
Definition setBindings x s := mkSt (borrows s) x (scopes s) (temp s) (locals s) (errs s).
Definition setScopes x s := mkSt (borrows s) (bindings s) x (temp s) (locals s) (errs s).
Definition setTemp x s := mkSt (borrows s) (bindings s) (scopes s) x (locals s) (errs s).
Definition setLocals x s := mkSt (borrows s) (bindings s) (scopes s) (temp s) x (errs s).
Definition addErr e s := mkSt (borrows s) (bindings s) (scopes s) (temp s) (locals s) (errs s ++ [e]).

Fixpoint lookup {A} (k : nat) (l : list (nat * A)) : option A :=
  match l with [] => None | (k', v) :: t => if Nat.eqb k k' then Some v else lookup k t end.
Fixpoint delete {A} (k : nat) (l : list (nat * A)) : list (nat * A) :=
  match l with [] => [] | (k', v) :: t => if Nat.eqb k k' then delete k t else (k', v) :: delete k t end.
Definition upd {A} (k : nat) (v : A) (l : list (nat * A)) : list (nat * A) := (k, v) :: delete k l.
Definition mem (k : nat) (l : list nat) : bool := existsb (Nat.eqb k) l.

(* borrow.go findBorrow: newest matching entry of the base first *)
Definition matchE (b : nat) (p : path) (want : option bool) (e : entry) : bool :=
  Nat.eqb (e_base e) b && pathsOverlap p (e_path e) &&
  match want with None => true | Some w => Bool.eqb (e_mut e) w end.
Definition findBorrow (es : list entry) (b : nat) (p : path) (want : option bool) : option entry :=
  find (matchE b p want) (rev es).

(* borrow.go removeBorrowEntry: newest entry with the same mutability, equal path and the same loc *)
Fixpoint remove_first {A} (f : A -> bool) (l : list A) : list A :=
  match l with [] => [] | x :: t => if f x then t else x :: remove_first f t end.
Definition sameE (e : entry) (x : entry) : bool :=
  Nat.eqb (e_base x) (e_base e) && Bool.eqb (e_mut x) (e_mut e) && pathsEqual (e_path x) (e_path e) &&
  Nat.eqb (e_tag x) (e_tag e).
Definition removeBorrowEntry (es : list entry) (e : entry) : list entry :=
  rev (remove_first (sameE e) (rev es)).

(* borrow.go releaseBorrow *)
Definition releaseBorrow (e : entry) (s : st) : st := setBorrows (removeBorrowEntry (borrows s) e) s.

(* borrow.go releaseBinding *)
Definition releaseBinding (r : nat) (s : st) : st :=
  match lookup r (bindings s) with
  | None => s
  | Some e => releaseBorrow e (setBindings (delete r (bindings s)) s)
  end.

(* borrow.go addBorrow *)
Definition addBorrow (b : nat) (p : path) (m : bool) (tag : nat) (s : st) : bool * st :=
  let es := borrows s in
  if m then
    match findBorrow es b p None with
    | Some e => (false, addErr (if e_mut e then EBorrowMutMut else EBorrowMutShared) s)
    | None => (true, setBorrows (es ++ [mkE b p m tag]) s)
    end
  else
    match findBorrow es b p (Some true) with
    | Some _ => (false, addErr EBorrowSharedMut s)
    | None => (true, setBorrows (es ++ [mkE b p m tag]) s)
    end.

(* borrow.go checkAccess *)
Definition checkRead (pl : place) (s : st) : st :=
  match findBorrow (borrows s) (fst pl) (snd pl) (Some true) with
  | Some _ => addErr EAccessMut s
  | None => s
  end.
Definition checkWrite (pl : place) (s : st) : st :=
  match findBorrow (borrows s) (fst pl) (snd pl) (Some true) with
  | Some _ => addErr EModifyMut s
  | None => match findBorrow (borrows s) (fst pl) (snd pl) (Some false) with
            | Some _ => addErr EModifyShared s
            | None => s
            end
  end.

(* borrow.go pushScope / popScope *)
Definition pushScope (last : list (nat * nat)) (s : st) : st := setScopes (mkSc [] last :: scopes s) s.
Definition popScope (s : st) : st :=
  match scopes s with
  | [] => s
  | sc :: tl => fold_left (fun s r => releaseBinding r s) (sc_refs sc) (setScopes tl s)
  end.
Definition addScopeRef (r : nat) (s : st) : st :=
  match scopes s with
  | [] => s
  | sc :: tl => setScopes (mkSc (sc_refs sc ++ [r]) (sc_last sc) :: tl) s
  end.

(* borrow.go releaseTemps *)
Definition releaseTemps (start : nat) (s : st) : st :=
  let s' := fold_left (fun s e => releaseBorrow e s) (rev (skipn start (temp s))) s in
  setTemp (firstn start (temp s)) s'.

(* borrow.go checkBorrowExpr (a temporary) *)
Definition checkBorrowExpr (m : bool) (pl : place) (s : st) : st :=
  let '(ok, s1) := addBorrow (fst pl) (snd pl) m 0 s in
  if ok then setTemp (temp s1 ++ [mkE (fst pl) (snd pl) m 0]) s1 else s1.

(* borrow.go checkBorrowInit *)
Definition checkBorrowInit (r : nat) (m : bool) (pl : place) (s : st) : st :=
  let '(ok, s1) := addBorrow (fst pl) (snd pl) m (S r) s in
  if ok then addScopeRef r (setBindings (upd r (mkE (fst pl) (snd pl) m (S r)) (bindings s1)) s1) else s1.

(* borrow.go bindRefFromIdent *)
Definition bindRefFromIdent (r2 r : nat) (s : st) : st :=
  match lookup r (bindings s) with
  | None => s
  | Some e =>
      let '(ok, s1) := addBorrow (e_base e) (e_path e) (e_mut e) (S r2) s in
      if ok then addScopeRef r2 (setBindings (upd r2 (mkE (e_base e) (e_path e) (e_mut e) (S r2)) (bindings s1)) s1)
      else s1
  end.

(* borrow.go checkReturnLifetime *)
Definition checkReturnBase (b : nat) (s : st) : st := if mem b (locals s) then addErr EReturnLocal s else s.

(* condition of if / while: a bool parameter, a comparison reading a place, or a call taking a reference *)
Inductive cond := CNone | CPl (pl : place) | CRef (r : nat).
Definition cond_mentions (c : cond) : list nat := match c with CRef r => [r] | _ => [] end.

Inductive arg := ABor (m : bool) (pl : place) | ARd (pl : place) | ARef (r : nat).

Inductive stmt :=
| SVar (v : nat)
| SLet (r : nat) (m : bool) (pl : place)
| SCopy (r2 r : nat)
| SUse (r : nat)
| SWt (r : nat)
| SRead (pl : place)
| SWrite (pl : place)
| SCall (args : list arg)
| SBlock (b : list stmt)
| SIf (c : cond) (b1 b2 : list stmt)
| SWhile (c : cond) (b : list stmt)
| SRetBor (m : bool) (pl : place)
| SRetRef (r : nat).

Definition arg_mentions (a : arg) : list nat := match a with ARef r => [r] | _ => [] end.

(* borrow.go collectRefUsesNode / collectRefUsesExpr restricted to BorLang: every identifier occurrence *)
Fixpoint mentions (s : stmt) : list nat :=
  match s with
  | SVar _ | SLet _ _ _ | SRead _ | SWrite _ | SRetBor _ _ => []
  | SCopy _ r | SUse r | SWt r | SRetRef r => [r]
  | SCall args => flat_map arg_mentions args
  | SBlock b => flat_map mentions b
  | SIf c b1 b2 => cond_mentions c ++ flat_map mentions b1 ++ flat_map mentions b2
  | SWhile c b => cond_mentions c ++ flat_map mentions b
  end.
Definition mentionsL (b : list stmt) : list nat := flat_map mentions b.

(* borrow.go collectRefDecls / addRefDecls (top level of one block) *)
Definition declTop (s : stmt) : list nat :=
  match s with SLet r _ _ => [r] | SCopy r2 _ => [r2] | _ => [] end.
Definition collectRefDecls (b : list stmt) : list nat := flat_map declTop b.

(* borrow.go computeLastUse: markRefDeclIndex (only if unseen), then every use overwrites with idx *)
Definition markDecl (refs : list nat) (idx : nat) (last : list (nat * nat)) (r : nat) : list (nat * nat) :=
  if mem r refs then match lookup r last with Some _ => last | None => upd r idx last end else last.
Definition markUse (refs : list nat) (idx : nat) (last : list (nat * nat)) (r : nat) : list (nat * nat) :=
  if mem r refs then upd r idx last else last.
Fixpoint computeLastUseFrom (idx : nat) (b : list stmt) (refs : list nat) (last : list (nat * nat)) :=
  match b with
  | [] => last
  | s :: rest =>
      let l1 := fold_left (markDecl refs idx) (declTop s) last in
      let l2 := fold_left (markUse refs idx) (mentions s) l1 in
      computeLastUseFrom (S idx) rest refs l2
  end.
Definition computeLastUse (b : list stmt) : list (nat * nat) :=
  computeLastUseFrom 0 b (collectRefDecls b) [].

(* borrow.go releaseExpiredRefs *)
Definition expiredb (last : list (nat * nat)) (idx : nat) (r : nat) : bool :=
  match lookup r last with Some i => Nat.leb i idx | None => false end.
Definition releaseExpiredRefs (idx : nat) (s : st) : st :=
  match scopes s with
  | [] => s
  | sc :: tl =>
      let expired := filter (expiredb (sc_last sc) idx) (sc_refs sc) in
      let keep := filter (fun r => negb (expiredb (sc_last sc) idx r)) (sc_refs sc) in
      fold_left (fun s r => releaseBinding r s) expired (setScopes (mkSc keep (sc_last sc) :: tl) s)
  end.

(* borrow.go checkExpr on one call argument *)
Definition checkArg (s : st) (a : arg) : st :=
  match a with
  | ABor m pl => checkBorrowExpr m pl s
  | ARd pl => checkRead pl s
  | ARef _ => s
  end.

Definition checkCond (c : cond) (s : st) : st :=
  match c with CPl pl => checkRead pl s | _ => s end.

(* borrow.go checkNode / checkBlock *)
Fixpoint checkNode (s : stmt) (x : st) {struct s} : st :=
  let checkBlock := fun (b : list stmt) (x : st) =>
    popScope ((fix go (idx : nat) (ss : list stmt) (x : st) {struct ss} : st :=
                 match ss with
                 | [] => x
                 | s' :: rest => go (S idx) rest (releaseExpiredRefs idx (checkNode s' x))
                 end) 0 b (pushScope (computeLastUse b) x)) in
  match s with
  | SVar v => setLocals (v :: locals x) x
  | SLet r m pl => checkBorrowInit r m pl x
  | SCopy r2 r => bindRefFromIdent r2 r x
  | SUse _ => x
  | SWt _ => x
  | SRead pl => checkRead pl x
  | SWrite pl => checkWrite pl x
  | SCall args => let start := length (temp x) in releaseTemps start (fold_left checkArg args x)
  | SBlock b => checkBlock b x
  | SIf c b1 b2 => checkBlock b2 (checkBlock b1 (checkCond c x))
  | SWhile c b => checkBlock b (checkCond c x)
  | SRetBor m pl =>
      let start := length (temp x) in
      checkReturnBase (fst pl) (releaseTemps start (checkBorrowExpr m pl x))
  | SRetRef r =>
      match lookup r (bindings x) with
      | Some e => checkReturnBase (e_base e) x
      | None => x
      end
  end.

Fixpoint checkNodes (idx : nat) (ss : list stmt) (x : st) : st :=
  match ss with
  | [] => x
  | s :: rest => checkNodes (S idx) rest (releaseExpiredRefs idx (checkNode s x))
  end.
Definition checkBlock (b : list stmt) (x : st) : st :=
  popScope (checkNodes 0 b (pushScope (computeLastUse b) x)).

(* a function body: params_local = by-value parameters registered as locals (after fixes/C07-param-local.patch;
   the unpatched code registers none) *)
Definition bc (params_local : list nat) (body : list stmt) : list err := errs (checkBlock body (st0 params_local)).
Definition accept (params_local : list nat) (body : list stmt) : bool :=
  match bc params_local body with [] => true | _ => false end.

(* ------------------------------------------------------------------------------------------------------ *)
(* Specification: loan liveness. Independent of the checker's data structures.                             *)

(* true overlap of places: same base, one path a prefix of the other; two constant indices overlap only when
   equal, a dynamic index may denote any element *)
Definition seg_may_equal (a b : seg) : bool :=
  match a, b with
  | SF x, SF y => Nat.eqb x y
  | SI (Some i), SI (Some j) => Nat.eqb i j
  | SI _, SI _ => true
  | _, _ => false
  end.
Fixpoint spec_overlap (a b : path) : bool :=
  match a, b with
  | [], _ => true
  | _, [] => true
  | x :: a', y :: b' => seg_may_equal x y && spec_overlap a' b'
  end.

Record loan := mkL { l_ref : option nat; l_base : nat; l_path : path; l_mut : bool }.

Definition declsDeepS : stmt -> list nat :=
  fix dd (s : stmt) : list nat :=
    match s with
    | SLet r _ _ => [r] | SCopy r2 _ => [r2]
    | SBlock b => flat_map dd b
    | SIf _ b1 b2 => flat_map dd b1 ++ flat_map dd b2
    | SWhile _ b => flat_map dd b
    | _ => []
    end.
Definition declsDeep (b : list stmt) : list nat := flat_map declsDeepS b.

Definition varsDeepS : stmt -> list nat :=
  fix vd (s : stmt) : list nat :=
    match s with
    | SVar v => [v]
    | SBlock b => flat_map vd b
    | SIf _ b1 b2 => flat_map vd b1 ++ flat_map vd b2
    | SWhile _ b => flat_map vd b
    | _ => []
    end.
Definition varsDeep (b : list stmt) : list nat := flat_map varsDeepS b.

(* a loan of the environment is live when its reference is used now or later; temporaries (None) are live *)
Definition liveb (K : list nat) (l : loan) : bool :=
  match l_ref l with None => true | Some r => mem r K end.
(* is creating a borrow / reading / writing `b.p` in conflict with loan l ? *)
Definition hits (b : nat) (p : path) (l : loan) : bool := Nat.eqb (l_base l) b && spec_overlap p (l_path l).
Definition conflict_borrow (K : list nat) (G : list loan) (b : nat) (p : path) (m : bool) : bool :=
  existsb (fun l => liveb K l && hits b p l && (m || l_mut l)) G.
Definition conflict_read (K : list nat) (G : list loan) (pl : place) : bool :=
  existsb (fun l => liveb K l && hits (fst pl) (snd pl) l && l_mut l) G.
Definition conflict_write (K : list nat) (G : list loan) (pl : place) : bool :=
  existsb (fun l => liveb K l && hits (fst pl) (snd pl) l) G.

Definition lookupLoan (r : nat) (G : list loan) : option loan :=
  find (fun l => match l_ref l with Some r' => Nat.eqb r r' | None => false end) G.

Definition removeAll (xs : list nat) (K : list nat) : list nat := filter (fun r => negb (mem r xs)) K.

(* arguments are evaluated left to right; temporaries stay until the end of the statement *)
Fixpoint safeArgs (K : list nat) (G : list loan) (args : list arg) : bool :=
  match args with
  | [] => true
  | ABor m pl :: rest =>
      negb (conflict_borrow K G (fst pl) (snd pl) m) && safeArgs K (mkL None (fst pl) (snd pl) m :: G) rest
  | ARd pl :: rest => negb (conflict_read K G pl) && safeArgs K G rest
  | ARef _ :: rest => safeArgs K G rest
  end.

Definition safeCond (K : list nat) (G : list loan) (c : cond) : bool :=
  match c with CPl pl => negb (conflict_read K G pl) | _ => true end.

(* safeS L K G s : statement s is safe when K = references used after s (in the continuation), G = loans of the
   references in scope, L = variables that are locals of the function. Returns the verdict and the extended G. *)
Fixpoint safeS (L : list nat) (K : list nat) (G : list loan) (s : stmt) {struct s} : bool * list loan :=
  let safeL := fun (K : list nat) (b : list stmt) (G : list loan) =>
    (fix go (ss : list stmt) (G : list loan) {struct ss} : bool :=
       match ss with
       | [] => true
       | s' :: rest =>
           let '(ok, G') := safeS L (flat_map mentions rest ++ K) G s' in
           ok && go rest G'
       end) b G in
  match s with
  | SVar _ => (true, G)
  | SLet r m pl =>
      (negb (conflict_borrow K G (fst pl) (snd pl) m), mkL (Some r) (fst pl) (snd pl) m :: G)
  | SCopy r2 r =>
      match lookupLoan r G with
      | Some l => (negb (conflict_borrow K G (l_base l) (l_path l) (l_mut l)),
                   mkL (Some r2) (l_base l) (l_path l) (l_mut l) :: G)
      | None => (true, G)
      end
  | SUse _ => (true, G)
  | SWt _ => (true, G)
  | SRead pl => (negb (conflict_read K G pl), G)
  | SWrite pl => (negb (conflict_write K G pl), G)
  | SCall args => (safeArgs (flat_map arg_mentions args ++ K) G args, G)
  | SBlock b => (safeL (removeAll (declsDeep b) K) b G, G)
  | SIf c b1 b2 =>
      (safeCond (cond_mentions c ++ flat_map mentions b1 ++ flat_map mentions b2 ++ K) G c
       && safeL (removeAll (declsDeep b1) K) b1 G && safeL (removeAll (declsDeep b2) K) b2 G, G)
  | SWhile c b =>
      (safeCond (cond_mentions c ++ flat_map mentions b ++ K) G c
       && safeL (removeAll (declsDeep b) (cond_mentions c ++ flat_map mentions b ++ K)) b G, G)
  | SRetBor m pl =>
      (negb (conflict_borrow K G (fst pl) (snd pl) m) && negb (mem (fst pl) L), G)
  | SRetRef r =>
      (match lookupLoan r G with Some l => negb (mem (l_base l) L) | None => true end, G)
  end.

Fixpoint safeL (L : list nat) (K : list nat) (ss : list stmt) (G : list loan) : bool :=
  match ss with
  | [] => true
  | s :: rest => let '(ok, G') := safeS L (mentionsL rest ++ K) G s in ok && safeL L K rest G'
  end.

(* a function body is safe; L = by-value parameters + every `let` variable of the body *)
Definition safe (params_local : list nat) (body : list stmt) : bool :=
  safeL (params_local ++ varsDeep body) [] body [].

(* well-formed bodies: every reference is declared at most once (symbols are unique in the compiler) *)
Definition wf (body : list stmt) : Prop := NoDup (declsDeep body).
Fixpoint nodupb (l : list nat) : bool := match l with [] => true | x :: t => negb (mem x t) && nodupb t end.
Definition wfb (body : list stmt) : bool := nodupb (declsDeep body).

(* ------------------------------------------------------------------------------------------------------ *)
(* correspondence cases: the verdicts observed from the implementation are part of the case                *)

Definition err_code (e : err) : Z :=
  match e with EAccessMut => 1 | EModifyMut => 2 | EModifyShared => 3 | EBorrowMutMut => 4
             | EBorrowMutShared => 5 | EBorrowSharedMut => 6 | EReturnLocal => 7 end%Z.

Fixpoint zlist_eqb (a b : list Z) : bool :=
  match a, b with [] , [] => true | x :: a', y :: b' => Z.eqb x y && zlist_eqb a' b' | _, _ => false end.

(* (id, by-value params, body, error codes observed from ferret in emission order, python-oracle safe verdict) *)
Definition case := (Z * list nat * list stmt * list Z * bool)%type.
(* 0 = agree; bad ids: model/implementation diagnostics differ (id), Coq spec differs from the python oracle
   (id + 1000000), soundness violated by the model itself (id + 2000000) *)
Definition check_case (c : case) : list Z :=
  let '(id, pl, body, obs, osafe) := c in
  let m := map err_code (bc pl body) in
  (if zlist_eqb m obs then [] else [id]) ++
  (if Bool.eqb (safe pl body) osafe then [] else [id + 1000000]%Z) ++
  (if wfb body && accept pl body && negb (safe pl body) then [id + 2000000]%Z else []).
Definition bad_ids (cs : list case) : list Z := flat_map check_case cs.

(* ------------------------------------------------------------------------------------------------------ *)
(* store model for write-through: values are trees, a reference denotes a place of the store               *)

Inductive val := VInt (z : Z) | VRec (fs : list (nat * val)) | VArr (xs : list val).

Fixpoint setNth (n : nat) (v : val) (l : list val) : list val :=
  match l, n with
  | [], _ => []
  | _ :: t, O => v :: t
  | x :: t, S n' => x :: setNth n' v t
  end.
Fixpoint setField (f : nat) (v : val) (l : list (nat * val)) : list (nat * val) :=
  match l with
  | [] => []
  | (k, x) :: t => if Nat.eqb f k then (k, v) :: t else (k, x) :: setField f v t
  end.

(* concrete segments: field f / element i *)
Inductive cseg := CF (f : nat) | CI (i : nat).

Fixpoint vget (v : val) (p : list cseg) : option val :=
  match p with
  | [] => Some v
  | CF f :: p' => match v with VRec fs => match lookup f fs with Some x => vget x p' | None => None end | _ => None end
  | CI i :: p' => match v with VArr xs => match nth_error xs i with Some x => vget x p' | None => None end | _ => None end
  end.
Fixpoint vset (v : val) (p : list cseg) (w : val) : option val :=
  match p with
  | [] => Some w
  | CF f :: p' =>
      match v with
      | VRec fs => match lookup f fs with
                   | Some x => match vset x p' w with Some x' => Some (VRec (setField f x' fs)) | None => None end
                   | None => None end
      | _ => None end
  | CI i :: p' =>
      match v with
      | VArr xs => match nth_error xs i with
                   | Some x => match vset x p' w with Some x' => Some (VArr (setNth i x' xs)) | None => None end
                   | None => None end
      | _ => None end
  end.
(* concrete places are disjoint when they diverge at some segment *)
Fixpoint cdisjoint (p q : list cseg) : bool :=
  match p, q with
  | CF f :: p', CF g :: q' => if Nat.eqb f g then cdisjoint p' q' else true
  | CI i :: p', CI j :: q' => if Nat.eqb i j then cdisjoint p' q' else true
  | _, _ => false
  end.
