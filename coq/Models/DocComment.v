(* C19 — port of the parser's comment handling and of the collector's use of documentation comments.
   Sources: /repo/internal/frontend/parser/parser.go  nextNonCommentIndex, collectCommentGroup, takeDocComment,
            joinCommentText, attachDoc;  /repo/internal/frontend/lexer/tokenizer.go normalizeCommentText;
            /repo/internal/semantics/collector/collector.go hasExternTag.
   The parser proper is not ported.  What is used about it: parseTopLevel / parseStmt call takeDocComment as their
   first action, at that moment p.current is the raw index just after the last consumed token, and the last consumed
   token (lastNonCommentLine) is the non-comment token preceding the comment run.  Definitions only. *)
From Coq Require Import ZArith List Bool.
From FV Require Import Models.Trivia.
Import ListNotations.
Open Scope Z_scope.

Definition is_comment (t : tok) : bool := tcls t =? K_COMMENT.

(* nextNonCommentIndex: drop the leading comment tokens *)
Fixpoint drop_comments (ts : list tok) : list tok :=
  match ts with
  | t :: r => if is_comment t then drop_comments r else ts
  | [] => []
  end.

(* what the parser sees through peek/advance: the stream without comment tokens *)
Definition significant (ts : list tok) : list tok := filter (fun t => negb (is_comment t)) ts.

(* normalizeCommentText *)
Definition comment_value (raw : list Z) : list Z :=
  match raw with
  | a :: b :: r =>
      if (a =? 47) && (b =? 47) then
        match r with
        | c :: r' => if c =? 32 then r' else r
        | [] => r
        end
      else if (a =? 47) && (b =? 42) && (4 <=? length raw)%nat then firstn (length r - 2) r
      else raw
  | _ => raw
  end.

(* collectCommentGroup, loop part: acc is `comments`; a comment starting more than one line below the previous one
   restarts the group *)
Fixpoint collect (acc : list tok) (run : list tok) : list tok :=
  match run with
  | [] => acc
  | t :: r =>
      let acc' := match rev acc with
                  | prev :: _ => if line (tstart t) >? line (tend prev) + 1 then [] else acc
                  | [] => acc
                  end in
      collect (acc' ++ [t]) r
  end.

(* joinCommentText: values joined by a newline *)
Fixpoint join_text (cs : list tok) : list Z :=
  match cs with
  | [] => []
  | [c] => comment_value (traw c)
  | c :: r => comment_value (traw c) ++ [10] ++ join_text r
  end.

(* collectCommentGroup: prev = the last consumed non-comment token, if any.  Result: (text, line of the group's end) *)
Definition comment_group (prev : option tok) (run : list tok) : option (list Z * Z) :=
  match collect [] run with
  | [] => None
  | (c0 :: _) as cs =>
      let dropped := match prev with
                     | Some pt => line (tstart c0) =? line (tend pt)
                     | None => false
                     end in
      if dropped then None
      else Some (join_text cs, line (tend (last cs c0)))
  end.

(* takeDocComment: next = the token the declaration starts with *)
Definition take_doc (prev : option tok) (run : list tok) (next : tok) : option (list Z) :=
  match comment_group prev run with
  | None => None
  | Some (text, endline) =>
      if tcls next =? K_EOF then None
      else if line (tstart next) >? endline + 1 then None
      else Some text
  end.

Fixpoint contains (needle hay : list Z) : bool :=
  match hay with
  | [] => is_prefix needle []
  | _ :: r => is_prefix needle hay || contains needle r
  end.

Definition extern_tag : list Z := [64; 101; 120; 116; 101; 114; 110].   (* @extern *)

(* hasExternTag *)
Definition has_extern (doc : option (list Z)) : bool :=
  match doc with
  | None => false
  | Some text => contains extern_tag text
  end.

(* split the raw token list before index i into (previous non-comment token, comment run directly before i) *)
Fixpoint take_run_rev (rv : list tok) (acc : list tok) : list tok * option tok :=
  match rv with
  | t :: r => if is_comment t then take_run_rev r (t :: acc) else (acc, Some t)
  | [] => (acc, None)
  end.

(* the documentation attached to the declaration that starts at raw token index i *)
Definition doc_at (ts : list tok) (i : nat) : option (list Z) :=
  match nth_error ts i with
  | None => None
  | Some next =>
      let '(run, prev) := take_run_rev (rev (firstn i ts)) [] in
      take_doc prev run next
  end.

Definition extern_at (ts : list tok) (i : nat) : bool := has_extern (doc_at ts i).

(* raw token index of the token that starts at byte index k *)
Fixpoint index_of_start (ts : list tok) (k : Z) (i : nat) : option nat :=
  match ts with
  | t :: r => if (idx (tstart t) =? k) && negb (is_comment t) then Some i else index_of_start r k (S i)
  | [] => None
  end.

(* does ANY comment of the file carry the tag *)
Definition any_tagged (ts : list tok) : bool :=
  existsb (fun t => is_comment t && contains extern_tag (traw t)) ts.

(* correspondence support: case = (id, source, byte offsets of the declaration-starting tokens, observed flags) *)
Definition doc_flags (s : list Z) (starts : list Z) : list bool :=
  let ts := lex s in
  map (fun k => match index_of_start ts k 0 with Some i => extern_at ts i | None => false end) starts.

Fixpoint bools_eqb (a b : list bool) : bool :=
  match a, b with
  | [], [] => true
  | x :: a', y :: b' => Bool.eqb x y && bools_eqb a' b'
  | _, _ => false
  end.

Definition doc_case_ok (c : Z * list Z * list Z * list bool) : bool :=
  let '(_, s, starts, obs) := c in bools_eqb (doc_flags s starts) obs.
Definition doc_bad_ids (cs : list (Z * list Z * list Z * list bool)) : list Z :=
  map (fun c => let '(i, _, _, _) := c in i) (filter (fun c => negb (doc_case_ok c)) cs).
