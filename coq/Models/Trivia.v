(* C19 — port of the lexer as far as layout is concerned.
   Sources: /repo/internal/source/positions.go (Position.Advance),
            /repo/internal/frontend/lexer/tokenizer.go (pattern table, handlers, Tokenize main loop),
            /repo/internal/utils/numeric/numeric.go (NumberPattern).
   Source text = list of bytes, a byte is a Z in 0..255.  Definitions only. *)
From Coq Require Import ZArith List Bool Ascii.
From Coq Require String.
Import ListNotations.
Open Scope Z_scope.

Record pos := mkpos { line : Z; col : Z; idx : Z }.

Definition pos_eqb (a b : pos) : bool :=
  (line a =? line b) && (col a =? col b) && (idx a =? idx b).

(* ---------------------------------------------------------------- Go's `for _, char := range string`
   decode b0 rest = (bytes consumed by the rune, len(string(rune))).  An invalid sequence consumes ONE byte and
   yields U+FFFD whose encoding has length 3 (this is what `p.Index += len(string(char))` adds). *)
Definition inr (lo hi b : Z) : bool := (lo <=? b) && (b <=? hi).
Definition is_cont (b : Z) : bool := inr 128 191 b.

Definition decode (b0 : Z) (rest : list Z) : nat * Z :=
  if b0 <? 128 then (1%nat, 1)
  else if inr 194 223 b0 then
    match rest with
    | b1 :: _ => if is_cont b1 then (2%nat, 2) else (1%nat, 3)
    | _ => (1%nat, 3)
    end
  else if inr 224 239 b0 then
    match rest with
    | b1 :: b2 :: _ =>
        let lo := if b0 =? 224 then 160 else 128 in
        let hi := if b0 =? 237 then 159 else 191 in
        if inr lo hi b1 && is_cont b2 then (3%nat, 3) else (1%nat, 3)
    | _ => (1%nat, 3)
    end
  else if inr 240 244 b0 then
    match rest with
    | b1 :: b2 :: b3 :: _ =>
        let lo := if b0 =? 240 then 144 else 128 in
        let hi := if b0 =? 244 then 143 else 191 in
        if inr lo hi b1 && is_cont b2 && is_cont b3 then (4%nat, 4) else (1%nat, 3)
    | _ => (1%nat, 3)
    end
  else (1%nat, 3).

(* ---------------------------------------------------------------- Position.Advance
   pt = prevWasTab (a local of ONE call), skip = continuation bytes of the current rune still to be dropped. *)
Fixpoint adv (pt : bool) (skip : nat) (p : pos) (s : list Z) : pos :=
  match s with
  | [] => p
  | b :: r =>
      match skip with
      | S k => adv pt k p r
      | O =>
          if b =? 10 then adv false 0 (mkpos (line p + 1) 1 (idx p + 1)) r
          else if b =? 9 then adv true 0 (mkpos (line p) (col p + 4) (idx p + 1)) r
          else
            let '(w, e) := decode b r in
            adv false (pred w) (mkpos (line p) (if pt then col p else col p + 1) (idx p + e)) r
      end
  end.

Definition advance (p : pos) (s : list Z) : pos := adv false 0 p s.

(* ---------------------------------------------------------------- recognisers: length of the match at offset 0, 0 = none *)
Fixpoint span (f : Z -> bool) (s : list Z) : nat :=
  match s with
  | b :: r => if f b then S (span f r) else O
  | [] => O
  end.

Fixpoint is_prefix (p s : list Z) : bool :=
  match p, s with
  | [], _ => true
  | a :: p', b :: s' => (a =? b) && is_prefix p' s'
  | _ :: _, [] => false
  end.

(* \s of RE2: [\t\n\f\r ] *)
Definition is_ws (b : Z) : bool := (b =? 9) || (b =? 10) || (b =? 12) || (b =? 13) || (b =? 32).
Definition m_ws (s : list Z) : nat := span is_ws s.

(* //[^\n\r]* *)
Definition not_eol (b : Z) : bool := negb ((b =? 10) || (b =? 13)).
Definition m_line (s : list Z) : nat :=
  match s with
  | a :: b :: r => if (a =? 47) && (b =? 47) then (2 + span not_eol r)%nat else O
  | _ => O
  end.

(* offset of the first occurrence of the two-byte sequence a b *)
Fixpoint find2 (a b : Z) (s : list Z) : option nat :=
  match s with
  | x :: r =>
      match r with
      | y :: _ => if (x =? a) && (y =? b) then Some O else option_map S (find2 a b r)
      | [] => None
      end
  | [] => None
  end.

(* block comment, non-greedy: slash star ... first star slash *)
Definition m_block (s : list Z) : nat :=
  match s with
  | a :: b :: r =>
      if (a =? 47) && (b =? 42) then match find2 42 47 r with Some k => (4 + k)%nat | None => O end else O
  | _ => O
  end.

Fixpoint find1 (a : Z) (s : list Z) : option nat :=
  match s with
  | x :: r => if x =? a then Some O else option_map S (find1 a r)
  | [] => None
  end.

(* string literal: a double quote, any non-quote bytes, a double quote *)
Definition m_string (s : list Z) : nat :=
  match s with
  | a :: r => if a =? 34 then match find1 34 r with Some k => (2 + k)%nat | None => O end else O
  | _ => O
  end.

Definition is_digit (b : Z) : bool := inr 48 57 b.
Definition is_hex (b : Z) : bool := inr 48 57 b || inr 97 102 b || inr 65 70 b.
Definition is_oct (b : Z) : bool := inr 48 55 b.
Definition is_bin (b : Z) : bool := inr 48 49 b.

(* byte literal: quote, then backslash-x-HH | backslash-anyrune-but-newline | one ASCII byte, then quote; leftmost-first: the alternatives are tried in order *)
Definition byte_alt1 (r : list Z) : bool :=
  match r with
  | a :: b :: h1 :: h2 :: q :: _ => (a =? 92) && (b =? 120) && is_hex h1 && is_hex h2 && (q =? 39)
  | _ => false
  end.
Definition byte_alt2 (r : list Z) : nat :=
  match r with
  | a :: c :: r2 =>
      if (a =? 92) && negb (c =? 10) then
        let w := fst (decode c r2) in
        match skipn (pred w) r2 with
        | q :: _ => if q =? 39 then (3 + w)%nat else O
        | [] => O
        end
      else O
  | _ => O
  end.
Definition byte_alt3 (r : list Z) : nat :=
  match r with
  | c :: q :: _ => if (c <? 128) && (q =? 39) then 3%nat else O
  | _ => O
  end.
Definition m_byte (s : list Z) : nat :=
  match s with
  | a :: r =>
      if a =? 39 then
        if byte_alt1 r then 6%nat
        else match byte_alt2 r with
             | O => byte_alt3 r
             | n => n
             end
      else O
  | [] => O
  end.

(* D(?:D|_D)* for a digit class D: length of the match, given that the FIRST digit has been checked by the caller *)
Fixpoint groups (d : Z -> bool) (s : list Z) : nat :=
  match s with
  | b :: r =>
      if d b then S (groups d r)
      else if b =? 95 then
        match r with
        | c :: r' => if d c then S (S (groups d r')) else O
        | [] => O
        end
      else O
  | [] => O
  end.

(* one digit of class d followed by groups; 0 if the first byte is not a digit *)
Definition digits1 (d : Z -> bool) (s : list Z) : nat :=
  match s with
  | b :: r => if d b then S (groups d r) else O
  | [] => O
  end.

(* 0[xX]H(?:H|_H)*  etc. *)
Definition prefixed (x X : Z) (d : Z -> bool) (s : list Z) : nat :=
  match s with
  | z :: c :: r =>
      if (z =? 48) && ((c =? x) || (c =? X)) then
        match digits1 d r with O => O | n => (2 + n)%nat end
      else O
  | _ => O
  end.

(* DecNumber (FloatFrac)? (FloatExp)? *)
Definition m_float (s : list Z) : nat :=
  match digits1 is_digit s with
  | O => O
  | n =>
      let r := skipn n s in
      let f := match r with
               | dot :: r1 => if dot =? 46 then match digits1 is_digit r1 with O => O | k => S k end else O
               | [] => O end in
      let r2 := skipn f r in
      let e := match r2 with
               | c :: r3 =>
                   if (c =? 101) || (c =? 69) then
                     match r3 with
                     | sg :: r4 =>
                         if (sg =? 43) || (sg =? 45) then
                           match digits1 is_digit r4 with O => O | k => S (S k) end
                         else match digits1 is_digit r3 with O => O | k => S k end
                     | [] => O
                     end
                   else O
               | [] => O end in
      (n + f + e)%nat
  end.

(* -?(?:Hex|Oct|Bin|Float) *)
Definition m_unsigned (s : list Z) : nat :=
  match prefixed 120 88 is_hex s with
  | O => match prefixed 111 79 is_oct s with
         | O => match prefixed 98 66 is_bin s with
                | O => m_float s
                | n => n end
         | n => n end
  | n => n
  end.

Definition m_number (s : list Z) : nat :=
  match s with
  | a :: r => if a =? 45 then match m_unsigned r with O => O | n => S n end else m_unsigned s
  | [] => O
  end.

Definition is_alpha_ (b : Z) : bool := inr 97 122 b || inr 65 90 b || (b =? 95).
Definition is_alnum_ (b : Z) : bool := is_alpha_ b || is_digit b.
Definition m_ident (s : list Z) : nat :=
  match s with
  | b :: r => if is_alpha_ b then S (span is_alnum_ r) else O
  | [] => O
  end.

(* the operator / punctuation patterns, in the order of the table in lexer.New *)
Definition ops : list (list Z) :=
  [ [43;43]; [45;45]; [45;62]; [61;62]; [58;58]; [33;61]; [43;61]; [45;61]; [42;42;61]; [42;61]; [47;61]; [37;61];
    [94;61]; [42;42]; [46;46;46]; [46;46;61]; [46;46]; [38;38]; [124;124]; [38;39]; [38]; [124]; [94]; [33]; [45];
    [43]; [42]; [47]; [37]; [60;61]; [60]; [62;61]; [62]; [61;61]; [58;61]; [61]; [58]; [59]; [40]; [41]; [91]; [93];
    [123]; [125]; [44]; [46]; [63;63]; [63] ].

Fixpoint first_op (tbl : list (list Z)) (s : list Z) : nat :=
  match tbl with
  | o :: t => if is_prefix o s then length o else first_op t s
  | [] => O
  end.
Definition m_op (s : list Z) : nat := first_op ops s.

(* ---------------------------------------------------------------- one iteration of Tokenize's loop
   item classes: the numbers are what hooks/lexgaps reports *)
Inductive item := Skip | Tok (cls : Z) | Bad.
Definition K_COMMENT := 0. Definition K_STRING := 1. Definition K_BYTE := 2. Definition K_NUMBER := 3.
Definition K_IDENT := 4. Definition K_OP := 5. Definition K_EOF := 6.

(* first pattern of the table that matches at offset 0 (FindStringIndex(...)[0] == 0) and the length of its match *)
Definition step (s : list Z) : item * nat :=
  match m_ws s with
  | S n => (Skip, S n)
  | O =>
  match m_line s with
  | S n => (Tok K_COMMENT, S n)
  | O =>
  match m_block s with
  | S n => (Tok K_COMMENT, S n)
  | O =>
  match m_string s with
  | S n => (Tok K_STRING, S n)
  | O =>
  match m_byte s with
  | S n => (Tok K_BYTE, S n)
  | O =>
  match m_number s with
  | S n => (Tok K_NUMBER, S n)
  | O =>
  match m_ident s with
  | S n => (Tok K_IDENT, S n)
  | O =>
  match m_op s with
  | S n => (Tok K_OP, S n)
  | O => (Bad, 1%nat)
  end end end end end end end end.

Record tok := mktok { tcls : Z; tstart : pos; tend : pos; traw : list Z }.

(* lex.advance(string(tok)) for an unrecognised BYTE tok: string(byte) is the UTF-8 encoding of U+00tok *)
Definition bad_advance (p : pos) (b : Z) : pos :=
  if b <? 128 then advance p [b] else mkpos (line p) (col p + 1) (idx p + 2).

(* state after one iteration: new position and new remainder = source[Index:] *)
Definition next_state (p : pos) (s : list Z) : item * pos * list Z * list Z :=
  let '(it, n) := step s in
  let m := firstn n s in
  let p' := match it with Bad => bad_advance p (hd 0 s) | _ => advance p m end in
  (it, p', skipn (Z.to_nat (idx p' - idx p)) s, m).

Fixpoint lex_loop (fuel : nat) (p : pos) (s : list Z) : list tok :=
  match fuel with
  | O => []
  | S f =>
      match s with
      | [] => [mktok K_EOF p p []]
      | _ =>
          let '(it, p', s', m) := next_state p s in
          match it with
          | Tok k => mktok k p p' m :: lex_loop f p' s'
          | _ => lex_loop f p' s'
          end
      end
  end.

Definition pos0 : pos := mkpos 1 1 0.
Definition lex (s : list Z) : list tok := lex_loop (S (length s)) pos0 s.

(* positions of the unrecognized-character diagnostics (as repaired by fixes/C19-badchar-pos.patch: the position of
   the offending byte; the unpatched code aliased the lexer cursor and reported all of them at end of file) *)
Fixpoint bad_loop (fuel : nat) (p : pos) (s : list Z) : list pos :=
  match fuel with
  | O => []
  | S f =>
      match s with
      | [] => []
      | _ =>
          let '(it, p', s', _) := next_state p s in
          match it with Bad => p :: bad_loop f p' s' | _ => bad_loop f p' s' end
      end
  end.
Definition lex_bad (s : list Z) : list pos := bad_loop (S (length s)) pos0 s.

(* ---------------------------------------------------------------- inserting text at a byte offset *)
Definition insert_at (s : list Z) (g : nat) (t : list Z) : list Z := firstn g s ++ t ++ skipn g s.

(* ---------------------------------------------------------------- correspondence support: checksum of a token list *)
(* sources are handed over as lower-case hex strings (fast to parse) *)
Definition hexval (a : ascii) : Z := let n := Z.of_N (N_of_ascii a) in if n <? 58 then n - 48 else n - 87.
Fixpoint unhex (s : String.string) : list Z :=
  match s with
  | String.String a (String.String b r) => (hexval a * 16 + hexval b) :: unhex r
  | _ => []
  end.

Definition MASK : Z := 1073741823.   (* 2^30 - 1 *)
Definition mix (h x : Z) : Z := Z.land (5 * h + x + 7) MASK.
Definition mix_pos (h : Z) (p : pos) : Z := mix (mix (mix h (line p)) (col p)) (idx p).
Definition mix_tok (h : Z) (t : tok) : Z := mix_pos (mix_pos (mix h (tcls t)) (tstart t)) (tend t).
Definition toks_sum (ts : list tok) : Z := fold_left mix_tok ts 0.

Definition case_sum (s : list Z) : Z := fold_left mix_pos (lex_bad s) (toks_sum (lex s)).

(* a case: (id, source, offset, inserted text, checksum observed from the implementation on insert_at) *)
Definition lex_case_ok (c : Z * list Z * nat * list Z * Z) : bool :=
  let '(_, s, g, t, h) := c in case_sum (insert_at s g t) =? h.
Definition bad_ids (cs : list (Z * list Z * nat * list Z * Z)) : list Z :=
  map (fun c => let '(i, _, _, _, _) := c in i) (filter (fun c => negb (lex_case_ok c)) cs).
