(* C18 — port of /repo/internal/mir/layout.go (SizeOf, AlignOf, StructLayout, alignTo, clampAlign) and of the
   offset consumers (optional flag offset: qbe emitOptionalSome/None/IsSome, runtime optional.c, map.c
   ferret_map_get_optional_out; result tag offset: qbe resultTagOffset; array element address i * SizeOf(elem):
   builder.go lowerArrayLiteralInto / index lowering; field address: builder.go lowerFieldAddr), plus a byte
   memory with componentwise store / load.  Definitions only. *)
From Coq Require Import ZArith List Bool Ascii String.
Import ListNotations.
Open Scope Z_scope.

(* Layout-relevant shape of a types.SemType after UnwrapType.
   TPrim sz : every type whose layout is  size = t.Size(), align = clampAlign(t.Size(), PointerAlign):
              PrimitiveType other than str/void/none (sz = getPrimitiveSize: 1,2,4,8,16,32; -1 for unknown),
              and the `default:` branch (FunctionType 8, EnumType 4+max, UnionType max+4).
   TVoid    : void / none (size 0, align 1).
   TPtr     : str, ReferenceType, MapType, InterfaceType without methods (pointer size / pointer align).
   TIface   : InterfaceType with methods (2 * pointer size, pointer align).
   TArr n t : ArrayType; n < 0 is the dynamic array (pointer).
   TOpt, TRes, TStruct : OptionalType, ResultType, StructType (field names do not matter for the layout). *)
Inductive lty :=
| TPrim (sz : Z)
| TVoid
| TPtr
| TIface
| TArr (n : Z) (t : lty)
| TOpt (t : lty)
| TRes (ok err : lty)
| TStruct (fs : list lty).

(* func alignTo(value, alignment int) int — Go's % truncates: Z.rem *)
Definition align_to (value alignment : Z) : Z :=
  if alignment <=? 1 then value
  else let rem := Z.rem value alignment in
       if rem =? 0 then value else value + (alignment - rem).

(* func clampAlign(size, maxAlign int) int *)
Definition clamp_align (size maxAlign : Z) : Z :=
  if size <=? 0 then 1 else if size >? maxAlign then maxAlign else size.

(* The loop of StructLayout over the (size, align) of the fields, in order.  A field of negative size is skipped
   (`continue`): it gets offset -1 here (FieldOffset would answer !ok) and does not move the cursor.
   Returns (offsets, end offset, alignment). *)
Fixpoint layout_fields (off al : Z) (sas : list (Z * Z)) : list Z * Z * Z :=
  match sas with
  | [] => ([], off, al)
  | (s, a) :: r =>
      if s <? 0 then
        let '(os, e, al') := layout_fields off al r in (-1 :: os, e, al')
      else
        let o := align_to off a in
        let '(os, e, al') := layout_fields (o + s) (Z.max al a) r in (o :: os, e, al')
  end.

(* StructLayout: (field offsets, Size, Align) *)
Definition struct_layout_sa (sas : list (Z * Z)) : list Z * Z * Z :=
  let '(os, e, al) := layout_fields 0 1 sas in (os, align_to e al, al).

(* SizeOf and AlignOf computed together (in Go each calls the other and StructLayout; the pair is the same
   function tabulated once).  ps = PointerSize = PointerAlign (NewDataLayout). *)
Fixpoint sa (ps : Z) (t : lty) : Z * Z :=
  match t with
  | TPrim sz => (sz, clamp_align sz ps)
  | TVoid => (0, 1)
  | TPtr => (ps, ps)
  | TIface => (ps * 2, ps)
  | TArr n e =>
      if n <? 0 then (ps, ps)
      else let '(es, ea) := sa ps e in
           ((if es <? 0 then -1 else es * n), ea)
  | TOpt i =>
      let '(vs, va) := sa ps i in
      ((if vs <? 0 then -1 else align_to (vs + 1) (Z.max va 1)), Z.max va 1)
  | TRes ok err =>
      let '(oks, oka) := sa ps ok in
      let '(ers, era) := sa ps err in
      let ua := Z.max oka era in
      ((if (oks <? 0) || (ers <? 0) then -1
        else let us := align_to (Z.max oks ers) ua in align_to (us + 1) (Z.max ua 1)), ua)
  | TStruct fs =>
      let '(_, sz, al) := struct_layout_sa (map (sa ps) fs) in (sz, al)
  end.

Definition size_of (ps : Z) (t : lty) : Z := fst (sa ps t).
Definition align_of (ps : Z) (t : lty) : Z := snd (sa ps t).

(* DataLayout.StructLayout(t).Fields offsets, one per declared field (-1 = skipped) *)
Definition field_offsets (ps : Z) (fs : list lty) : list Z :=
  let '(os, _, _) := struct_layout_sa (map (sa ps) fs) in os.

(* ---- consumers ---- *)

(* flag byte of an optional: `add %opt, valSize` in emitOptionalNone/Some/IsSome; optional.c `opt_bytes + val_size`
   with val_size = SizeOf(inner) passed by emitOptionalUnwrap; map.c `out_bytes + map->value_size` with
   value_size = SizeOf(mapType.Value) passed at map creation (builder.go lowerMapLiteral) *)
Definition opt_flag_offset (ps : Z) (inner : lty) : Z := size_of ps inner.

(* func (g *Generator) resultTagOffset(res) *)
Definition res_tag_offset (ps : Z) (ok err : lty) : Z :=
  let ua := Z.max (align_of ps ok) (align_of ps err) in
  let ua := if ua <? 1 then 1 else ua in
  align_to (Z.max (size_of ps ok) (size_of ps err)) ua.

(* element address: offset := i * elemSize *)
Definition elem_offset (ps : Z) (elem : lty) (i : Z) : Z := i * size_of ps elem.

(* ---- components of a composite value ---- *)
Inductive step :=
| SField (i : nat)       (* struct field i *)
| SElem (i : Z)          (* fixed array element i *)
| SOptVal | SOptFlag     (* optional payload / is_some byte *)
| SResOk | SResErr       (* result payload seen as ok / as err (same storage: a union) *)
| SResTag.               (* result discriminant byte *)

Definition flag_ty : lty := TPrim 1.

(* one step: (offset inside t, type of the component) *)
Definition step_into (ps : Z) (t : lty) (s : step) : option (Z * lty) :=
  match t, s with
  | TStruct fs, SField i =>
      match nth_error fs i, nth_error (field_offsets ps fs) i with
      | Some ft, Some o => if o <? 0 then None else Some (o, ft)
      | _, _ => None
      end
  | TArr n e, SElem i => if (0 <=? i) && (i <? n) then Some (elem_offset ps e i, e) else None
  | TOpt i, SOptVal => Some (0, i)
  | TOpt i, SOptFlag => Some (opt_flag_offset ps i, flag_ty)
  | TRes ok err, SResOk => Some (0, ok)
  | TRes ok err, SResErr => Some (0, err)
  | TRes ok err, SResTag => Some (res_tag_offset ps ok err, flag_ty)
  | _, _ => None
  end.

(* a path of steps: (offset from the start of t, type of the component reached) *)
Fixpoint resolve (ps : Z) (t : lty) (p : list step) : option (Z * lty) :=
  match p with
  | [] => Some (0, t)
  | s :: r =>
      match step_into ps t s with
      | None => None
      | Some (o, t') =>
          match resolve ps t' r with
          | None => None
          | Some (o', t'') => Some (o + o', t'')
          end
      end
  end.

Definition step_eqb (a b : step) : bool :=
  match a, b with
  | SField i, SField j => Nat.eqb i j
  | SElem i, SElem j => Z.eqb i j
  | SOptVal, SOptVal | SOptFlag, SOptFlag | SResOk, SResOk | SResErr, SResErr | SResTag, SResTag => true
  | _, _ => false
  end.

(* two steps out of the same value that name different storage: different fields / elements, payload vs
   discriminant.  SResOk / SResErr name the same union storage and are not separate. *)
Definition steps_separate (a b : step) : bool :=
  match a, b with
  | SField i, SField j => negb (Nat.eqb i j)
  | SElem i, SElem j => negb (Z.eqb i j)
  | SOptVal, SOptFlag | SOptFlag, SOptVal => true
  | SResOk, SResTag | SResErr, SResTag | SResTag, SResOk | SResTag, SResErr => true
  | _, _ => false
  end.

(* two paths name separate components when they first differ in two separate steps
   (neither is a prefix of the other, and they do not only differ by the ok/err view of a result) *)
Fixpoint paths_separate (p q : list step) : bool :=
  match p, q with
  | a :: p', b :: q' => if step_eqb a b then paths_separate p' q' else steps_separate a b
  | _, _ => false
  end.

(* ---- byte memory ---- *)
Definition mem := Z -> Z.

Fixpoint store_bytes (m : mem) (a : Z) (bs : list Z) : mem :=
  match bs with
  | [] => m
  | b :: r => store_bytes (fun x => if x =? a then b else m x) (a + 1) r
  end.

Fixpoint load_bytes (m : mem) (a : Z) (n : nat) : list Z :=
  match n with
  | O => []
  | S k => m a :: load_bytes m (a + 1) k
  end.

(* ferret_memcpy(dst, src, n) for non-overlapping or identical-direction copies: read then write *)
Definition memcpy (m : mem) (dst src : Z) (n : nat) : mem := store_bytes m dst (load_bytes m src n).

(* ---- well-formedness used by the theorems ---- *)
Definition is_pow2 (a : Z) : Prop := exists k, 0 <= k /\ a = 2 ^ k.

(* every primitive size that occurs is a power of two (1,2,4,8,16,32 in types.getPrimitiveSize; 8 for fn;
   4 for a payload-free enum), array lengths are not negative *)
Fixpoint wf (t : lty) : Prop :=
  match t with
  | TPrim sz => is_pow2 sz
  | TVoid | TPtr | TIface => True
  | TArr n e => 0 <= n /\ wf e
  | TOpt i => wf i
  | TRes ok err => wf ok /\ wf err
  | TStruct fs => (fix all (l : list lty) : Prop := match l with [] => True | x :: r => wf x /\ all r end) fs
  end.

(* ---- correspondence: the whole layout of a type tree as a flat list, in the order the hook prints it ----
   node := size, align, [offsets of the fields if a struct], then the nodes of the children in order *)
Fixpoint describe (ps : Z) (t : lty) : list Z :=
  size_of ps t :: align_of ps t ::
  match t with
  | TStruct fs => field_offsets ps fs ++ flat_map (describe ps) fs
  | TArr _ e => describe ps e
  | TOpt i => describe ps i
  | TRes ok err => describe ps ok ++ describe ps err
  | _ => []
  end.

Fixpoint list_eqb (a b : list Z) : bool :=
  match a, b with
  | [], [] => true
  | x :: a', y :: b' => (x =? y) && list_eqb a' b'
  | _, _ => false
  end.

(* Cases are shipped as strings, one character per integer (code = integer + 40; Coq elaborates a long list
   or string literal at ~0.15 ms per node, so the input is kept dense and only checksums come back):
   the type in prefix code:  0 sz = TPrim sz | 1 = TVoid | 2 = TPtr | 3 = TIface | 4 n T = TArr n T | 5 T = TOpt T
                             | 6 T T = TRes ok err | 7 k T1..Tk = TStruct *)
Fixpoint codes (s : String.string) : list Z :=
  match s with
  | String.EmptyString => []
  | String.String a r => (Z.of_nat (Ascii.nat_of_ascii a) - 40) :: codes r
  end.

Fixpoint decode (fuel : nat) (l : list Z) : option (lty * list Z) :=
  match fuel with
  | O => None
  | S k =>
      match l with
      | 0 :: sz :: r => Some (TPrim sz, r)
      | 1 :: r => Some (TVoid, r)
      | 2 :: r => Some (TPtr, r)
      | 3 :: r => Some (TIface, r)
      | 4 :: n :: r => match decode k r with Some (e, r') => Some (TArr n e, r') | None => None end
      | 5 :: r => match decode k r with Some (e, r') => Some (TOpt e, r') | None => None end
      | 6 :: r => match decode k r with
                  | Some (a, r') => match decode k r' with Some (b, r'') => Some (TRes a b, r'') | None => None end
                  | None => None
                  end
      | 7 :: n :: r =>
          (fix fields (cnt : nat) (r : list Z) (acc : list lty) : option (lty * list Z) :=
             match cnt with
             | O => Some (TStruct (rev acc), r)
             | S c => match decode k r with Some (f, r') => fields c r' (f :: acc) | None => None end
             end) (Z.to_nat n) r []
      | _ => None
      end
  end.

(* checksum of a describe list, cheap under vm_compute (no division): acc' = (acc * 257 + x + 12345) land (2^48 - 1);
   a single differing element always changes it (257 is odd); the harness computes the same over the
   implementation's numbers *)
Definition chk (l : list Z) : Z :=
  fold_left (fun acc x => Z.land (acc * 257 + (x + 12345)) 281474976710655) l 7.

(* per case: checksum for pointer size 4, checksum for pointer size 8 ( -1 -1 when the string does not decode ) *)
Definition case_sums (s : String.string) : list Z :=
  match decode 64 (codes s) with
  | Some (t, []) => [chk (describe 4 t); chk (describe 8 t)]
  | _ => [-1; -1]
  end.

Definition all_sums (cs : list String.string) : list Z := flat_map case_sums cs.
