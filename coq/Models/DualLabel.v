(* C13 — port of the underline arithmetic of the diagnostics emitter (internal/diagnostics/emitter.go):
   printLabel's single underline and printCompactDualLabel's two underlines on one source line.
   Every number computed here is passed to strings.Repeat, which panics on a negative count.  Definitions only. *)
From Coq Require Import ZArith List Bool.
Import ListNotations.
Open Scope Z_scope.

(* a label span on the line: start column, end column (1-based; the end may lie before the start when the label
   ends on a later line) *)
Definition span := (Z * Z)%type.

(* length := end - start; if length <= 0 { length = 1 } *)
Definition ulen (s : span) : Z := let l := snd s - fst s in if l <=? 0 then 1 else l.

(* printLabel (single-line case): strings.Repeat(" ", padding), strings.Repeat(char, length) *)
Definition single_layout (s : span) : Z * Z := (fst s - 1, ulen s).

Record dual := mkDual {
  d_left_primary : bool;   (* the left underline belongs to the primary label *)
  d_left_pad : Z;          (* strings.Repeat(" ", leftPadding)  — three times *)
  d_left_len : Z;          (* strings.Repeat(leftChar, leftLength) *)
  d_space : Z;             (* strings.Repeat(" ", spaceBetween) *)
  d_right_len : Z          (* strings.Repeat(rightChar, rightLength) *)
}.

(* printCompactDualLabel(primary, secondary) *)
Definition dual_layout (p s : span) : dual :=
  let lp := fst p <? fst s in                        (* primaryStart.Column < secondaryStart.Column *)
  let l := if lp then p else s in
  let r := if lp then s else p in
  let leftPadding := fst l - 1 in
  let leftLength := ulen l in
  let rightPadding := fst r - 1 in
  let rightLength := ulen r in
  let sb := rightPadding - leftPadding - leftLength in
  let spaceBetween := if sb <? 0 then 1 else sb in
  mkDual lp leftPadding leftLength spaceBetween rightLength.

(* all strings.Repeat counts of one rendering *)
Definition dual_counts (d : dual) : list Z := [d_left_pad d; d_left_len d; d_space d; d_right_len d].

(* correspondence: observed (left is primary?, left padding, left length, space, right length) *)
Definition dcase := (Z * span * span * (bool * Z * Z * Z * Z))%type.
Definition dagrees (c : dcase) : bool :=
  let '(_, p, s, (lp, a, b, sp, r)) := c in
  let d := dual_layout p s in
  Bool.eqb (d_left_primary d) lp && (d_left_pad d =? a) && (d_left_len d =? b) && (d_space d =? sp) && (d_right_len d =? r).
Definition dbad_ids (cs : list dcase) : list Z :=
  map (fun c => fst (fst (fst c))) (filter (fun c => negb (dagrees c)) cs).

Definition scase := (Z * span * (Z * Z))%type.
Definition sagrees (c : scase) : bool :=
  let '(_, s, (a, b)) := c in let '(x, y) := single_layout s in (x =? a) && (y =? b).
Definition sbad_ids (cs : list scase) : list Z :=
  map (fun c => fst (fst c)) (filter (fun c => negb (sagrees c)) cs).
