(* C06 — port of internal/semantics/typechecker/ref.go (checkMutability and its chain walks) and of the guard each
   of the mutation forms calls in typechecker.go (checkAssignStmt, checkIncDecTarget, checkBorrowExpr,
   isBorrowableTarget, validateCallArgumentTypes, checkCallExpr/checkMutableReceiverCall).
   The port describes the REPAIRED code (fixes/C06-immutable-places.patch); the section "pre-fix" at the end keeps
   the identifier-only root test of the original code for the refutation witness.
   Definitions only; lemmas are in Proofs/MutP.v.

   Abstractions (what the port does not contain):
   * the type checker's inferExprType is represented by annotations on the place: every field / index step carries
     the reference kind of the selected field's / element's type, the identifier gets it from its symbol;
   * only place expressions are modelled (identifier, field, index, paren); any other target is rejected by
     isAssignableTarget / isBorrowableTarget before mutability matters;
   * diagnostics are reduced to the class of the FIRST error (or the value-receiver warning). *)
From Coq Require Import List Bool Arith ZArith.
Import ListNotations.

(* is the type of an expression a reference, and which one:  T / &T / &'T   (types.ReferenceType.Mutable) *)
Inductive refk := RNone | RImm | RMut.
(* symbols.SymbolKind, value symbols only *)
Inductive skind := SVariable | SConstant | SParameter | SReceiver.
(* symbols.Symbol: Kind, IsReadonly (for index / catch error; collector.go), Type (reference kind only) *)
Record sym := mkSym { s_kind : skind; s_readonly : bool; s_ref : refk }.
(* mod.CurrentScope.Lookup *)
Definition env := nat -> option sym.

(* what is indexed (after automatic dereference): [N]T, []T / str, map *)
Inductive ikind := IFixed | IDyn | IMap.

Inductive place :=
| PIdent (x : nat)
| PField (p : place) (t : refk)                 (* p.f     t: reference kind of the field's type *)
| PIndex (p : place) (k : ikind) (t : refk)     (* p[i]    t: reference kind of the element type *)
| PParen (p : place).

Definition is_imm (r : refk) : bool := match r with RImm => true | _ => false end.
Definition is_mut (r : refk) : bool := match r with RMut => true | _ => false end.
Definition is_ref (r : refk) : bool := match r with RNone => false | _ => true end.

(* inferExprType, reduced to "is it a reference" *)
Fixpoint ty_ref (E : env) (p : place) : refk :=
  match p with
  | PIdent x => match E x with Some s => s_ref s | None => RNone end
  | PField _ t => t
  | PIndex _ _ t => t
  | PParen q => ty_ref E q
  end.

Definition is_const (s : sym) : bool := match s_kind s with SConstant => true | _ => false end.
(* sym.Kind == SymbolConstant || sym.IsReadonly *)
Definition sym_ro (s : sym) : bool := is_const s || s_readonly s.

(* ---- ref.go -------------------------------------------------------------------------------------------- *)

(* findReadOnlyRootInChain: the constant / read-only symbol the place's storage belongs to (stops at a reference) *)
Fixpoint find_readonly_root (E : env) (p : place) : option sym :=
  match p with
  | PIdent x => match E x with
                | Some s => if sym_ro s then Some s else None
                | None => None
                end
  | PField q _ => if is_ref (ty_ref E q) then None else find_readonly_root E q
  | PIndex q _ _ => if is_ref (ty_ref E q) then None else find_readonly_root E q
  | PParen q => find_readonly_root E q
  end.

(* findImmutableRefInChain / findImmutableRefInBase: "sym != nil || loc != nil" *)
Fixpoint find_imm_ref (E : env) (p : place) : bool :=
  match p with
  | PIdent x => match E x with Some s => is_imm (s_ref s) | None => false end
  | PField q _ => find_imm_ref E q || is_imm (ty_ref E q)
  | PIndex q _ _ => find_imm_ref E q || is_imm (ty_ref E q)
  | PParen q => find_imm_ref E q
  end.

(* findValueReceiverInChain *)
Fixpoint find_value_receiver (E : env) (p : place) : bool :=
  match p with
  | PIdent x => match E x with
                | Some s => match s_kind s with SReceiver => negb (is_ref (s_ref s)) | _ => false end
                | None => false
                end
  | PField q _ => find_value_receiver E q
  | PIndex q _ _ => find_value_receiver E q
  | PParen q => find_value_receiver E q
  end.

Inductive mres := MAllowed | MConstant | MReadOnly | MImmutableRef | MValueReceiver.

(* checkMutability *)
Definition check_mutability (E : env) (p : place) : mres :=
  match find_readonly_root E p with
  | Some s => if is_const s then MConstant else MReadOnly
  | None =>
      if find_imm_ref E p then MImmutableRef
      else if find_value_receiver E p then MValueReceiver
      else MAllowed
  end.

(* reportMutabilityError: true = an error was reported (mutation blocked); the value receiver is a warning *)
Definition report_blocks (r : mres) : bool :=
  match r with MAllowed | MValueReceiver => false | _ => true end.

(* ---- collector.go: which iterator variable of a for statement is read-only ----------------------------------- *)

(* the iterator variables of `for a, b in e`, in order: Some name, or None for the placeholder `_`.
   markForIteratorIndexReadOnly: fewer than two declared variables -> nothing; the first one is `_` -> nothing;
   otherwise the symbol of the FIRST variable gets IsReadonly (whatever the second one is, `_` included). *)
Definition mark_for_index (decls : list (option nat)) : option nat :=
  match decls with
  | first :: _ :: _ => first
  | _ => None
  end.

(* collectVarDecl inside collectForStmt: every named variable becomes a SymbolVariable of the loop scope
   (placeholders get no symbol); element / index / key types generated by the harness are never references *)
Definition for_sym (marked : option nat) (x : nat) : sym :=
  mkSym SVariable (match marked with Some y => Nat.eqb x y | None => false end) RNone.

Fixpoint for_decl_syms (marked : option nat) (decls : list (option nat)) : list (nat * sym) :=
  match decls with
  | [] => []
  | Some x :: r => (x, for_sym marked x) :: for_decl_syms marked r
  | None :: r => for_decl_syms marked r
  end.

(* the symbols a for statement adds to the scope of its body *)
Definition for_syms (decls : list (option nat)) : list (nat * sym) :=
  for_decl_syms (mark_for_index decls) decls.

(* ---- typechecker.go ------------------------------------------------------------------------------------ *)

(* class of the first error of a mutation attempt; DOk / DWarn = accepted *)
Inductive diag :=
| DOk | DWarn            (* accepted; DWarn: W0005 "modifying value receiver" *)
| DConst                 (* cannot assign to constant *)
| DReadOnly              (* cannot modify read-only variable *)
| DImmRef                (* cannot modify / assign / call through immutable reference *)
| DRoBorrow              (* cannot take mutable reference of a read-only value *)
| DNotAddr               (* cannot take reference of this expression *)
| DRefOfRef              (* cannot take reference of a reference *)
| DArgNotRef             (* argument must be a reference *)
| DArgNotMut.            (* argument must be a mutable reference *)

Definition diag_of_mres (r : mres) : diag :=
  match r with
  | MAllowed => DOk | MValueReceiver => DWarn
  | MConstant => DConst | MReadOnly => DReadOnly | MImmutableRef => DImmRef
  end.

(* the mutation forms.  FPassBorrow: f(&'p);  FPassRef: f(p) where p is itself a reference value *)
Inductive form := FAssign | FCompound | FIncDec | FBorrowMut | FPassBorrow | FPassRef | FCallMut.

Definition is_map_index (p : place) : bool :=
  match p with PIndex _ IMap _ => true | _ => false end.

(* isBorrowableTarget *)
Fixpoint borrowable (E : env) (p : place) : bool :=
  match p with
  | PIdent x => match E x with Some s => negb (sym_ro s) | None => true end
  | PParen q => borrowable E q
  | PField q _ => borrowable E q
  | PIndex q k _ => match k with IFixed => borrowable E q | _ => false end
  end.

(* checkAssignStmt: checkMutability, then "cannot assign through immutable reference" on the type of the target
   (not for a map slot, which is rebound instead of written through) *)
Definition diag_assign (E : env) (p : place) : diag :=
  let r := check_mutability E p in
  if report_blocks r then diag_of_mres r
  else if is_imm (ty_ref E p) && negb (is_map_index p) then DImmRef
  else diag_of_mres r.

(* checkIncDecTarget *)
Definition diag_incdec (E : env) (p : place) : diag :=
  let r := check_mutability E p in
  if report_blocks r then diag_of_mres r
  else if is_imm (ty_ref E p) then DImmRef
  else diag_of_mres r.

(* checkBorrowExpr for the operator &' *)
Definition diag_borrow_mut (E : env) (p : place) : diag :=
  if is_ref (ty_ref E p) then DRefOfRef
  else match find_readonly_root E p with
       | Some _ => DRoBorrow
       | None =>
           let r := check_mutability E p in
           if report_blocks r then diag_of_mres r
           else if negb (borrowable E p) then DNotAddr
           else diag_of_mres r
       end.

(* validateCallArgumentTypes, parameter of type &'T, argument is the place itself *)
Definition diag_pass_ref (E : env) (p : place) : diag :=
  match ty_ref E p with
  | RNone => DArgNotRef
  | RImm => DArgNotMut
  | RMut => if find_imm_ref E p then DImmRef else DOk
  end.

(* checkMutableReceiverCall: p.m() where m has receiver &'T *)
Definition diag_call_mut (E : env) (p : place) : diag :=
  let r := check_mutability E p in
  if report_blocks r then diag_of_mres r
  else if is_imm (ty_ref E p) then DImmRef
  else diag_of_mres r.

Definition diagnose (E : env) (f : form) (p : place) : diag :=
  match f with
  | FAssign | FCompound => diag_assign E p
  | FIncDec => diag_incdec E p
  | FBorrowMut | FPassBorrow => diag_borrow_mut E p
  | FPassRef => diag_pass_ref E p
  | FCallMut => diag_call_mut E p
  end.

Definition accepted (d : diag) : bool := match d with DOk | DWarn => true | _ => false end.

(* the program containing this mutation passes the mutability checks *)
Definition allowed (E : env) (f : form) (p : place) : bool := accepted (diagnose E f p).

(* ---- specification: what the property protects ------------------------------------------------------------- *)

(* evaluating p dereferences an immutable reference (strictly inside p) *)
Inductive ThroughImm (E : env) : place -> Prop :=
| ti_here_f q t : ty_ref E q = RImm -> ThroughImm E (PField q t)
| ti_here_i q k t : ty_ref E q = RImm -> ThroughImm E (PIndex q k t)
| ti_deep_f q t : ThroughImm E q -> ThroughImm E (PField q t)
| ti_deep_i q k t : ThroughImm E q -> ThroughImm E (PIndex q k t)
| ti_paren q : ThroughImm E q -> ThroughImm E (PParen q).

(* the slot p designates is part of the storage of a constant / read-only binding: the binding itself, a field or
   an element of it (not what a reference stored in it points to) *)
Inductive InReadonlyBinding (E : env) : place -> Prop :=
| rb_ident x s : E x = Some s -> s_kind s = SConstant \/ s_readonly s = true -> InReadonlyBinding E (PIdent x)
| rb_field q t : ty_ref E q = RNone -> InReadonlyBinding E q -> InReadonlyBinding E (PField q t)
| rb_index q k t : ty_ref E q = RNone -> InReadonlyBinding E q -> InReadonlyBinding E (PIndex q k t)
| rb_paren q : InReadonlyBinding E q -> InReadonlyBinding E (PParen q).

(* the slot designated by p must not change *)
Definition SlotFrozen (E : env) (p : place) : Prop := InReadonlyBinding E p \/ ThroughImm E p.
(* p is a reference and what it refers to must not change when reached this way *)
Definition ReferentFrozen (E : env) (p : place) : Prop := ty_ref E p = RImm \/ ThroughImm E p.

(* an assignment to a map slot holding a reference rebinds the slot; everything else writes through a reference *)
Definition stores_slot (f : form) (p : place) : bool :=
  match f with FAssign | FCompound => is_map_index p | _ => false end.

(* what the mutation form f applied to p would change is immutable *)
Definition TargetFrozen (E : env) (f : form) (p : place) : Prop :=
  match ty_ref E p with
  | RNone => SlotFrozen E p
  | _ => if stores_slot f p then SlotFrozen E p else ReferentFrozen E p
  end.

(* places of the simple shape the property text lists, for the corollaries *)
Definition root_imm (E : env) (x : nat) : Prop :=
  exists s, E x = Some s /\ (s_kind s = SConstant \/ s_readonly s = true \/ s_ref s = RImm).

Fixpoint root_of (p : place) : nat :=
  match p with PIdent x => x | PField q _ => root_of q | PIndex q _ _ => root_of q | PParen q => root_of q end.

(* no field / element on the path has reference type: the whole path stays inside the root's own value
   (or, for a reference root, inside its referent) *)
Fixpoint plain_path (p : place) : bool :=
  match p with
  | PIdent _ => true
  | PField q t => plain_path q && negb (is_ref t)
  | PIndex q _ t => plain_path q && negb (is_ref t)
  | PParen q => plain_path q
  end.

(* ---- the rule as a function over the access chain ------------------------------------------------------------ *)

(* a link of an access chain rt.l1.l2...: a field holding a value, a field of type &T, a field of type &'T,
   an element of a fixed-size array, an element of a dynamic array *)
Inductive link := LVal | LImm | LMut | LFixed | LDyn.

(* reference kind of the expression after the link *)
Definition link_ref (k : link) : refk :=
  match k with LImm => RImm | LMut => RMut | _ => RNone end.

Definition wrap (p : place) (k : link) : place :=
  match k with
  | LVal => PField p RNone | LImm => PField p RImm | LMut => PField p RMut
  | LFixed => PIndex p IFixed RNone | LDyn => PIndex p IDyn RNone
  end.

(* the place  p.l1.l2...ln  (links applied left to right) *)
Fixpoint place_from (p : place) (l : list link) : place :=
  match l with [] => p | k :: r => place_from (wrap p k) r end.

(* some expression on the path, the written one included, is an immutable reference
   (cur: reference kind of the expression reached so far) *)
Fixpoint imm_from (cur : refk) (l : list link) : bool :=
  match l with
  | [] => is_imm cur
  | k :: r => is_imm cur || imm_from (link_ref k) r
  end.

(* no link is applied to a reference: the written slot is part of the root binding's own storage *)
Fixpoint own_from (cur : refk) (l : list link) : bool :=
  match l with
  | [] => true
  | k :: r => negb (is_ref cur) && own_from (link_ref k) r
  end.

(* THE RULE: writing (=, compound assignment, ++/--) to  root.l1...ln  is an error iff an immutable reference lies
   anywhere on the path (root and written expression included), or the root is a constant / read-only variable and
   no link before the written slot goes through a reference *)
Definition chain_error (s : sym) (l : list link) : bool :=
  imm_from (s_ref s) l || (sym_ro s && own_from (s_ref s) l).

Definition write_form (f : form) : bool :=
  match f with FAssign | FCompound | FIncDec => true | _ => false end.

(* ---- pre-fix code (original ref.go / typechecker.go), for the refutation witness ---------------------------- *)

(* constant / read-only test only when the target is a bare identifier *)
Definition old_root_test (E : env) (p : place) : option sym :=
  match p with
  | PIdent x => match E x with Some s => if sym_ro s then Some s else None | None => None end
  | _ => None
  end.

(* the Selector case returned nil when only the base's type (not a named symbol) was an immutable reference *)
Fixpoint old_find_imm_ref (E : env) (p : place) : bool :=
  match p with
  | PIdent x => match E x with Some s => is_imm (s_ref s) | None => false end
  | PField q _ => old_find_imm_ref E q
  | PIndex q _ _ => old_find_imm_ref E q
  | PParen q => old_find_imm_ref E q
  end.

Definition old_check_mutability (E : env) (p : place) : mres :=
  match old_root_test E p with
  | Some s => if is_const s then MConstant else MReadOnly
  | None => if old_find_imm_ref E p then MImmutableRef
            else if find_value_receiver E p then MValueReceiver else MAllowed
  end.

Definition old_diagnose (E : env) (f : form) (p : place) : diag :=
  match f with
  | FAssign | FCompound =>
      let r := old_check_mutability E p in
      if report_blocks r then diag_of_mres r
      else if is_imm (ty_ref E p) && negb (is_map_index p) then DImmRef else diag_of_mres r
  | FIncDec =>
      let r := old_check_mutability E p in
      if report_blocks r then diag_of_mres r
      else if is_imm (ty_ref E p) then DImmRef else diag_of_mres r
  | FBorrowMut | FPassBorrow =>
      if is_ref (ty_ref E p) then DRefOfRef
      else match old_root_test E p with
           | Some _ => DRoBorrow
           | None => if negb (borrowable E p) then DNotAddr else DOk
           end
  | FPassRef => match ty_ref E p with RNone => DArgNotRef | RImm => DArgNotMut | RMut => DOk end
  | FCallMut => DOk                       (* no guard at all *)
  end.

Definition old_allowed (E : env) (f : form) (p : place) : bool := accepted (old_diagnose E f p).

(* ---- correspondence cases ----------------------------------------------------------------------------------- *)

Definition env_of (l : list (nat * sym)) : env :=
  fun x => match find (fun e => Nat.eqb (fst e) x) l with Some e => Some (snd e) | None => None end.

Definition diag_code (d : diag) : Z :=
  match d with
  | DOk => 0 | DWarn => 1 | DConst => 2 | DReadOnly => 3 | DImmRef => 4 | DRoBorrow => 5
  | DNotAddr => 6 | DRefOfRef => 7 | DArgNotRef => 8 | DArgNotMut => 9
  end%Z.

(* (id, scope, form, place, class observed from the compiler) *)
Definition case := (Z * list (nat * sym) * form * place * Z)%type.

Definition case_bad (c : case) : bool :=
  let '(_, l, f, p, obs) := c in negb (Z.eqb (diag_code (diagnose (env_of l) f p)) obs).

Definition bad_ids (cs : list case) : list Z :=
  map (fun c => let '(i, _, _, _, _) := c in i) (filter case_bad cs).
