(* C05 — a compositional decision procedure for the path semantics of Models/Returns.v (which outcomes a statement can
   have under some assignment of guard outcomes).  Definitions only; proved exact in Proofs/ReturnsSpecP.v.
   This is specification-side: it is NOT a port of compiler code. *)
From Coq Require Import List Bool Arith NArith.
From FV Require Import Models.Returns.
Import ListNotations.

(* possible outcomes: normal completion, break, continue, return <value>, bare return *)
Record outs := mko { o_n : bool; o_b : bool; o_c : bool; o_rv : bool; o_rb : bool }.

Definition may (o : outcome) (x : outs) : bool :=
  match o with
  | ONormal => o_n x | OBreak => o_b x | OContinue => o_c x
  | OReturn true => o_rv x | OReturn false => o_rb x
  end.

Definition o_bot : outs := mko false false false false false.
Definition o_normal : outs := mko true false false false false.
Definition o_join (x y : outs) : outs :=
  mko (o_n x || o_n y) (o_b x || o_b y) (o_c x || o_c y) (o_rv x || o_rv y) (o_rb x || o_rb y).
Definition o_seq (x y : outs) : outs :=
  if o_n x then mko (o_n y) (o_b x || o_b y) (o_c x || o_c y) (o_rv x || o_rv y) (o_rb x || o_rb y) else x.
Definition o_loop (lit_true : bool) (body : outs) : outs :=
  mko (negb lit_true || o_b body) false false (o_rv body) (o_rb body).

Fixpoint outs_stmt (s : stmt) : outs :=
  match s with
  | SSimple => o_normal
  | SReturn true => mko false false false true false
  | SReturn false => mko false false false false true
  | SBreak => mko false true false false false
  | SContinue => mko false false true false false
  | SIf i => outs_ifs i
  | SWhile lt b => o_loop lt (outs_block b)
  | SFor b => o_loop false (outs_block b)
  | SMatch a => if has_default a then outs_arms a else o_join (outs_arms a) o_normal
  | SBlock b => outs_block b
  end
with outs_block (b : block) : outs :=
  match b with BNil => o_normal | BCons s r => o_seq (outs_stmt s) (outs_block r) end
with outs_ifs (i : ifs) : outs :=
  match i with IfS t e => o_join (outs_block t) (outs_els e) end
with outs_els (e : els) : outs :=
  match e with ENone => o_normal | EBlock b => outs_block b | EIf i => outs_ifs i end
with outs_arms (a : arms) : outs :=
  match a with ANil => o_bot | ACons _ b a' => o_join (outs_block b) (outs_arms a') end.

(* the property C05 for one body, decided: no path ends the body other than through `return <value>` *)
Definition spec_ok (body : block) : bool :=
  let x := outs_block body in negb (o_n x || o_b x || o_c x || o_rb x).

(* ---- exhaustive small bodies (used for the bounded agreement theorem) ---- *)
Definition leaves : list stmt := [SSimple; SReturn true; SReturn false; SBreak; SContinue].
Definition blocks_of (ss : list stmt) : list block :=
  BNil :: map (fun s => BCons s BNil) ss
  ++ flat_map (fun s => map (fun l => BCons s (BCons l BNil)) [SSimple; SReturn true; SBreak]) ss.
Definition leaf_blocks : list block := blocks_of leaves.

Definition compounds (bs : list block) : list stmt :=
  flat_map (fun t => SIf (IfS t ENone) :: SWhile true t :: SWhile false t :: SFor t :: SBlock t
                     :: SMatch (ACons false t ANil) :: SMatch (ACons true t ANil) :: nil) bs
  ++ flat_map (fun t => flat_map (fun u =>
        SIf (IfS t (EBlock u)) :: SIf (IfS t (EIf (IfS u ENone)))
        :: SMatch (ACons false t (ACons false u ANil)) :: SMatch (ACons false t (ACons true u ANil)) :: nil) bs) bs.

Definition small1 : list stmt := leaves ++ compounds leaf_blocks.                       (* nesting depth 1 *)
Definition small_blocks1 : list block := blocks_of small1.
Definition wrap2 (b : block) : list block :=                                             (* one more level *)
  [BCons (SWhile true b) BNil; BCons (SWhile false b) BNil; BCons (SFor b) BNil;
   BCons (SIf (IfS b ENone)) BNil; BCons (SIf (IfS b (EBlock (BCons (SReturn true) BNil)))) BNil;
   BCons (SMatch (ACons false b ANil)) BNil; BCons (SMatch (ACons false b (ACons true (BCons (SReturn true) BNil) ANil))) BNil;
   BCons (SWhile true b) (BCons (SReturn true) BNil); BCons (SFor b) (BCons (SReturn true) BNil)].
Definition agree_on (b : block) : bool :=
  forallb (fun p => implb (accepted p b) (spec_ok b)) [PFunc; PMethod; PFuncLit].

(* every body of small_blocks1 and each of its wrap2 extensions (not materialised as one list) *)
Definition small_bodies_agree : bool :=
  forallb (fun b => agree_on b && forallb agree_on (wrap2 b)) small_blocks1.
Definition In_small (b : block) : Prop :=
  In b small_blocks1 \/ exists b0, In b0 small_blocks1 /\ In b (wrap2 b0).
Definition small_count : N := (N.of_nat (length small_blocks1) * 10)%N.
Definition small_accepted : N :=
  N.of_nat (length (filter (fun b => accepted PFunc b) small_blocks1)).
