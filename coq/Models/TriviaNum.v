(* C19 — number / byte-literal recognisers at a token boundary: auxiliary definitions.
   The recognisers themselves (m_number = numeric.NumberPattern, m_byte = the byte-literal pattern of the table in
   /repo/internal/frontend/lexer/tokenizer.go) are ported in Models/Trivia.v; this file only names their parts and the
   classes of bytes that may follow a token.  Definitions only. *)
From Coq Require Import ZArith List Bool.
From FV Require Import Models.Trivia.
Import ListNotations.
Open Scope Z_scope.

(* FloatFrac? at the head of s: `\.` DecNumber, 0 if absent (the middle part of m_float) *)
Definition frac_len (s : list Z) : nat :=
  match s with
  | dot :: r1 => if dot =? 46 then match digits1 is_digit r1 with O => O | k => S k end else O
  | [] => O
  end.

(* FloatExp? at the head of s: [eE][+-]? DecNumber, 0 if absent (the last part of m_float) *)
Definition exp_len (s : list Z) : nat :=
  match s with
  | c :: r3 =>
      if (c =? 101) || (c =? 69) then
        match r3 with
        | sg :: r4 =>
            if (sg =? 43) || (sg =? 45) then
              match digits1 is_digit r4 with O => O | k => S (S k) end
            else match digits1 is_digit r3 with O => O | k => S k end
        | [] => O
        end
      else O
  | [] => O
  end.

(* m_float written with the two parts above (Proofs/TriviaNumP.v: m_float_parts, by conversion) *)
Definition m_float' (s : list Z) : nat :=
  match digits1 is_digit s with
  | O => O
  | n => let r := skipn n s in let f := frac_len r in (n + f + exp_len (skipn f r))%nat
  end.

(* A byte at which every part of NumberPattern stops without looking further: not a hex digit (hence not a decimal,
   octal or binary digit and not e/E/b/B), not `_`, not `.`, not one of the base letters x X o O, not a sign. *)
Definition num_stop (c : Z) : bool :=
  negb (is_hex c) && negb (c =? 95) && negb (c =? 46) &&
  negb (c =? 120) && negb (c =? 88) && negb (c =? 111) && negb (c =? 79) &&
  negb (c =? 43) && negb (c =? 45).

(* what may follow a number for the boundary property: end of text, or a num_stop byte *)
Definition num_follow (r : list Z) : Prop :=
  match r with [] => True | c :: _ => num_stop c = true end.

(* what may follow a byte literal: end of text, or anything but a quote *)
Definition byte_follow (r : list Z) : Prop :=
  match r with [] => True | c :: _ => c <> 39 end.

(* The text after a token starts with trivia: whitespace (space, tab, LF, CR, FF = RE2 \s), or `//`, or `/` `*`. *)
Definition starts_trivia (r : list Z) : bool :=
  match r with
  | c :: r1 => is_ws c || ((c =? 47) && match r1 with d :: _ => (d =? 47) || (d =? 42) | [] => false end)
  | [] => false
  end.

(* The side condition of the composition through the ordered table: the text r' after the token m is the end of the
   text, or starts with whitespace, or starts with a slash and the token is not the operator `/` itself
   (`/` followed by `//` or `/` `*` is lexed as a comment: C19_slash_fuse_refuted). *)
Definition trivia_follows (m r' : list Z) : Prop :=
  match r' with
  | [] => True
  | c :: _ => is_ws c = true \/ (c = 47 /\ m <> [47])
  end.

(* the classes of significant tokens (everything but comments) *)
Definition significant_cls (k : Z) : Prop :=
  k = K_STRING \/ k = K_BYTE \/ k = K_NUMBER \/ k = K_IDENT \/ k = K_OP.

(* ---------------------------------------------------------------- correspondence support (harness/c19num.py)
   a case: (id, text, class of the item the implementation produces at offset 0, length of that token);
   class -1 = unrecognised character at offset 0, -2 = whitespace at offset 0 (length 0 in both cases). *)
Definition item_cls (it : item) : Z := match it with Tok k => k | Bad => -1 | Skip => -2 end.
Definition first_case_ok (c : Z * list Z * Z * nat) : bool :=
  let '(_, s, k, n) := c in
  let '(it, len) := step s in
  (item_cls it =? k) && Nat.eqb (match it with Tok _ => len | _ => O end) n.
Definition first_bad_ids (cs : list (Z * list Z * Z * nat)) : list Z :=
  map (fun c => let '(i, _, _, _) := c in i) (filter (fun c => negb (first_case_ok c)) cs).
