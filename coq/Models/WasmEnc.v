(* WasmEnc: the WebAssembly binary encoders of /repo/internal/codegen/wasm/module.go (ports), and the
   SPECIFICATION decoders of the WebAssembly binary format (written from the specification, section 5.2.2
   "Integers", 5.1.3 "Vectors", 5.3.x "Types", 5.5.2 "Sections", 5.5.13 "Code section"), independently of the
   encoders.  Definitions only; the lemmas are in Proofs/WasmEncP.v, the closed theorems in Props/C02Enc.v.

   Bytes are `Z` in 0..255, byte strings are `list Z`.  Every fixed-width Go operation writes its wrap
   explicitly; `>>` on a signed Go integer is the arithmetic shift (`Z.shiftr` on `Z` is the floor shift, which
   is the arithmetic one), `&`/`|` on a signed Go integer act on the two's complement representation, which is
   what `Z.land`/`Z.lor` do on negative `Z`.  The `for` loops become recursion on explicit fuel; running out of
   fuel is the distinguished value `None` (Proofs/WasmEncP.v shows the fuel given below is always enough). *)
From Coq Require Import ZArith List Bool.
Import ListNotations.
Open Scope Z_scope.

(* ------------------------------------------------------------------ fixed-width conversions *)

Definition byte_of (x : Z) : Z := x mod 256.                           (* byte(x) *)
Definition wrap_u32 (x : Z) : Z := x mod 2 ^ 32.                       (* uint32(x) *)
Definition wrap_s (bits : Z) (x : Z) : Z :=                            (* int32(x) / int64(x), two's complement *)
  (x + 2 ^ (bits - 1)) mod 2 ^ bits - 2 ^ (bits - 1).

Definition in_u32 (v : Z) : Prop := 0 <= v < 2 ^ 32.
Definition in_s (bits v : Z) : Prop := - 2 ^ (bits - 1) <= v < 2 ^ (bits - 1).

(* ------------------------------------------------------------------ ports *)

(* func encodeU32(v uint32) []byte {
       var out []byte
       for {
           b := byte(v & 0x7f)
           v >>= 7
           if v != 0 { b |= 0x80 }
           out = append(out, b)
           if v == 0 { break }
       }
       return out }                                                     one recursion step = one loop iteration *)
Fixpoint encodeU32_fuel (fuel : nat) (v : Z) : option (list Z) :=
  match fuel with
  | O => None
  | S f =>
      let b := byte_of (Z.land v 127) in
      let v := wrap_u32 (Z.shiftr v 7) in
      let b := if negb (v =? 0) then byte_of (Z.lor b 128) else b in
      if v =? 0 then Some [b]
      else option_map (cons b) (encodeU32_fuel f v)
  end.

Definition unwrap (o : option (list Z)) : list Z := match o with Some l => l | None => [] end.

Definition u32_fuel : nat := 5.
Definition s32_fuel : nat := 5.
Definition s64_fuel : nat := 10.

Definition encodeU32 (v : Z) : list Z := unwrap (encodeU32_fuel u32_fuel (wrap_u32 v)).

(* func encodeS32(v int32) []byte  /  func encodeS64(v int64) []byte   (the two bodies are the same text; the
   integer type enters as `bits`)
       var out []byte
       more := true
       for more {
           b := byte(v & 0x7f)
           v >>= 7
           signBit := (b & 0x40) != 0
           more = !((v == 0 && !signBit) || (v == -1 && signBit))
           if more { b |= 0x80 }
           out = append(out, b)
       }
       return out *)
Fixpoint encodeS_fuel (bits : Z) (fuel : nat) (v : Z) : option (list Z) :=
  match fuel with
  | O => None
  | S f =>
      let b := byte_of (Z.land v 127) in
      let v := wrap_s bits (Z.shiftr v 7) in
      let signBit := negb (Z.land b 64 =? 0) in
      let more := negb (((v =? 0) && negb signBit) || ((v =? -1) && signBit)) in
      let b := if more then byte_of (Z.lor b 128) else b in
      if more then option_map (cons b) (encodeS_fuel bits f v)
      else Some [b]
  end.

Definition encodeS32 (v : Z) : list Z := unwrap (encodeS_fuel 32 s32_fuel (wrap_s 32 v)).
Definition encodeS64 (v : Z) : list Z := unwrap (encodeS_fuel 64 s64_fuel (wrap_s 64 v)).

Definition zlen (l : list Z) : Z := Z.of_nat (length l).

(* func encodeString(s string) []byte { b := []byte(s); out = append(out, encodeU32(uint32(len(b)))...); out = append(out, b...) } *)
Definition encodeString (s : list Z) : list Z := encodeU32 (wrap_u32 (zlen s)) ++ s.

(* func emitSection(id byte, content []byte) []byte { out = append(out, id); out = append(out, encodeU32(uint32(len(content)))...); out = append(out, content...) } *)
Definition emitSection (id : Z) (content : list Z) : list Z :=
  [id] ++ encodeU32 (wrap_u32 (zlen content)) ++ content.

(* func encodeLimits(min uint32) []byte { out := []byte{0x00}; out = append(out, encodeU32(min)...) } *)
Definition encodeLimits (min : Z) : list Z := [0] ++ encodeU32 min.

(* the loop body of encodeLocals:
       if len(groups) == 0 || groups[len(groups)-1].typ != typ {
           groups = append(groups, {count: 1, typ: typ})
       } else {
           groups[len(groups)-1].count++            (uint32: wraps)
       }
   a group is (count, typ); the recursion walks to the last element of `groups`. *)
Fixpoint push_local (groups : list (Z * Z)) (typ : Z) : list (Z * Z) :=
  match groups with
  | [] => [(1, typ)]
  | g :: gs =>
      match gs with
      | [] => if negb (snd g =? typ) then [g; (1, typ)] else [(wrap_u32 (fst g + 1), snd g)]
      | _ :: _ => g :: push_local gs typ
      end
  end.

Definition local_groups (locals : list Z) : list (Z * Z) := fold_left push_local locals [].

Definition encode_group (g : Z * Z) : list Z := encodeU32 (fst g) ++ [byte_of (snd g)].

(* func encodeLocals(locals []ValType) []byte *)
Definition encodeLocals (locals : list Z) : list Z :=
  match locals with
  | [] => [0]
  | _ :: _ =>
      let groups := local_groups locals in
      encodeU32 (wrap_u32 (Z.of_nat (length groups))) ++ flat_map encode_group groups
  end.

(* ------------------------------------------------------------------ specification: LEB128 integers

   WebAssembly 5.2.2:
     uN ::= n:byte              => n                     (if n < 2^7 /\ n < 2^N)
          | n:byte m:u(N-7)     => 2^7 * m + (n - 2^7)   (if n >= 2^7 /\ N > 7)
     sN ::= n:byte              => n                     (if n < 2^6 /\ n < 2^(N-1))
          | n:byte              => n - 2^7               (if 2^6 <= n < 2^7 /\ n >= 2^7 - 2^(N-1))
          | n:byte m:s(N-7)     => 2^7 * m + (n - 2^7)   (if n >= 2^7 /\ N > 7)
   The grammar recurses on N; `fuel` = ceil(N/7) is the structural argument (the maximum number of bytes:
   5 for N = 32, 10 for N = 64).  Result: the value and the bytes that follow it. *)

Definition is_byte (n : Z) : bool := (0 <=? n) && (n <? 256).

Fixpoint decode_uN (fuel : nat) (N : Z) (bs : list Z) : option (Z * list Z) :=
  match fuel, bs with
  | O, _ => None
  | _, [] => None
  | S f, n :: tl =>
      if negb (is_byte n) then None
      else if n <? 2 ^ 7 then (if n <? 2 ^ N then Some (n, tl) else None)
      else if 7 <? N then
        match decode_uN f (N - 7) tl with
        | Some (m, r) => Some (2 ^ 7 * m + (n - 2 ^ 7), r)
        | None => None
        end
      else None
  end.

Fixpoint decode_sN (fuel : nat) (N : Z) (bs : list Z) : option (Z * list Z) :=
  match fuel, bs with
  | O, _ => None
  | _, [] => None
  | S f, n :: tl =>
      if negb (is_byte n) then None
      else if n <? 2 ^ 6 then (if n <? 2 ^ (N - 1) then Some (n, tl) else None)
      else if n <? 2 ^ 7 then (if 2 ^ 7 - 2 ^ (N - 1) <=? n then Some (n - 2 ^ 7, tl) else None)
      else if 7 <? N then
        match decode_sN f (N - 7) tl with
        | Some (m, r) => Some (2 ^ 7 * m + (n - 2 ^ 7), r)
        | None => None
        end
      else None
  end.

Definition decode_u32 (bs : list Z) : option (Z * list Z) := decode_uN 5 32 bs.
Definition decode_s32 (bs : list Z) : option (Z * list Z) := decode_sN 5 32 bs.
Definition decode_s64 (bs : list Z) : option (Z * list Z) := decode_sN 10 64 bs.

(* shape of a LEB128 byte string: every byte but the last carries the continuation bit (128..255), the last
   does not (0..127) *)
Fixpoint leb_wf (bs : list Z) : Prop :=
  match bs with
  | [] => False
  | b :: tl =>
      match tl with
      | [] => 0 <= b < 128
      | _ :: _ => 128 <= b < 256 /\ leb_wf tl
      end
  end.

(* ------------------------------------------------------------------ specification: vectors, sections, locals

   5.1.3   vec(B)    ::= n:u32 (x:B)^n
   5.2.4   name      ::= vec(byte)                          (UTF-8 well-formedness is not part of this model)
   5.5.2   section_N ::= N:byte size:u32 cont:B             (size = |cont|)
   5.3.x   valtype   ::= 0x7F | 0x7E | 0x7D | 0x7C | 0x7B | 0x70 | 0x6F
   5.3.5   limits    ::= 0x00 n:u32 | 0x01 n:u32 m:u32
   5.5.13  func      ::= vec(locals) expr ;  locals ::= n:u32 t:valtype => t^n   (n copies of t) *)

Definition decode_bytes (bs : list Z) : option (list Z * list Z) :=       (* vec(byte) *)
  match decode_u32 bs with
  | None => None
  | Some (n, r) =>
      if zlen r <? n then None
      else Some (firstn (Z.to_nat n) r, skipn (Z.to_nat n) r)
  end.

Definition parse_section (bs : list Z) : option (Z * list Z * list Z) :=  (* (id, content, rest) *)
  match bs with
  | [] => None
  | id :: tl =>
      match decode_bytes tl with
      | None => None
      | Some (c, rest) => Some (id, c, rest)
      end
  end.

Definition is_valtype (t : Z) : bool :=
  (t =? 127) || (t =? 126) || (t =? 125) || (t =? 124) || (t =? 123) || (t =? 112) || (t =? 111).

Fixpoint decode_groups (n : nat) (bs : list Z) : option (list Z * list Z) :=
  match n with
  | O => Some ([], bs)
  | S k =>
      match decode_u32 bs with
      | None => None
      | Some (c, r) =>
          match r with
          | [] => None
          | t :: r' =>
              if negb (is_valtype t) then None
              else match decode_groups k r' with
                   | None => None
                   | Some (l, r'') => Some (repeat t (Z.to_nat c) ++ l, r'')
                   end
          end
      end
  end.

Definition decode_locals (bs : list Z) : option (list Z * list Z) :=     (* (flat list of locals, rest) *)
  match decode_u32 bs with
  | None => None
  | Some (n, r) => decode_groups (Z.to_nat n) r
  end.

Definition decode_limits (bs : list Z) : option (Z * option Z * list Z) :=  (* (min, max, rest) *)
  match bs with
  | 0 :: tl =>
      match decode_u32 tl with Some (n, r) => Some (n, None, r) | None => None end
  | 1 :: tl =>
      match decode_u32 tl with
      | Some (n, r) => match decode_u32 r with Some (m, r') => Some (n, Some m, r') | None => None end
      | None => None
      end
  | _ => None
  end.

(* ------------------------------------------------------------------ correspondence cases (harness/c02enc.py)

   Long inputs travel run-length encoded: [(count, byte); ...].  The bytes OBSERVED from the implementation travel
   as repeated blocks: [(count, [bytes of the block]); ...].  A case carries the input and the observed bytes;
   `bad_model` lists the ids where the port computes other bytes, `bad_spec` the ids where the specification
   decoder applied to the observed bytes does not give back the input with nothing left over. *)

Definition expand_rle (r : list (Z * Z)) : list Z :=
  flat_map (fun g => repeat (snd g) (Z.to_nat (fst g))) r.

Definition expand_blocks (r : list (Z * list Z)) : list Z :=
  flat_map (fun g => concat (repeat (snd g) (Z.to_nat (fst g)))) r.

Inductive enc_case : Type :=
| CU32 (v : Z)
| CS32 (v : Z)
| CS64 (v : Z)
| CLocals (rle : list (Z * Z))
| CString (rle : list (Z * Z))
| CSection (id : Z) (rle : list (Z * Z))
| CLimits (v : Z).

Fixpoint bytes_eqb (a b : list Z) : bool :=
  match a, b with
  | [], [] => true
  | x :: a', y :: b' => (x =? y) && bytes_eqb a' b'
  | _, _ => false
  end.

Definition model_bytes (c : enc_case) : list Z :=
  match c with
  | CU32 v => encodeU32 v
  | CS32 v => encodeS32 v
  | CS64 v => encodeS64 v
  | CLocals r => encodeLocals (expand_rle r)
  | CString r => encodeString (expand_rle r)
  | CSection id r => emitSection id (expand_rle r)
  | CLimits v => encodeLimits v
  end.

Definition spec_accepts (c : enc_case) (obs : list Z) : bool :=
  match c with
  | CU32 v => match decode_u32 obs with Some (x, []) => x =? v | _ => false end
  | CS32 v => match decode_s32 obs with Some (x, []) => x =? v | _ => false end
  | CS64 v => match decode_s64 obs with Some (x, []) => x =? v | _ => false end
  | CLocals r => match decode_locals obs with Some (l, []) => bytes_eqb l (expand_rle r) | _ => false end
  | CString r => match decode_bytes obs with Some (s, []) => bytes_eqb s (expand_rle r) | _ => false end
  | CSection id r =>
      match parse_section obs with
      | Some (i, s, []) => (i =? id) && bytes_eqb s (expand_rle r)
      | _ => false
      end
  | CLimits v => match decode_limits obs with Some (x, None, []) => x =? v | _ => false end
  end.

Definition enc_row : Type := (Z * enc_case * list (Z * list Z))%type.     (* id, input, observed bytes (blocks) *)

Definition bad_model (cs : list enc_row) : list Z :=
  flat_map (fun r => match r with (id, c, obs) =>
     if bytes_eqb (model_bytes c) (expand_blocks obs) then [] else [id] end) cs.

Definition bad_spec (cs : list enc_row) : list Z :=
  flat_map (fun r => match r with (id, c, obs) =>
     if spec_accepts c (expand_blocks obs) then [] else [id] end) cs.
