(* C15 — port of the import-graph machinery of internal/context_v2/context.go
   (AddDependency / findCycle / hasCyclePath / ComputeTopologicalOrder).

   Modules are numbered by the rank of their import path in byte-wise string order, so `sort.Strings`
   is numeric sorting here.  `DepGraph map[string][]string` is rendered as the list of accepted edges in
   insertion order: `DepGraph[u]` is `succs g u` (the order inside one importer's slice is the insertion
   order, which is all the code depends on; iteration over the map itself is only used in
   ComputeTopologicalOrder, where every collected batch is sorted before use).
   The mutex `ctx.mu` is held for the whole of AddDependency and ComputeTopologicalOrder, so each call is
   one atomic transition of the graph; a schedule is a sequence of calls.  Definitions only. *)
From Coq Require Import List Arith Bool ZArith.
Import ListNotations.

Definition node := nat.
Definition graph := list (node * node).          (* (importer, imported), insertion order *)

Definition mem (x : node) (l : list node) : bool := existsb (Nat.eqb x) l.

(* ctx.DepGraph[u] *)
Fixpoint succs (g : graph) (u : node) : list node :=
  match g with
  | [] => []
  | (a, b) :: g' => if Nat.eqb a u then b :: succs g' u else succs g' u
  end.

(* the `for _, dep := range ctx.DepGraph[start]` loop of hasCyclePath; `rec` is the recursive call *)
Fixpoint dfs_loop (rec : node -> list node -> option (list node) * list node)
         (deps : list node) (visited : list node) : option (list node) * list node :=
  match deps with
  | [] => (None, visited)
  | d :: ds =>
      match rec d visited with
      | (Some p, v) => (Some p, v)
      | (None, v) => dfs_loop rec ds v
      end
  end.

(* hasCyclePath(start, target, visited, path): returns (Some path) when it answers true — `path` is the DFS
   stack at that moment, exactly what the shared slice *path holds — and the updated visited set.
   Go has no fuel; fuel exhaustion answers (None, visited) and the proofs show S (S (length g)) suffices. *)
Fixpoint has_cycle_path (fuel : nat) (g : graph) (target start : node)
         (visited : list node) (path : list node) : option (list node) * list node :=
  match fuel with
  | O => (None, visited)
  | S f =>
      if Nat.eqb start target then (Some path, visited)
      else if mem start visited then (None, visited)
      else dfs_loop (fun d v => has_cycle_path f g target d v (path ++ [start]))
                    (succs g start) (start :: visited)
  end.

Definition dfs_fuel (g : graph) : nat := S (S (length g)).

(* findCycle(from, to): cycle = to :: path ++ [to] *)
Definition find_cycle (g : graph) (from to : node) : option (list node) :=
  match fst (has_cycle_path (dfs_fuel g) g to from [] []) with
  | Some p => Some (to :: p ++ [to])
  | None => None
  end.

Inductive result := Ok | ErrCycle (cycle : list node).

(* AddDependency(importer, imported) *)
Definition add_dependency (g : graph) (importer imported : node) : graph * result :=
  match find_cycle g imported importer with
  | Some c => (g, ErrCycle c)
  | None =>
      if mem imported (succs g importer) then (g, Ok)
      else (g ++ [(importer, imported)], Ok)
  end.

(* a sequence of calls (one schedule) *)
Fixpoint run (g : graph) (calls : list (node * node)) : graph * list result :=
  match calls with
  | [] => (g, [])
  | (u, v) :: cs =>
      let '(g1, r) := add_dependency g u v in
      let '(g2, rs) := run g1 cs in
      (g2, r :: rs)
  end.

Definition is_err (r : result) : bool := match r with Ok => false | ErrCycle _ => true end.

(* ---------------------------------------------------------------- ComputeTopologicalOrder *)

(* sort.Strings *)
Fixpoint insert (x : node) (l : list node) : list node :=
  match l with
  | [] => [x]
  | y :: l' => if Nat.leb x y then x :: l else y :: insert x l'
  end.
Fixpoint sort (l : list node) : list node :=
  match l with [] => [] | x :: l' => insert x (sort l') end.

Definition degmap := node -> Z.
Definition upd (d : degmap) (k : node) (v : Z) : degmap := fun x => if Nat.eqb x k then v else d x.

(* inDegree after the first two loops: 0 for every module, + len(deps) for every importer
   (a missing map key reads as 0) *)
Definition deg0 (g : graph) : degmap := fun m => Z.of_nat (length (succs g m)).

(* the inner double loop for one `current`: every stored edge (importer, dep) with dep == current
   decrements inDegree[importer]; an importer reaching exactly 0 is appended to next *)
Fixpoint relax (es : graph) (cur : node) (deg : degmap) : degmap * list node :=
  match es with
  | [] => (deg, [])
  | (imp, dep) :: es' =>
      if Nat.eqb dep cur then
        let deg1 := upd deg imp (deg imp - 1)%Z in
        let '(deg2, nx) := relax es' cur deg1 in
        if Z.eqb (deg1 imp) 0 then (deg2, imp :: nx) else (deg2, nx)
      else relax es' cur deg
  end.

Fixpoint kahn (fuel : nat) (g : graph) (queue sorted : list node) (deg : degmap) : list node :=
  match fuel with
  | O => sorted
  | S f =>
      match queue with
      | [] => sorted
      | cur :: q =>
          let '(deg', next) := relax g cur deg in
          kahn f g (q ++ sort next) (sorted ++ [cur]) deg'
      end
  end.

Definition topo_fuel (g : graph) (mods : list node) : nat := S (length mods + length g).

(* mods = keys of ctx.Modules (any order, no duplicates) *)
Definition topo (g : graph) (mods : list node) : list node :=
  kahn (topo_fuel g mods) g
       (sort (filter (fun m => Z.eqb (deg0 g m) 0) mods)) [] (deg0 g).

(* ---------------------------------------------------------------- specification vocabulary *)

Definition edge (g : graph) (x y : node) : Prop := In (x, y) g.

(* reflexive-transitive closure, left-step *)
Inductive reach (g : graph) : node -> node -> Prop :=
| reach_refl x : reach g x x
| reach_step x y z : edge g x y -> reach g y z -> reach g x z.

Definition cyclic (g : graph) : Prop := exists x y, edge g x y /\ reach g y x.
Definition acyclic (g : graph) : Prop := ~ cyclic g.

(* a list of nodes in which consecutive elements are joined by edges *)
Fixpoint is_walk (g : graph) (p : list node) : Prop :=
  match p with
  | x :: ((y :: _) as p') => edge g x y /\ is_walk g p'
  | _ => True
  end.

(* an order is valid for g over mods: a duplicate-free enumeration of exactly mods in which every
   imported module stands before its importer *)
Fixpoint index_of (x : node) (l : list node) : nat :=
  match l with [] => 0 | y :: l' => if Nat.eqb y x then 0 else S (index_of x l') end.

Definition topo_valid (g : graph) (mods order : list node) : Prop :=
  NoDup order /\ (forall m, In m order <-> In m mods) /\
  (forall u v, edge g u v -> index_of v order < index_of u order).

(* ---------------------------------------------------------------- decidable oracles used by the harness *)

Definition edge_eqb (a b : node * node) : bool := Nat.eqb (fst a) (fst b) && Nat.eqb (snd a) (snd b).
Fixpoint list_eqb {A B} (eqb : A -> B -> bool) (a : list A) (b : list B) : bool :=
  match a, b with
  | [], [] => true
  | x :: a', y :: b' => eqb x y && list_eqb eqb a' b'
  | _, _ => false
  end.

Definition result_eqb (r : result) (o : option (list node)) : bool :=
  match r, o with
  | Ok, None => true
  | ErrCycle c, Some c' => list_eqb Nat.eqb c c'
  | _, _ => false
  end.

(* executable cyclicity of an edge list: some edge (x,y) with y ->* x *)
Definition reach_b (g : graph) (x y : node) : bool :=
  match fst (has_cycle_path (dfs_fuel g) g y x [] []) with Some _ => true | None => false end.
Definition cyclic_b (g : graph) : bool := existsb (fun e => reach_b g (snd e) (fst e)) g.

Fixpoint nodup_b (l : list node) : bool :=
  match l with [] => true | x :: l' => negb (mem x l') && nodup_b l' end.
Definition topo_valid_b (g : graph) (mods order : list node) : bool :=
  nodup_b order && forallb (fun m => mem m mods) order && forallb (fun m => mem m order) mods &&
  forallb (fun e => Nat.ltb (index_of (snd e) order) (index_of (fst e) order)) g.

(* one correspondence case: what the real context_v2 answered for a call sequence *)
Record obs := mkObs {
  o_id : Z;
  o_mods : list node;                       (* registered modules *)
  o_calls : list (node * node);             (* AddDependency(importer, imported) in call order *)
  o_results : list (option (list node));    (* per call: None = nil error, Some c = circular import c *)
  o_graph : graph;                          (* final DepGraph, importers ascending, each slice in order *)
  o_order : list node                       (* GetModuleNames() after ComputeTopologicalOrder *)
}.

(* stored edges grouped by importer (ascending) — canonical form of the map for comparison *)
Fixpoint uniq (l : list node) : list node :=
  match l with [] => [] | x :: l' => if mem x l' then uniq l' else x :: uniq l' end.
Definition canon_graph (g : graph) : graph :=
  flat_map (fun u => map (fun v => (u, v)) (succs g u)) (sort (uniq (map fst g))).

Definition case_ok (o : obs) : bool :=
  let '(g, rs) := run [] (o_calls o) in
  list_eqb result_eqb rs (o_results o) && (Nat.eqb (length rs) (length (o_results o)))
  && list_eqb edge_eqb (canon_graph g) (o_graph o)
  && list_eqb Nat.eqb (topo g (o_mods o)) (o_order o).

Definition bad_ids (cs : list obs) : list Z :=
  map o_id (filter (fun o => negb (case_ok o)) cs).

(* ---------------------------------------------------------------- spec-side oracle on observed behaviour
   (the deciders cyclic_b / topo_valid_b are proved exact in Proofs/DepGraphP.v) *)
Definition is_some {A} (o : option A) : bool := match o with Some _ => true | None => false end.
Definition same_edges (g e : graph) : bool :=
  forallb (fun x => existsb (edge_eqb x) e) g && forallb (fun x => existsb (edge_eqb x) g) e.
Definition all_registered (g : graph) (mods : list node) : bool :=
  forallb (fun e => mem (fst e) mods && mem (snd e) mods) g.

Definition spec_ok (o : obs) : bool :=
  let errs := existsb is_some (o_results o) in
  negb (cyclic_b (o_graph o))
  && (if cyclic_b (o_calls o) then errs else negb errs && same_edges (o_graph o) (o_calls o))
  && (if all_registered (o_graph o) (o_mods o) then topo_valid_b (o_graph o) (o_mods o) (o_order o) else true).

Definition spec_bad_ids (cs : list obs) : list Z :=
  map o_id (filter (fun o => negb (spec_ok o)) cs).

(* ---------------------------------------------------------------- concurrent observations
   one goroutine per importer calls AddDependency for its imports in file order; since each call is atomic
   the outcome must be the outcome of the model under SOME interleaving of the groups *)
Fixpoint pick {A} (pre : list (list A)) (gs : list (list A)) : list (A * list (list A)) :=
  match gs with
  | [] => []
  | [] :: rest => pick (pre ++ [[]]) rest
  | (x :: xs) :: rest => (x, pre ++ xs :: rest) :: pick (pre ++ [x :: xs]) rest
  end.
Fixpoint interleavings {A} (fuel : nat) (gs : list (list A)) : list (list A) :=
  match fuel with
  | O => [[]]
  | S f =>
      match pick [] gs with
      | [] => [[]]
      | ps => flat_map (fun p => map (cons (fst p)) (interleavings f (snd p))) ps
      end
  end.

Fixpoint count_errs (u : node) (calls : list (node * node)) (rs : list result) : nat :=
  match calls, rs with
  | (a, _) :: cs, r :: rs' => (if Nat.eqb a u && is_err r then 1 else 0) + count_errs u cs rs'
  | _, _ => 0
  end.

Record cobs := mkCobs {
  c_id : Z;
  c_mods : list node;
  c_groups : list (list (node * node));                        (* one group per importer *)
  c_outcomes : list (list nat * graph * list node)             (* errors per group, final graph, order *)
}.

Definition outcome_matches (mods : list node) (groups : list (list (node * node)))
           (oc : list nat * graph * list node) (calls : list (node * node)) : bool :=
  let '(errs, g_obs, order) := oc in
  let '(g, rs) := run [] calls in
  list_eqb Nat.eqb (map (fun grp => match grp with [] => 0 | (u, _) :: _ => count_errs u calls rs end) groups) errs
  && list_eqb edge_eqb (canon_graph g) g_obs
  && list_eqb Nat.eqb (topo g mods) order.

Definition ccase_ok (c : cobs) : bool :=
  let ils := interleavings (length (concat (c_groups c))) (c_groups c) in
  forallb (fun oc => existsb (outcome_matches (c_mods c) (c_groups c) oc) ils) (c_outcomes c).

Definition cbad_ids (cs : list cobs) : list Z :=
  map c_id (filter (fun c => negb (ccase_ok c)) cs).
