(* C11 — value domains of Ferret's 17 numeric types and the containment decision procedure.
   Values are dyadic rationals m * 2^e, written as pairs (m, e); every value of every numeric type is dyadic. *)
From Coq Require Import ZArith List Bool.
Import ListNotations.
Open Scope Z_scope.

Inductive nty := I8 | I16 | I32 | I64 | I128 | I256 | U8 | U16 | U32 | U64 | U128 | U256
               | F32 | F64 | F128 | F256 | Byte.

Inductive pos := PLet | PAssign | PArg | PRet.

Definition nty_eqb (a b : nty) : bool :=
  match a, b with
  | I8,I8 | I16,I16 | I32,I32 | I64,I64 | I128,I128 | I256,I256
  | U8,U8 | U16,U16 | U32,U32 | U64,U64 | U128,U128 | U256,U256
  | F32,F32 | F64,F64 | F128,F128 | F256,F256 | Byte,Byte => true
  | _, _ => false
  end.

Definition pos_eqb (a b : pos) : bool :=
  match a, b with PLet,PLet | PAssign,PAssign | PArg,PArg | PRet,PRet => true | _,_ => false end.

Definition all_nty : list nty := [I8;I16;I32;I64;I128;I256;U8;U16;U32;U64;U128;U256;F32;F64;F128;F256;Byte].
Definition all_pos : list pos := [PLet;PAssign;PArg;PRet].

(* kind of a numeric type: integer (signed?, width) or binary float (precision p incl. hidden bit, emax) *)
Inductive kind := KInt (signed : bool) (w : Z) | KFloat (p emax : Z).

Definition kind_of (t : nty) : kind :=
  match t with
  | I8 => KInt true 8 | I16 => KInt true 16 | I32 => KInt true 32 | I64 => KInt true 64
  | I128 => KInt true 128 | I256 => KInt true 256
  | U8 => KInt false 8 | U16 => KInt false 16 | U32 => KInt false 32 | U64 => KInt false 64
  | U128 => KInt false 128 | U256 => KInt false 256
  | Byte => KInt false 8
  | F32 => KFloat 24 127 | F64 => KFloat 53 1023
  | F128 => KFloat 113 16383          (* IEEE binary128 = __float128 in runtime/core/bigint.h *)
  | F256 => KFloat 237 262143         (* IEEE binary256, the format bigint.h documents for ferret_f256 *)
  end.

Definition lo (s : bool) (w : Z) : Z := if s then - 2 ^ (w - 1) else 0.
Definition hi (s : bool) (w : Z) : Z := if s then 2 ^ (w - 1) - 1 else 2 ^ w - 1.

(* dyadic value (m, e) denotes m * 2^e ; equality of denotations, without rationals *)
Definition dval := (Z * Z)%type.
Definition deq (a b : dval) : Prop :=
  let '(m1, e1) := a in let '(m2, e2) := b in
  m1 * 2 ^ (e1 - Z.min e1 e2) = m2 * 2 ^ (e2 - Z.min e1 e2).

(* smallest exponent of a (possibly subnormal) significand, largest exponent of an integral significand *)
Definition fmin (p emax : Z) : Z := (1 - emax) - (p - 1).
Definition fmax (p emax : Z) : Z := emax - (p - 1).

Definition dom (t : nty) (v : dval) : Prop :=
  match kind_of t with
  | KInt s w => exists n, deq v (n, 0) /\ lo s w <= n <= hi s w
  | KFloat p emax => exists m e, deq v (m, e) /\ Z.abs m < 2 ^ p /\ fmin p emax <= e <= fmax p emax
  end.

(* decision procedure: is every value of s a value of t ? *)
Definition contained_b (s t : nty) : bool :=
  match kind_of s, kind_of t with
  | KInt ss ws, KInt st wt =>
      match ss, st with
      | true, true => ws <=? wt
      | false, false => ws <=? wt
      | false, true => ws <? wt
      | true, false => false
      end
  | KInt ss ws, KFloat p emax => if ss then ws - 1 <? p else ws <=? p
  | KFloat p1 e1, KFloat p2 e2 => (p1 <=? p2) && (fmin p2 e2 <=? fmin p1 e1) && (fmax p1 e1 <=? fmax p2 e2)
  | KFloat _ _, KInt _ _ => false
  end.

(* a value of s that is not a value of t, when not contained (used by the search and by the completeness proof) *)
Definition witness (s t : nty) : dval :=
  match kind_of s, kind_of t with
  | KInt ss ws, KInt st wt =>
      if andb ss (negb st) then (-1, 0) else (hi ss ws, 0)
  | KInt ss ws, KFloat p _ => (2 ^ p + 1, 0)
  | KFloat _ _, KFloat p2 _ => (2 ^ p2 + 1, 0)
  | KFloat _ _, KInt _ _ => (1, -1)
  end.

Definition row := (pos * nty * nty)%type.
Definition row_contained (r : row) : bool := let '(_, s, t) := r in contained_b s t.
Definition bad_rows (rows : list row) : list row := filter (fun r => negb (row_contained r)) rows.

Definition pair_in (l : list (nty * nty)) (s t : nty) : bool :=
  existsb (fun '(a, b) => nty_eqb a s && nty_eqb b t) l.
Definition row_in (l : list row) (p : pos) (s t : nty) : bool :=
  existsb (fun '(q, a, b) => pos_eqb q p && nty_eqb a s && nty_eqb b t) l.

(* all four positions give the same verdict for (s,t) *)
Definition positions_agree_b (rows : list row) : bool :=
  forallb (fun s => forallb (fun t =>
     let b := row_in rows PLet s t in
     forallb (fun p => Bool.eqb (row_in rows p s t) b) all_pos) all_nty) all_nty.

(* every ordered pair of distinct numeric types that is not implicitly convertible has an explicit cast *)
Definition cast_available_b (rows : list row) (casts : list (nty * nty)) : bool :=
  forallb (fun s => forallb (fun t =>
     nty_eqb s t || row_in rows PLet s t || pair_in casts s t) all_nty) all_nty.
