(* C16 — port of /repo/runtime/core/bigint.c (64-bit limb configuration, FERRET_LIMB_BITS = 64).
   Definitions only.  A multi-limb integer is a little-endian `list Z` of limbs (index 0 first), every limb in
   [0, 2^64); all fixed-width C arithmetic writes its wrap explicitly.  Loops are structural recursion over the
   limb list (ascending index) or over explicit fuel.  Each definition names the C function it ports.
   `ferret_sub_limbs` is modelled in its REPAIRED form (fixes/C16-sub-borrow.patch); the code as found in the
   tree is kept as `sub_limbs_orig` and refuted in Proofs/BigintP.v. *)
From Coq Require Import ZArith List Bool.
Import ListNotations.
Open Scope Z_scope.

Definition B : Z := 2 ^ 64.                      (* limb base *)
Definition LMAX : Z := B - 1.                    (* FERRET_LIMB_MAX *)

Fixpoint value (l : list Z) : Z :=               (* the natural number a limb vector denotes *)
  match l with [] => 0 | x :: r => x + B * value r end.

Definition limb_ok (x : Z) : Prop := 0 <= x < B.
Definition limbs_ok (l : list Z) : Prop := Forall limb_ok l.
Definition limb_okb (x : Z) : bool := (0 <=? x) && (x <? B).

Definition modulus (n : nat) : Z := B ^ Z.of_nat n.
(* two's complement reading of an n-limb vector *)
Definition svalue (l : list Z) : Z :=
  let v := value l in let m := modulus (length l) in if v <? m / 2 then v else v - m.
Definition wrapS (m x : Z) : Z := (x + m / 2) mod m - m / 2.

(* ferret_zero_limbs *)
Definition zeros (n : nat) : list Z := repeat 0 n.

(* ferret_is_zero_limbs *)
Fixpoint is_zero (v : list Z) : bool :=
  match v with [] => true | x :: r => if x =? 0 then is_zero r else false end.

(* ferret_is_negative_limbs:  ((v[n-1] >> 63) & 1) != 0 *)
Definition is_negative (v : list Z) : bool := Z.odd (Z.shiftr (last v 0) 63).

(* ferret_cmp_u_limbs: the C loop runs from the top limb down and returns at the first difference; on a
   little-endian list that is "the verdict of the higher limbs wins, else compare this limb". *)
Fixpoint cmp_u (a b : list Z) : Z :=
  match a, b with
  | x :: a', y :: b' =>
      let c := cmp_u a' b' in
      if c =? 0 then (if x <? y then -1 else if x >? y then 1 else 0) else c
  | _, _ => 0
  end.

(* ferret_cmp_s_limbs *)
Definition cmp_s (a b : list Z) : Z :=
  let na := is_negative a in let nb := is_negative b in
  if Bool.eqb na nb then cmp_u a b else if na then -1 else 1.

(* ferret_add_limbs: wide sum, carry = sum >> 64 *)
Fixpoint add_limbs_c (a b : list Z) (carry : Z) : list Z :=
  match a, b with
  | x :: a', y :: b' => let sum := x + y + carry in (sum mod B) :: add_limbs_c a' b' (sum / B)
  | _, _ => []
  end.
Definition add_limbs (a b : list Z) : list Z := add_limbs_c a b 0.

(* ferret_sub_limbs as found in the tree:  bi = b[i] + borrow (wraps);  borrow = a[i] < bi;  out = a[i] - bi *)
Fixpoint sub_limbs_orig_c (a b : list Z) (borrow : Z) : list Z :=
  match a, b with
  | x :: a', y :: b' =>
      let bi := (y + borrow) mod B in
      let borrow' := if x <? bi then 1 else 0 in
      ((x - bi) mod B) :: sub_limbs_orig_c a' b' borrow'
  | _, _ => []
  end.
Definition sub_limbs_orig (a b : list Z) : list Z := sub_limbs_orig_c a b 0.

(* ferret_sub_limbs, repaired:  borrow = (a[i] < bi || bi < borrow) *)
Fixpoint sub_limbs_c (a b : list Z) (borrow : Z) : list Z :=
  match a, b with
  | x :: a', y :: b' =>
      let bi := (y + borrow) mod B in
      let borrow' := if (x <? bi) || (bi <? borrow) then 1 else 0 in
      ((x - bi) mod B) :: sub_limbs_c a' b' borrow'
  | _, _ => []
  end.
Definition sub_limbs (a b : list Z) : list Z := sub_limbs_c a b 0.

(* ferret_negate_limbs:  inv = ~v[i];  sum = inv + carry (wraps);  carry = sum < inv *)
Fixpoint negate_c (v : list Z) (carry : Z) : list Z :=
  match v with
  | [] => []
  | x :: r =>
      let inv := LMAX - x in
      let sum := (inv + carry) mod B in
      sum :: negate_c r (if sum <? inv then 1 else 0)
  end.
Definition negate_limbs (v : list Z) : list Z := negate_c v 1.

(* ferret_abs_limbs: (magnitude, was negative) *)
Definition abs_limbs (v : list Z) : list Z * bool :=
  let neg := is_negative v in ((if neg then negate_limbs v else v), neg).

(* ferret_mul_limbs, inner loop for one a[i]: runs over out[i..n-1] and b[0..n-i-1] *)
Fixpoint mul_row (ai : Z) (b out : list Z) (carry : Z) : list Z :=
  match out, b with
  | o :: out', y :: b' => let sum := ai * y + o + carry in (sum mod B) :: mul_row ai b' out' (sum / B)
  | _, _ => out
  end.
(* outer loop: `out` is the not yet finished suffix out[i..n-1] *)
Fixpoint mul_go (a b out : list Z) : list Z :=
  match a with
  | [] => out
  | x :: a' =>
      match mul_row x b out 0 with
      | [] => []
      | o :: rest => o :: mul_go a' b rest
      end
  end.
Definition mul_limbs (a b : list Z) : list Z := mul_go a b (zeros (length a)).

Definition nthZ (l : list Z) (i : Z) : Z := nth (Z.to_nat i) l 0.
Definition idxs (n : nat) : list Z := map Z.of_nat (seq 0 n).

(* ferret_shift_left_limbs *)
Definition shift_left_limbs (a : list Z) (shift : Z) : list Z :=
  let n := length a in
  if shift <=? 0 then a
  else if shift >=? Z.of_nat n * 64 then zeros n
  else
    let ws := shift / 64 in let bs := shift mod 64 in
    map (fun i =>
           let src := i - ws in
           if src <? 0 then 0
           else
             let val := (nthZ a src * 2 ^ bs) mod B in
             if negb (bs =? 0) && (src >? 0)
             then Z.lor val (nthZ a (src - 1) / 2 ^ (64 - bs))
             else val) (idxs n).

(* ferret_shift_right_limbs *)
Definition shift_right_limbs (a : list Z) (shift : Z) : list Z :=
  let n := length a in
  if shift <=? 0 then a
  else if shift >=? Z.of_nat n * 64 then zeros n
  else
    let ws := shift / 64 in let bs := shift mod 64 in
    map (fun i =>
           let src := i + ws in
           if src >=? Z.of_nat n then 0
           else
             let val := nthZ a src / 2 ^ bs in
             if negb (bs =? 0) && (src + 1 <? Z.of_nat n)
             then Z.lor val ((nthZ a (src + 1) * 2 ^ (64 - bs)) mod B)
             else val) (idxs n).

(* ferret_shift_right_signed_limbs, repaired: returns after the copy when shift <= 0
   (fixes/C16-shr-negative-count.patch; the code as found shifts a limb by 64 - shift%64 > 64 bits and writes out[n]) *)
Definition shift_right_signed_limbs (a : list Z) (shift : Z) : list Z :=
  let n := length a in let nz := Z.of_nat n in
  let out := shift_right_limbs a shift in
  if (shift <=? 0) || negb (is_negative a) then out
  else if shift >=? nz * 64 then repeat LMAX n
  else
    let ws := shift / 64 in let bs := shift mod 64 in
    map (fun i =>
           let o := nthZ out i in
           let o1 := if (i >=? nz - ws) then LMAX else o in      (* for (i = n-1; i >= n - ws; i--) *)
           if negb (bs =? 0) && (i =? nz - 1 - ws)
           then Z.lor o1 ((LMAX * 2 ^ (64 - bs)) mod B) else o1) (idxs n).

(* ferret_get_bit_limbs *)
Definition get_bit (v : list Z) (bit : Z) : bool := Z.odd (nthZ v (bit / 64) / 2 ^ (bit mod 64)).

(* ferret_set_bit_limbs *)
Definition set_bit (v : list Z) (bit : Z) : list Z :=
  map (fun i => if i =? bit / 64 then Z.lor (nthZ v i) (2 ^ (bit mod 64)) else nthZ v i) (idxs (length v)).

(* the inner loop of ferret_div_mod_u_limbs: rem <<= 1 across limbs *)
Fixpoint shl1_c (rem : list Z) (carry : Z) : list Z :=
  match rem with
  | [] => []
  | r :: t => Z.lor ((r * 2) mod B) carry :: shl1_c t (r / 2 ^ 63)
  end.
Definition or_low1 (rem : list Z) : list Z :=
  match rem with [] => [] | r :: t => Z.lor r 1 :: t end.

(* ferret_div_mod_u_limbs main loop: bits k-1 .. 0 remain *)
Fixpoint divmod_go (k : nat) (numer denom quot rem : list Z) : list Z * list Z :=
  match k with
  | O => (quot, rem)
  | S k' =>
      let bit := Z.of_nat k' in
      let rem1 := shl1_c rem 0 in
      let rem2 := if get_bit numer bit then or_low1 rem1 else rem1 in
      if cmp_u rem2 denom >=? 0
      then divmod_go k' numer denom (set_bit quot bit) (sub_limbs rem2 denom)
      else divmod_go k' numer denom quot rem2
  end.
(* ferret_div_mod_u_limbs: (ok, quot, rem) *)
Definition div_mod_u (numer denom : list Z) : bool * list Z * list Z :=
  let n := length numer in
  if is_zero denom then (false, zeros n, zeros n)
  else let '(q, r) := divmod_go (n * 64) numer denom (zeros n) (zeros n) in (true, q, r).

Fixpoint list_eqb (a b : list Z) : bool :=
  match a, b with
  | [], [] => true
  | x :: a', y :: b' => (x =? y) && list_eqb a' b'
  | _, _ => false
  end.

(* ---- exported arithmetic: unsigned *)
Definition u_add := add_limbs.
Definition u_sub := sub_limbs.
Definition u_mul := mul_limbs.
Definition u_div (a b : list Z) : list Z := let '(ok, q, _) := div_mod_u a b in if ok then q else zeros (length a).
Definition u_mod (a b : list Z) : list Z := let '(ok, _, r) := div_mod_u a b in if ok then r else zeros (length a).
Definition limbs_eqb (a b : list Z) : bool := list_eqb a b.        (* memcmp == 0 *)
Definition u_lt (a b : list Z) : bool := cmp_u a b <? 0.
Definition u_gt (a b : list Z) : bool := cmp_u a b >? 0.

(* ---- exported arithmetic: signed : ferret_i128_mul/div/mod and the i256 twins *)
Definition s_mul (a b : list Z) : list Z :=
  let '(am, na) := abs_limbs a in let '(bm, nb) := abs_limbs b in
  let mag := mul_limbs am bm in
  if negb (Bool.eqb na nb) then negate_limbs mag else mag.
Definition s_div (a b : list Z) : list Z :=
  let '(am, na) := abs_limbs a in let '(bm, nb) := abs_limbs b in
  let '(ok, q, _) := div_mod_u am bm in
  let q := if ok then q else zeros (length a) in
  if negb (Bool.eqb na nb) then negate_limbs q else q.
Definition s_mod (a b : list Z) : list Z :=
  let '(am, na) := abs_limbs a in let '(bm, nb) := abs_limbs b in
  let '(ok, _, r) := div_mod_u am bm in
  let r := if ok then r else zeros (length a) in
  if na then negate_limbs r else r.
Definition s_lt (a b : list Z) : bool := cmp_s a b <? 0.
Definition s_gt (a b : list Z) : bool := cmp_s a b >? 0.

(* ferret_shr1_limbs *)
Fixpoint shr1_limbs (v : list Z) : list Z :=
  match v with
  | [] => []
  | x :: t =>
      match t with
      | [] => [x / 2]
      | y :: _ => Z.lor (x / 2) ((y * 2 ^ 63) mod B) :: shr1_limbs t
      end
  end.
Definition is_odd (v : list Z) : bool := Z.odd (hd 0 v).

(* ferret_limbs_from_u64 / ferret_limbs_from_i64 (val = the 64-bit pattern) *)
Definition from_u64 (n : nat) (val : Z) : list Z :=
  match n with O => [] | S m => val :: zeros m end.
Definition from_i64 (n : nat) (val : Z) : list Z :=
  match n with O => [] | S m => val :: repeat (if val >=? 2 ^ 63 then LMAX else 0) m end.
(* ferret_limbs_to_u64 (limit = 1 limb) *)
Definition to_u64 (v : list Z) : Z := hd 0 v.

(* binary exponentiation loop of ferret_*_pow; None = out of fuel *)
Fixpoint pow_go (fuel : nat) (mul : list Z -> list Z -> list Z) (base exp result : list Z) : option (list Z) :=
  if is_zero exp then Some result
  else match fuel with
       | O => None
       | S f =>
           let result' := if is_odd exp then mul result base else result in
           pow_go f mul (mul base base) (shr1_limbs exp) result'
       end.
Definition pow_fuel (n : nat) : nat := S (n * 64).
Definition u_pow (base exp : list Z) : option (list Z) :=
  let n := length base in pow_go (pow_fuel n) u_mul base exp (from_u64 n 1).
Definition s_pow (base exp : list Z) : option (list Z) :=
  let n := length base in
  if cmp_s exp (zeros n) <? 0 then Some (zeros n)
  else pow_go (pow_fuel n) s_mul base exp (from_i64 n 1).

(* bitwise *)
Fixpoint map2 (f : Z -> Z -> Z) (a b : list Z) : list Z :=
  match a, b with x :: a', y :: b' => f x y :: map2 f a' b' | _, _ => [] end.
Definition and_limbs := map2 Z.land.
Definition or_limbs := map2 Z.lor.
Definition xor_limbs := map2 Z.lxor.
Definition not_limbs (a : list Z) : list Z := map (fun x => LMAX - x) a.

(* ---- decimal text.  Strings are lists of byte codes. *)

(* ferret_div_small_limbs: top limb first; (quotient limbs, remainder) *)
Fixpoint div_small (v : list Z) (d : Z) : list Z * Z :=
  match v with
  | [] => ([], 0)
  | x :: t =>
      let '(qt, rem) := div_small t d in
      let acc := rem * B + x in
      ((acc / d) mod B :: qt, acc mod d)
  end.

(* the digit loop of ferret_limbs_to_decimal; `acc` collects digits, most significant first at the end.
   fuel = 80 = sizeof digits: None means the C code would write past the buffer. *)
Fixpoint to_decimal_go (fuel : nat) (work acc : list Z) : option (list Z) :=
  if is_zero work then Some acc
  else match fuel with
       | O => None
       | S f => let '(q, r) := div_small work 10 in to_decimal_go f q ((48 + r) :: acc)
       end.
(* ferret_limbs_to_decimal *)
Definition to_decimal (v : list Z) : option (list Z) :=
  if is_zero v then Some [48] else to_decimal_go 80 v [].
(* ferret_u*_to_string / ferret_i*_to_string *)
Definition u_to_string := to_decimal.
Definition s_to_string (v : list Z) : option (list Z) :=
  if negb (is_negative v) then to_decimal v
  else match to_decimal (fst (abs_limbs v)) with Some d => Some (45 :: d) | None => None end.

(* ferret_digit_value *)
Definition digit_value (c : Z) : Z :=
  if (48 <=? c) && (c <=? 57) then c - 48
  else if (97 <=? c) && (c <=? 102) then 10 + (c - 97)
  else if (65 <=? c) && (c <=? 70) then 10 + (c - 65)
  else -1.
(* isspace in the C locale *)
Definition is_space (c : Z) : bool := (c =? 32) || ((9 <=? c) && (c <=? 13)).
(* ferret_skip_space *)
Fixpoint skip_space (s : list Z) : list Z :=
  match s with c :: r => if is_space c then skip_space r else s | [] => [] end.
(* ferret_parse_base: (base, rest) *)
Definition parse_base (s : list Z) : Z * list Z :=
  match s with
  | 48 :: next :: r =>
      if (next =? 120) || (next =? 88) then (16, r)
      else if (next =? 111) || (next =? 79) then (8, r)
      else if (next =? 98) || (next =? 66) then (2, r)
      else (10, s)
  | _ => (10, s)
  end.
(* ferret_mul_add_small *)
Fixpoint mul_add_small (v : list Z) (base carry : Z) : list Z :=
  match v with
  | [] => []
  | x :: t => let prod := x * base + carry in (prod mod B) :: mul_add_small t base (prod / B)
  end.
(* digit loop of ferret_parse_uint: (out, any) *)
Fixpoint parse_digits (s : list Z) (base : Z) (out : list Z) (any : bool) : list Z * bool :=
  match s with
  | [] => (out, any)
  | c :: r =>
      if c =? 95 then parse_digits r base out any
      else let d := digit_value c in
           if (d <? 0) || (d >=? base) then (out, any)
           else parse_digits r base (mul_add_small out base d) true
  end.
(* ferret_parse_uint: (ok, out, neg) *)
Definition parse_uint (str : list Z) (allow_sign : bool) (n : nat) : bool * list Z * bool :=
  let s := skip_space str in
  let '(neg, s) := match s with
                   | c :: r => if (c =? 43) || (c =? 45) then (c =? 45, r) else (false, s)
                   | [] => (false, s)
                   end in
  if neg && negb allow_sign then (false, zeros n, false)
  else
    let '(base, s) := parse_base s in
    let '(out, any) := parse_digits s base (zeros n) false in
    (any, out, neg).
(* ferret_i*_from_string / ferret_u*_from_string *)
Definition s_from_string (n : nat) (str : list Z) : list Z :=
  let '(ok, out, neg) := parse_uint str true n in
  if negb ok then zeros n else if neg then negate_limbs out else out.
Definition u_from_string (n : nat) (str : list Z) : list Z :=
  let '(ok, out, _) := parse_uint str false n in
  if negb ok then zeros n else out.

(* ---- evaluation of correspondence cases (harness/c16.py) *)
Inductive opc := OAdd | OSub | OMul | ODiv | OMod | OAnd | OOr | OXor | OPow | OEq | OLt | OGt | ONot
               | OShl | OShr | OFrom64 | OTo64 | OToStr | OFromStr.

Definition b2l (b : bool) : list Z := [if b then 1 else 0].

(* sg = signed type; n = limb count; a, b = operand limb vectors (shift count / 64-bit pattern / text bytes
   travel in the same lists); the result is a limb vector, [0|1], [64-bit pattern] or text bytes. *)
Definition run_op (sg : bool) (n : nat) (op : opc) (a b : list Z) : option (list Z) :=
  match op with
  | OAdd => Some (add_limbs a b)
  | OSub => Some (sub_limbs a b)
  | OMul => Some (if sg then s_mul a b else u_mul a b)
  | ODiv => Some (if sg then s_div a b else u_div a b)
  | OMod => Some (if sg then s_mod a b else u_mod a b)
  | OAnd => Some (and_limbs a b)
  | OOr => Some (or_limbs a b)
  | OXor => Some (xor_limbs a b)
  | OPow => if sg then s_pow a b else u_pow a b
  | OEq => Some (b2l (limbs_eqb a b))
  | OLt => Some (b2l (if sg then s_lt a b else u_lt a b))
  | OGt => Some (b2l (if sg then s_gt a b else u_gt a b))
  | ONot => Some (not_limbs a)
  | OShl => Some (shift_left_limbs a (hd 0 b))
  | OShr => Some (if sg then shift_right_signed_limbs a (hd 0 b) else shift_right_limbs a (hd 0 b))
  | OFrom64 => Some (if sg then from_i64 n (hd 0 a) else from_u64 n (hd 0 a))
  | OTo64 => Some [to_u64 a]
  | OToStr => if sg then s_to_string a else u_to_string a
  | OFromStr => Some (if sg then s_from_string n a else u_from_string n a)
  end.

Definition case := (Z * (bool * nat) * opc * list Z * list Z * list Z)%type.
Definition check_case (c : case) : bool :=
  let '(_, (sg, n), op, a, b, obs) := c in
  match run_op sg n op a b with Some r => list_eqb r obs | None => false end.
Definition bad_ids (cs : list case) : list Z :=
  map (fun c => let '(id, _, _, _, _, _) := c in id) (filter (fun c => negb (check_case c)) cs).
