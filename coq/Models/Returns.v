(* C05 — port of internal/hir/analysis/cfg.go (CFG construction + AllPathsReturn) and of the choice of analysed
   bodies in analyzer.go, for the tree WITH fixes/C05-*.patch applied:
     - buildMatch adds the edge current -> merge when no arm is a default (`_`) arm            (C05-match-default)
     - function literals are analysed like declarations (analyzeFuncLit)                       (C05-funclit)
     - the type checker rejects `return;` in a function whose result type is not void          (C05-bare-return)
   Definitions only.  Blocks are numbered as CFGBuilder.blockCounter does (entry = 1, exit = 2); the graph is the
   list of edges in the order addEdge is called plus the list of blocks whose Returns flag is set.
   Folded invariant of the Go code: a non-nil `current` always has CanFallThru = true (the flag is cleared only by
   buildReturn/buildBreak/buildContinue, which return nil), so `x != nil && x.CanFallThru` is ported as `x != nil`.
   BasicBlock.Reachable / Predecessors / Nodes / Location are not read by AllPathsReturn and are not ported,
   except mergeBlock.Reachable in buildMatch, which is the boolean `reach` threaded through build_arms. *)
From Coq Require Import List Bool Arith.
Import ListNotations.

(* ---- statements as cfg.go sees them (buildNode's type switch) ---- *)
Inductive stmt :=
| SSimple                                  (* DeclStmt / assignment / expression statement: `default` case *)
| SReturn (has_value : bool)               (* hir.ReturnStmt; has_value = false is `return;` *)
| SBreak
| SContinue
| SIf (i : ifs)
| SWhile (lit_true : bool) (body : block)  (* lit_true = isLiteralTrue(stmt.Cond) *)
| SFor (body : block)
| SMatch (a : arms)
| SBlock (b : block)
with block := BNil | BCons (s : stmt) (b : block)
with ifs := IfS (thn : block) (e : els)
with els := ENone | EBlock (b : block) | EIf (i : ifs)      (* `else if` is an IfStmt in stmt.Else *)
with arms := ANil | ACons (is_default : bool) (b : block) (a : arms).   (* is_default = (clause.Pattern == nil) *)

Inductive position := PFunc | PMethod | PFuncLit.

(* ---- builder state: CFGBuilder + the graph + diagnostics counters ---- *)
Record st := mkst {
  nblk : nat;                    (* blockCounter *)
  edges : list (nat * nat);      (* addEdge(from, to), in call order *)
  rets : list nat;               (* blocks with Returns = true *)
  n_unreach : nat;               (* "unreachable code" diagnostics *)
  n_infloop : nat;               (* "infinite loop without escape" diagnostics (while true, no break/return) *)
  n_outside : nat;               (* "break/continue statement outside loop" diagnostics *)
  lbrk : bool;                   (* currentLoop.hasBreak *)
  lret : bool                    (* currentLoop.hasReturn *)
}.

Definition ENTRY : nat := 1.
Definition EXIT : nat := 2.

Definition st0 : st := mkst 2 [] [] 0 0 0 false false.     (* BuildFunctionCFG: Entry = newBlock(), Exit = newBlock() *)

Definition new_block (s : st) : nat * st :=
  (S (nblk s), mkst (S (nblk s)) (edges s) (rets s) (n_unreach s) (n_infloop s) (n_outside s) (lbrk s) (lret s)).
Definition add_edge (a b : nat) (s : st) : st :=
  mkst (nblk s) (edges s ++ [(a, b)]) (rets s) (n_unreach s) (n_infloop s) (n_outside s) (lbrk s) (lret s).
Definition mark_ret (c : nat) (s : st) : st :=
  mkst (nblk s) (edges s) (c :: rets s) (n_unreach s) (n_infloop s) (n_outside s) (lbrk s) (lret s).
Definition diag_unreach (s : st) : st :=
  mkst (nblk s) (edges s) (rets s) (S (n_unreach s)) (n_infloop s) (n_outside s) (lbrk s) (lret s).
Definition diag_infloop (s : st) : st :=
  mkst (nblk s) (edges s) (rets s) (n_unreach s) (S (n_infloop s)) (n_outside s) (lbrk s) (lret s).
Definition diag_outside (s : st) : st :=
  mkst (nblk s) (edges s) (rets s) (n_unreach s) (n_infloop s) (S (n_outside s)) (lbrk s) (lret s).
Definition set_flags (hb hr : bool) (s : st) : st :=
  mkst (nblk s) (edges s) (rets s) (n_unreach s) (n_infloop s) (n_outside s) hb hr.

(* addEdge(x, to) guarded by `x != nil` *)
Definition edge_from (x : option nat) (b : nat) (s : st) : st :=
  match x with Some a => add_edge a b s | None => s end.

Definition is_some {A} (x : option A) : bool := match x with Some _ => true | None => false end.

(* loop context: (breakTarget, continueTarget); None = b.currentLoop == nil *)
Definition loopctx := option (nat * nat).

Definition block_nonempty (b : block) : bool := match b with BNil => false | BCons _ _ => true end.

Fixpoint has_default (a : arms) : bool :=
  match a with ANil => false | ACons d _ a' => d || has_default a' end.

(* buildNode / buildBlock / buildIf / buildMatch's loop.  `c` is the (non-nil) current block. *)
Fixpoint build_stmt (s : stmt) (t : st) (c : nat) (L : loopctx) {struct s} : st * option nat :=
  match s with
  | SSimple => (t, Some c)
  | SReturn _ =>
      (* buildNode: if b.currentLoop != nil { hasReturn = true };  buildReturn *)
      let t := match L with Some _ => set_flags (lbrk t) true t | None => t end in
      (add_edge c EXIT (mark_ret c t), None)
  | SBreak =>
      match L with
      | None => (diag_outside t, Some c)
      | Some (brk, _) => (add_edge c brk (set_flags true (lret t) t), None)
      end
  | SContinue =>
      match L with
      | None => (diag_outside t, Some c)
      | Some (_, cont) => (add_edge c cont t, None)
      end
  | SIf i => build_ifs i t c L
  | SWhile lt body =>
      let '(header, t) := new_block t in
      let t := add_edge c header t in
      let '(bodyb, t) := new_block t in
      let t := add_edge header bodyb t in
      let '(after, t) := new_block t in
      let t := if lt then t else add_edge header after t in
      let ob := lbrk t in let or := lret t in
      let t := set_flags false false t in
      let '(t, ab) := build_block body t bodyb (Some (after, header)) in
      let hb := lbrk t in let hr := lret t in
      let t := edge_from ab header t in
      let t := set_flags ob or t in
      let t := if negb hb && negb hr && lt then diag_infloop t else t in
      (t, Some after)
  | SFor body =>
      let '(header, t) := new_block t in
      let t := add_edge c header t in
      let '(bodyb, t) := new_block t in
      let t := add_edge header bodyb t in
      let '(after, t) := new_block t in
      let t := add_edge header after t in
      let ob := lbrk t in let or := lret t in
      let t := set_flags false false t in
      let '(t, ab) := build_block body t bodyb (Some (after, header)) in
      let t := edge_from ab header t in
      let t := set_flags ob or t in
      (t, Some after)
  | SMatch a =>
      let '(merge, t) := new_block t in
      let '(t, reach) := build_arms a t c L merge false in
      (* fixes/C05-match-default.patch: no default arm -> control may skip every arm *)
      let '(t, reach) := if has_default a then (t, reach) else (add_edge c merge t, true) in
      (t, if reach then Some merge else None)
  | SBlock b => build_block b t c L
  end
with build_block (b : block) (t : st) (c : nat) (L : loopctx) {struct b} : st * option nat :=
  match b with
  | BNil => (t, Some c)
  | BCons s rest =>
      let '(t, c1) := build_stmt s t c L in
      match c1 with
      | Some d => build_block rest t d L
      | None => ((if block_nonempty rest then diag_unreach t else t), None)   (* reportUnreachableCodeRange, once *)
      end
  end
with build_ifs (i : ifs) (t : st) (c : nat) (L : loopctx) {struct i} : st * option nat :=
  match i with
  | IfS thn e =>
      let '(ifb, t) := new_block t in
      let t := add_edge c ifb t in
      let '(t, after_if) := build_block thn t ifb L in
      match e with
      | ENone =>
          let '(merge, t) := new_block t in
          let t := edge_from after_if merge t in
          let t := add_edge c merge t in
          (t, Some merge)
      | _ =>
          let '(elseb, t) := new_block t in
          let t := add_edge c elseb t in
          let '(t, after_else) := build_els e t elseb L in
          let '(merge, t) := new_block t in
          let t := edge_from after_if merge t in
          let t := edge_from after_else merge t in
          (t, if is_some after_if || is_some after_else then Some merge else None)
      end
  end
with build_els (e : els) (t : st) (c : nat) (L : loopctx) {struct e} : st * option nat :=
  match e with
  | ENone => (t, Some c)                       (* not called *)
  | EBlock b => build_block b t c L
  | EIf i => build_ifs i t c L
  end
with build_arms (a : arms) (t : st) (c : nat) (L : loopctx) (merge : nat) (reach : bool) {struct a} : st * bool :=
  match a with
  | ANil => (t, reach)
  | ACons _ body a' =>
      let '(caseb, t) := new_block t in
      let t := add_edge c caseb t in
      let '(t, after_case) := build_block body t caseb L in
      let t := edge_from after_case merge t in
      build_arms a' t c L merge (reach || is_some after_case)
  end.

(* BuildFunctionCFG *)
Definition build_function (body : block) : st :=
  let '(t, cur) := build_block body st0 ENTRY None in
  edge_from cur EXIT t.

(* ---- AllPathsReturn / canReachExitWithoutReturn: the recursion over Successors with a visited set, written with an
   explicit stack (same visiting order, same answer); fuel = #edges + 2 pops suffice (every pop is either of a
   visited block or expands a block once).  None = out of fuel, treated as "not all paths return". ---- *)
Definition mem (x : nat) (l : list nat) : bool := existsb (Nat.eqb x) l.

Definition succs (t : st) (x : nat) : list nat :=
  map snd (filter (fun e => Nat.eqb (fst e) x) (edges t)).

Fixpoint dfs (fuel : nat) (t : st) (stack visited : list nat) : option bool :=
  match fuel with
  | O => None
  | S f =>
      match stack with
      | [] => Some false
      | x :: rest =>
          if mem x visited then dfs f t rest visited
          else if Nat.eqb x EXIT then Some true
          else if mem x (rets t) then dfs f t rest (x :: visited)
          else dfs f t (succs t x ++ rest) (x :: visited)
      end
  end.

Definition can_reach_exit_without_return (t : st) : option bool :=
  dfs (length (edges t) + 2) t [ENTRY] [].

Definition all_paths_return (t : st) : bool :=
  match can_reach_exit_without_return t with Some false => true | _ => false end.

(* ---- which bodies are analysed (analyzer.go AnalyzeModule + fixes/C05-funclit.patch) ---- *)
Definition analysed (p : position) : bool :=
  match p with PFunc => true | PMethod => true | PFuncLit => true end.

(* type checker, ReturnStmt with Result == nil in a non-void function (fixes/C05-bare-return.patch): one diagnostic each *)
Fixpoint bare_stmt (s : stmt) : nat :=
  match s with
  | SReturn false => 1
  | SIf i => bare_ifs i
  | SWhile _ b => bare_block b
  | SFor b => bare_block b
  | SMatch a => bare_arms a
  | SBlock b => bare_block b
  | _ => 0
  end
with bare_block (b : block) : nat :=
  match b with BNil => 0 | BCons s r => bare_stmt s + bare_block r end
with bare_ifs (i : ifs) : nat :=
  match i with IfS t e => bare_block t + bare_els e end
with bare_els (e : els) : nat :=
  match e with ENone => 0 | EBlock b => bare_block b | EIf i => bare_ifs i end
with bare_arms (a : arms) : nat :=
  match a with ANil => 0 | ACons _ b a' => bare_block b + bare_arms a' end.

(* the diagnostics a non-void function/method/function literal with this body gets *)
Record verdict := mkv {
  v_missing : bool;        (* "not all code paths in function ... return a value" *)
  v_unreach : nat; v_infloop : nat; v_outside : nat;
  v_bare : nat             (* "missing return value" *)
}.

Definition check_body (p : position) (body : block) : verdict :=
  if analysed p then
    let t := build_function body in
    mkv (negb (all_paths_return t)) (n_unreach t) (n_infloop t) (n_outside t) (bare_block body)
  else mkv false 0 0 0 (bare_block body).

Definition accepted (p : position) (body : block) : bool :=
  let v := check_body p body in
  analysed p && negb (v_missing v) && Nat.eqb (v_unreach v) 0 && Nat.eqb (v_infloop v) 0 && Nat.eqb (v_outside v) 0
  && Nat.eqb (v_bare v) 0.

(* ---- specification: path semantics over abstract guard outcomes.  Every condition, every match scrutinee and every
   loop count is unconstrained: an outcome is possible iff some assignment of guard outcomes produces it. ---- *)
Inductive outcome := ONormal | OReturn (has_value : bool) | OBreak | OContinue.

Inductive run_stmt : stmt -> outcome -> Prop :=
| RSimple : run_stmt SSimple ONormal
| RReturn v : run_stmt (SReturn v) (OReturn v)
| RBreak : run_stmt SBreak OBreak
| RContinue : run_stmt SContinue OContinue
| RIf i o : run_ifs i o -> run_stmt (SIf i) o
| RWhile lt b o : run_loop lt b o -> run_stmt (SWhile lt b) o
| RFor b o : run_loop false b o -> run_stmt (SFor b) o
| RMatchArm a o : run_arms a o -> run_stmt (SMatch a) o
| RMatchNone a : has_default a = false -> run_stmt (SMatch a) ONormal      (* no arm matches, no `_` *)
| RBlock b o : run_block b o -> run_stmt (SBlock b) o
with run_block : block -> outcome -> Prop :=
| RNil : run_block BNil ONormal
| RConsNext s b o : run_stmt s ONormal -> run_block b o -> run_block (BCons s b) o
| RConsStop s b o : run_stmt s o -> o <> ONormal -> run_block (BCons s b) o
with run_ifs : ifs -> outcome -> Prop :=
| RThen t e o : run_block t o -> run_ifs (IfS t e) o
| RNoElse t : run_ifs (IfS t ENone) ONormal
| RElse t b o : run_block b o -> run_ifs (IfS t (EBlock b)) o
| RElseIf t i o : run_ifs i o -> run_ifs (IfS t (EIf i)) o
with run_arms : arms -> outcome -> Prop :=
| RArmHere d b a o : run_block b o -> run_arms (ACons d b a) o
| RArmLater d b a o : run_arms a o -> run_arms (ACons d b a) o
with run_loop : bool -> block -> outcome -> Prop :=
| RLoopCondFalse b : run_loop false b ONormal                       (* only when the condition is not literally true *)
| RLoopBreak lt b : run_block b OBreak -> run_loop lt b ONormal
| RLoopReturn lt b v : run_block b (OReturn v) -> run_loop lt b (OReturn v)
| RLoopAgainN lt b o : run_block b ONormal -> run_loop lt b o -> run_loop lt b o      (* any number of iterations *)
| RLoopAgainC lt b o : run_block b OContinue -> run_loop lt b o -> run_loop lt b o.

(* a call that returns at all returns a value computed by a `return <expr>` statement *)
Definition returns_value_always (body : block) : Prop :=
  forall o, run_block body o -> o = OReturn true.

(* the end of the body can be reached without returning *)
Definition falls_off (body : block) : Prop := run_block body ONormal.

(* ---- correspondence driver: cases carry the implementation's observed diagnostics ---- *)
From Coq Require Import ZArith.
Record case := mkcase { c_id : Z; c_pos : position; c_body : block;
                        o_missing : bool; o_unreach : nat; o_infloop : nat; o_outside : nat; o_bare : nat }.

Definition case_ok (c : case) : bool :=
  let v := check_body (c_pos c) (c_body c) in
  Bool.eqb (v_missing v) (o_missing c) && Nat.eqb (v_unreach v) (o_unreach c) && Nat.eqb (v_infloop v) (o_infloop c)
  && Nat.eqb (v_outside v) (o_outside c) && Nat.eqb (v_bare v) (o_bare c).

Definition bad_ids (cs : list case) : list Z :=
  map c_id (filter (fun c => negb (case_ok c)) cs).

(* the model's own verdicts, for diagnosis of a disagreement *)
Definition verdict_of (c : case) : Z * (bool * nat * nat * nat * nat) :=
  let v := check_body (c_pos c) (c_body c) in (c_id c, (v_missing v, v_unreach v, v_infloop v, v_outside v, v_bare v)).
