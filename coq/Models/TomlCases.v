(* C20 — instantiation of Models/Toml.v used by the correspondence check (definitions only, no theorem depends on it).
   Byte strings arrive packed 7 bytes per primitive 63-bit integer (little endian) because Coq parses such literals
   ~15x faster than lists of Z numerals. *)
From Coq Require Import ZArith List Bool Uint63.
From FV Require Import Models.Toml.
Import ListNotations.
Open Scope Z_scope.

Fixpoint unpack1 (n : nat) (x : int) : bytes :=
  match n with O => [] | S k => Uint63.to_Z (Uint63.land x 255%uint63) :: unpack1 k (Uint63.lsr x 8%uint63) end.

Arguments unpack1 _%nat _%uint63.

(* pk n [x1; ...; xk] : every xi holds 7 bytes, the last one holds n (1..7) *)
Fixpoint pk (nlast : nat) (l : list int) : bytes :=
  match l with
  | [] => []
  | [x] => unpack1 nlast x
  | x :: r => unpack1 7 x ++ pk nlast r
  end.

(*    F := Z (the 64 IEEE bits); fmt_f / parse_f are finite tables produced by strconv on exactly the floats / texts
   the cases use. *)

Arguments pk _%nat _%uint63.

Definition tbl_fmt (t : list (Z * bytes)) (x : Z) : bytes :=
  match find (fun p => fst p =? x) t with Some p => snd p | None => [] end.
Definition tbl_parse (t : list (bytes * option Z)) (s : bytes) : option Z :=
  match assoc s t with Some r => r | None => None end.

Definition value_eqb (x y : value Z) : bool :=
  match x, y with
  | VStr s, VStr s' => beq s s'
  | VBool p, VBool q => Bool.eqb p q
  | VInt i, VInt j => i =? j
  | VFloat f, VFloat g => f =? g
  | _, _ => false
  end.

Definition opt_eqb {A} (e : A -> A -> bool) (x y : option A) : bool :=
  match x, y with Some p, Some q => e p q | None, None => true | _, _ => false end.

(* equality as maps (both sides have distinct keys: model by construction, expectation from a Go map) *)
Definition table_eqb (t u : table Z) : bool :=
  (Nat.eqb (List.length t) (List.length u)) && forallb (fun kv => opt_eqb value_eqb (assoc (fst kv) u) (Some (snd kv))) t.
Definition data_eqb (d e : data Z) : bool :=
  (Nat.eqb (List.length d) (List.length e)) && forallb (fun st => opt_eqb table_eqb (assoc (fst st) e) (Some (snd st))) d.

(* a parse case: id, file content, what the implementation returned (None = "invalid line" error) *)
Definition pcase := (Z * bytes * option (data Z))%type.
Definition pcase_ok (pt : list (bytes * option Z)) (c : pcase) : bool :=
  let '(_, f, e) := c in opt_eqb data_eqb (parse_file Z (tbl_parse pt) f) e.

(* a write case: id, data in the order the implementation iterated, comments, the file the implementation wrote *)
Definition wcase := (Z * data Z * list (bytes * list (bytes * bytes)) * bytes)%type.
Definition cm_of (l : list (bytes * list (bytes * bytes))) : comments :=
  fun s k => match assoc s l with Some t => assoc k t | None => None end.
Definition wcase_ok (ft : list (Z * bytes)) (c : wcase) : bool :=
  let '(_, d, cm, f) := c in beq (write Z (tbl_fmt ft) (cm_of cm) d) f.

Definition bad_ids (ft : list (Z * bytes)) (pt : list (bytes * option Z)) (ws : list wcase) (ps : list pcase) : list Z :=
  List.map (fun c : wcase => let '(i, _, _, _) := c in i) (filter (fun c => negb (wcase_ok ft c)) ws)
  ++ List.map (fun c : pcase => let '(i, _, _) := c in i) (filter (fun c => negb (pcase_ok pt c)) ps).

(* pass 1 of the correspondence: the texts on which the parser consults ParseFloat (F := bytes, every query answers
   with its own text) *)
Definition float_texts (f : bytes) : list bytes :=
  match parse_file bytes (fun t => Some t) f with
  | Some d => List.concat (List.map (fun st : bytes * table bytes =>
                List.concat (List.map (fun kv : bytes * value bytes => match snd kv with VFloat t => [t] | _ => [] end) (snd st))) d)
  | None => []
  end.

Definition rep (n : Z) (c : Z) : bytes := repeat c (Z.to_nat n).
