(* C04 — fixed-size array accesses: port of the three mechanisms the property anchors name, over ArrLang.

   ArrLang = the fragment of Ferret the property quantifies over: i32 `let`/`const`, `=`, compound assignment,
   `++`/`--`, `if/else`, `while`, `io::Println`, and reads/writes of fixed arrays `[N]i32` whose index
   expressions are built from literals, variables, `+ - *`, unary minus and (nested) array reads.

   (1) walk_*   = internal/hir/analysis/consteval.go  walkNodeConstEval / walkAssignConstEval / walkExprConstEval /
                  updateConstValue / clearConstValue / checkArrayBounds / evaluateIndexAsInt,
       ceval    = internal/hir/consteval/hir_evaluator.go EvaluateHIRExpr (int fragment, math/big = Z).
   (2) static_index / cres_read = internal/mir/gen/builder.go constArrayIndex + lowerIndexAddr (reads), as REPAIRED by
       fixes/C04-fixed-array-index.patch: only an index expression without identifiers is folded to a constant
       offset; any other index uses its run-time value through emitBoundsCheckedIndex.
       stale_read = the code before the repair (Symbol.ConstValue after the whole walk), kept for the refutation.
   (3) bci      = internal/mir/gen/builder.go emitBoundsCheckedIndex (i32), used by lowerIndexAssign for writes.
   sem R        = execution with index resolver R; csem = sem with the compiler's resolvers, ssem = sem with the
                  source-semantics resolver (the value the index expression has at that moment, negative counting
                  from the end, panic outside [-N, N)).  Definitions only. *)
From Coq Require Import ZArith List Bool.
Import ListNotations.
Open Scope Z_scope.

(* ---------------------------------------------------------------- syntax *)
Inductive binop := Add | Sub | Mul.
Inductive cmp := Lt | Le | Eq | Ne | Gt | Ge.

Inductive expr :=
| ELit (z : Z)
| EVar (x : nat)
| ENeg (e : expr)
| EBin (o : binop) (e1 e2 : expr)
| ERead (a : nat) (i : expr).            (* a[i] *)

Inductive stmt :=
| SSkip
| SSeq (s1 s2 : stmt)
| SLet (x : nat) (e : expr)              (* let x := e;   *)
| SConst (x : nat) (e : expr)            (* const x := e; *)
| SAssign (x : nat) (e : expr)           (* x = e;        *)
| SOpAssign (x : nat) (o : binop) (e : expr)   (* x += e; x -= e; x *= e; *)
| SIncr (x : nat)                        (* x++;          *)
| SDecr (x : nat)                        (* x--;          *)
| SPrint (e : expr)                      (* io::Println(e); *)
| SWrite (a : nat) (i e : expr)          (* a[i] = e;     *)
| SOpWrite (a : nat) (i : expr) (o : binop) (e : expr)   (* a[i] += e; *)
| SIf (c : cmp) (e1 e2 : expr) (t f : stmt)
| SWhile (c : cmp) (e1 e2 : expr) (b : stmt).

(* a program: the fixed arrays (initial contents; N = length) declared first, then the body *)
Record prog := { p_arrs : list (list Z); p_body : stmt }.

(* ---------------------------------------------------------------- i32 arithmetic *)
Definition wrap32 (x : Z) : Z := (x + 2147483648) mod 4294967296 - 2147483648.
Definition in_i32 (x : Z) : Prop := -2147483648 <= x < 2147483648.

Definition bin (o : binop) (a b : Z) : Z :=
  match o with Add => a + b | Sub => a - b | Mul => a * b end.

Definition cmpb (c : cmp) (a b : Z) : bool :=
  match c with
  | Lt => a <? b | Le => a <=? b | Eq => a =? b | Ne => negb (a =? b) | Gt => b <? a | Ge => b <=? a
  end.

(* ---------------------------------------------------------------- (1) the analysis walk *)
Definition cenv := nat -> option Z.               (* Symbol.ConstValue per variable *)
Definition cempty : cenv := fun _ => None.
Definition cset (c : cenv) (x : nat) (v : option Z) : cenv := fun y => if Nat.eqb y x then v else c y.

(* EvaluateHIRExpr : literals, identifiers with a ConstValue, unary minus, + - * ; anything else is nil *)
Fixpoint ceval (c : cenv) (e : expr) : option Z :=
  match e with
  | ELit z => Some z
  | EVar x => c x
  | ENeg e => match ceval c e with Some v => Some (- v) | None => None end
  | EBin o e1 e2 =>
      match ceval c e1, ceval c e2 with
      | Some a, Some b => Some (bin o a b)
      | _, _ => None
      end
  | ERead _ _ => None
  end.

(* ConstValue.AsInt64 *)
Definition as_int64 (v : option Z) : option Z :=
  match v with
  | Some z => if (-9223372036854775808 <=? z) && (z <? 9223372036854775808) then Some z else None
  | None => None
  end.

Inductive diag := DNotConst | DOutOfBounds.        (* T0028 ErrArrayIndexNotConst | T0009 ErrArrayOutOfBounds *)

(* checkArrayBounds for a fixed array of length n *)
Definition check_bounds (c : cenv) (n : Z) (i : expr) : list diag :=
  match as_int64 (ceval c i) with
  | None => [DNotConst]
  | Some v =>
      let v' := if v <? 0 then n + v else v in
      if (v' <? 0) || (n <=? v') then [DOutOfBounds] else []
  end.

Definition lens_of (arrs : list (list Z)) : list Z := map (fun l => Z.of_nat (length l)) arrs.
Definition alen (arrs : list (list Z)) (a : nat) : Z := nth a (lens_of arrs) 0.

(* walkExprConstEval: children first, then checkArrayBounds at an IndexExpr *)
Fixpoint walk_e (arrs : list (list Z)) (c : cenv) (e : expr) : list diag :=
  match e with
  | ELit _ | EVar _ => []
  | ENeg e => walk_e arrs c e
  | EBin _ e1 e2 => walk_e arrs c e1 ++ walk_e arrs c e2
  | ERead a i => walk_e arrs c i ++ check_bounds c (alen arrs a) i
  end.

(* walkNodeConstEval / walkDeclItemsConstEval / walkAssignConstEval: one pass in source order *)
Fixpoint walk_s (arrs : list (list Z)) (c : cenv) (s : stmt) : cenv * list diag :=
  match s with
  | SSkip => (c, [])
  | SSeq s1 s2 =>
      let '(c1, d1) := walk_s arrs c s1 in
      let '(c2, d2) := walk_s arrs c1 s2 in (c2, d1 ++ d2)
  | SLet x e | SConst x e | SAssign x e =>
      (cset c x (ceval c e), walk_e arrs c e)          (* updateConstValue(ident, EvaluateHIRExpr(rhs)) *)
  | SOpAssign x _ e => (cset c x None, walk_e arrs c e) (* Op != '=' : ConstValue = nil *)
  | SIncr x | SDecr x => (cset c x None, [])            (* Postfix/PrefixExpr : clearConstValue *)
  | SPrint e => (c, walk_e arrs c e)
  | SWrite a i e | SOpWrite a i _ e =>
      (c, (walk_e arrs c i ++ check_bounds c (alen arrs a) i) ++ walk_e arrs c e)
  | SIf _ e1 e2 t f =>
      let d0 := walk_e arrs c e1 ++ walk_e arrs c e2 in
      let '(c1, d1) := walk_s arrs c t in
      let '(c2, d2) := walk_s arrs c1 f in (c2, d0 ++ d1 ++ d2)
  | SWhile _ e1 e2 b =>
      let d0 := walk_e arrs c e1 ++ walk_e arrs c e2 in
      let '(c1, d1) := walk_s arrs c b in (c1, d0 ++ d1)
  end.

Definition walk (p : prog) : list diag := snd (walk_s (p_arrs p) cempty (p_body p)).
Definition final_cenv (p : prog) : cenv := fst (walk_s (p_arrs p) cempty (p_body p)).
Definition accepted (p : prog) : Prop := walk p = [].
Definition acceptedb (p : prog) : bool := match walk p with [] => true | _ => false end.

(* ---------------------------------------------------------------- (2),(3) index resolution *)
(* a resolver maps (array length, index expression, run-time value of the index) to the element touched,
   None = the program stops with a panic *)
Definition resolver := Z -> expr -> Z -> option Z.

(* source semantics: the run-time value, negative counting from the end, panic outside [-n, n) *)
Definition norm (n v : Z) : Z := if v <? 0 then n + v else v.
Definition checked (n v : Z) : option Z :=
  if (- n <=? v) && (v <? n) then Some (norm n v) else None.
Definition sres : resolver := fun n _ v => checked n v.

(* emitBoundsCheckedIndex on i32 values: neg block adds the length (wrapping), then  adj < 0 || adj >= len  panics *)
Definition bci (n v : Z) : option Z :=
  let adj := if v <? 0 then wrap32 (n + v) else v in
  if (adj <? 0) || (n <=? adj) then None else Some adj.

(* isLiteralIndexExpr (repair): no identifier, no array read *)
Fixpoint is_lit (e : expr) : bool :=
  match e with
  | ELit _ => true
  | EVar _ => false
  | ENeg e => is_lit e
  | EBin _ e1 e2 => is_lit e1 && is_lit e2
  | ERead _ _ => false
  end.

(* constArrayIndex with a given ConstValue table *)
Definition const_index (c : cenv) (n : Z) (i : expr) : option Z :=
  match as_int64 (ceval c i) with
  | None => None
  | Some v =>
      let v' := if v <? 0 then n + v else v in
      if (v' <? 0) || (n <=? v') then None else Some v'
  end.

(* repaired constArrayIndex: refuses index expressions that mention an identifier *)
Definition static_index (n : Z) (i : expr) : option Z :=
  if is_lit i then const_index cempty n i else None.

(* repaired lowerIndexAddr (reads): constant offset when static_index succeeds, else run-time checked index *)
Definition cres_read : resolver := fun n i v =>
  match static_index n i with Some k => Some k | None => bci n v end.
(* lowerIndexAssign (writes): always the run-time checked index *)
Definition cres_write : resolver := fun n _ v => bci n v.

(* the code before the repair: reads resolved with the table as it stands after the whole walk;
   when that fails compilation fails ("unsupported array index"), modelled as the run-time path *)
Definition stale_read (cfinal : cenv) : resolver := fun n i v =>
  match const_index cfinal n i with Some k => Some k | None => bci n v end.

(* ---------------------------------------------------------------- execution *)
Inductive event :=
| EvOut (v : Z)                          (* a line printed *)
| EvRd (a : nat) (k : Z)                 (* element k of array a read *)
| EvWr (a : nat) (k : Z) (v : Z).        (* element k of array a written with v *)

Definition venv := nat -> Z.
Definition vset (f : venv) (x : nat) (v : Z) : venv := fun y => if Nat.eqb y x then v else f y.

Fixpoint list_set (l : list Z) (k : nat) (v : Z) : list Z :=
  match l, k with
  | [], _ => []
  | _ :: t, O => v :: t
  | h :: t, S k' => h :: list_set t k' v
  end.

Fixpoint arrs_set (arrs : list (list Z)) (a : nat) (k : nat) (v : Z) : list (list Z) :=
  match arrs, a with
  | [], _ => []
  | l :: t, O => list_set l k v :: t
  | l :: t, S a' => l :: arrs_set t a' k v
  end.

Definition aget (arrs : list (list Z)) (a : nat) (k : Z) : Z := nth (Z.to_nat k) (nth a arrs []) 0.

(* expression evaluation: events emitted, and the value (None = panic) *)
Fixpoint eval (Rr : resolver) (vs : venv) (arrs : list (list Z)) (e : expr) : list event * option Z :=
  match e with
  | ELit z => ([], Some (wrap32 z))
  | EVar x => ([], Some (wrap32 (vs x)))                 (* storage holds i32 values: wrap32 is the identity on them *)
  | ENeg e =>
      let '(t, r) := eval Rr vs arrs e in
      (t, match r with Some v => Some (wrap32 (- v)) | None => None end)
  | EBin o e1 e2 =>
      let '(t1, r1) := eval Rr vs arrs e1 in
      match r1 with
      | None => (t1, None)
      | Some v1 =>
          let '(t2, r2) := eval Rr vs arrs e2 in
          (t1 ++ t2, match r2 with Some v2 => Some (wrap32 (bin o v1 v2)) | None => None end)
      end
  | ERead a i =>
      let '(t, r) := eval Rr vs arrs i in
      match r with
      | None => (t, None)
      | Some v =>
          match Rr (alen arrs a) i v with
          | None => (t, None)
          | Some k => (t ++ [EvRd a k], Some (wrap32 (aget arrs a k)))
          end
      end
  end.

Inductive status := Done | Panicked | OutOfFuel.

Record state := { st_vars : venv; st_arrs : list (list Z) }.

(* result of running a statement: events, status, state after *)
Definition result := (list event * status * state)%type.

Definition bind2 (vs : venv) (arrs : list (list Z)) (r1 : list event * option Z)
           (k : list event -> Z -> result) : result :=
  match r1 with
  | (t, None) => (t, Panicked, {| st_vars := vs; st_arrs := arrs |})
  | (t, Some v) => k t v
  end.

Fixpoint sem (Rr Rw : resolver) (fuel : nat) (s : stmt) (st : state) : result :=
  match fuel with
  | O => ([], OutOfFuel, st)
  | S fuel' =>
      let vs := st_vars st in
      let arrs := st_arrs st in
      match s with
      | SSkip => ([], Done, st)
      | SSeq s1 s2 =>
          match sem Rr Rw fuel' s1 st with
          | (t1, Done, st1) =>
              let '(t2, r2, st2) := sem Rr Rw fuel' s2 st1 in (t1 ++ t2, r2, st2)
          | other => other
          end
      | SLet x e | SConst x e | SAssign x e =>
          bind2 vs arrs (eval Rr vs arrs e) (fun t v =>
            (t, Done, {| st_vars := vset vs x v; st_arrs := arrs |}))
      | SOpAssign x o e =>
          bind2 vs arrs (eval Rr vs arrs e) (fun t v =>
            (t, Done, {| st_vars := vset vs x (wrap32 (bin o (vs x) v)); st_arrs := arrs |}))
      | SIncr x => ([], Done, {| st_vars := vset vs x (wrap32 (vs x + 1)); st_arrs := arrs |})
      | SDecr x => ([], Done, {| st_vars := vset vs x (wrap32 (vs x - 1)); st_arrs := arrs |})
      | SPrint e =>
          bind2 vs arrs (eval Rr vs arrs e) (fun t v => (t ++ [EvOut v], Done, st))
      | SWrite a i e =>
          (* lowerIndexAssign: index, bounds check, then the right-hand side, then the store *)
          bind2 vs arrs (eval Rr vs arrs i) (fun t iv =>
            match Rw (alen arrs a) i iv with
            | None => (t, Panicked, st)
            | Some k =>
                match eval Rr vs arrs e with
                | (t2, None) => (t ++ t2, Panicked, st)
                | (t2, Some v) =>
                    (t ++ t2 ++ [EvWr a k v], Done,
                     {| st_vars := vs; st_arrs := arrs_set arrs a (Z.to_nat k) v |})
                end
            end)
      | SOpWrite a i o e =>
          bind2 vs arrs (eval Rr vs arrs i) (fun t iv =>
            match Rw (alen arrs a) i iv with
            | None => (t, Panicked, st)
            | Some k =>
                match eval Rr vs arrs e with
                | (t2, None) => (t ++ t2, Panicked, st)
                | (t2, Some v) =>
                    let nv := wrap32 (bin o (aget arrs a k) v) in
                    (t ++ t2 ++ [EvRd a k; EvWr a k nv], Done,
                     {| st_vars := vs; st_arrs := arrs_set arrs a (Z.to_nat k) nv |})
                end
            end)
      | SIf c e1 e2 th el =>
          bind2 vs arrs (eval Rr vs arrs e1) (fun t1 v1 =>
            match eval Rr vs arrs e2 with
            | (t2, None) => (t1 ++ t2, Panicked, st)
            | (t2, Some v2) =>
                let '(t3, r3, st3) := sem Rr Rw fuel' (if cmpb c v1 v2 then th else el) st in
                (t1 ++ t2 ++ t3, r3, st3)
            end)
      | SWhile c e1 e2 b =>
          bind2 vs arrs (eval Rr vs arrs e1) (fun t1 v1 =>
            match eval Rr vs arrs e2 with
            | (t2, None) => (t1 ++ t2, Panicked, st)
            | (t2, Some v2) =>
                if cmpb c v1 v2 then
                  match sem Rr Rw fuel' b st with
                  | (t3, Done, st3) =>
                      let '(t4, r4, st4) := sem Rr Rw fuel' (SWhile c e1 e2 b) st3 in
                      (t1 ++ t2 ++ t3 ++ t4, r4, st4)
                  | (t3, r3, st3) => (t1 ++ t2 ++ t3, r3, st3)
                  end
                else (t1 ++ t2, Done, st)
            end)
      end
  end.

Definition init (p : prog) : state := {| st_vars := fun _ => 0; st_arrs := p_arrs p |}.

(* observable outcome: events + how it ended *)
Definition outcome := (list event * status)%type.
Definition run (Rr Rw : resolver) (fuel : nat) (p : prog) : outcome :=
  fst (sem Rr Rw fuel (p_body p) (init p)).

Definition csem (fuel : nat) (p : prog) : outcome := run cres_read cres_write fuel p.       (* compiled (repaired) *)
Definition ssem (fuel : nat) (p : prog) : outcome := run sres sres fuel p.                   (* source semantics *)
Definition csem_stale (fuel : nat) (p : prog) : outcome :=                                   (* before the repair *)
  run (stale_read (final_cenv p)) cres_write fuel p.

(* what the executable shows: printed lines and whether it panicked *)
Fixpoint outputs (t : list event) : list Z :=
  match t with
  | [] => []
  | EvOut v :: t' => v :: outputs t'
  | _ :: t' => outputs t'
  end.

(* all array sizes are representable as i32 lengths (true of every Ferret array type that compiles) *)
Definition small_arrs (arrs : list (list Z)) : Prop :=
  Forall (fun l => Z.of_nat (length l) < 2147483648) arrs.

(* ---------------------------------------------------------------- correspondence cases *)
Definition diag_code (d : diag) : Z := match d with DNotConst => 28 | DOutOfBounds => 9 end.

Definition status_code (s : status) : Z := match s with Done => 0 | Panicked => 1 | OutOfFuel => 2 end.

Fixpoint zlist_eqb (a b : list Z) : bool :=
  match a, b with
  | [], [] => true
  | x :: a', y :: b' => (x =? y) && zlist_eqb a' b'
  | _, _ => false
  end.

(* a case: id, program, diagnostics observed (codes in emission order), ran?, observed stdout numbers, observed panic? *)
Record case := { c_id : Z; c_prog : prog; c_diags : list Z; c_ran : bool; c_out : list Z; c_panic : bool }.

Definition fuel_default : nat := 5000.

Definition out_matches (o : outcome) (c : case) : bool :=
  let '(t, s) := o in
  zlist_eqb (outputs t) (c_out c) && (status_code s =? (if c_panic c then 1 else 0)).

(* 0 = fine; bit 1 = diagnostics differ from walk; bit 2 = output differs from csem (port does not predict the
   code); bit 4 = output differs from ssem (the code does not satisfy the property) *)
Definition case_verdict (c : case) : Z :=
  let p := c_prog c in
  let d := if zlist_eqb (map diag_code (walk p)) (c_diags c) then 0 else 1 in
  let r := if c_ran c then
             (if out_matches (csem fuel_default p) c then 0 else 2) +
             (if out_matches (ssem fuel_default p) c then 0 else 4)
           else 0 in
  d + r.

Fixpoint bad_ids (cs : list case) : list Z :=
  match cs with
  | [] => []
  | c :: cs' => let v := case_verdict c in if v =? 0 then bad_ids cs' else (c_id c * 8 + v) :: bad_ids cs'
  end.
