(* C08 — run-time bounds check of dynamic arrays and strings, static literal-length tracker, output channel.

   Ports (definitions only; proofs are in Proofs/BoundsP.v):
     cast_i32, index_wide, index_i32   internal/mir/gen/builder.go  castValue(.., i32) + indexAsI32 (the guard that
                                       compares a wide index in its own width) + emitBoundsCheckedIndex
     index_i32_trunc                   the same without the guard (the code before fixes/C08-idx-trunc.patch)
     rt_new/rt_append/rt_get/rt_set    runtime/core/array.c (length/capacity bookkeeping, NULL / false on a bad index)
     rt_of_list                        builder.go lowerDynamicArrayLiteral: ferret_array_new(n) + n appends
     rt_strlen                         runtime/core/string_runtime.c ferret_string_len (strlen of a NUL-terminated buffer)
     static_ops                        internal/hir/analysis/consteval.go arrayLiteralLengths + checkArrayBounds with
                                       the tracked length dropped on any other use of the variable (append's &'a)
     static_ops_stale                  the tracker before fixes/C08-append-len.patch (append keeps the length)
     static_ops_byvalue                a tracker that keeps the length across calls taking the array by plain name
                                       (wrong: dynamic arrays are handles, the callee can grow the caller's array)
     chan, ch_println, ch_exit,        libc stdout on a pipe (fully buffered) + runtime/libs/panic.c:
     ch_panic / ch_panic_noflush       fflush(stdout); fprintf(stderr); abort()   /   the same without the flush
     exec                              the generated code for one straight-line history
   Reference (what C08 demands):       spec, on mathematical lists and unbounded integers. *)
From Coq Require Import ZArith List Bool.
Import ListNotations.
Open Scope Z_scope.

(* ---------------------------------------------------------------- index types and values *)

Inductive ity := I8 | I16 | I32 | I64 | I128 | I256 | U8 | U16 | U32 | U64 | U128 | U256 | Byte.

Definition ity_signed (t : ity) : bool :=
  match t with I8 | I16 | I32 | I64 | I128 | I256 => true | _ => false end.

Definition ity_bits (t : ity) : Z :=
  match t with
  | I8 | U8 | Byte => 8 | I16 | U16 => 16 | I32 | U32 => 32 | I64 | U64 => 64
  | I128 | U128 => 128 | I256 | U256 => 256
  end.

Definition in_tyb (t : ity) (v : Z) : bool :=
  if ity_signed t then (- 2 ^ (ity_bits t - 1) <=? v) && (v <? 2 ^ (ity_bits t - 1))
  else (0 <=? v) && (v <? 2 ^ ity_bits t).

Definition in_ty (t : ity) (v : Z) : Prop := in_tyb t v = true.

(* two's complement wrap to 32 bits: what a cast to i32 does to the value of any integer type *)
Definition wrapS32 (x : Z) : Z := (x + 2147483648) mod 4294967296 - 2147483648.

Definition cast_i32 (t : ity) (v : Z) : Z := wrapS32 v.

(* indexAsI32: types all of whose values are i32 values are cast directly; the others are compared in their own
   width with the i32 range first *)
Definition narrow_ty (t : ity) : bool :=
  (ity_bits t <? 32) || (ity_signed t && (ity_bits t =? 32)).

Definition index_wide (t : ity) (v : Z) : bool :=
  if narrow_ty t then false
  else (v >? 2147483647) || (ity_signed t && (v <? -2147483648)).

(* emitBoundsCheckedIndex on i32 values: idx < 0 -> len + idx (i32 add); panic iff adj < 0 || adj >= len *)
Definition bounds_check (idx len : Z) : option Z :=
  let adj := if idx <? 0 then wrapS32 (len + idx) else idx in
  if (adj <? 0) || (adj >=? len) then None else Some adj.

Definition index_i32 (t : ity) (v len : Z) : option Z :=
  if index_wide t v then None else bounds_check (cast_i32 t v) len.

Definition index_i32_trunc (t : ity) (v len : Z) : option Z := bounds_check (cast_i32 t v) len.

(* what the property demands of an index *)
Definition valid_index (v len : Z) : bool := (- len <=? v) && (v <? len).
Definition norm_index (v len : Z) : Z := if v <? 0 then v + len else v.

(* ---------------------------------------------------------------- array runtime (array.c) *)

Record rarr := { a_len : Z; a_cap : Z; a_data : list Z }.   (* a_data: the a_len live elements *)

Fixpoint upd (l : list Z) (k : nat) (v : Z) : list Z :=
  match l, k with
  | [], _ => []
  | _ :: r, O => v :: r
  | x :: r, S k' => x :: upd r k' v
  end.

Definition rt_new (cap : Z) : rarr :=
  {| a_len := 0; a_cap := if cap <? 4 then 4 else cap; a_data := [] |}.

Definition rt_append (a : rarr) (v : Z) : rarr :=
  let cap := if a_len a >=? a_cap a
             then (let c := a_cap a * 2 in if c <? 4 then 4 else c) else a_cap a in
  {| a_len := a_len a + 1; a_cap := cap; a_data := a_data a ++ [v] |}.

Definition rt_get (a : rarr) (i : Z) : option Z :=
  if (i <? 0) || (i >=? a_len a) then None else nth_error (a_data a) (Z.to_nat i).

Definition rt_set (a : rarr) (i v : Z) : option rarr :=
  if (i <? 0) || (i >=? a_len a) then None
  else Some {| a_len := a_len a; a_cap := a_cap a; a_data := upd (a_data a) (Z.to_nat i) v |}.

Definition rt_len (a : rarr) : Z := a_len a.

Definition rt_of_list (xs : list Z) : rarr :=
  fold_left rt_append xs (rt_new (Z.of_nat (length xs))).

(* strlen over the bytes of a NUL-terminated buffer *)
Fixpoint rt_strlen (mem : list Z) : Z :=
  match mem with
  | [] => 0
  | b :: r => if b =? 0 then 0 else 1 + rt_strlen r
  end.

(* ---------------------------------------------------------------- histories *)

Inductive ikind := KConst | KOpaque.     (* compile-time-known (literal / constant local) or through a call *)
(* how the indexed container is reached. Dynamic arrays are handles, so every path below reaches the SAME array
   (or string) as the direct local:  a[i] | f(a, i) with xs: []T | f(&a, i) with xs: &[]T | f(&'a, i) with xs: &'[]T |
   { let r := &a; r[i] } | { let r := &'a; r[i] } | { let b := {.Arr = a} as Box; b.Arr[i] } | f(&b, i) with b: &Box |
   f(&'b, i) with b: &'Box | { let aa := [a]; aa[0][i] }.   The run-time semantics below ignore the path. *)
Inductive path := PDirect | PVal | PRef | PMut | PLRef | PLMut | PFld | PFRef | PFMut | PElem.
Record idx := { ix_kind : ikind; ix_ty : ity; ix_val : Z; ix_path : path }.
Definition is_direct (i : idx) : bool := match ix_path i with PDirect => true | _ => false end.

Inductive op :=
| OLit (xs : list Z)          (* a = [xs]           *)
| OAppend (v : Z)             (* append(&'a, v)     *)
| OSet (i : idx) (v : Z)      (* a[i] = v           *)
| OGet (i : idx)              (* io::Println(a[i])  *)
| OLen                        (* io::Println(len(a)) *)
| OSGet (i : idx)             (* io::Println(s[i] as i32) *)
| OPrint (v : Z)              (* io::Println(v)     *)
(* the array handed by plain name to a user function (dynamic arrays are handles: the callee works on the caller's array) *)
| OCallGrow (vs : list Z)     (* grow_k(a, vs..)   fn grow_k(xs: []i32, v0.., vk-1) { append(&'xs, v0); .. }  k >= 0 *)
| OCallLen.                   (* show_len(a)       fn show_len(xs: []i32) { io::Println(len(xs)); }   read only *)

(* a program: `let s: str = <str>; let a := [init]; ops` *)
Record prog := { p_str : list Z; p_init : list Z; p_ops : list op }.

(* ---------------------------------------------------------------- static tracker (consteval.go) *)

Definition fits_i64 (v : Z) : bool := (-9223372036854775808 <=? v) && (v <=? 9223372036854775807).

(* checkArrayBounds for a dynamic array variable: true = no diagnostic *)
Definition static_index_ok (tracked : option Z) (i : idx) : bool :=
  match tracked, ix_kind i with
  | Some n, KConst =>
      if fits_i64 (ix_val i) then
        let v := if ix_val i <? 0 then n + ix_val i else ix_val i in
        negb ((v <? 0) || (v >=? n))
      else true
  | _, _ => true
  end.

Fixpoint static_ops (tracked : option Z) (ops : list op) : bool :=
  match ops with
  | [] => true
  | OLit xs :: r => static_ops (Some (Z.of_nat (length xs))) r
  | OAppend _ :: r => static_ops None r
  (* only `a[i]` on the variable itself is checked; every other path names `a` in a call argument, a borrow, a
     struct or array literal — a use that drops the remembered length — and indexes something that is not tracked *)
  | OSet i _ :: r => if is_direct i then static_index_ok tracked i && static_ops tracked r else static_ops None r
  | OGet i :: r => if is_direct i then static_index_ok tracked i && static_ops tracked r else static_ops None r
  | OLen :: r => static_ops tracked r
  | OSGet _ :: r => static_ops tracked r
  | OPrint _ :: r => static_ops tracked r
  (* walkExprConstEval, CallExpr: the identifier as an argument of anything but the builtin len is a use that
     drops the remembered length — whatever the callee does, also when it only reads *)
  | OCallGrow _ :: r => static_ops None r
  | OCallLen :: r => static_ops None r
  end.

Definition static_accepts (p : prog) : bool :=
  static_ops (Some (Z.of_nat (length (p_init p)))) (p_ops p).

Fixpoint static_ops_stale (tracked : option Z) (ops : list op) : bool :=
  match ops with
  | [] => true
  | OLit xs :: r => static_ops_stale (Some (Z.of_nat (length xs))) r
  | OAppend _ :: r => static_ops_stale tracked r
  | OSet i _ :: r => static_index_ok tracked i && static_ops_stale tracked r
  | OGet i :: r => static_index_ok tracked i && static_ops_stale tracked r
  | _ :: r => static_ops_stale tracked r
  end.

(* a tracker that keeps the length across calls taking the array by plain name ("a by-value argument is only read") *)
Fixpoint static_ops_byvalue (tracked : option Z) (ops : list op) : bool :=
  match ops with
  | [] => true
  | OLit xs :: r => static_ops_byvalue (Some (Z.of_nat (length xs))) r
  | OAppend _ :: r => static_ops_byvalue None r
  | OSet i _ :: r => static_index_ok tracked i && static_ops_byvalue tracked r
  | OGet i :: r => static_index_ok tracked i && static_ops_byvalue tracked r
  | _ :: r => static_ops_byvalue tracked r
  end.

(* ---------------------------------------------------------------- output channel *)

Record chan := { buffered : list Z; delivered : list Z }.
Definition ch_empty : chan := {| buffered := []; delivered := [] |}.
Definition ch_println (c : chan) (v : Z) : chan := {| buffered := buffered c ++ [v]; delivered := delivered c |}.
Definition ch_flush (c : chan) : chan := {| buffered := []; delivered := delivered c ++ buffered c |}.
Definition ch_exit (c : chan) : chan := ch_flush c.                    (* exit() runs the stdio flush *)
Definition ch_abort (c : chan) : chan := {| buffered := []; delivered := delivered c |}.   (* abort() does not *)
Definition ch_panic (c : chan) : chan := ch_abort (ch_flush c).        (* panic.c with fflush(stdout) *)
Definition ch_panic_noflush (c : chan) : chan := ch_abort c.           (* panic.c before the fix *)

Inductive status := Exited | Panicked.    (* exit status 0 / abort with "panic: index out of bounds" on stderr *)

Definition status_eqb (a b : status) : bool :=
  match a, b with Exited, Exited | Panicked, Panicked => true | _, _ => false end.

(* ---------------------------------------------------------------- generated code for one history *)

Fixpoint exec (mem : list Z) (ops : list op) (a : rarr) (c : chan) : chan * status :=
  match ops with
  | [] => (ch_exit c, Exited)
  | OLit xs :: r => exec mem r (rt_of_list xs) c
  | OAppend v :: r => exec mem r (rt_append a v) c
  | OSet i v :: r =>
      match index_i32 (ix_ty i) (ix_val i) (rt_len a) with
      | None => (ch_panic c, Panicked)
      | Some k => match rt_set a k v with
                  | Some a' => exec mem r a' c
                  | None => (ch_panic c, Panicked)          (* emit.go: ferret_array_set returned false *)
                  end
      end
  | OGet i :: r =>
      match index_i32 (ix_ty i) (ix_val i) (rt_len a) with
      | None => (ch_panic c, Panicked)
      | Some k => match rt_get a k with
                  | Some x => exec mem r a (ch_println c x)
                  | None => (ch_panic c, Panicked)          (* emit.go: ferret_array_get returned NULL *)
                  end
      end
  | OLen :: r => exec mem r a (ch_println c (rt_len a))
  | OSGet i :: r =>
      match index_i32 (ix_ty i) (ix_val i) (rt_strlen mem) with
      | None => (ch_panic c, Panicked)
      | Some k => exec mem r a (ch_println c (nth (Z.to_nat k) mem 0))
      end
  | OPrint v :: r => exec mem r a (ch_println c v)
  | OCallGrow vs :: r => exec mem r (fold_left rt_append vs a) c
  | OCallLen :: r => exec mem r a (ch_println c (rt_len a))
  end.

(* accepted?, lines that reached the pipe, status *)
Definition run (p : prog) : bool * list Z * status :=
  if static_accepts p then
    let '(c, s) := exec (p_str p ++ [0]) (p_ops p) (rt_of_list (p_init p)) ch_empty in
    (true, delivered c, s)
  else (false, [], Exited).

(* ---------------------------------------------------------------- reference semantics *)

Fixpoint spec (str : list Z) (ops : list op) (l : list Z) (out : list Z) : list Z * status :=
  match ops with
  | [] => (out, Exited)
  | OLit xs :: r => spec str r xs out
  | OAppend v :: r => spec str r (l ++ [v]) out
  | OSet i v :: r =>
      let n := Z.of_nat (length l) in
      if valid_index (ix_val i) n
      then spec str r (upd l (Z.to_nat (norm_index (ix_val i) n)) v) out
      else (out, Panicked)
  | OGet i :: r =>
      let n := Z.of_nat (length l) in
      if valid_index (ix_val i) n
      then spec str r l (out ++ [nth (Z.to_nat (norm_index (ix_val i) n)) l 0])
      else (out, Panicked)
  | OLen :: r => spec str r l (out ++ [Z.of_nat (length l)])
  | OSGet i :: r =>
      let n := Z.of_nat (length str) in
      if valid_index (ix_val i) n
      then spec str r l (out ++ [nth (Z.to_nat (norm_index (ix_val i) n)) str 0])
      else (out, Panicked)
  | OPrint v :: r => spec str r l (out ++ [v])
  | OCallGrow vs :: r => spec str r (l ++ vs) out
  | OCallLen :: r => spec str r l (out ++ [Z.of_nat (length l)])
  end.

Definition spec_run (p : prog) : list Z * status := spec (p_str p) (p_ops p) (p_init p) [].

(* ---------------------------------------------------------------- well-formed histories *)

Definition idx_wf (i : idx) : bool := in_tyb (ix_ty i) (ix_val i).

Definition op_wf (o : op) : bool :=
  match o with
  | OSet i _ | OGet i | OSGet i => idx_wf i
  | _ => true
  end.

(* number of elements a history can ever hold: keeps every length below 2^31 (lengths are int32_t) *)
Fixpoint ops_size (ops : list op) : Z :=
  match ops with
  | [] => 0
  | OLit xs :: r => Z.of_nat (length xs) + ops_size r
  | OAppend _ :: r => 1 + ops_size r
  | OCallGrow vs :: r => Z.of_nat (length vs) + ops_size r
  | _ :: r => ops_size r
  end.

Definition prog_wf (p : prog) : Prop :=
  forallb op_wf (p_ops p) = true /\
  Z.of_nat (length (p_init p)) + ops_size (p_ops p) < 2147483648 /\
  Z.of_nat (length (p_str p)) < 2147483648 /\
  forallb (fun b => negb (b =? 0)) (p_str p) = true.

(* ---------------------------------------------------------------- correspondence cases *)

Definition list_eqb (a b : list Z) : bool :=
  (Nat.eqb (length a) (length b)) && forallb (fun '(x, y) => x =? y) (combine a b).

(* (id, program, observed accepted, observed stdout lines, observed panic) *)
Definition case := (Z * prog * bool * list Z * bool)%type.

Definition case_ok (c : case) : bool :=
  let '(_, p, acc, out, pan) := c in
  let '(macc, mout, mst) := run p in
  Bool.eqb acc macc &&
  (negb macc || (list_eqb out mout && Bool.eqb pan (status_eqb mst Panicked))).

Definition bad_ids (cs : list case) : list Z :=
  map (fun c => let '(id, _, _, _, _) := c in id) (filter (fun c => negb (case_ok c)) cs).

(* the same cases against the reference (spec-side oracle evaluated inside Coq) *)
Definition case_spec_ok (c : case) : bool :=
  let '(_, p, acc, out, pan) := c in
  let '(sout, sst) := spec_run p in
  if acc then list_eqb out sout && Bool.eqb pan (status_eqb sst Panicked)
  else status_eqb sst Panicked.     (* a rejected history must be one that goes out of range *)

Definition bad_spec_ids (cs : list case) : list Z :=
  map (fun c => let '(id, _, _, _, _) := c in id) (filter (fun c => negb (case_spec_ok c)) cs).

(* type-check-only cases: only the verdict is observed *)
Definition case_static_ok (c : case) : bool :=
  let '(_, p, acc, _, _) := c in Bool.eqb acc (static_accepts p).

Definition bad_static_ids (cs : list case) : list Z :=
  map (fun c => let '(id, _, _, _, _) := c in id) (filter (fun c => negb (case_static_ok c)) cs).

(* ---------------------------------------------------------------- access paths are irrelevant at run time *)

Definition direct_idx (i : idx) : idx :=
  {| ix_kind := ix_kind i; ix_ty := ix_ty i; ix_val := ix_val i; ix_path := PDirect |}.

Definition direct_op (o : op) : op :=
  match o with
  | OSet i v => OSet (direct_idx i) v
  | OGet i => OGet (direct_idx i)
  | OSGet i => OSGet (direct_idx i)
  | _ => o
  end.
