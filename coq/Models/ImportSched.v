(* C15 — model of the concurrent parse phase of internal/pipeline/parse.go (processModule / parseModule) on
   top of the port Models/DepGraph.v.  Definitions only.

   A project is the import list of every module file (file order, repeats allowed).  Every parser goroutine
   (one per module admitted by `p.seen.LoadOrStore`) is a task in one of two loops of parseModule:
     TAdd m rest    : `for _, imp := range imports { ctx.AddDependency(importPath, imp.path) ... }`
     TSpawn m rest  : `for _, imp := range imports { p.processModule(imp.path, imp.location) }`
   One step = one atomic action of one arbitrary task (AddDependency holds ctx.mu; LoadOrStore is atomic), so the
   step relation generates every interleaving.  `wg.Wait()` returns when no task is left.
   Not modelled: the implicit edge to the prelude module "global" (it imports nothing, so it is never on a cycle),
   lexing/parsing themselves, file-system failures. *)
From Coq Require Import List Arith Bool.
Import ListNotations.
From FV Require Import Models.DepGraph.

Definition project := node -> list node.

Inductive task :=
| TAdd (m : node) (rest : list node)
| TSpawn (m : node) (rest : list node).

Record state := mkSt {
  st_g : graph;                       (* ctx.DepGraph *)
  st_res : list result;               (* results of the AddDependency calls so far, in call order *)
  st_calls : list (node * node);      (* the calls so far, in the order they took the lock *)
  st_seen : list node;                (* p.seen: every entry stands for exactly one parse of that module *)
  st_tasks : list task                (* live goroutines *)
}.

Definition init (P : project) (entry : node) : state :=
  mkSt [] [] [] [entry] [TAdd entry (P entry)].

Inductive step (P : project) : state -> state -> Prop :=
| S_add g res calls seen t1 t2 m d ds :
    step P (mkSt g res calls seen (t1 ++ TAdd m (d :: ds) :: t2))
           (mkSt (fst (add_dependency g m d)) (res ++ [snd (add_dependency g m d)]) (calls ++ [(m, d)]) seen
                 (t1 ++ TAdd m ds :: t2))
| S_add_done g res calls seen t1 t2 m :
    step P (mkSt g res calls seen (t1 ++ TAdd m [] :: t2))
           (mkSt g res calls seen (t1 ++ TSpawn m (P m) :: t2))
| S_spawn_seen g res calls seen t1 t2 m d ds :
    mem d seen = true ->
    step P (mkSt g res calls seen (t1 ++ TSpawn m (d :: ds) :: t2))
           (mkSt g res calls seen (t1 ++ TSpawn m ds :: t2))
| S_spawn_new g res calls seen t1 t2 m d ds :
    mem d seen = false ->
    step P (mkSt g res calls seen (t1 ++ TSpawn m (d :: ds) :: t2))
           (mkSt g res calls (d :: seen) (t1 ++ TSpawn m ds :: t2 ++ [TAdd d (P d)]))
| S_exit g res calls seen t1 t2 m :
    step P (mkSt g res calls seen (t1 ++ TSpawn m [] :: t2))
           (mkSt g res calls seen (t1 ++ t2)).

Inductive steps (P : project) : state -> state -> Prop :=
| steps_refl s : steps P s s
| steps_cons s1 s2 s3 : step P s1 s2 -> steps P s2 s3 -> steps P s1 s3.

(* n-step runs, for the termination bound *)
Inductive nsteps (P : project) : nat -> state -> state -> Prop :=
| nsteps_O s : nsteps P 0 s s
| nsteps_S n s1 s2 s3 : step P s1 s2 -> nsteps P n s2 s3 -> nsteps P (S n) s1 s3.

Definition terminal (s : state) : Prop := st_tasks s = [].

(* import relation of the project and what is reachable from the entry file *)
Inductive reachP (P : project) : node -> node -> Prop :=
| reachP_refl x : reachP P x x
| reachP_step x y z : reachP P x y -> In z (P y) -> reachP P x z.

(* all import edges of a list of modules *)
Definition edges_of (P : project) (ms : list node) : graph :=
  flat_map (fun m => map (fun d => (m, d)) (P m)) ms.
