(* FerretCore v1 — definitional interpreter. Fuel is consumed only by calls and loop iterations, so that
   purely structural rewrites (C09) preserve the outcome with the same fuel. *)
From Coq Require Import String ZArith List Bool.
From FV Require Import Core.Syntax.
Import ListNotations.
Local Open Scope Z_scope.

Inductive value := VInt (t : ity) (v : Z) | VBool (b : bool) | VUnit | VStruct (sid : nat) (fs : list Z) | VStr (s : string).

(* printed item *)
Inductive item := OInt (v : Z) | OBool (b : bool) | OStr (s : string).
Definition line := list item.

Inductive outcome :=
| Done (out : list line)
| OutOfFuel
| Undefined (out : list line)     (* division by zero or MIN / -1: the language inserts no check; excluded from claims *)
| Stuck.                          (* ill-typed program: never for check_prog-accepted programs *)

(* result of evaluating / executing inside a function *)
Inductive res (A : Type) :=
| Ok (a : A) (out : list line)
| Fuel
| Undef (out : list line)
| Wrong.
Arguments Ok {A}. Arguments Fuel {A}. Arguments Undef {A}. Arguments Wrong {A}.

Inductive flow := FNormal | FBreak | FContinue | FReturn (v : value).

(* environment: stack of scopes, innermost first *)
Definition scope := list (nat * value).
Definition env := list scope.

Fixpoint lookup_scope (x : nat) (s : scope) : option value :=
  match s with
  | [] => None
  | (y, v) :: r => if Nat.eqb x y then Some v else lookup_scope x r
  end.
Fixpoint lookup (x : nat) (e : env) : option value :=
  match e with
  | [] => None
  | s :: r => match lookup_scope x s with Some v => Some v | None => lookup x r end
  end.
Fixpoint update_scope (x : nat) (v : value) (s : scope) : option scope :=
  match s with
  | [] => None
  | (y, w) :: r => if Nat.eqb x y then Some ((y, v) :: r)
                   else match update_scope x v r with Some r' => Some ((y, w) :: r') | None => None end
  end.
Fixpoint update (x : nat) (v : value) (e : env) : option env :=
  match e with
  | [] => None
  | s :: r => match update_scope x v s with
              | Some s' => Some (s' :: r)
              | None => match update x v r with Some r' => Some (s :: r') | None => None end
              end
  end.
Definition declare (x : nat) (v : value) (e : env) : env :=
  match e with
  | [] => [[(x, v)]]
  | s :: r => ((x, v) :: s) :: r
  end.

Definition item_of (v : value) : option item :=
  match v with VInt _ z => Some (OInt z) | VBool b => Some (OBool b) | VStr s => Some (OStr s) | VUnit | VStruct _ _ => None end.

(* replace the k-th element of a list (None if out of range) *)
Fixpoint set_nth (k : nat) (z : Z) (l : list Z) : option (list Z) :=
  match k, l with
  | O, _ :: r => Some (z :: r)
  | S k', x :: r => match set_nth k' z r with Some r' => Some (x :: r') | None => None end
  | _, [] => None
  end.

(* MIN / -1 and MIN % -1: for the 8- and 16-bit types the quotient 2^(N-1) simply wraps to MIN (and the remainder
   is 0) like every other result; for the 32- and 64-bit types the machine division instruction faults (x86 idiv,
   wasm div_s), no check is inserted by the compiler, and the case is left undefined (excluded from the claims) *)
Definition div_traps (t : ity) (a b : Z) : bool :=
  signed t && (32 <=? bits t) && (a =? tmin t) && (b =? -1).

(* arithmetic on one integer type: None = undefined (no run-time check is inserted by the compiler) *)
Definition arith (o : binop) (t : ity) (a b : Z) : option Z :=
  match o with
  | Add => Some (wrap t (a + b))
  | Sub => Some (wrap t (a - b))
  | Mul => Some (wrap t (a * b))
  | Div => if (b =? 0) || div_traps t a b then None else Some (wrap t (Z.quot a b))
  | Mod => if (b =? 0) || div_traps t a b then None else Some (wrap t (Z.rem a b))
  | _ => None
  end.
Definition compare (o : binop) (a b : Z) : option bool :=
  match o with
  | Eq => Some (a =? b) | Ne => Some (negb (a =? b))
  | Lt => Some (a <? b) | Le => Some (a <=? b) | Gt => Some (b <? a) | Ge => Some (b <=? a)
  | _ => None
  end.
Definition is_arith (o : binop) := match o with Add | Sub | Mul | Div | Mod => true | _ => false end.
Definition is_cmp (o : binop) := match o with Eq | Ne | Lt | Le | Gt | Ge => true | _ => false end.

Definition bind {A B} (r : res A) (k : A -> list line -> res B) : res B :=
  match r with
  | Ok a out => k a out
  | Fuel => Fuel
  | Undef out => Undef out
  | Wrong => Wrong
  end.

Fixpoint bind_params (ps : list (nat * ty)) (vs : list value) : option scope :=
  match ps, vs with
  | [], [] => Some []
  | (x, _) :: ps', v :: vs' => match bind_params ps' vs' with Some s => Some ((x, v) :: s) | None => None end
  | _, _ => None
  end.

(* expressions and statements, parameterised by the meaning of calls (callf) and the loop bound k *)
(* the loop condition of a range: counting up while step > 0 (i < hi, or i <= hi for an inclusive range), counting down while
   step < 0 (i > hi, or i >= hi); a zero step never runs *)
Definition for_cond (incl : bool) (st i h : Z) : bool :=
  ((0 <? st) && (if incl then i <=? h else i <? h)) || ((st <? 0) && (if incl then h <=? i else h <? i)).

(* write the final values of by-reference parameters back into the caller's variables *)
Fixpoint copy_out (args : list (bool * expr)) (finals : list value) (en : env) : option env :=
  match args, finals with
  | [], [] => Some en
  | (true, EVar x) :: ar, v :: fr => match update x v en with Some en' => copy_out ar fr en' | None => None end
  | (true, _) :: _, _ :: _ => None
  | (false, _) :: ar, _ :: fr => copy_out ar fr en
  | _, _ => None
  end.

(* the last n entries of a scope (a function's parameters sit at the bottom of its outermost scope) *)
Definition lastn {A} (n : nat) (l : list A) : list A := skipn (length l - n) l.

Section Exec.
Variable structs : structs_t.
(* the meaning of a call: result value and the final values of the callee's parameters *)
Variable callf : nat -> list value -> list line -> res (value * list value).

(* evaluation yields a value and the environment after it: a call with by-reference arguments updates the caller's variables,
   and whatever is evaluated afterwards (left to right) sees the update *)
Fixpoint eval (e : expr) (en : env) (out : list line) {struct e} : res (value * env) :=
  match e with
  | ELit t v => Ok (VInt t v, en) out
  | EBool b => Ok (VBool b, en) out
  | EStr s => Ok (VStr s, en) out
  | EVar x => match lookup x en with Some v => Ok (v, en) out | None => Wrong end
  | EBin o a b =>
      match o with
      | And => bind (eval a en out) (fun ra out =>
                 match fst ra with
                 | VBool false => Ok (VBool false, snd ra) out
                 | VBool true => bind (eval b (snd ra) out) (fun rb out =>
                                   match fst rb with VBool _ => Ok rb out | _ => Wrong end)
                 | _ => Wrong end)
      | Or => bind (eval a en out) (fun ra out =>
                 match fst ra with
                 | VBool true => Ok (VBool true, snd ra) out
                 | VBool false => bind (eval b (snd ra) out) (fun rb out =>
                                   match fst rb with VBool _ => Ok rb out | _ => Wrong end)
                 | _ => Wrong end)
      | _ =>
        bind (eval a en out) (fun ra out =>
        bind (eval b (snd ra) out) (fun rb out =>
          match fst ra, fst rb with
          | VInt t x, VInt t' y =>
              if ity_eqb t t' then
                if is_arith o then
                  match arith o t x y with Some z => Ok (VInt t z, snd rb) out | None => Undef out end
                else match compare o x y with Some c => Ok (VBool c, snd rb) out | None => Wrong end
              else Wrong
          | VBool x, VBool y =>
              match o with
              | Eq => Ok (VBool (Bool.eqb x y), snd rb) out
              | Ne => Ok (VBool (negb (Bool.eqb x y)), snd rb) out
              | _ => Wrong
              end
          | VStr x, VStr y =>
              match o with
              | Add => Ok (VStr (String.append x y), snd rb) out
              | Eq => Ok (VBool (String.eqb x y), snd rb) out
              | Ne => Ok (VBool (negb (String.eqb x y)), snd rb) out
              | _ => Wrong
              end
          | _, _ => Wrong
          end))
      end
  | EUn Neg a => bind (eval a en out) (fun ra out =>
                   match fst ra with VInt t x => Ok (VInt t (wrap t (- x)), snd ra) out | _ => Wrong end)
  | EUn Not a => bind (eval a en out) (fun ra out =>
                   match fst ra with VBool b => Ok (VBool (negb b), snd ra) out | _ => Wrong end)
  | ECast a t => bind (eval a en out) (fun ra out =>
                   match fst ra with VInt _ x => Ok (VInt t (wrap t x), snd ra) out | _ => Wrong end)
  | ECall g es =>
      (fix evals (es : list expr) (acc : list value) (en : env) (out : list line) {struct es} : res (value * env) :=
         match es with
         | [] => bind (callf g (rev acc) out) (fun r out => Ok (fst r, en) out)
         | e1 :: r => bind (eval e1 en out) (fun r1 out => evals r (fst r1 :: acc) (snd r1) out)
         end) es [] en out
  | ECallR g args =>
      (fix evals (as_ : list (bool * expr)) (acc : list value) (en : env) (out : list line) {struct as_} : res (value * env) :=
         match as_ with
         | [] => bind (callf g (rev acc) out) (fun r out =>
                   match copy_out args (snd r) en with Some en' => Ok (fst r, en') out | None => Wrong end)
         | a1 :: r => bind (eval (snd a1) en out) (fun r1 out => evals r (fst r1 :: acc) (snd r1) out)
         end) args [] en out
  | EStructLit sid es =>
      (fix flds (es : list expr) (acc : list Z) (en : env) (out : list line) {struct es} : res (value * env) :=
         match es with
         | [] => Ok (VStruct sid (rev acc), en) out
         | e1 :: r => bind (eval e1 en out) (fun r1 out =>
                        match fst r1 with VInt _ z => flds r (z :: acc) (snd r1) out | _ => Wrong end)
         end) es [] en out
  | EField a k =>
      bind (eval a en out) (fun ra out =>
        match fst ra with
        | VStruct sid fs =>
            match nth_error structs sid with
            | Some fts =>
                match nth_error fts k, nth_error fs k with
                | Some t, Some z => Ok (VInt t z, snd ra) out
                | _, _ => Wrong
                end
            | None => Wrong
            end
        | _ => Wrong
        end)
  end.

Definition pop_scope (r : env * flow) : env * flow := (tl (fst r), snd r).

Fixpoint exec (k : nat) (s : stmt) (en : env) (out : list line) {struct s} : res (env * flow) :=
  match s with
  | SSkip => Ok (en, FNormal) out
  | SSeq a b => bind (exec k a en out) (fun r out =>
                  match r with
                  | (en', FNormal) => exec k b en' out
                  | other => Ok other out
                  end)
  | SLet x _ e => bind (eval e en out) (fun r out => Ok (declare x (fst r) (snd r), FNormal) out)
  | SAssign x e => bind (eval e en out) (fun r out =>
                     match update x (fst r) (snd r) with Some en' => Ok (en', FNormal) out | None => Wrong end)
  | SAssignField x k e =>
      bind (eval e en out) (fun r out =>
        match fst r, lookup x (snd r) with
        | VInt _ z, Some (VStruct sid fs) =>
            match set_nth k z fs with
            | Some fs' => match update x (VStruct sid fs') (snd r) with Some en' => Ok (en', FNormal) out | None => Wrong end
            | None => Wrong
            end
        | _, _ => Wrong
        end)
  | SIf c a b => bind (eval c en out) (fun rc out =>
                   match fst rc with
                   | VBool true => bind (exec k a ([] :: snd rc) out) (fun r out => Ok (pop_scope r) out)
                   | VBool false => bind (exec k b ([] :: snd rc) out) (fun r out => Ok (pop_scope r) out)
                   | _ => Wrong
                   end)
  | SBlock a => bind (exec k a ([] :: en) out) (fun r out => Ok (pop_scope r) out)
  | SWhile c body =>
      (fix loop (n : nat) (en : env) (out : list line) {struct n} : res (env * flow) :=
         match n with
         | O => Fuel
         | S n' =>
           bind (eval c en out) (fun rc out =>
             match fst rc with
             | VBool false => Ok (snd rc, FNormal) out
             | VBool true =>
                 bind (exec k body ([] :: snd rc) out) (fun r out =>
                   match snd r with
                   | FBreak => Ok (tl (fst r), FNormal) out
                   | FReturn v => Ok (tl (fst r), FReturn v) out
                   | _ => loop n' (tl (fst r)) out
                   end)
             | _ => Wrong
             end)
         end) k en out
  | SFor x t lo hi incl step body =>
      bind (eval lo en out) (fun rlo out =>
      bind (eval hi (snd rlo) out) (fun rhi out =>
      bind (eval step (snd rhi) out) (fun rst out =>
        match fst rlo, fst rhi, fst rst with
        | VInt t1 l, VInt t2 h, VInt t3 st =>
          (fix loop (n : nat) (i : Z) (en : env) (out : list line) {struct n} : res (env * flow) :=
             match n with
             | O => Fuel
             | S n' =>
               if for_cond incl st i h then
                 bind (exec k body ([(x, VInt t i)] :: en) out) (fun r out =>
                   match snd r with
                   | FBreak => Ok (tl (fst r), FNormal) out
                   | FReturn v => Ok (tl (fst r), FReturn v) out
                   | _ => loop n' (wrap t (Z.add i st)) (tl (fst r)) out
                   end)
               else Ok (en, FNormal) out
             end) k l (snd rst) out
        | _, _, _ => Wrong
        end)))
  | SBreak => Ok (en, FBreak) out
  | SContinue => Ok (en, FContinue) out
  | SReturn None => Ok (en, FReturn VUnit) out
  | SReturn (Some e) => bind (eval e en out) (fun r out => Ok (snd r, FReturn (fst r)) out)
  | SPrint es =>
      (fix prints (es : list expr) (acc : line) (en : env) (out : list line) {struct es} : res (env * flow) :=
         match es with
         | [] => Ok (en, FNormal) (out ++ [rev acc])
         | e1 :: r => bind (eval e1 en out) (fun r1 out =>
                        match item_of (fst r1) with Some it => prints r (it :: acc) (snd r1) out | None => Wrong end)
         end) es [] en out
  | SExpr e => bind (eval e en out) (fun r out => Ok (snd r, FNormal) out)
  end.
End Exec.

(* ------------------------------------------------------------------ programs *)
Section WithProg.
Variable structs : structs_t.
Variable p : prog.

(* call function f with argument values; fuel decreases at every call; a loop runs at most `fuel` iterations.
   Result: the returned value and the final values of the parameters (read by callers that passed variables by reference) *)
Fixpoint call (fuel : nat) (f : nat) (args : list value) (out : list line) {struct fuel} : res (value * list value) :=
  match fuel with
  | O => Fuel
  | S fuel' =>
    match nth_error p f with
    | None => Wrong
    | Some fd =>
      match bind_params (fparams fd) args with
      | None => Wrong
      | Some sc =>
        bind (exec structs (call fuel') fuel' (fbody fd) [sc] out) (fun r out =>
          let finals := map snd (lastn (length sc) (hd [] (fst r))) in
          match snd r with
          | FReturn v => Ok (v, finals) out
          | FNormal => Ok (VUnit, finals) out
          | _ => Wrong
          end)
      end
    end
  end.

Definition run (fuel : nat) : outcome :=
  match call fuel (length p - 1) [] [] with
  | Ok _ out => Done out
  | Fuel => OutOfFuel
  | Undef out => Undefined out
  | Wrong => Stuck
  end.
End WithProg.

(* decidable equality of observables, for the correspondence check *)
Definition item_eqb (a b : item) : bool :=
  match a, b with
  | OInt x, OInt y => x =? y
  | OBool x, OBool y => Bool.eqb x y
  | OStr x, OStr y => String.eqb x y
  | _, _ => false
  end.
Fixpoint list_eqb {A} (eqb : A -> A -> bool) (l1 l2 : list A) : bool :=
  match l1, l2 with
  | [], [] => true
  | a :: r1, b :: r2 => eqb a b && list_eqb eqb r1 r2
  | _, _ => false
  end.
Definition lines_eqb := list_eqb (list_eqb item_eqb).
