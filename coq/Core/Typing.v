(* FerretCore v1 — executable type checker (the rule catalogue of C03 restricted to this fragment). *)
From Coq Require Import String ZArith List Bool.
From FV Require Import Core.Syntax.
Import ListNotations.
Local Open Scope Z_scope.

Inductive tyerr :=
| EMixedOperands | ENonBoolCond | ENonBoolLogical | EArity | EArgType | EUndefined | ERedeclared
| EReturnType | EMissingReturnValue | ENotFunction | ELitRange | EAssignType | EVoidValue | EBadPrint
| EBreakOutsideLoop | ENotCallStmt | EBadCast | EBadUnary | EMissingReturn | EBadMain
| EUnknownStruct | EFieldCount | EFieldType | EUnknownField | ENotStruct.

Inductive tres (A : Type) := TOk (a : A) | TErr (e : tyerr).
Arguments TOk {A}. Arguments TErr {A}.
Definition tbind {A B} (r : tres A) (k : A -> tres B) : tres B :=
  match r with TOk a => k a | TErr e => TErr e end.

Definition tscope := list (nat * ty).
Definition tenv := list tscope.
Definition sig := (list ty * ty)%type.

Fixpoint tlookup_scope (x : nat) (s : tscope) : option ty :=
  match s with [] => None | (y, t) :: r => if Nat.eqb x y then Some t else tlookup_scope x r end.
Fixpoint tlookup (x : nat) (e : tenv) : option ty :=
  match e with [] => None | s :: r => match tlookup_scope x s with Some t => Some t | None => tlookup x r end end.
Definition tdeclare (x : nat) (t : ty) (e : tenv) : tenv :=
  match e with [] => [[(x, t)]] | s :: r => ((x, t) :: s) :: r end.
Definition in_current (x : nat) (e : tenv) : bool :=
  match e with [] => false | s :: _ => match tlookup_scope x s with Some _ => true | None => false end end.

(* no variable is passed by mutable reference twice in one call (the caller's copies would alias) *)
Fixpoint distinct_refs (args : list (bool * expr)) : bool :=
  match args with
  | [] => true
  | (true, EVar x) :: r =>
      negb (existsb (fun a => match a with (true, EVar y) => Nat.eqb x y | _ => false end) r) && distinct_refs r
  | _ :: r => distinct_refs r
  end.

Section WithSigs.
Variable structs : structs_t.
Variable sigs : list sig.

Fixpoint check_expr (G : tenv) (e : expr) {struct e} : tres ty :=
  match e with
  | ELit t v => if in_range t v then TOk (TInt t) else TErr ELitRange
  | EBool _ => TOk TBool
  | EStr _ => TOk TStr
  | EVar x => match tlookup x G with Some t => TOk t | None => TErr EUndefined end
  | EBin o a b =>
      tbind (check_expr G a) (fun ta => tbind (check_expr G b) (fun tb =>
        match o with
        | And | Or => match ta, tb with TBool, TBool => TOk TBool | _, _ => TErr ENonBoolLogical end
        | Add =>
            match ta, tb with
            | TInt x, TInt y => if ity_eqb x y then TOk (TInt x) else TErr EMixedOperands
            | TStr, TStr => TOk TStr
            | _, _ => TErr EMixedOperands
            end
        | Sub | Mul | Div | Mod =>
            match ta, tb with
            | TInt x, TInt y => if ity_eqb x y then TOk (TInt x) else TErr EMixedOperands
            | _, _ => TErr EMixedOperands
            end
        | Eq | Ne =>
            match ta, tb with
            | TInt x, TInt y => if ity_eqb x y then TOk TBool else TErr EMixedOperands
            | TBool, TBool => TOk TBool
            | TStr, TStr => TOk TBool
            | _, _ => TErr EMixedOperands
            end
        | Lt | Le | Gt | Ge =>
            match ta, tb with
            | TInt x, TInt y => if ity_eqb x y then TOk TBool else TErr EMixedOperands
            | _, _ => TErr EMixedOperands
            end
        end))
  | EUn Neg a => tbind (check_expr G a) (fun ta => match ta with TInt t => TOk (TInt t) | _ => TErr EBadUnary end)
  | EUn Not a => tbind (check_expr G a) (fun ta => match ta with TBool => TOk TBool | _ => TErr ENonBoolLogical end)
  | ECast a t => tbind (check_expr G a) (fun ta => match ta with TInt _ => TOk (TInt t) | _ => TErr EBadCast end)
  | ECall f es =>
      match nth_error sigs f with
      | None => TErr ENotFunction
      | Some (pts, rt) =>
          (fix args (es : list expr) (pts : list ty) {struct es} : tres ty :=
             match es, pts with
             | [], [] => TOk rt
             | e1 :: r, t1 :: pr =>
                 tbind (check_expr G e1) (fun te => if ty_eqb te t1 then args r pr else TErr EArgType)
             | _, _ => TErr EArity
             end) es pts
      end
  | EStructLit sid es =>
      match nth_error structs sid with
      | None => TErr EUnknownStruct
      | Some fts =>
          (fix flds (es : list expr) (fts : list ity) {struct es} : tres ty :=
             match es, fts with
             | [], [] => TOk (TStruct sid)
             | e1 :: r, t1 :: fr =>
                 tbind (check_expr G e1) (fun te => if ty_eqb te (TInt t1) then flds r fr else TErr EFieldType)
             | _, _ => TErr EFieldCount
             end) es fts
      end
  | EField a k =>
      tbind (check_expr G a) (fun ta =>
        match ta with
        | TStruct sid =>
            match nth_error structs sid with
            | Some fts => match nth_error fts k with Some t => TOk (TInt t) | None => TErr EUnknownField end
            | None => TErr EUnknownStruct
            end
        | _ => TErr ENotStruct
        end)
  | ECallR f args =>
      match nth_error sigs f with
      | None => TErr ENotFunction
      | Some (pts, rt) =>
          if negb (distinct_refs args) then TErr EArgType else
          (fix ca (args : list (bool * expr)) (pts : list ty) {struct args} : tres ty :=
             match args, pts with
             | [], [] => TOk rt
             | a1 :: r, t1 :: pr =>
                 (* by reference exactly where the parameter is a reference, and then the argument is a variable *)
                 if negb (Bool.eqb (fst a1) (is_ref t1)) || (fst a1 && negb (is_var (snd a1))) then TErr EArgType else
                 tbind (check_expr G (snd a1)) (fun te => if ty_eqb te (pty_in t1) then ca r pr else TErr EArgType)
             | _, _ => TErr EArity
             end) args pts
      end
  end.

Definition printable (t : ty) : bool := match t with TInt _ | TBool | TStr => true | TVoid | TStruct _ | TMutRef _ => false end.

(* check_stmt returns the environment after the statement *)
Fixpoint check_stmt (ret : ty) (inloop : bool) (G : tenv) (s : stmt) {struct s} : tres tenv :=
  match s with
  | SSkip => TOk G
  | SSeq a b => tbind (check_stmt ret inloop G a) (fun G' => check_stmt ret inloop G' b)
  | SLet x t e =>
      if in_current x G then TErr ERedeclared else
      tbind (check_expr G e) (fun te =>
        match t with
        | TVoid | TMutRef _ => TErr EVoidValue
        | _ => if ty_eqb te t then TOk (tdeclare x t G) else TErr EAssignType
        end)
  | SAssign x e =>
      match tlookup x G with
      | None => TErr EUndefined
      | Some t => tbind (check_expr G e) (fun te => if ty_eqb te t then TOk G else TErr EAssignType)
      end
  | SAssignField x k e =>
      match tlookup x G with
      | Some (TStruct sid) =>
          match nth_error structs sid with
          | Some fts =>
              match nth_error fts k with
              | Some t => tbind (check_expr G e) (fun te => if ty_eqb te (TInt t) then TOk G else TErr EAssignType)
              | None => TErr EUnknownField
              end
          | None => TErr EUnknownStruct
          end
      | Some _ => TErr ENotStruct
      | None => TErr EUndefined
      end
  | SIf c a b =>
      tbind (check_expr G c) (fun tc =>
        match tc with
        | TBool => tbind (check_stmt ret inloop ([] :: G) a) (fun _ =>
                   tbind (check_stmt ret inloop ([] :: G) b) (fun _ => TOk G))
        | _ => TErr ENonBoolCond
        end)
  | SBlock a => tbind (check_stmt ret inloop ([] :: G) a) (fun _ => TOk G)
  | SWhile c body =>
      tbind (check_expr G c) (fun tc =>
        match tc with
        | TBool => tbind (check_stmt ret true ([] :: G) body) (fun _ => TOk G)
        | _ => TErr ENonBoolCond
        end)
  | SFor x t lo hi incl step body =>
      tbind (check_expr G lo) (fun tl =>
      tbind (check_expr G hi) (fun th =>
      tbind (check_expr G step) (fun ts =>
        if ty_eqb tl (TInt t) && ty_eqb th (TInt t) && ty_eqb ts (TInt t)
        then tbind (check_stmt ret true ([(x, TInt t)] :: G) body) (fun _ => TOk G)
        else TErr EMixedOperands)))
  | SBreak | SContinue => if inloop then TOk G else TErr EBreakOutsideLoop
  | SReturn None => match ret with TVoid => TOk G | _ => TErr EMissingReturnValue end
  | SReturn (Some e) =>
      tbind (check_expr G e) (fun te =>
        match ret with
        | TVoid => TErr EReturnType
        | _ => if ty_eqb te ret then TOk G else TErr EReturnType
        end)
  | SPrint es =>
      (fix pr (es : list expr) {struct es} : tres tenv :=
         match es with
         | [] => TOk G
         | e1 :: r => tbind (check_expr G e1) (fun te => if printable te then pr r else TErr EBadPrint)
         end) es
  | SExpr e =>
      match e with
      | ECall _ _ | ECallR _ _ => tbind (check_expr G e) (fun _ => TOk G)
      | _ => TErr ENotCallStmt
      end
  end.

(* every path through s ends in a return (syntactic, conservative: the shape the generator produces) *)
Fixpoint returns (s : stmt) : bool :=
  match s with
  | SReturn _ => true
  | SSeq a b => returns a || returns b
  | SIf _ a b => returns a && returns b
  | SBlock a => returns a
  | _ => false
  end.

Fixpoint distinct_params (ps : list (nat * ty)) : bool :=
  match ps with
  | [] => true
  | (x, t) :: r => negb (existsb (fun q => Nat.eqb (fst q) x) r) && distinct_params r
                   && match t with TVoid => false | _ => true end
  end.

Definition check_fn (f : fn) : tres unit :=
  if negb (distinct_params (fparams f)) then TErr ERedeclared else
  tbind (check_stmt (fret f) false [map (fun xt => (fst xt, pty_in (snd xt))) (fparams f)] (fbody f)) (fun _ =>
    match fret f with
    | TVoid => TOk tt
    | TMutRef _ => TErr EReturnType
    | _ => if returns (fbody f) then TOk tt else TErr EMissingReturn
    end).
End WithSigs.

Definition sig_of (f : fn) : sig := (map snd (fparams f), fret f).

Fixpoint check_fns (structs : structs_t) (sigs : list sig) (fs : list fn) : tres unit :=
  match fs with
  | [] => TOk tt
  | f :: r => tbind (check_fn structs sigs f) (fun _ => check_fns structs sigs r)
  end.

Definition check_prog (structs : structs_t) (p : prog) : tres unit :=
  match rev p with
  | [] => TErr EBadMain
  | m :: _ =>
      match fparams m, fret m with
      | [], TVoid => check_fns structs (map sig_of p) p
      | _, _ => TErr EBadMain
      end
  end.

Definition accepts (structs : structs_t) (p : prog) : bool := match check_prog structs p with TOk _ => true | TErr _ => false end.
