(* FerretCore v1 — reference syntax (C01, C02, C03, C09).
   Fragment: fixed-width integers i8..i64 / u8..u64, bool, functions and recursion, let / assignment / compound
   assignment (desugared by the renderer), if / else, while, break / continue, return, print of one or more values. *)
From Coq Require Import String ZArith List Bool.
Import ListNotations.
Local Open Scope Z_scope.

Inductive ity := I8 | I16 | I32 | I64 | U8 | U16 | U32 | U64.
Inductive ty := TInt (t : ity) | TBool | TVoid | TStr | TStruct (sid : nat)   (* struct sid: fields are integers (Syntax.structs table) *)
              | TMutRef (sid : nat).   (* parameter type only: mutable reference &'S<sid>; inside the callee the parameter is used
                                          like a struct variable, and the caller's variable receives its final value *)

Inductive binop := Add | Sub | Mul | Div | Mod | Eq | Ne | Lt | Le | Gt | Ge | And | Or.
Inductive unop := Neg | Not.

Inductive expr :=
| ELit (t : ity) (v : Z)
| EBool (b : bool)
| EStr (s : string)                             (* string literal; `+` concatenates, `==` / `!=` compare contents *)
| EVar (x : nat)
| EBin (o : binop) (a b : expr)
| EUn (o : unop) (a : expr)
| ECast (a : expr) (t : ity)
| ECall (f : nat) (args : list expr)
| EStructLit (sid : nat) (es : list expr)      (* { .F0 = e0, .F1 = e1, ... } as S<sid> *)
| EField (e : expr) (k : nat)                   (* e.F<k> *)
| ECallR (f : nat) (args : list (bool * expr)). (* f(a1, ..., an) where an argument flagged true is a variable passed by mutable
                                                   reference (&'x): the variable holds the parameter's final value after the call *)

Inductive stmt :=
| SSkip
| SSeq (a b : stmt)
| SLet (x : nat) (t : ty) (e : expr)        (* let x: t = e;  (immutable `const` is rendered from the same node) *)
| SAssign (x : nat) (e : expr)
| SAssignField (x : nat) (k : nat) (e : expr)   (* x.F<k> = e : only that component changes *)
| SIf (c : expr) (a b : stmt)               (* each branch is a block (own scope) *)
| SWhile (c : expr) (body : stmt)
| SFor (x : nat) (t : ity) (lo hi : expr) (incl : bool) (step : expr) (body : stmt)
   (* for x in lo..hi:step { body } (incl: lo..=hi); lo, hi, step evaluated once, in this order; x advances by step, wrapping at t *)
| SBreak | SContinue
| SReturn (e : option expr)
| SPrint (es : list expr)                   (* io::Println(e1, ..., en) *)
| SExpr (e : expr)                          (* call statement *)
| SBlock (s : stmt).                        (* { s } *)

Record fn := { fparams : list (nat * ty); fret : ty; fbody : stmt }.
(* a program is a list of functions; function k is `f<k>`; the last function is main (no params, void) *)
Definition prog := list fn.

Definition ity_eqb (a b : ity) : bool :=
  match a, b with
  | I8,I8 | I16,I16 | I32,I32 | I64,I64 | U8,U8 | U16,U16 | U32,U32 | U64,U64 => true
  | _, _ => false
  end.
Definition ty_eqb (a b : ty) : bool :=
  match a, b with
  | TInt x, TInt y => ity_eqb x y
  | TBool, TBool => true
  | TVoid, TVoid => true
  | TStr, TStr => true
  | TStruct a, TStruct b => Nat.eqb a b
  | TMutRef a, TMutRef b => Nat.eqb a b
  | _, _ => false
  end.

(* the type a parameter has inside its function *)
Definition pty_in (t : ty) : ty := match t with TMutRef s => TStruct s | _ => t end.
Definition is_ref (t : ty) : bool := match t with TMutRef _ => true | _ => false end.
Definition is_var (e : expr) : bool := match e with EVar _ => true | _ => false end.

(* struct table: struct sid has the listed integer field types (by-value aggregates) *)
Definition structs_t := list (list ity).

Definition bits (t : ity) : Z :=
  match t with I8 | U8 => 8 | I16 | U16 => 16 | I32 | U32 => 32 | I64 | U64 => 64 end.
Definition signed (t : ity) : bool :=
  match t with I8 | I16 | I32 | I64 => true | _ => false end.

(* two's complement reduction of a mathematical integer to type t *)
Definition wrap (t : ity) (x : Z) : Z :=
  let m := 2 ^ bits t in
  if signed t then (x + m / 2) mod m - m / 2 else x mod m.
Definition tmin (t : ity) : Z := if signed t then - 2 ^ (bits t - 1) else 0.
Definition tmax (t : ity) : Z := if signed t then 2 ^ (bits t - 1) - 1 else 2 ^ bits t - 1.
Definition in_range (t : ity) (x : Z) : bool := (tmin t <=? x) && (x <=? tmax t).
