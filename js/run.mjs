// node js/run.mjs <prog.wasm> <path to runtime.js>
// Instantiates a Ferret .wasm with the shipped JS runtime and runs main().
// stdout: what the runtime prints (console.log). Exit 0 = normal completion; exit 3 = panic (Error thrown by
// ferret_global_panic, message on stderr as "panic: <msg>"); exit 4 = wasm trap (RuntimeError); exit 5 = other.
import { readFileSync } from "node:fs";
import { pathToFileURL } from "node:url";
const [wasmPath, rtPath] = process.argv.slice(2);
const { createFerretRuntime } = await import(pathToFileURL(rtPath).href);
const rt = createFerretRuntime();
let code = 0;
try {
  const { instance } = await WebAssembly.instantiate(readFileSync(wasmPath), rt.imports);
  rt.bind(instance);
  instance.exports.main();
} catch (e) {
  if (e instanceof WebAssembly.RuntimeError) { console.error("trap: " + e.message); code = 4; }
  else if (e instanceof WebAssembly.LinkError || e instanceof WebAssembly.CompileError) { console.error("link: " + e.message); code = 5; }
  else if (e instanceof Error) { console.error("panic: " + e.message); code = 3; }
  else { console.error("error: " + e); code = 5; }
}
process.exitCode = code;
