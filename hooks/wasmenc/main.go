//go:build verif

// wasmenc: drives the REAL binary encoders of internal/codegen/wasm/module.go (through the wrappers of
// export/verif_export.go, which harness/c02enc.py adds to package wasm with go build -overlay).
// One request per line on stdin, one answer line (lower-case hex of the produced bytes) on stdout:
//   u32 <decimal>            encodeU32(uint32)
//   s32 <decimal>            encodeS32(int32)
//   s64 <decimal>            encodeS64(int64)
//   lim <decimal>            encodeLimits(uint32)
//   loc <rle>                encodeLocals       rle := "-" (empty) | count:byte,count:byte,...   (decimal)
//   str <rle>                encodeString
//   sec <id> <rle>           emitSection(byte(id), content)
// A malformed request is answered with "ERR <reason>", a panic of the encoder with "PANIC <value>".  Every answer is
// flushed at once.  An encoder call that does not return within 2 s is answered with "TIMEOUT" and the process exits
// with status 3 (the caller restarts the driver behind that request; it also caps the address space, because a
// non-terminating encoder loop appends without bound).
package main

import (
	"bufio"
	"encoding/hex"
	"fmt"
	"os"
	"strconv"
	"strings"
	"time"

	"compiler/internal/codegen/wasm"
)

func rle(s string) ([]byte, error) {
	if s == "-" {
		return []byte{}, nil
	}
	var out []byte
	for _, g := range strings.Split(s, ",") {
		cb := strings.SplitN(g, ":", 2)
		if len(cb) != 2 {
			return nil, fmt.Errorf("bad group %q", g)
		}
		c, err := strconv.ParseUint(cb[0], 10, 32)
		if err != nil {
			return nil, err
		}
		b, err := strconv.ParseUint(cb[1], 10, 8)
		if err != nil {
			return nil, err
		}
		for i := uint64(0); i < c; i++ {
			out = append(out, byte(b))
		}
	}
	return out, nil
}

func handle(f []string) ([]byte, error) {
	if len(f) < 2 {
		return nil, fmt.Errorf("short request")
	}
	switch f[0] {
	case "u32", "lim":
		v, err := strconv.ParseUint(f[1], 10, 32)
		if err != nil {
			return nil, err
		}
		if f[0] == "lim" {
			return wasm.VerifEncodeLimits(uint32(v)), nil
		}
		return wasm.VerifEncodeU32(uint32(v)), nil
	case "s32":
		v, err := strconv.ParseInt(f[1], 10, 32)
		if err != nil {
			return nil, err
		}
		return wasm.VerifEncodeS32(int32(v)), nil
	case "s64":
		v, err := strconv.ParseInt(f[1], 10, 64)
		if err != nil {
			return nil, err
		}
		return wasm.VerifEncodeS64(v), nil
	case "loc":
		b, err := rle(f[1])
		if err != nil {
			return nil, err
		}
		return wasm.VerifEncodeLocals(b), nil
	case "str":
		b, err := rle(f[1])
		if err != nil {
			return nil, err
		}
		return wasm.VerifEncodeString(string(b)), nil
	case "sec":
		if len(f) < 3 {
			return nil, fmt.Errorf("short request")
		}
		id, err := strconv.ParseUint(f[1], 10, 8)
		if err != nil {
			return nil, err
		}
		b, err := rle(f[2])
		if err != nil {
			return nil, err
		}
		return wasm.VerifEmitSection(byte(id), b), nil
	}
	return nil, fmt.Errorf("unknown request %q", f[0])
}

func main() {
	in := bufio.NewScanner(os.Stdin)
	in.Buffer(make([]byte, 1<<20), 1<<26)
	out := bufio.NewWriterSize(os.Stdout, 1<<20)
	defer out.Flush()
	for in.Scan() {
		line := strings.TrimSpace(in.Text())
		if line == "" {
			continue
		}
		type res struct {
			b   []byte
			err error
		}
		ch := make(chan res, 1)
		fields := strings.Fields(line)
		go func() {
			defer func() {
				if r := recover(); r != nil {
					ch <- res{nil, fmt.Errorf("PANIC %v", r)}
				}
			}()
			b, err := handle(fields)
			ch <- res{b, err}
		}()
		var b []byte
		var err error
		select {
		case r := <-ch:
			b, err = r.b, r.err
		case <-time.After(2 * time.Second):
			fmt.Fprintln(out, "TIMEOUT")
			out.Flush()
			os.Exit(3)
		}
		if err != nil {
			if strings.HasPrefix(err.Error(), "PANIC") {
				fmt.Fprintf(out, "%v\n", err)
			} else {
				fmt.Fprintf(out, "ERR %v\n", err)
			}
			out.Flush()
			continue
		}
		fmt.Fprintln(out, hex.EncodeToString(b))
		out.Flush()
	}
}
