//go:build verif

// Added VIRTUALLY (go build -overlay, never written into the repository) as
// /repo/internal/codegen/wasm/verif_export.go by harness/c02enc.py: thin exported wrappers around the
// unexported binary encoders of module.go, so that the driver hooks/wasmenc/main.go can call the real code.
package wasm

func VerifEncodeU32(v uint32) []byte { return encodeU32(v) }

func VerifEncodeS32(v int32) []byte { return encodeS32(v) }

func VerifEncodeS64(v int64) []byte { return encodeS64(v) }

func VerifEncodeString(s string) []byte { return encodeString(s) }

func VerifEmitSection(id byte, content []byte) []byte { return emitSection(id, content) }

func VerifEncodeLimits(min uint32) []byte { return encodeLimits(min) }

func VerifEncodeLocals(locals []byte) []byte {
	ls := make([]ValType, len(locals))
	for i, b := range locals {
		ls[i] = ValType(b)
	}
	return encodeLocals(ls)
}
