//go:build verif

// depgraph: drives the real context_v2.AddDependency / ComputeTopologicalOrder (exported API only).
// One JSON request per line on stdin, one JSON answer per line on stdout.
//
//	{"id":1,"mode":"seq","mods":["p/a","p/b"],"calls":[["p/a","p/b"],["p/b","p/a"]]}
//	  -> {"id":1,"results":["","circular import detected: b -> a -> b"],"graph":[["p/a",["p/b"]]],"order":["p/b","p/a"]}
//	{"id":2,"mode":"conc","mods":[...],"groups":[["p/a",["p/b"]],["p/b",["p/a"]]],"trials":2000}
//	  one goroutine per group (as one parser goroutine per importer), all released together; answers the
//	  distinct outcomes {"errs":[per-group error count],"graph":...,"order":...,"n":count}
package main

import (
	"bufio"
	"encoding/json"
	"fmt"
	"os"
	"runtime/debug"
	"sort"
	"sync"

	"compiler/internal/context_v2"
)

type group struct {
	Importer string
	Deps     []string
}

func (g *group) UnmarshalJSON(b []byte) error {
	var raw []json.RawMessage
	if err := json.Unmarshal(b, &raw); err != nil {
		return err
	}
	if len(raw) != 2 {
		return fmt.Errorf("group needs 2 elements")
	}
	if err := json.Unmarshal(raw[0], &g.Importer); err != nil {
		return err
	}
	return json.Unmarshal(raw[1], &g.Deps)
}

type req struct {
	ID     int         `json:"id"`
	Mode   string      `json:"mode"`
	Mods   []string    `json:"mods"`
	Calls  [][2]string `json:"calls"`
	Groups []group     `json:"groups"`
	Trials int         `json:"trials"`
}

type outcome struct {
	Errs  []int           `json:"errs"`
	Msgs  []string        `json:"msgs"`
	Graph [][]interface{} `json:"graph"`
	Order []string        `json:"order"`
	N     int             `json:"n"`
}

type resp struct {
	ID       int             `json:"id"`
	Panic    string          `json:"panic"`
	Results  []string        `json:"results"`
	Graph    [][]interface{} `json:"graph"`
	Order    []string        `json:"order"`
	Outcomes []*outcome      `json:"outcomes"`
}

var shared *context_v2.CompilerContext

// newCtx: a context with empty Modules / DepGraph (the expensive universe set-up of New is done once;
// both maps are exported fields and are reset here, nothing else of the context is used by the driven calls)
func newCtx(mods []string) *context_v2.CompilerContext {
	if shared == nil {
		shared = context_v2.New(&context_v2.Config{Extension: ".fer"}, false)
	}
	ctx := shared
	ctx.Modules = make(map[string]*context_v2.Module)
	ctx.DepGraph = make(map[string][]string)
	for _, m := range mods {
		ctx.AddModule(m, &context_v2.Module{ImportPath: m})
	}
	return ctx
}

func graphOf(ctx *context_v2.CompilerContext) [][]interface{} {
	keys := make([]string, 0, len(ctx.DepGraph))
	for k := range ctx.DepGraph {
		keys = append(keys, k)
	}
	sort.Strings(keys)
	out := make([][]interface{}, 0, len(keys))
	for _, k := range keys {
		deps := append([]string{}, ctx.DepGraph[k]...)
		out = append(out, []interface{}{k, deps})
	}
	return out
}

func one(r req) (res resp) {
	res.ID = r.ID
	defer func() {
		if e := recover(); e != nil {
			res.Panic = fmt.Sprintf("%v\n%s", e, debug.Stack())
		}
	}()
	switch r.Mode {
	case "seq":
		ctx := newCtx(r.Mods)
		res.Results = []string{}
		for _, c := range r.Calls {
			if err := ctx.AddDependency(c[0], c[1]); err != nil {
				res.Results = append(res.Results, err.Error())
			} else {
				res.Results = append(res.Results, "")
			}
		}
		res.Graph = graphOf(ctx)
		ctx.ComputeTopologicalOrder()
		res.Order = append([]string{}, ctx.GetModuleNames()...)
	case "conc":
		seen := map[string]*outcome{}
		for t := 0; t < r.Trials; t++ {
			ctx := newCtx(r.Mods)
			errs := make([]int, len(r.Groups))
			msgs := make([]string, len(r.Groups))
			var wg sync.WaitGroup
			start := make(chan struct{})
			for i := range r.Groups {
				wg.Add(1)
				go func(i int) {
					defer wg.Done()
					<-start
					for _, d := range r.Groups[i].Deps {
						if err := ctx.AddDependency(r.Groups[i].Importer, d); err != nil {
							errs[i]++
							msgs[i] = err.Error()
						}
					}
				}(i)
			}
			close(start)
			wg.Wait()
			g := graphOf(ctx)
			ctx.ComputeTopologicalOrder()
			o := &outcome{Errs: errs, Msgs: msgs, Graph: g, Order: append([]string{}, ctx.GetModuleNames()...), N: 1}
			kb, _ := json.Marshal([]interface{}{o.Errs, o.Graph, o.Order})
			if p, ok := seen[string(kb)]; ok {
				p.N++
			} else {
				seen[string(kb)] = o
			}
		}
		keys := make([]string, 0, len(seen))
		for k := range seen {
			keys = append(keys, k)
		}
		sort.Strings(keys)
		for _, k := range keys {
			res.Outcomes = append(res.Outcomes, seen[k])
		}
	default:
		res.Panic = "unknown mode " + r.Mode
	}
	return
}

func main() {
	sc := bufio.NewScanner(os.Stdin)
	sc.Buffer(make([]byte, 1<<20), 1<<26)
	w := bufio.NewWriter(os.Stdout)
	defer w.Flush()
	for sc.Scan() {
		var r req
		if err := json.Unmarshal(sc.Bytes(), &r); err != nil {
			fmt.Fprintf(os.Stderr, "bad request: %v\n", err)
			continue
		}
		b, _ := json.Marshal(one(r))
		w.Write(b)
		w.WriteByte('\n')
		w.Flush()
	}
}
