//go:build verif

// qbesel: builds one-instruction MIR functions by hand for every integer type and operator and runs the REAL QBE
// emitter (qbe_embeddings.New(ctx, mod, mirMod).Emit()); prints the emitted QBE IL on stdout.
// Function names are the table keys: bin_<op>_<T>, bbin_<op>, neg_<T>, not_bool, cast_<S>_<T>, rt_<T>.
// Exported API only.
package main

import (
	"fmt"
	"os"

	qbe "compiler/internal/codegen/qbe_embeddings"
	"compiler/internal/context_v2"
	"compiler/internal/mir"
	"compiler/internal/tokens"
	"compiler/internal/types"
)

var ints = []string{"i8", "i16", "i32", "i64", "u8", "u16", "u32", "u64"}

func prim(n string) types.SemType { return types.NewPrimitive(types.TYPE_NAME(n)) }

type bop struct {
	name string
	tok  tokens.TOKEN
	cmp  bool
}

var bops = []bop{
	{"add", tokens.PLUS_TOKEN, false}, {"sub", tokens.MINUS_TOKEN, false}, {"mul", tokens.MUL_TOKEN, false},
	{"div", tokens.DIV_TOKEN, false}, {"mod", tokens.MOD_TOKEN, false},
	{"lt", tokens.LESS_TOKEN, true}, {"le", tokens.LESS_EQUAL_TOKEN, true}, {"gt", tokens.GREATER_TOKEN, true},
	{"ge", tokens.GREATER_EQUAL_TOKEN, true}, {"eq", tokens.DOUBLE_EQUAL_TOKEN, true}, {"ne", tokens.NOT_EQUAL_TOKEN, true},
}

func fn(name string, params []types.SemType, ret types.SemType, mk func(ids []mir.ValueID, next func() mir.ValueID) ([]mir.Instr, mir.ValueID)) *mir.Function {
	f := &mir.Function{Name: name, Return: ret}
	var ids []mir.ValueID
	n := mir.ValueID(0)
	next := func() mir.ValueID { n++; return n }
	for i, p := range params {
		id := next()
		ids = append(ids, id)
		f.Params = append(f.Params, mir.Param{ID: id, Name: fmt.Sprintf("p%d", i), Type: p})
	}
	instrs, res := mk(ids, next)
	f.Blocks = []*mir.Block{{ID: 1, Name: "entry", Instrs: instrs, Term: &mir.Return{Value: res, HasValue: true}}}
	return f
}

func build() []*mir.Function {
	var fs []*mir.Function
	boolT := prim("bool")
	for _, t := range ints {
		T := prim(t)
		for _, o := range bops {
			o := o
			ret := T
			if o.cmp {
				ret = boolT
			}
			fs = append(fs, fn("bin_"+o.name+"_"+t, []types.SemType{T, T}, ret, func(ids []mir.ValueID, next func() mir.ValueID) ([]mir.Instr, mir.ValueID) {
				r := next()
				return []mir.Instr{&mir.Binary{Result: r, Op: o.tok, Left: ids[0], Right: ids[1], Type: ret}}, r
			}))
		}
		fs = append(fs, fn("neg_"+t, []types.SemType{T}, T, func(ids []mir.ValueID, next func() mir.ValueID) ([]mir.Instr, mir.ValueID) {
			r := next()
			return []mir.Instr{&mir.Unary{Result: r, Op: tokens.MINUS_TOKEN, X: ids[0], Type: T}}, r
		}))
		for _, s := range ints {
			if s == t {
				continue
			}
			S := prim(s)
			fs = append(fs, fn("cast_"+s+"_"+t, []types.SemType{S}, T, func(ids []mir.ValueID, next func() mir.ValueID) ([]mir.Instr, mir.ValueID) {
				r := next()
				return []mir.Instr{&mir.Cast{Result: r, X: ids[0], Type: T}}, r
			}))
		}
	}
	for _, t := range append(append([]string{}, ints...), "bool") {
		T := prim(t)
		fs = append(fs, fn("rt_"+t, []types.SemType{T}, T, func(ids []mir.ValueID, next func() mir.ValueID) ([]mir.Instr, mir.ValueID) {
			a := next()
			r := next()
			return []mir.Instr{&mir.Alloca{Result: a, Type: T}, &mir.Store{Addr: a, Value: ids[0]}, &mir.Load{Result: r, Addr: a, Type: T}}, r
		}))
	}
	for _, o := range []bop{{"eq", tokens.DOUBLE_EQUAL_TOKEN, true}, {"ne", tokens.NOT_EQUAL_TOKEN, true},
		{"and", tokens.AND_TOKEN, false}, {"or", tokens.OR_TOKEN, false}} {
		o := o
		fs = append(fs, fn("bbin_"+o.name, []types.SemType{boolT, boolT}, boolT, func(ids []mir.ValueID, next func() mir.ValueID) ([]mir.Instr, mir.ValueID) {
			r := next()
			return []mir.Instr{&mir.Binary{Result: r, Op: o.tok, Left: ids[0], Right: ids[1], Type: boolT}}, r
		}))
	}
	fs = append(fs, fn("not_bool", []types.SemType{boolT}, boolT, func(ids []mir.ValueID, next func() mir.ValueID) ([]mir.Instr, mir.ValueID) {
		r := next()
		return []mir.Instr{&mir.Unary{Result: r, Op: tokens.NOT_TOKEN, X: ids[0], Type: boolT}}, r
	}))
	return fs
}

func main() {
	ctx := context_v2.New(&context_v2.Config{Extension: ".fer", CodegenBackend: "qbe"}, false)
	ctx.EntryModule = "sel"
	mod := &context_v2.Module{ImportPath: "sel"}
	mirMod := &mir.Module{ImportPath: "sel", Functions: build()}
	mir.LowerSwitches(mirMod)
	out, err := qbe.New(ctx, mod, mirMod).Emit()
	if err != nil {
		fmt.Fprintln(os.Stderr, "qbesel: emit failed:", err)
		ctx.EmitDiagnostics()
		os.Exit(2)
	}
	fmt.Print(out)
}
