//go:build verif

// batch: in-process driver of compiler.Compile for volume runs (one process handles many inputs sequentially;
// the harness starts several). Reads one JSON request per line:
//   {"id": 1, "file": "/abs/main.fer", "mode": "t" | "native" | "wasm", "out": "/abs/out", "keep": false}
// and answers one JSON line {"id", "ok", "panic", "out"}. Uses exported API only.
package main

import (
	"bufio"
	"encoding/json"
	"fmt"
	"os"
	"runtime/debug"
	"time"

	"compiler/internal/compiler"
)

type req struct {
	ID   int    `json:"id"`
	File string `json:"file"`
	Mode string `json:"mode"`
	Out  string `json:"out"`
	Keep bool   `json:"keep"`
	// TimeoutMs > 0: if the compilation has not finished after that time the hook answers {"panic": "timeout …"} and
	// exits with status 3 (a runaway goroutine cannot be stopped); the harness restarts the remaining requests.
	TimeoutMs int `json:"timeout_ms"`
}

type resp struct {
	ID    int    `json:"id"`
	OK    bool   `json:"ok"`
	Panic string `json:"panic"`
	Out   string `json:"out"`
}

func one(r req) (res resp) {
	res.ID = r.ID
	defer func() {
		if e := recover(); e != nil {
			res.OK = false
			res.Panic = fmt.Sprintf("%v\n%s", e, debug.Stack())
		}
	}()
	o := &compiler.Options{EntryFile: r.File, LogFormat: compiler.HTML, KeepGenFiles: r.Keep}
	switch r.Mode {
	case "t":
		o.SkipCodegen = true
		o.CodegenBackend = "qbe"
	case "native":
		o.CodegenBackend = "qbe"
		o.OutputExecutable = r.Out
	case "wasm":
		o.CodegenBackend = "wasm"
		o.OutputExecutable = r.Out
	}
	out := compiler.Compile(o)
	res.OK = out.Success
	res.Out = out.Output
	return
}

func main() {
	sc := bufio.NewScanner(os.Stdin)
	sc.Buffer(make([]byte, 1<<20), 1<<26)
	w := bufio.NewWriter(os.Stdout)
	defer w.Flush()
	for sc.Scan() {
		var r req
		if err := json.Unmarshal(sc.Bytes(), &r); err != nil {
			continue
		}
		var out resp
		if r.TimeoutMs > 0 {
			done := make(chan resp, 1)
			go func() { done <- one(r) }()
			select {
			case out = <-done:
			case <-time.After(time.Duration(r.TimeoutMs) * time.Millisecond):
				out = resp{ID: r.ID, OK: false, Panic: fmt.Sprintf("timeout: compilation still running after %d ms", r.TimeoutMs)}
				b, _ := json.Marshal(out)
				w.Write(b)
				w.WriteByte('\n')
				w.Flush()
				os.Exit(3)
			}
		} else {
			out = one(r)
		}
		b, _ := json.Marshal(out)
		w.Write(b)
		w.WriteByte('\n')
		w.Flush()
	}
}
