//go:build verif

// layout: evaluates the real mir.DataLayout (SizeOf / AlignOf / StructLayout + FieldOffset) for pointer sizes 4
// and 8 on type expressions read from stdin, one JSON object per line:
//   {"id": 7, "t": T}      T := {"k":"p","n":"i64"} | {"k":"s","f":[T..]} | {"k":"a","n":3,"e":T} | {"k":"o","e":T}
//                               | {"k":"r","ok":T,"err":T} | {"k":"ref","e":T} | {"k":"map","key":T,"val":T}
//                               | {"k":"fn"} | {"k":"iface","m":2} | {"k":"enum","n":3} | {"k":"u","v":[T..]}
//                               | {"k":"named","e":T}
//   {"prims": true}         -> {"prims": {"i8": 1, ...}}   (types.NewPrimitive(name).Size(), types.go)
// answer: {"id": 7, "l4": N, "l8": N}   N := {"s": SizeOf, "a": AlignOf, "fe": t.Size(), "o": [field offsets], "c": [N..]}
// Exported API only.
package main

import (
	"bufio"
	"encoding/json"
	"fmt"
	"os"

	"compiler/internal/mir"
	"compiler/internal/types"
)

type T struct {
	K   string `json:"k"`
	N   json.RawMessage `json:"n"`
	F   []T    `json:"f"`
	E   *T     `json:"e"`
	Ok  *T     `json:"ok"`
	Err *T     `json:"err"`
	Key *T     `json:"key"`
	Val *T     `json:"val"`
	M   int    `json:"m"`
	V   []T    `json:"v"`
}

type req struct {
	ID    int  `json:"id"`
	T     *T   `json:"t"`
	Prims bool `json:"prims"`
}

type node struct {
	S  int    `json:"s"`
	A  int    `json:"a"`
	Fe int    `json:"fe"`
	O  []int  `json:"o,omitempty"`
	C  []node `json:"c,omitempty"`
}

var primNames = []string{"i8", "i16", "i32", "i64", "i128", "i256", "u8", "u16", "u32", "u64", "u128", "u256",
	"f32", "f64", "f128", "f256", "str", "bool", "none", "void", "byte", "unknown"}

func build(t *T) types.SemType {
	switch t.K {
	case "p":
		var name string
		json.Unmarshal(t.N, &name)
		return types.NewPrimitive(types.TYPE_NAME(name))
	case "s":
		fs := make([]types.StructField, len(t.F))
		for i := range t.F {
			fs[i] = types.StructField{Name: fmt.Sprintf("F%d", i), Type: build(&t.F[i])}
		}
		return types.NewStruct("", fs)
	case "a":
		var n int
		json.Unmarshal(t.N, &n)
		return types.NewArray(build(t.E), n)
	case "o":
		return types.NewOptional(build(t.E))
	case "r":
		return types.NewResult(build(t.Ok), build(t.Err))
	case "ref":
		return types.NewReference(build(t.E))
	case "map":
		return types.NewMap(build(t.Key), build(t.Val))
	case "fn":
		return types.NewFunction(nil, types.TypeVoid)
	case "iface":
		ms := make([]types.InterfaceMethod, t.M)
		for i := range ms {
			ms[i] = types.InterfaceMethod{Name: fmt.Sprintf("m%d", i), FuncType: types.NewFunction(nil, types.TypeVoid)}
		}
		return types.NewInterface(ms)
	case "enum":
		var n int
		json.Unmarshal(t.N, &n)
		vs := make([]types.EnumVariant, n)
		for i := range vs {
			vs[i] = types.EnumVariant{Name: fmt.Sprintf("V%d", i), Value: int64(i)}
		}
		return types.NewEnum("", vs)
	case "u":
		vs := make([]types.SemType, len(t.V))
		for i := range t.V {
			vs[i] = build(&t.V[i])
		}
		return types.NewUnion(vs)
	case "named":
		return types.NewNamed("N", build(t.E))
	}
	panic("unknown kind " + t.K)
}

func describe(d *mir.DataLayout, t types.SemType) node {
	n := node{S: d.SizeOf(t), A: d.AlignOf(t), Fe: t.Size()}
	switch tt := types.UnwrapType(t).(type) {
	case *types.StructType:
		l := d.StructLayout(tt)
		for _, f := range tt.Fields {
			off, ok := l.FieldOffset(f.Name)
			if !ok {
				off = -1
			}
			n.O = append(n.O, off)
		}
		for _, f := range tt.Fields {
			n.C = append(n.C, describe(d, f.Type))
		}
	case *types.ArrayType:
		n.C = append(n.C, describe(d, tt.Element))
	case *types.OptionalType:
		n.C = append(n.C, describe(d, tt.Inner))
	case *types.ResultType:
		n.C = append(n.C, describe(d, tt.Ok), describe(d, tt.Err))
	case *types.UnionType:
		for _, v := range tt.Variants {
			n.C = append(n.C, describe(d, v))
		}
	}
	return n
}

func one(line []byte) (out []byte) {
	var r req
	defer func() {
		if e := recover(); e != nil {
			out, _ = json.Marshal(map[string]interface{}{"id": r.ID, "panic": fmt.Sprint(e)})
		}
	}()
	if err := json.Unmarshal(line, &r); err != nil {
		panic(err)
	}
	if r.Prims {
		m := map[string]int{}
		for _, n := range primNames {
			m[n] = types.NewPrimitive(types.TYPE_NAME(n)).Size()
		}
		out, _ = json.Marshal(map[string]interface{}{"prims": m})
		return
	}
	t := build(r.T)
	out, _ = json.Marshal(map[string]interface{}{"id": r.ID,
		"l4": describe(mir.NewDataLayout(4), t), "l8": describe(mir.NewDataLayout(8), t)})
	return
}

func main() {
	sc := bufio.NewScanner(os.Stdin)
	sc.Buffer(make([]byte, 1<<20), 1<<26)
	w := bufio.NewWriter(os.Stdout)
	defer w.Flush()
	for sc.Scan() {
		if len(sc.Bytes()) == 0 {
			continue
		}
		w.Write(one(sc.Bytes()))
		w.WriteByte('\n')
	}
}
