(* C17 — glue around the OCaml extraction of coq/Models/MapRt.v and coq/Models/ArrayRt.v.
   Reads histories together with the lines printed by the implementation drivers (cshim/map_drv.c, arr_drv.c), builds
   the extracted `mcase` / `acase` values and prints the ids computed by the extracted bad_ids / order_ids /
   abad_ids / acap_ids.  Only parsing is done here; execution and comparison are the extracted Coq functions.

     M <id> <vsize>      then alternating  <op line> / <result line>, terminated by "."
     A <id>              idem                                                                    *)
open C17model

let rec pos_of_int n = if n = 1 then XH else if n land 1 = 0 then XO (pos_of_int (n lsr 1)) else XI (pos_of_int (n lsr 1))
let z_of_int n = if n = 0 then Z0 else if n > 0 then Zpos (pos_of_int n) else Zneg (pos_of_int (- n))
let rec nat_of_int n = if n <= 0 then O else S (nat_of_int (n - 1))
let rec int_of_pos = function XH -> 1 | XO p -> 2 * int_of_pos p | XI p -> 2 * int_of_pos p + 1
let int_of_z = function Z0 -> 0 | Zpos p -> int_of_pos p | Zneg p -> - (int_of_pos p)

let bytes_of_hex s =
  if s = "-" then [] else List.init (String.length s / 2) (fun i -> z_of_int (int_of_string ("0x" ^ String.sub s (2 * i) 2)))
let zhex s = of_le (bytes_of_hex s)
let key s = let b = bytes_of_hex s in (z_of_int (List.length b), of_le b)
let words l = List.filter (fun w -> w <> "") (String.split_on_char ' ' l)
let fail_line l = failwith ("c17model: cannot parse: " ^ l)

let map_op l = match words l with
  | ["new"; _; _; _] -> CNew
  | "fp" :: _ :: _ :: _ :: _ :: rest ->
      let rec pairs = function
        | k :: v :: t -> let (kl, kz) = key k in ((kl, kz), zhex v) :: pairs t
        | [] -> [] | _ -> fail_line l in
      CFP (pairs rest)
  | ["set"; k; v] -> let (kl, kz) = key k in CSet (kl, kz, zhex v)
  | ["get"; k] -> let (kl, kz) = key k in CGet (kl, kz)
  | ["has"; k] -> let (kl, kz) = key k in CHas (kl, kz)
  | ["opt"; k; d] -> let (kl, kz) = key k in COpt (kl, kz, zhex d)
  | ["size"] -> CSize
  | ["iter"] -> CIter
  | _ -> fail_line l

let map_res l = match words l with
  | ["new"] | ["fp"] | ["set"; "1"] -> XUnit
  | ["get"; "N"] -> XNone
  | ["get"; "S"; v] -> XSome (zhex v)
  | ["has"; b] -> XBool (b = "1")
  | ["size"; a; _] -> XSize (z_of_int (int_of_string a))
  | ["opt"; b; u] -> XOpt (zhex b, zhex u)
  | "iter" :: items ->
      XIter (List.map (fun it -> match String.split_on_char ':' it with
                                 | [k; v] -> let (kl, kz) = key k in ((kl, kz), zhex v)
                                 | _ -> fail_line l) items)
  | _ -> fail_line l

let arr_op l = match words l with
  | ["new"; _; c] -> ANew (z_of_int (int_of_string c))
  | ["app"; x] | ["app2"; x] -> AAppend (zhex x)
  | ["get"; i] -> AGet (z_of_int (int_of_string i))
  | ["set"; i; x] -> ASet (z_of_int (int_of_string i), zhex x)
  | ["len"] -> ALen
  | _ -> fail_line l

let arr_res l = match words l with
  | ["new"; c] -> (AUnit, c)
  | ["app"; "1"; c] -> (ADone, c)
  | ["get"; "N"; c] -> (ARefused, c)
  | ["get"; "S"; v; c] -> (AVal (zhex v), c)
  | ["set"; "1"; c] -> (ADone, c)
  | ["set"; "0"; c] -> (ARefused, c)
  | ["len"; a; _; c] -> (ALength (z_of_int (int_of_string a)), c)
  | _ -> fail_line l

let () =
  let mcases = ref [] and acases = ref [] in
  let rec body ops res =
    let l = input_line stdin in
    if l = "." then (List.rev ops, List.rev res)
    else let r = input_line stdin in body (l :: ops) (r :: res) in
  (try
     while true do
       let l = input_line stdin in
       match words l with
       | ["M"; id; vs] ->
           let (ops, res) = body [] [] in
           mcases := { mc_id = z_of_int (int_of_string id); mc_vsize = nat_of_int (int_of_string vs);
                       mc_ops = List.map map_op ops; mc_obs = List.map map_res res } :: !mcases
       | ["A"; id] ->
           let (ops, res) = body [] [] in
           let rs = List.map arr_res res in
           acases := { ac_id = z_of_int (int_of_string id); ac_ops = List.map arr_op ops;
                       ac_obs = List.map fst rs;
                       ac_caps = List.map (fun (_, c) -> z_of_int (int_of_string c)) rs } :: !acases
       | [] -> ()
       | _ -> fail_line l
     done
   with End_of_file -> ());
  let show name ids = print_string name; List.iter (fun z -> Printf.printf " %d" (int_of_z z)) ids; print_newline () in
  let mc = List.rev !mcases and ac = List.rev !acases in
  show "bad_ids" (bad_ids mc);
  show "order_ids" (order_ids mc);
  show "abad_ids" (abad_ids ac);
  show "acap_ids" (acap_ids ac);
  print_endline "DONE"
