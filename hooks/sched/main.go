//go:build verif

// sched: drives the pieces of the compiler that decide whether a compilation is reproducible (C14), through
// exported APIs only. One JSON request per line on stdin, one JSON answer per line on stdout.
//
//	{"id":1,"op":"parse","files":[{"path":"/x/a.fer","text":"..."}, ...],"order":[1,0,1]}
//	   lexes+parses files[order[i]] one after the other IN THIS PROCESS (a module-granular schedule of the
//	   parser goroutines) and answers, per parse, the literal names found in the AST in order of first
//	   appearance, the top-level imports and the number of diagnostics.
//	{"id":2,"op":"sortdiag","diags":[{"file":"b.fer","line":3,"col":1,"msg":"m7","nil":false}, ...]}
//	   DiagnosticBag.Add in the given order, EmitAllToString -> the order in which the messages are emitted.
//	{"id":3,"op":"topo","mods":[...],"calls":[["p/a","p/b"],...],"reps":8}
//	   AddModule/AddDependency then ComputeTopologicalOrder `reps` times (Go randomises map iteration per loop):
//	   per-call error text, the distinct orders seen.
//	{"id":4,"op":"typeids","ids":[["__typeid_1","i32"],...],"reps":8}
//	   qbe Generator.Emit on a MIR module that has only TypeIDs: the distinct outputs seen.
package main

import (
	"bufio"
	"encoding/json"
	"fmt"
	"os"
	"regexp"
	"runtime/debug"
	"strings"

	qbe "compiler/internal/codegen/qbe_embeddings"
	"compiler/internal/context_v2"
	"compiler/internal/diagnostics"
	"compiler/internal/frontend/ast"
	"compiler/internal/frontend/lexer"
	"compiler/internal/frontend/parser"
	"compiler/internal/mir"
	"compiler/internal/source"
)

type file struct {
	Path string `json:"path"`
	Text string `json:"text"`
}

type dg struct {
	File string `json:"file"`
	Line int    `json:"line"`
	Col  int    `json:"col"`
	Msg  string `json:"msg"`
	Nil  bool   `json:"nil"`
}

type req struct {
	ID    int         `json:"id"`
	Op    string      `json:"op"`
	Files []file      `json:"files"`
	Order []int       `json:"order"`
	Diags []dg        `json:"diags"`
	Mods  []string    `json:"mods"`
	Calls [][2]string `json:"calls"`
	IDs   [][2]string `json:"ids"`
	Reps  int         `json:"reps"`
}

type parsed struct {
	File    int      `json:"file"`
	Lits    []string `json:"lits"`
	Imports []string `json:"imports"`
	NDiag   int      `json:"ndiag"`
}

type resp struct {
	ID      int        `json:"id"`
	Panic   string     `json:"panic"`
	Parses  []parsed   `json:"parses"`
	Emitted []string   `json:"emitted"`
	Results []string   `json:"results"`
	Orders  [][]string `json:"orders"`
	Outs    []string   `json:"outs"`
}

var litRe = regexp.MustCompile(`__(func|struct|interface|enum)_lit__[0-9]+`)
var msgRe = regexp.MustCompile(`\bm[0-9]+\b`)
var ansiRe = regexp.MustCompile(`\x1b\[[0-9;]*[A-Za-z]`)

var shared *context_v2.CompilerContext

func newCtx(mods []string) *context_v2.CompilerContext {
	if shared == nil {
		shared = context_v2.New(&context_v2.Config{Extension: ".fer"}, false)
	}
	ctx := shared
	ctx.Modules = make(map[string]*context_v2.Module)
	ctx.DepGraph = make(map[string][]string)
	for _, m := range mods {
		ctx.AddModule(m, &context_v2.Module{ImportPath: m})
	}
	return ctx
}

func one(r req) (res resp) {
	res.ID = r.ID
	defer func() {
		if e := recover(); e != nil {
			res.Panic = fmt.Sprintf("%v\n%s", e, debug.Stack())
		}
	}()
	switch r.Op {
	case "parse":
		for _, fi := range r.Order {
			f := r.Files[fi]
			bag := diagnostics.NewDiagnosticBag(f.Path)
			toks := lexer.New(f.Path, f.Text, bag).Tokenize(false)
			mod := parser.Parse(toks, f.Path, bag)
			p := parsed{File: fi, Lits: []string{}, Imports: []string{}, NDiag: len(bag.Diagnostics())}
			if mod != nil {
				js, err := json.Marshal(mod)
				if err != nil {
					panic(err)
				}
				seen := map[string]bool{}
				for _, m := range litRe.FindAllString(string(js), -1) {
					if !seen[m] {
						seen[m] = true
						p.Lits = append(p.Lits, m)
					}
				}
				for _, n := range mod.Nodes {
					imp, ok := n.(*ast.ImportStmt)
					if !ok {
						break
					}
					if imp != nil && imp.Path != nil {
						p.Imports = append(p.Imports, strings.Trim(imp.Path.Value, "\""))
					}
				}
			}
			res.Parses = append(res.Parses, p)
		}
	case "sortdiag":
		bag := diagnostics.NewDiagnosticBag("x")
		names := map[string]*string{}
		for _, d := range r.Diags {
			var loc *source.Location
			if !d.Nil {
				fn, ok := names[d.File]
				if !ok {
					s := d.File
					fn = &s
					names[d.File] = fn
				}
				st := source.Position{Line: d.Line, Column: d.Col}
				en := source.Position{Line: d.Line, Column: d.Col + 1}
				loc = source.NewLocation(fn, &st, &en)
			}
			// the shape ReportError builds (WithPrimaryLabel does not accept a nil location)
			bag.Add(&diagnostics.Diagnostic{Severity: diagnostics.Error, Message: d.Msg,
				Labels: []diagnostics.Label{{Location: loc, Message: "", Style: diagnostics.Primary}}})
		}
		out := ansiRe.ReplaceAllString(bag.EmitAllToString(), "")
		res.Emitted = []string{}
		for _, line := range strings.Split(out, "\n") {
			if strings.Contains(line, "error") {
				if m := msgRe.FindString(line); m != "" {
					res.Emitted = append(res.Emitted, m)
				}
			}
		}
	case "topo":
		ctx := newCtx(r.Mods)
		res.Results = []string{}
		for _, c := range r.Calls {
			if err := ctx.AddDependency(c[0], c[1]); err != nil {
				res.Results = append(res.Results, err.Error())
			} else {
				res.Results = append(res.Results, "")
			}
		}
		seen := map[string]bool{}
		for i := 0; i < r.Reps; i++ {
			ctx.ComputeTopologicalOrder()
			o := append([]string{}, ctx.GetModuleNames()...)
			k := strings.Join(o, "\x00")
			if !seen[k] {
				seen[k] = true
				res.Orders = append(res.Orders, o)
			}
		}
	case "typeids":
		seen := map[string]bool{}
		for i := 0; i < r.Reps; i++ {
			// a fresh map every time: insertion history and iteration seed both vary
			m := make(map[string]string)
			for _, kv := range r.IDs {
				m[kv[0]] = kv[1]
			}
			mm := &mir.Module{ImportPath: "p/m", TypeIDs: m}
			out, err := qbe.New(nil, nil, mm).Emit()
			if err != nil {
				out = "ERR " + err.Error()
			}
			if !seen[out] {
				seen[out] = true
				res.Outs = append(res.Outs, out)
			}
		}
	default:
		res.Panic = "unknown op " + r.Op
	}
	return res
}

func main() {
	in := bufio.NewReaderSize(os.Stdin, 1<<20)
	out := bufio.NewWriter(os.Stdout)
	defer out.Flush()
	dec := json.NewDecoder(in)
	for {
		var r req
		if err := dec.Decode(&r); err != nil {
			return
		}
		b, _ := json.Marshal(one(r))
		out.Write(b)
		out.WriteString("\n")
		out.Flush()
	}
}
