// Driver for property C20 (TOML write/parse round trip). Built as a separate module with
// `replace compiler => <repo working tree>`; uses only the public API of compiler/toml.
//
// stdin: one JSON request per line, stdout: one JSON answer per line.
//   {"op":"rt","id":N,"data":{sec:{key:[ty,val]}},"comments":{sec:{key:text}}}
//        WriteTOMLFile -> (file bytes) -> ParseTOMLFile; answer {"id","file":hex,"werr","res":<parse result>}
//   {"op":"parse","id":N,"hex":"..."}      arbitrary bytes as file content, ParseTOMLFile under recover()
//        answer {"id","res":{"st":"ok","data":{hexsec:{hexkey:[ty,val]}}} | {"st":"err","kind":..,"msg":..} | {"st":"panic","msg":..}}
//   {"op":"ff","id":N,"bits":["hex64",...]}   strconv.FormatFloat(x,'f',-1,64) for the hypotheses H1-H3
//   {"op":"pf","id":N,"texts":["hex",...]}    strconv.ParseFloat(text,64) -> bits or null
// value encoding: ["s",hex] ["b",bool] ["i","decimal"] ["f","hex64 bits"] ["?",go type name]
package main

import (
	"bufio"
	"encoding/hex"
	"encoding/json"
	"fmt"
	"math"
	"os"
	"path/filepath"
	"strconv"
	"strings"

	"compiler/toml"
)

type req struct {
	Op       string                       `json:"op"`
	ID       int                          `json:"id"`
	Data     map[string]map[string][]any  `json:"data"`
	Comments map[string]map[string]string `json:"comments"`
	Hex      string                       `json:"hex"`
	Bits     []string                     `json:"bits"`
	Texts    []string                     `json:"texts"`
	// strings inside "data"/"comments" are hex encoded when HexNames is set (arbitrary bytes)
	HexNames bool `json:"hexnames"`
}

func unhex(s string) string {
	b, err := hex.DecodeString(s)
	if err != nil {
		panic("bad hex in request: " + s)
	}
	return string(b)
}

func encVal(v toml.TOMLValue) []any {
	switch x := v.(type) {
	case string:
		return []any{"s", hex.EncodeToString([]byte(x))}
	case bool:
		return []any{"b", x}
	case int:
		return []any{"i", strconv.Itoa(x)}
	case float64:
		return []any{"f", fmt.Sprintf("%016x", math.Float64bits(x))}
	default:
		return []any{"?", fmt.Sprintf("%T", v)}
	}
}

func decVal(a []any) toml.TOMLValue {
	switch a[0].(string) {
	case "s":
		return unhex(a[1].(string))
	case "b":
		return a[1].(bool)
	case "i":
		n, err := strconv.ParseInt(a[1].(string), 10, 64)
		if err != nil {
			panic(err)
		}
		return int(n)
	case "f":
		u, err := strconv.ParseUint(a[1].(string), 16, 64)
		if err != nil {
			panic(err)
		}
		return math.Float64frombits(u)
	}
	panic("bad value type")
}

func parseFile(path string) (res map[string]any) {
	defer func() {
		if r := recover(); r != nil {
			res = map[string]any{"st": "panic", "msg": fmt.Sprint(r)}
		}
	}()
	d, err := toml.ParseTOMLFile(path)
	if err != nil {
		kind := "other"
		switch {
		case strings.HasPrefix(err.Error(), "invalid line"):
			kind = "invalid"
		case err == bufio.ErrTooLong:
			kind = "toolong"
		}
		msg := err.Error()
		if len(msg) > 200 {
			msg = msg[:200]
		}
		return map[string]any{"st": "err", "kind": kind, "msg": hex.EncodeToString([]byte(msg)), "nilmap": d == nil}
	}
	out := map[string]map[string][]any{}
	for s, t := range d {
		m := map[string][]any{}
		for k, v := range t {
			m[hex.EncodeToString([]byte(k))] = encVal(v)
		}
		out[hex.EncodeToString([]byte(s))] = m
	}
	return map[string]any{"st": "ok", "data": out}
}

var rtCount int
var staleConfig = []byte(strings.Repeat("[stale]\nleft_over = \"from an earlier, longer file\"\nn = 12345\n", 150))

func main() {
	dir, err := os.MkdirTemp("", "fv_tomldrv_")
	if err != nil {
		panic(err)
	}
	defer os.RemoveAll(dir)
	path := filepath.Join(dir, "f.toml")
	in := bufio.NewReaderSize(os.Stdin, 1<<20)
	out := bufio.NewWriterSize(os.Stdout, 1<<20)
	defer out.Flush()
	enc := json.NewEncoder(out)
	for {
		line, err := in.ReadBytes('\n')
		if len(line) > 1 {
			var r req
			if e := json.Unmarshal(line, &r); e != nil {
				panic(e)
			}
			switch r.Op {
			case "rt":
				data := toml.TOMLData{}
				for s, t := range r.Data {
					tb := toml.TOMLTable{}
					for k, v := range t {
						tb[unhex(k)] = decVal(v)
					}
					data[unhex(s)] = tb
				}
				var cm map[string]map[string]string
				if r.Comments != nil {
					cm = map[string]map[string]string{}
					for s, t := range r.Comments {
						m := map[string]string{}
						for k, c := range t {
							m[unhex(k)] = unhex(c)
						}
						cm[unhex(s)] = m
					}
				}
				// the path alternately does not exist or holds a longer, older configuration: what is read back must
				// be what was written now, whatever the file held before (seed C20e: O_TRUNC dropped)
				os.Remove(path)
				rtCount++
				if rtCount%2 == 0 {
					if e := os.WriteFile(path, staleConfig, 0o644); e != nil {
						panic(e)
					}
				}
				ans := map[string]any{"id": r.ID}
				func() {
					defer func() {
						if p := recover(); p != nil {
							ans["werr"] = "panic: " + fmt.Sprint(p)
						}
					}()
					if e := toml.WriteTOMLFile(path, data, cm); e != nil {
						ans["werr"] = e.Error()
					}
				}()
				if _, has := ans["werr"]; !has {
					b, e := os.ReadFile(path)
					if e != nil {
						ans["werr"] = e.Error()
					} else {
						ans["file"] = hex.EncodeToString(b)
						ans["res"] = parseFile(path)
					}
				}
				enc.Encode(ans)
			case "parse":
				b, e := hex.DecodeString(r.Hex)
				if e != nil {
					panic(e)
				}
				if e := os.WriteFile(path, b, 0o644); e != nil {
					panic(e)
				}
				enc.Encode(map[string]any{"id": r.ID, "res": parseFile(path)})
			case "ff":
				var fs []any
				for _, h := range r.Bits {
					u, e := strconv.ParseUint(h, 16, 64)
					if e != nil {
						panic(e)
					}
					fs = append(fs, strconv.FormatFloat(math.Float64frombits(u), 'f', -1, 64))
				}
				enc.Encode(map[string]any{"id": r.ID, "fmt": fs})
			case "pf":
				var rs []any
				for _, h := range r.Texts {
					f, e := strconv.ParseFloat(unhex(h), 64)
					if e != nil {
						rs = append(rs, nil)
					} else {
						rs = append(rs, fmt.Sprintf("%016x", math.Float64bits(f)))
					}
				}
				enc.Encode(map[string]any{"id": r.ID, "res": rs})
			default:
				panic("unknown op " + r.Op)
			}
		}
		if err != nil {
			break
		}
	}
}
