//go:build verif

// lexgaps (C19): in-process driver, one JSON request per line on stdin, one JSON answer per line.
//
//	{"id":1,"file":"/abs/main.fer","mode":"lex"}   -> tokens as produced by lexer.New(...).Tokenize(false)
//	     {"id","panic","toks":[[kind,value,sl,sc,si,el,ec,ei],...],"nlexdiag":n,"diags":[lexer diagnostics]}
//	{"id":1,"file":"/abs/main.fer","mode":"diag"}  -> the type-check pipeline of compiler.Compile (SkipCodegen)
//	     with the diagnostics as *structure* (not rendered):
//	     {"id","panic","ok","diags":[{"sev","code","msg","help","notes":[..],"labels":[[style,file,sl,sc,si,el,ec,ei,msg],..]}]}
//
// Exported API only (lexer.New/Tokenize, context_v2.New/SetEntryPoint, pipeline.New/Run, DiagnosticBag.Diagnostics).
package main

import (
	"bufio"
	"encoding/json"
	"fmt"
	"os"
	"path/filepath"
	"runtime/debug"

	"compiler/internal/context_v2"
	"compiler/internal/diagnostics"
	"compiler/internal/frontend/lexer"
	"compiler/internal/pipeline"
)

type req struct {
	ID   int    `json:"id"`
	File string `json:"file"`
	Mode string `json:"mode"`
}

type diagOut struct {
	Sev    string          `json:"sev"`
	Code   string          `json:"code"`
	Msg    string          `json:"msg"`
	Help   string          `json:"help"`
	Notes  []string        `json:"notes"`
	Labels [][]interface{} `json:"labels"`
}

type resp struct {
	ID       int             `json:"id"`
	OK       bool            `json:"ok"`
	Panic    string          `json:"panic"`
	Toks     [][]interface{} `json:"toks,omitempty"`
	NLexDiag int             `json:"nlexdiag"`
	Diags    []diagOut       `json:"diags,omitempty"`
}

func conv(ds []*diagnostics.Diagnostic, entry string) []diagOut {
	out := make([]diagOut, 0, len(ds))
	for _, d := range ds {
		o := diagOut{Sev: d.Severity.String(), Code: d.Code, Msg: d.Message, Help: d.Help, Notes: []string{}, Labels: [][]interface{}{}}
		for _, n := range d.Notes {
			o.Notes = append(o.Notes, n.Message)
		}
		for _, l := range d.Labels {
			file := ""
			if l.Location != nil && l.Location.Filename != nil {
				file = *l.Location.Filename
				if file == entry {
					file = "<entry>"
				} else {
					file = filepath.Base(file)
				}
			}
			row := []interface{}{int(l.Style), file, -1, -1, -1, -1, -1, -1, l.Message}
			if l.Location != nil && l.Location.Start != nil {
				row[2], row[3], row[4] = l.Location.Start.Line, l.Location.Start.Column, l.Location.Start.Index
			}
			if l.Location != nil && l.Location.End != nil {
				row[5], row[6], row[7] = l.Location.End.Line, l.Location.End.Column, l.Location.End.Index
			}
			o.Labels = append(o.Labels, row)
		}
		out = append(out, o)
	}
	return out
}

func one(r req) (res resp) {
	res.ID = r.ID
	defer func() {
		if e := recover(); e != nil {
			res.OK = false
			res.Panic = fmt.Sprintf("%v\n%s", e, debug.Stack())
		}
	}()
	switch r.Mode {
	case "lex":
		b, err := os.ReadFile(r.File)
		if err != nil {
			res.Panic = "read: " + err.Error()
			return
		}
		bag := diagnostics.NewDiagnosticBag(r.File)
		lx := lexer.New(r.File, string(b), bag)
		toks := lx.Tokenize(false)
		res.Toks = make([][]interface{}, 0, len(toks))
		for _, t := range toks {
			res.Toks = append(res.Toks, []interface{}{string(t.Kind), t.Value,
				t.Start.Line, t.Start.Column, t.Start.Index, t.End.Line, t.End.Column, t.End.Index})
		}
		res.NLexDiag = len(bag.Diagnostics())
		res.Diags = conv(bag.Diagnostics(), r.File)
		res.OK = true
	case "diag":
		absPath, _ := filepath.Abs(r.File)
		entryDir := filepath.Dir(absPath)
		libs := os.Getenv("FERRET_LIBS_PATH")
		config := &context_v2.Config{
			ProjectName:        filepath.Base(entryDir),
			ProjectRoot:        entryDir,
			Extension:          ".fer",
			BuiltinModulesPath: libs,
			RuntimePath:        libs,
			OutputPath:         filepath.Join(entryDir, "out"),
			SkipCodegen:        true,
			CodegenBackend:     "qbe",
		}
		ctx := context_v2.New(config, false)
		if err := ctx.SetEntryPoint(r.File); err != nil {
			res.Panic = "entry: " + err.Error()
			return
		}
		p := pipeline.New(ctx)
		p.Run()
		res.OK = !ctx.HasErrors()
		res.Diags = conv(ctx.Diagnostics.Diagnostics(), absPath)
	}
	return
}

func main() {
	sc := bufio.NewScanner(os.Stdin)
	sc.Buffer(make([]byte, 1<<20), 1<<26)
	w := bufio.NewWriter(os.Stdout)
	defer w.Flush()
	for sc.Scan() {
		var r req
		if err := json.Unmarshal(sc.Bytes(), &r); err != nil {
			continue
		}
		b, _ := json.Marshal(one(r))
		w.Write(b)
		w.WriteByte('\n')
		w.Flush()
	}
}
