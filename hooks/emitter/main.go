//go:build verif

// emitter: drives the REAL diagnostics emitter (DiagnosticBag.EmitAllToString) on hand-built diagnostics.
// One JSON request per line: {"id": 1, "src": "<file content>", "p": [sl, sc, el, ec], "s": [[sl, sc, el, ec], ...]}
// (primary label span, secondary label spans; line/column are 1-based as in source.Position) and one JSON answer per
// line {"id", "out": rendered text (ANSI included), "panic": "..."}.  Exported API only.
package main

import (
	"bufio"
	"encoding/json"
	"fmt"
	"os"
	"runtime/debug"

	"compiler/internal/diagnostics"
	"compiler/internal/source"
)

type req struct {
	ID  int     `json:"id"`
	Src string  `json:"src"`
	P   []int   `json:"p"`
	S   [][]int `json:"s"`
}

type resp struct {
	ID    int    `json:"id"`
	Out   string `json:"out"`
	Panic string `json:"panic"`
}

func loc(file *string, a []int) *source.Location {
	return source.NewLocation(file, &source.Position{Line: a[0], Column: a[1]}, &source.Position{Line: a[2], Column: a[3]})
}

func one(r req) (res resp) {
	res.ID = r.ID
	defer func() {
		if e := recover(); e != nil {
			res.Panic = fmt.Sprintf("%v\n%s", e, debug.Stack())
		}
	}()
	file := "/virtual/main.fer"
	bag := diagnostics.NewDiagnosticBag(file)
	bag.AddSourceContent(file, r.Src)
	d := diagnostics.NewError("probe")
	if len(r.P) == 4 {
		d = d.WithPrimaryLabel(loc(&file, r.P), "PMSG")
	}
	for _, s := range r.S {
		if len(s) == 4 {
			d = d.WithSecondaryLabel(loc(&file, s), "SMSG")
		}
	}
	bag.Add(d)
	res.Out = bag.EmitAllToString()
	return
}

func main() {
	sc := bufio.NewScanner(os.Stdin)
	sc.Buffer(make([]byte, 1<<20), 1<<26)
	w := bufio.NewWriter(os.Stdout)
	defer w.Flush()
	for sc.Scan() {
		var r req
		if err := json.Unmarshal(sc.Bytes(), &r); err != nil {
			continue
		}
		b, _ := json.Marshal(one(r))
		w.Write(b)
		w.WriteByte('\n')
	}
}
