//go:build verif

// lexer: drives lexer.New(..).Tokenize on byte strings read from stdin (one hex-encoded input per line) and prints,
// per input, one JSON line {"t": [[kind, hex(text), sl, sc, si, el, ec, ei], ...], "e": [[msg, line, col], ...],
// "n": errorCount, "p": panic text}. Uses exported API only (lexer.New, Tokenize, DiagnosticBag).
package main

import (
	"bufio"
	"encoding/hex"
	"encoding/json"
	"fmt"
	"os"
	"runtime/debug"

	"compiler/internal/diagnostics"
	"compiler/internal/frontend/lexer"
)

type out struct {
	T [][]any `json:"t"`
	E [][]any `json:"e"`
	N int     `json:"n"`
	P string  `json:"p"`
}

func one(src []byte) (o out) {
	o.T = [][]any{}
	o.E = [][]any{}
	defer func() {
		if e := recover(); e != nil {
			o.P = fmt.Sprintf("%v\n%s", e, debug.Stack())
		}
	}()
	bag := diagnostics.NewDiagnosticBag("main.fer")
	lx := lexer.New("main.fer", string(src), bag)
	toks := lx.Tokenize(false)
	for _, t := range toks {
		o.T = append(o.T, []any{string(t.Kind), hex.EncodeToString([]byte(t.Value)),
			t.Start.Line, t.Start.Column, t.Start.Index, t.End.Line, t.End.Column, t.End.Index})
	}
	for _, d := range bag.Diagnostics() {
		l, c := -1, -1
		if len(d.Labels) > 0 && d.Labels[0].Location != nil && d.Labels[0].Location.Start != nil {
			l, c = d.Labels[0].Location.Start.Line, d.Labels[0].Location.Start.Column
		}
		o.E = append(o.E, []any{hex.EncodeToString([]byte(d.Message)), l, c, int(d.Severity)})
	}
	o.N = bag.ErrorCount()
	return
}

func main() {
	sc := bufio.NewScanner(os.Stdin)
	sc.Buffer(make([]byte, 1<<20), 1<<26)
	w := bufio.NewWriter(os.Stdout)
	defer w.Flush()
	for sc.Scan() {
		src, err := hex.DecodeString(sc.Text())
		if err != nil {
			continue
		}
		b, _ := json.Marshal(one(src))
		w.Write(b)
		w.WriteByte('\n')
		w.Flush()
	}
}
