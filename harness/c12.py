"""C12 — visibility by capitalisation is enforced across modules and types.

Reference model coq/Models/Vis.v (ported rules of resolver.resolveStaticAccess / resolveExpr / resolveTypeNode and
typechecker.checkSelectorExpr).  Every case is a multi-file project generated from one Python AST that is rendered
twice: to Ferret source (compiled in-process by the `batch` hook, mode "t", entry = the project's main file) and to a
Coq term evaluated by vm_compute (check_project).  Observables compared: accepted / rejected and the set of
visibility diagnostics ('is not exported', 'is private').  Spec-side oracle, independent of the model: every case knows
by construction whether its single access is forbidden (private symbol of another module / private field not through
the receiver) or must be allowed (exported, receiver-internal, literal initialisation); a forbidden access that
compiles, or an allowed one that is rejected, is reported with the project files as replay."""
import os, json, re
import common
from common import Work

# ------------------------------------------------------------------ AST helpers (tuples: tag first)
I32 = ("TName", "i32")
def lit(z): return ("ELit", z)
def var(x): return ("EVar", x)
def qual(m, n): return ("EQual", m, n)
def sel(e, f): return ("ESel", e, f)
def meth(e, m, *args): return ("EMeth", e, m, elist(args))
def call(f, *args): return ("ECall", f, elist(args))
def elist(xs):
    r = ("ENil",)
    for x in reversed(list(xs)):
        r = ("ECons", x, r)
    return r
def binop(op, a, b): return ("EBin", a, b, op)
def struct(*inits):
    r = ("ENil",)
    for f, v in reversed(inits):
        r = ("EInit", f, v, r)
    return ("EStruct", r)
def cast(e, t): return ("ECast", e, t)
def seq(*ss):
    ss = [s for s in ss if s is not None]
    if not ss: return ("SSkip",)
    r = ss[-1]
    for s in reversed(ss[:-1]):
        r = ("SSeq", s, r)
    return r
def let(x, t, e): return ("SLet", x, t, e)
def ret(e): return ("SReturn", e)

# ------------------------------------------------------------------ renderer: Ferret
def f_ty(t):
    k = t[0]
    if k == "TName": return t[1]
    if k == "TQual": return "%s::%s" % (t[1], t[2])
    if k == "TVoid": return ""
    if k == "TArr": return "[]" + f_ty(t[1])
    if k == "TOpt": return f_ty(t[1]) + "?"
    if k == "TRef": return "&" + f_ty(t[1])
    if k == "TMap": return "map[%s]%s" % (f_ty(t[1]), f_ty(t[2]))
    if k == "TRes": return "%s ! %s" % (f_ty(t[2]), f_ty(t[1]))
    if k == "TFn":
        r = f_ty(t[2])
        return "fn(a: %s)%s" % (f_ty(t[1]), (" -> " + r) if r else "")
    raise ValueError(t)

def f_list(e):
    out = []
    while e[0] == "ECons":
        out.append(f_e(e[1])); e = e[2]
    return out

def f_params(ps):
    return ", ".join("%s: %s" % (x, f_ty(t)) for x, t in ps)

def f_sig(ps, rt):
    r = f_ty(rt)
    return "(%s)%s" % (f_params(ps), (" -> " + r) if r else "")

def f_e(e):
    k = e[0]
    if k == "ELit": return str(e[1]) if e[1] >= 0 else "(%d)" % e[1]
    if k == "EVar": return e[1]
    if k == "EQual": return "%s::%s" % (e[1], e[2])
    if k == "ESel": return "%s.%s" % (f_e(e[1]), e[2])
    if k == "EMeth": return "%s.%s(%s)" % (f_e(e[1]), e[2], ", ".join(f_list(e[3])))
    if k == "ECall": return "%s(%s)" % (f_e(e[1]), ", ".join(f_list(e[2])))
    if k == "EBin": return "(%s %s %s)" % (f_e(e[1]), e[3], f_e(e[2]))
    if k == "EUn": return "(-%s)" % f_e(e[1])
    if k == "EIndex": return "%s[%s]" % (f_e(e[1]), f_e(e[2]))
    if k == "ECast": return "(%s as %s)" % (f_e(e[1]), f_ty(e[2]))
    if k == "EStruct":
        parts = []; x = e[1]
        while x[0] == "EInit":
            parts.append(".%s = %s" % (x[1], f_e(x[2]))); x = x[3]
        return "{ " + ", ".join(parts) + " }"
    if k == "EArr": return "[" + ", ".join(f_list(e[1])) + "]"
    if k == "ERange": return "%s%s%s" % (f_e(e[1]), "..=" if (len(e) > 3 and e[3]) else "..", f_e(e[2]))
    if k == "ERangeStep": return "%s..%s:%s" % (f_e(e[1]), f_e(e[2]), f_e(e[3]))
    if k == "ECoalesce": return "(%s ?? %s)" % (f_e(e[1]), f_e(e[2]))
    if k == "ECatch": return "(%s catch %s)" % (f_e(e[1]), f_e(e[2]))
    if k == "ECatchHB": return "(%s catch e9 { let q9 := %s; } 1)" % (f_e(e[1]), f_e(e[2]))   # the access inside the handler block
    if k == "ECatchH": return "(%s catch e9 { } %s)" % (f_e(e[1]), f_e(e[2]))      # handler block AND fallback (same node in the model)
    if k == "EClosure": return "fn%s {\n%s}" % (f_sig(e[1], e[2]), f_s(e[3], 2))
    raise ValueError(e)

def f_s(s, ind=1):
    p = "    " * ind
    k = s[0]
    if k == "SSkip": return ""
    if k == "SSeq": return f_s(s[1], ind) + f_s(s[2], ind)
    if k == "SLet":
        if s[2] is None: return "%slet %s := %s;\n" % (p, s[1], f_e(s[3]))
        return "%slet %s: %s = %s;\n" % (p, s[1], f_ty(s[2]), f_e(s[3]))
    if k == "SAssign": return "%s%s = %s;\n" % (p, f_e(s[1]), f_e(s[2]))
    if k == "SOpAssign": return "%s%s %s %s;\n" % (p, f_e(s[1]), s[3] if len(s) > 3 else "+=", f_e(s[2]))
    if k == "SIncr": return "%s%s%s;\n" % (p, f_e(s[1]), s[2] if len(s) > 2 else "++")
    if k == "SIf":
        r = "%sif %s {\n%s%s}" % (p, f_e(s[1]), f_s(s[2], ind + 1), p)
        if s[3][0] != "SSkip":
            r += " else {\n%s%s}" % (f_s(s[3], ind + 1), p)
        return r + "\n"
    if k == "SWhile": return "%swhile %s {\n%s%s}\n" % (p, f_e(s[1]), f_s(s[2], ind + 1), p)
    if k == "SFor": return "%sfor %s in %s {\n%s%s}\n" % (p, s[1], f_e(s[2]), f_s(s[3], ind + 1), p)
    if k == "SMatch": return "%smatch %s {\n%s%s}\n" % (p, f_e(s[1]), f_s(s[2], ind + 1), p)
    if k == "SCase": return "%s%s => {\n%s%s}\n" % (p, f_e(s[1]), f_s(s[2], ind + 1), p)
    if k == "SDefault": return "%s_ => {\n%s%s}\n" % (p, f_s(s[1], ind + 1), p)
    if k == "SReturn": return "%sreturn %s;\n" % (p, f_e(s[1]))
    if k == "SExpr": return "%s%s;\n" % (p, f_e(s[1]))
    if k == "SBlock": return "%s{\n%s%s}\n" % (p, f_s(s[1], ind + 1), p)
    raise ValueError(s)

def f_decl(d):
    k = d[0]
    if k == "DFn": return "fn %s%s {\n%s}\n" % (d[1], f_sig(d[2], d[3]), f_s(d[4]))
    if k == "DMethod": return "fn (%s: %s) %s%s {\n%s}\n" % (d[1], d[7] if len(d) > 7 else f_ty(d[2]), d[3], f_sig(d[4], d[5]), f_s(d[6]))
    if k == "DConst":
        return "const %s: %s = %s;\n" % (d[1], f_ty(d[2]), f_e(d[3])) if d[2] else "const %s := %s;\n" % (d[1], f_e(d[3]))
    if k == "DVar":
        return "let %s: %s = %s;\n" % (d[1], f_ty(d[2]), f_e(d[3])) if d[2] else "let %s := %s;\n" % (d[1], f_e(d[3]))
    if k == "DType": return "type %s struct {\n%s\n};\n" % (d[1], ",\n".join("    .%s: %s" % (x, f_ty(t)) for x, t in d[2]))
    if k == "DAlias": return "type %s %s;\n" % (d[1], f_ty(d[2]))
    raise ValueError(d)

def f_module(m):
    """m = dict(path, imports=[(alias, path, explicit_alias)], decls)"""
    out = []
    for alias, path, explicit in m["imports"]:
        out.append('import "%s"%s;\n' % (path, (" as " + alias) if explicit else ""))
    return "".join(out) + "\n" + "\n".join(f_decl(d) for d in m["decls"]) + m.get("raw", "")

# ------------------------------------------------------------------ renderer: Coq
def q(s): return '"%s"' % s
def c_ty(t):
    k = t[0]
    if k in ("TName",): return "(TName %s)" % q(t[1])
    if k == "TQual": return "(TQual %s %s)" % (q(t[1]), q(t[2]))
    if k == "TVoid": return "TVoid"
    if k in ("TArr", "TOpt", "TRef"): return "(%s %s)" % (k, c_ty(t[1]))
    return "(%s %s %s)" % (k, c_ty(t[1]), c_ty(t[2]))
def c_oty(t): return "None" if t is None else "(Some %s)" % c_ty(t)
def c_params(ps): return "[" + "; ".join("(%s, %s)" % (q(x), c_ty(t)) for x, t in ps) + "]"
def c_e(e):
    k = e[0]
    if k == "ELit": return "(ELit (%d)%%Z)" % e[1]
    if k == "EVar": return "(EVar %s)" % q(e[1])
    if k == "EQual": return "(EQual %s %s)" % (q(e[1]), q(e[2]))
    if k == "ESel": return "(ESel %s %s)" % (c_e(e[1]), q(e[2]))
    if k == "EMeth": return "(EMeth %s %s %s)" % (c_e(e[1]), q(e[2]), c_e(e[3]))
    if k == "ENil": return "ENil"
    if k == "ECast": return "(ECast %s %s)" % (c_e(e[1]), c_ty(e[2]))
    if k == "EInit": return "(EInit %s %s %s)" % (q(e[1]), c_e(e[2]), c_e(e[3]))
    if k == "EClosure": return "(EClosure %s %s %s)" % (c_params(e[1]), c_ty(e[2]), c_s(e[3]))
    if k in ("EUn", "EStruct", "EArr"): return "(%s %s)" % (k, c_e(e[1]))
    if k in ("ECatchH", "ECatchHB"): return "(ECatch %s %s)" % (c_e(e[1]), c_e(e[2]))
    if k in ("ECall", "ECons", "EBin", "EIndex", "ERange", "ECoalesce", "ECatch"):
        return "(%s %s %s)" % (k, c_e(e[1]), c_e(e[2]))
    if k == "ERangeStep": return "(ERangeStep %s %s %s)" % (c_e(e[1]), c_e(e[2]), c_e(e[3]))
    raise ValueError(e)
def c_s(s):
    k = s[0]
    if k == "SSkip": return "SSkip"
    if k == "SSeq": return "(SSeq %s %s)" % (c_s(s[1]), c_s(s[2]))
    if k == "SLet": return "(SLet %s %s %s)" % (q(s[1]), c_oty(s[2]), c_e(s[3]))
    if k in ("SAssign", "SOpAssign"): return "(%s %s %s)" % (k, c_e(s[1]), c_e(s[2]))
    if k == "SIncr": return "(SIncr %s)" % c_e(s[1])
    if k == "SIf": return "(SIf %s %s %s)" % (c_e(s[1]), c_s(s[2]), c_s(s[3]))
    if k == "SWhile": return "(SWhile %s %s)" % (c_e(s[1]), c_s(s[2]))
    if k == "SFor": return "(SFor %s %s %s)" % (q(s[1]), c_e(s[2]), c_s(s[3]))
    if k == "SMatch": return "(SMatch %s %s)" % (c_e(s[1]), c_s(s[2]))
    if k == "SCase": return "(SCase %s %s)" % (c_e(s[1]), c_s(s[2]))
    if k in ("SDefault", "SBlock"): return "(%s %s)" % (k, c_s(s[1]))
    if k in ("SReturn", "SExpr"): return "(%s %s)" % (k, c_e(s[1]))
    raise ValueError(s)
def c_decl(d):
    k = d[0]
    if k == "DFn": return "DFn %s %s %s %s" % (q(d[1]), c_params(d[2]), c_ty(d[3]), c_s(d[4]))
    if k == "DMethod": return "DMethod %s %s %s %s %s %s" % (q(d[1]), c_ty(d[2]), q(d[3]), c_params(d[4]), c_ty(d[5]), c_s(d[6]))
    if k in ("DConst", "DVar"): return "%s %s %s %s" % (k, q(d[1]), c_oty(d[2]), c_e(d[3]))
    if k == "DType": return "DType %s %s" % (q(d[1]), c_params(d[2]))
    if k == "DAlias": return "DAlias %s %s" % (q(d[1]), c_ty(d[2]))
    raise ValueError(d)
def c_module(m, shared=None):
    """shared = (coq name, n): the first n declarations are the Coq definition `name` (shared helper declarations)."""
    decls = m["decls"]
    pre = ""
    if shared is not None:
        pre = shared[0] + " ++ "; decls = decls[shared[1]:]
    return "{| m_path := %s; m_imports := [%s]; m_decls := %s[%s] |}" % (
        q(m["path"]), "; ".join("(%s, %s)" % (q(a), q(p)) for a, p, _ in m["imports"]), pre,
        ";\n   ".join(c_decl(d) for d in decls))

# ------------------------------------------------------------------ library modules (both cases of every symbol kind)
PT = ("TName", "Point")
def lib_module(path):
    mk = ret(cast(struct(("X", lit(1)), ("y", lit(2))), PT))
    return dict(path=path, imports=[], decls=[
        ("DType", "Point", [("X", I32), ("y", I32)]),
        ("DType", "Shown", [("A", I32)]),
        ("DType", "hidden", [("A", I32)]),
        ("DVar", "Gpub", I32, lit(3)), ("DVar", "gpriv", I32, lit(4)),
        ("DConst", "Kpub", I32, lit(1)), ("DConst", "kpriv", I32, lit(2)),
        ("DFn", "Fpub", [], I32, ret(lit(1))), ("DFn", "fpriv", [], I32, ret(lit(2))),
        # boundary initials of IsCapitalized: 'A', 'Z' exported; 'a', 'z', '_' private
        ("DFn", "Afn", [], I32, ret(lit(1))), ("DFn", "Zfn", [], I32, ret(lit(1))),
        ("DFn", "afn", [], I32, ret(lit(2))), ("DFn", "zfn", [], I32, ret(lit(2))), ("DFn", "_ufn", [], I32, ret(lit(2))),
        ("DVar", "Zvar", I32, lit(3)), ("DVar", "zvar", I32, lit(4)), ("DVar", "Avar", I32, lit(3)), ("DVar", "avar", I32, lit(4)),
        ("DFn", "Mk", [], PT, mk),
        # receiver-internal accesses of the private field: read, closure, write, compound, ++
        ("DMethod", "p", PT, "GetY", [], I32, ret(sel(var("p"), "y"))),
        ("DMethod", "p", PT, "gety", [], I32, ret(sel(var("p"), "y"))),
        ("DMethod", "p", PT, "ViaClosure", [], I32,
         seq(let("f", None, ("EClosure", [], I32, ret(sel(var("p"), "y")))), ret(call(var("f"))))),
        ("DMethod", "p", ("TRef", PT), "Bump", [], ("TVoid",),
         seq(("SAssign", sel(var("p"), "y"), binop("+", sel(var("p"), "y"), lit(1))),
             ("SOpAssign", sel(var("p"), "y"), lit(2)), ("SIncr", sel(var("p"), "y"))), "&'Point"),
    ])

# ------------------------------------------------------------------ the site module: helpers available to every context
BOX = ("TName", "Box")
def helpers():
    return [
        ("DType", "Box", [("A", I32), ("b", I32)]),
        ("DFn", "take", [("a", I32)], I32, ret(var("a"))),
        ("DFn", "mkbox", [], BOX, ret(cast(struct(("A", lit(1)), ("b", lit(2))), BOX))),
        ("DFn", "mayfail", [], ("TRes", I32, ("TName", "str")), ret(lit(1))),
        ("DMethod", "h", BOX, "Get", [("a", I32)], I32, ret(var("a"))),
    ]

# value contexts: a -> (extra decls, body statements of the host).  `a` is an i32-valued expression.
def ctx_value():
    C = {}
    C["let"] = lambda a: ([], [let("v", None, a)])
    C["let_typed"] = lambda a: ([], [let("v", I32, a)])
    C["call_arg"] = lambda a: ([], [("SExpr", call(var("take"), a))])
    C["call_arg_nested"] = lambda a: ([], [("SExpr", call(var("take"), call(var("take"), a)))])
    C["method_arg"] = lambda a: ([], [let("bx", None, call(var("mkbox"))), ("SExpr", meth(var("bx"), "Get", a))])
    C["bin_left"] = lambda a: ([], [let("v", None, binop("+", a, lit(1)))])
    C["bin_right"] = lambda a: ([], [let("v", None, binop("*", lit(2), a))])
    C["unary"] = lambda a: ([], [let("v", None, ("EUn", a))])
    C["assign_rhs"] = lambda a: ([], [let("v", I32, lit(0)), ("SAssign", var("v"), a)])
    C["compound_rhs"] = lambda a: ([], [let("v", I32, lit(0)), ("SOpAssign", var("v"), a, "-=")])
    C["if_cond"] = lambda a: ([], [("SIf", binop("==", a, lit(1)), ("SSkip",), ("SSkip",))])
    C["else_branch"] = lambda a: ([], [let("v", I32, lit(0)), ("SIf", binop("==", var("v"), lit(1)), ("SSkip",), seq(("SAssign", var("v"), a)))])
    C["while_cond"] = lambda a: ([], [let("v", I32, lit(0)), ("SWhile", binop("<", binop("+", a, var("v")), lit(0)), seq(("SOpAssign", var("v"), lit(1), "+=")))])
    C["while_body"] = lambda a: ([], [let("v", I32, lit(0)), ("SWhile", binop("<", var("v"), lit(0)), seq(("SAssign", var("v"), a)))])
    C["for_hi"] = lambda a: ([], [("SFor", "i", ("ERange", lit(0), a), ("SSkip",))])
    C["for_lo"] = lambda a: ([], [("SFor", "i", ("ERange", a, lit(10)), ("SSkip",))])
    C["for_hi_incl"] = lambda a: ([], [("SFor", "i", ("ERange", lit(0), a, True), ("SSkip",))])
    C["for_step"] = lambda a: ([], [("SFor", "i", ("ERangeStep", lit(0), lit(10), a), ("SSkip",))])
    C["for_array"] = lambda a: ([], [("SFor", "i", ("EArr", elist([a, lit(2)])), ("SSkip",))])
    C["for_body"] = lambda a: ([], [("SFor", "i", ("ERange", lit(0), lit(3)), seq(let("v", None, a)))])
    C["match_subject"] = lambda a: ([], [("SMatch", a, seq(("SCase", lit(1), ("SSkip",)), ("SDefault", ("SSkip",))))])
    C["match_body"] = lambda a: ([], [let("v", I32, lit(0)), ("SMatch", var("v"), seq(("SCase", lit(1), seq(let("w", None, a))), ("SDefault", ("SSkip",))))])
    C["return"] = lambda a: ([], [ret(a)])
    C["closure_body"] = lambda a: ([], [let("f", None, ("EClosure", [], I32, ret(a)))])
    C["closure_arg"] = lambda a: ([], [let("f", None, ("EClosure", [("z", I32)], I32, ret(var("z")))), ("SExpr", call(var("f"), a))])
    C["struct_field_value"] = lambda a: ([], [let("bx", None, cast(struct(("A", a), ("b", lit(1))), BOX))])
    C["struct_private_field_value"] = lambda a: ([], [let("bx", BOX, struct(("A", lit(1)), ("b", a)))])
    C["index"] = lambda a: ([], [let("arr", None, ("EArr", elist([lit(1), lit(2), lit(3)]))), let("v", None, ("EIndex", var("arr"), a))])
    C["index_target"] = lambda a: ([], [let("arr", None, ("EArr", elist([lit(1), lit(2), lit(3)]))), ("SAssign", ("EIndex", var("arr"), a), lit(1))])
    C["cast_operand"] = lambda a: ([], [let("v", None, cast(a, ("TName", "i64")))])
    C["array_elem"] = lambda a: ([], [let("arr", None, ("EArr", elist([a, lit(1)])))])
    C["coalesce_rhs"] = lambda a: ([], [let("o", ("TOpt", I32), var("none")), let("v", None, ("ECoalesce", var("o"), a))])
    C["catch_fallback"] = lambda a: ([], [let("v", None, ("ECatch", call(var("mayfail")), a))])
    # a catch with a handler block and a fallback value (seed C12f: the resolver skipped the fallback of this shape)
    C["catch_handler_fallback"] = lambda a: ([], [let("v", None, ("ECatchH", call(var("mayfail")), a))])
    C["catch_handler_fallback_stmt"] = lambda a: ([], [("SExpr", ("ECatchH", call(var("mayfail")), a))])
    # ... and the same shapes where the collector used to create no scope for the handler (condition of if / while, iterated
    # expression of for): found on the unmodified tree through the wrapper above, repaired in /repo (collector visits these)
    C["catch_handler_in_if_cond"] = lambda a: ([], [("SIf", binop(">", ("ECatchH", call(var("mayfail")), a), lit(0)), ("SSkip",), ("SSkip",))])
    C["catch_handler_body_in_if_cond"] = lambda a: ([], [("SIf", binop(">", ("ECatchHB", call(var("mayfail")), a), lit(0)), ("SSkip",), ("SSkip",))])
    C["catch_handler_body_in_for_range"] = lambda a: ([], [("SFor", "i", ("ERange", lit(0), ("ECatchHB", call(var("mayfail")), a)), ("SSkip",))])
    C["catch_handler_body"] = lambda a: ([], [let("v", None, ("ECatchHB", call(var("mayfail")), a))])
    C["nested_block"] = lambda a: ([], [("SBlock", seq(("SIf", binop("==", lit(1), lit(1)), seq(("SWhile", binop("<", lit(1), lit(0)), seq(let("v", None, a)))), ("SSkip",))))])
    return C

# contexts outside any function body (only for accesses that do not need a receiver)
def ctx_module_level():
    return {
        "module_let_init": lambda a: [("DVar", "G2", I32, a)],
        "module_const_init": lambda a: [("DConst", "K2", I32, a)],
        "other_fn_return": lambda a: [("DFn", "g", [], I32, ret(a))],
        "method_body_other_type": lambda a: [("DMethod", "h", BOX, "M2", [], I32, ret(a))],
    }

# type contexts: t -> decls ; t is a struct type { .A: i32 }
def ctx_type():
    one = lambda: struct(("A", lit(1)))
    return {
        "let_annotation": lambda t: [("DFn", "g", [], ("TVoid",), seq(let("v", t, one())))],
        "param_type": lambda t: [("DFn", "g", [("a", t)], ("TVoid",), ("SSkip",))],
        "return_type": lambda t: [("DFn", "g", [], t, ret(one()))],
        "cast_target": lambda t: [("DFn", "g", [], ("TVoid",), seq(let("v", None, cast(one(), t))))],
        "struct_field_type": lambda t: [("DType", "W", [("F", t)])],
        "array_elem_type": lambda t: [("DFn", "g", [("a", ("TArr", t))], ("TVoid",), ("SSkip",))],
        "optional_type": lambda t: [("DFn", "g", [], ("TVoid",), seq(let("v", ("TOpt", t), var("none"))))],
        "ref_type": lambda t: [("DFn", "g", [("a", ("TRef", t))], ("TVoid",), ("SSkip",))],
        "map_value_type": lambda t: [("DFn", "g", [("a", ("TMap", ("TName", "str"), t))], ("TVoid",), ("SSkip",))],
        "fn_param_type": lambda t: [("DFn", "g", [("a", ("TFn", t, I32))], ("TVoid",), ("SSkip",))],
        "closure_param_type": lambda t: [("DFn", "g", [], ("TVoid",), seq(let("f", None, ("EClosure", [("a", t)], ("TVoid",), ("SSkip",)))))],
        "closure_return_type": lambda t: [("DFn", "g", [], ("TVoid",), seq(let("f", None, ("EClosure", [], t, ret(one())))))],
        "method_param_type": lambda t: [("DMethod", "h", BOX, "M3", [("a", t)], ("TVoid",), ("SSkip",))],
        "method_return_type": lambda t: [("DMethod", "h", BOX, "M4", [], t, ret(one()))],
        "alias": lambda t: [("DAlias", "T2", t)],
        "module_let_annotation": lambda t: [("DVar", "G3", t, one())],
        "module_const_annotation": lambda t: [("DConst", "K3", t, one())],
    }

# i32-preserving wrappers used to bury the access deeper (rng-driven)
WRAPS = [
    lambda a: binop("+", lit(1), a), lambda a: binop("-", a, lit(1)), lambda a: ("EUn", a),
    lambda a: call(var("take"), a), lambda a: binop("*", a, lit(3)),
    lambda a: ("ECatch", call(var("mayfail")), a),
    lambda a: ("ECatchH", call(var("mayfail")), a),
]

class Case(object):
    pass

def make_cases(run, tier):
    rng = run.rng
    CV, CM, CT = ctx_value(), ctx_module_level(), ctx_type()
    cases = []
    shapes = ["direct", "alias", "chain"]
    def add(kind, priv, ctxname, site_decls, shape, expect, what, note=None):
        c = Case()
        c.kind, c.priv, c.ctx, c.shape, c.expect, c.what, c.note = kind, priv, ctxname, shape, expect, what, note
        c.site_decls = site_decls
        cases.append(c)
    # ---- module symbols: fn / const / var  x private/exported  x value contexts
    def sym_access(alias, kind, priv):
        names = {"fn": (["fpriv", "afn", "zfn", "_ufn"], ["Fpub", "Afn", "Zfn"]), "const": (["kpriv"], ["Kpub"]),
                 "var": (["gpriv", "zvar", "avar"], ["Gpub", "Zvar", "Avar"])}[kind][0 if priv else 1]
        n = rng.choice(names)
        a = qual(alias, n)
        return (call(a) if kind == "fn" else a), n
    reps = 1 if tier == "quick" else 4
    for rep in range(reps):
        for ctxname in sorted(CV):
            for kind in ("fn", "const", "var", "field", "method"):
                for priv in (True, False):
                    shape = rng.choice(shapes)
                    alias = alias_of(shape)
                    if kind in ("fn", "const", "var"):
                        a, n = sym_access(alias, kind, priv)
                        expect = ("notexported", n) if priv else None
                    elif kind == "field":
                        base = rng.choice(["call", "local"])
                        f = "y" if priv else "X"
                        a = sel(call(qual(alias, "Mk")), f) if base == "call" else sel(var("q"), f)
                        n = f
                        expect = ("privatefield", f) if priv else None
                    else:
                        m = "gety" if priv else "GetY"
                        a = meth(call(qual(alias, "Mk")), m)
                        n = m
                        expect = None       # the compiler has no visibility rule for methods (see F-C12-PRIVATE-METHOD)
                    depth = rng.choice([0, 0, 1, 2]) if rep == 0 else rng.choice([1, 2, 3])
                    w = a
                    for _ in range(depth):
                        w = rng.choice(WRAPS)(w)
                    extra, body = CV[ctxname](w)
                    pre = []
                    if kind == "field" and a[1] == var("q"):
                        pre = [let("q", None, call(qual(alias, "Mk")))]
                    host_ret = [] if ctxname == "return" else [ret(lit(0))]
                    host = ("DFn", "host", [], I32, seq(*(pre + body + host_ret)))
                    add(kind, priv, ctxname + ("+%d" % depth if depth else ""), extra + [host], shape, expect,
                        "%s %s `%s` in context %s" % ("private" if priv else "exported", kind, f_e(a), ctxname))
        for priv in (True, False):
            shape = rng.choice(shapes); alias = alias_of(shape)
            n = "kpriv" if priv else "Kpub"
            host = ("DFn", "host", [], I32, seq(let("v", I32, lit(0)), ("SMatch", var("v"), seq(("SCase", qual(alias, n), ("SSkip",)), ("SDefault", ("SSkip",)))), ret(lit(0))))
            add("const", priv, "match_pattern", [host], shape, ("notexported", n) if priv else None,
                "%s const `%s::%s` as match pattern" % ("private" if priv else "exported", alias, n))
        for ctxname in sorted(CM):
            for kind in ("fn", "const", "var", "field"):
                for priv in (True, False):
                    shape = rng.choice(shapes); alias = alias_of(shape)
                    if kind == "field":
                        f = "y" if priv else "X"
                        a = sel(call(qual(alias, "Mk")), f); expect = ("privatefield", f) if priv else None
                    else:
                        a, n = sym_access(alias, kind, priv); expect = ("notexported", n) if priv else None
                    if ctxname == "module_const_init" and kind != "const":
                        continue            # constant initialisers must be constant expressions
                    add(kind, priv, ctxname, CM[ctxname](a), shape, expect,
                        "%s %s `%s` in context %s" % ("private" if priv else "exported", kind, f_e(a), ctxname))
        # ---- types
        for ctxname in sorted(CT):
            for priv in (True, False):
                shape = rng.choice(shapes); alias = alias_of(shape)
                n = "hidden" if priv else "Shown"
                t = ("TQual", alias, n)
                add("type", priv, ctxname, CT[ctxname](t), shape, ("notexported", n) if priv else None,
                    "%s type `%s::%s` in context %s" % ("private" if priv else "exported", alias, n, ctxname))
        # ---- lvalue contexts for fields of a value that is not the receiver
        for priv in (True, False):
            f = "y" if priv else "X"
            for ctxname, mk in (("assign_target", lambda l: ("SAssign", l, lit(5))),
                                ("compound_target", lambda l: ("SOpAssign", l, lit(5), "+=")),
                                ("incr_target", lambda l: ("SIncr", l, "++")),
                                ("decr_target", lambda l: ("SIncr", l, "--"))):
                shape = rng.choice(shapes); alias = alias_of(shape)
                host = ("DFn", "host", [], I32, seq(let("q", None, call(qual(alias, "Mk"))), mk(sel(var("q"), f)), ret(lit(0))))
                add("field", priv, ctxname, [host], shape, ("privatefield", f) if priv else None,
                    "%s field `q.%s` as %s" % ("private" if priv else "exported", f, ctxname))
        # ---- receiver rule inside the site module (type Box with private field b)
        xb = sel(var("x"), "b")
        RB = ("TRef", BOX)
        def m_(name, ps, body, rt=I32, mut=False):
            return ("DMethod", "x", RB if mut else BOX, name, ps, rt, body) + (("&'Box",) if mut else ())
        recv_cases = [
            ("recv_read", [m_("R1", [], ret(xb))], None),
            ("recv_write", [m_("R2", [], seq(("SAssign", xb, lit(1)), ("SOpAssign", xb, lit(2), "+="), ("SIncr", xb, "++"), ret(lit(0))), mut=True)], None),
            ("recv_in_closure", [m_("R3", [], seq(let("f", None, ("EClosure", [], I32, ret(xb))), ret(call(var("f")))))], None),
            ("recv_in_range_bound", [m_("R4", [], seq(("SFor", "i", ("ERange", lit(0), xb), ("SSkip",)), ret(lit(0))))], None),
            ("recv_before_shadowing_let", [m_("R5", [], seq(("SIf", binop("==", sel(var("x"), "A"), lit(1)),
                                           seq(let("v", None, xb), let("x", None, call(var("mkbox"))), ret(var("v"))), ("SSkip",)), ret(lit(0))))], None),
            ("recv_after_shadowing_block", [m_("R6", [], seq(("SIf", binop("==", sel(var("x"), "A"), lit(1)),
                                            seq(let("x", None, call(var("mkbox")))), ("SSkip",)), ret(xb)))], None),
            ("shadowed_by_let", [m_("R7", [], seq(("SIf", binop("==", sel(var("x"), "A"), lit(1)),
                                 seq(let("x", None, call(var("mkbox"))), ret(xb)), ("SSkip",)), ret(lit(0))))], ("privatefield", "b")),
            ("shadowed_by_closure_param", [m_("R8", [], seq(let("f", None, ("EClosure", [("x", BOX)], I32, ret(xb))), ret(call(var("f"), call(var("mkbox"))))))], ("privatefield", "b")),
            ("shadowed_in_match_arm", [m_("R9", [], seq(("SMatch", sel(var("x"), "A"), seq(("SCase", lit(1), seq(let("x", None, call(var("mkbox"))), ret(xb))),
                                       ("SDefault", seq(ret(xb)))))))], ("privatefield", "b")),
            ("other_param_same_type", [m_("R10", [("o", BOX)], ret(binop("+", sel(var("o"), "b"), xb)))], ("privatefield", "b")),
            ("free_function_same_module", [("DFn", "ff", [("o", BOX)], I32, ret(sel(var("o"), "b")))], ("privatefield", "b")),
            ("free_function_same_module_exported", [("DFn", "ff", [("o", BOX)], I32, ret(sel(var("o"), "A")))], None),
            ("recv_nested_selector", [("DType", "Wrap", [("Inner", BOX)]), ("DMethod", "w", ("TName", "Wrap"), "R11", [], I32, ret(sel(sel(var("w"), "Inner"), "b")))], ("privatefield", "b")),
            ("literal_init_private_field", [("DFn", "ff", [], BOX, ret(cast(struct(("A", lit(1)), ("b", lit(2))), BOX)))], None),
        ]
        for name, decls, expect in recv_cases:
            add("field", expect is not None, name, decls, rng.choice(shapes), expect, "receiver rule: " + name)
        # literal initialising a private field of another module's type
        for shape in shapes:
            alias = alias_of(shape)
            host = ("DFn", "host", [], I32, seq(let("v", ("TQual", alias, "Point"), struct(("X", lit(1)), ("y", lit(2)))),
                                                  let("w", None, cast(struct(("X", lit(1)), ("y", lit(2))), ("TQual", alias, "Point"))), ret(lit(0))))
            add("field", False, "literal_init_cross_module", [host], shape, None, "struct literal initialises private field y of %s::Point" % alias)
    return cases

def alias_of(shape):
    return {"direct": "lib", "alias": "u", "chain": "lib"}[shape]

def build_project(c):
    """-> (modules in dependency order [lib, site(, main)], entry module index). Paths are relative to project `proj`."""
    lib_path = {"direct": "proj/lib", "alias": "proj/utils/lib", "chain": "proj/lib"}[c.shape]
    lib = lib_module(lib_path)
    imp = [(alias_of(c.shape), lib_path, c.shape == "alias")]
    if c.shape == "chain":
        site = dict(path="proj/mid", imports=imp, decls=helpers() + c.site_decls + [("DFn", "Entry", [], I32, ret(lit(0)))])
        main = dict(path="proj/main", imports=[("mid", "proj/mid", False)],
                    decls=[("DFn", "main", [], ("TVoid",), seq(let("r", None, call(qual("mid", "Entry")))))])
        return [lib, site, main]
    site = dict(path="proj/main", imports=imp, decls=helpers() + c.site_decls + [("DFn", "main", [], ("TVoid",), ("SSkip",))])
    return [lib, site]

def write_project(mods, d):
    root = os.path.join(d, "proj")
    files = {}
    for m in mods:
        rel = m["path"][len("proj/"):] + ".fer"
        p = os.path.join(root, rel)
        os.makedirs(os.path.dirname(p), exist_ok=True)
        src = f_module(m)
        open(p, "w").write(src)
        files["proj/" + rel] = src
    return os.path.join(root, "main.fer"), files

RX_NOTEXP = re.compile(r"symbol '([^']+)' is not exported from module '([^']+)'")
RX_PRIV = re.compile(r"field '([^']+)' is private")
RX_ERR = re.compile(r"^error[^:\n]*: (.*)$", re.M)

def observe(res):
    out = res["out"]
    ne = sorted(set((m.group(2), m.group(1)) for m in RX_NOTEXP.finditer(out)))
    pf = sorted(set(m.group(1) for m in RX_PRIV.finditer(out)))
    other = [e for e in RX_ERR.findall(out) if not RX_NOTEXP.search(e) and not RX_PRIV.search(e)]
    return ne, pf, other

def c_obs(ne, pf):
    return "[" + "; ".join(["VNotExported %s %s" % (q(p), q(n)) for p, n in ne] + ["VPrivateField %s" % q(f) for f in pf]) + "]"

def main(run):
    work = Work()
    run.rule = ("a case is one generated multi-module project = (import shape: direct / aliased sub-directory / chain "
                "main->mid->lib) x (symbol kind: fn, const, var, type, field, method) x (private | exported) x "
                "(syntactic context, optionally buried under 0-3 random expression wrappers); canonical form = rendered "
                "source of the access-site module; distinct counts distinct canonical forms")
    run.trusted.append("harness/c12.py: the two renderers (Ferret source / Coq term) of the same Python AST and the reading of the diagnostics")
    run.assumptions = [
        "the model is written for the compiler after fixes/C12-visibility-contexts.patch (range bounds / step, ?? operands, ++/-- operands and every type position are visited)",
        "enums (Type::Variant) and interfaces are not modelled; ESel denotes a well-typed struct field selection, EMeth a method call",
        "methods are outside the rule implemented by the compiler: a lowercase method is callable from another module (open finding F-C12-PRIVATE-METHOD; the property text names functions, constants, variables, types and fields)",
        "acceptance is decided by the type-check pipeline (`ferret -t` semantics, in-process through compiler.Compile with SkipCodegen)",
    ]
    import time
    T = {}; t0 = time.time()
    ok = run.proof("Props/C12.v")
    T["proof_s"] = round(time.time() - t0, 1); t0 = time.time()
    cases = make_cases(run, run.tier)
    reqs = []
    for i, c in enumerate(cases):
        c.id = i
        c.mods = build_project(c)
        c.entry, c.files = write_project(c.mods, work.sub("p%d" % i))
        reqs.append(dict(id=i, file=c.entry, mode="t"))
    T["generate_s"] = round(time.time() - t0, 1); t0 = time.time()
    res = common.batch_compile(reqs)
    T["compile_s"] = round(time.time() - t0, 1); t0 = time.time()
    # cross-check the in-process driver against the real CLI on a seeded sample
    sample = run.rng.sample(cases, min(16, len(cases)))
    def cli(c):
        return common.typecheck(c.entry, cwd=os.path.dirname(c.entry))
    for c, (rc, so, se) in zip(sample, common.pmap(cli, sample)):
        if (rc == 0) != bool(res[c.id]["ok"]):
            raise RuntimeError("batch hook and CLI disagree on case %d (%s): cli rc=%d batch ok=%s\n%s" % (c.id, c.what, rc, res[c.id]["ok"], (so + se)[-800:]))
    run.extra["cli_crosschecked"] = len(sample)
    T["cli_s"] = round(time.time() - t0, 1); t0 = time.time()

    # ---- spec-side oracle + bookkeeping
    lines = []
    for c in cases:
        r = res[c.id]
        c.ok = bool(r["ok"]); c.ne, c.pf, c.other = observe(r); c.panic = r["panic"]
        site = c.mods[1]
        run.case(f_module(site), nontrivial=True,
                 sample={"what": c.what, "shape": c.shape, "accepted": c.ok, "diagnostics": [list(x) for x in c.ne] + c.pf} if c.id % 97 == 0 else None)
        run.count("kind:" + c.kind); run.count("case:" + ("private" if c.priv else "exported"))
        run.count("shape:" + c.shape); run.count("verdict:" + ("accepted" if c.ok else "rejected"))
        run.count("ctx:" + c.ctx.split("+")[0])
        replay = {"files": c.files, "entry": "proj/main.fer", "cmd": "ferret -t proj/main.fer", "case": c.what,
                  "observed": {"accepted": c.ok, "not_exported": c.ne, "private_field": c.pf, "other_errors": c.other[:5],
                               "panic": (c.panic or "")[:400]}}
        key = "%s:%s:%s" % (c.ctx.split("+")[0], c.kind, "private" if c.priv else "exported")
        if c.panic:
            run.violation("panic:" + key, "compiler panicked on %s" % c.what, replay)
            continue
        if c.kind == "method":
            if c.priv and c.ok:
                run.violation("private-method-cross-module",
                              "lowercase method of another module's type is callable (%s)" % c.what, replay)
            elif not c.ok:
                run.violation("overreject:" + key, "method call rejected: %s: %s" % (c.what, "; ".join(c.other[:2])), replay)
            continue
        if c.expect is not None:
            kind, n = c.expect
            seen = (n in [x[1] for x in c.ne]) if kind == "notexported" else (n in c.pf)
            if c.ok or not seen:
                replay["expected"] = "rejected with the '%s' diagnostic for '%s'" % ("is not exported" if kind == "notexported" else "is private", n)
                run.violation("unchecked:" + key, "forbidden access %s: %s" %
                              ("compiles" if c.ok else "is rejected only for another reason (%s)" % "; ".join(c.other[:2]), c.what), replay)
        else:
            if not c.ok or c.ne or c.pf:
                replay["expected"] = "accepted"
                run.violation("overreject:" + key, "allowed access rejected: %s: %s" % (c.what, "; ".join(
                    ["not exported %s" % (x,) for x in c.ne] + ["private %s" % x for x in c.pf] + c.other[:2])), replay)
    # ---- reference-free family: a method declared in ANOTHER module on the type (receiver by value, & or &') must not open the
    # private fields of that type (found on the unmodified tree, repaired by 8e6eec9: the `&other::T` receiver slipped past the
    # "cannot define methods on types from other modules" rule and read v.y)
    freqs, fmeta = [], []
    for shape in ("direct", "alias"):
        lib_path = {"direct": "proj/lib", "alias": "proj/utils/lib"}[shape]; alias = alias_of(shape)
        for recv in ("", "&", "&'"):
            for body, what in (("return v.y;", "read"), ("v.y = 3; return 0;", "write"), ("return v.X;", "read-exported")):
                if what == "write" and recv != "&'": continue
                raw = "\nfn (v: %s%s::Point) Leak() -> i32 { %s }\n" % (recv, alias, body)
                mods = [lib_module(lib_path), dict(path="proj/main", imports=[(alias, lib_path, shape == "alias")],
                                                    decls=[("DFn", "main", [], ("TVoid",), ("SSkip",))], raw=raw)]
                entry, files = write_project(mods, work.sub("fr%d" % len(freqs)))
                freqs.append(dict(id=len(freqs), file=entry, mode="t")); fmeta.append((shape, recv, what, files))
    fres = common.batch_compile(freqs)
    for i, (shape, recv, what, files) in enumerate(fmeta):
        run.case(files["proj/main.fer"], nontrivial=True); run.count("ctx:foreign_receiver_method")
        if fres[i]["panic"]:
            run.violation("panic:foreign-receiver", "compiler panicked on a method with a receiver of another module's type", {"files": files})
        elif fres[i]["ok"]:
            run.violation("unchecked:foreign-receiver:%s:%s" % (recv or "value", what),
                          "a method declared outside the module of lib's Point with receiver `%s%s::Point` is accepted%s"
                          % (recv, alias_of(shape), " and accesses the private field y through it" if what != "read-exported" else ""),
                          {"files": files, "entry": "proj/main.fer", "cmd": "ferret -t proj/main.fer", "expected": "rejected"})
    # ---- reference-free family: a value whose struct type is declared in a module the accessing module does NOT import itself
    # (main -> mid -> lib; mid hands out lib's Point): the private-field rule must not depend on the type's symbol being visible
    # by name from the accessing module (seed C12e: the selector check gave up when the type symbol was not found among the
    # direct imports)
    treqs, tmeta = [], []
    mid_raw = ("\ntype Wrap struct { .P: lib::Point, .n: i32 };\nfn Open() -> lib::Point { return lib::Mk(); }\n"
               "fn OpenW() -> Wrap { return { .P = lib::Mk(), .n = 1 } as Wrap; }\n")
    for body, what, must_reject in (("let v := mid::Open(); let a := v.y;", "read v.y", True), ("let v := mid::Open(); v.y = 3;", "write v.y", True),
                                    ("let v := mid::Open(); let a := v.X;", "read v.X", False), ("let w := mid::OpenW(); let a := w.P.y;", "read w.P.y", True),
                                    ("let w := mid::OpenW(); let a := w.P.X;", "read w.P.X", False), ("let w := mid::OpenW(); w.P.y += 1;", "w.P.y += 1", True),
                                    ("let w := mid::OpenW(); let a := w.n;", "read w.n", True),
                                    ("let v := mid::Open(); let f := fn() -> i32 { return v.y; };", "read v.y in a closure", True)):
        mods = [lib_module("proj/lib"), dict(path="proj/mid", imports=[("lib", "proj/lib", False)], decls=[], raw=mid_raw),
                dict(path="proj/main", imports=[("mid", "proj/mid", False)], decls=[], raw="\nfn main() { %s }\n" % body)]
        entry, files = write_project(mods, work.sub("tt%d" % len(treqs)))
        treqs.append(dict(id=len(treqs), file=entry, mode="t")); tmeta.append((what, must_reject, files))
    tres = common.batch_compile(treqs)
    for i, (what, must_reject, files) in enumerate(tmeta):
        run.case(files["proj/main.fer"], nontrivial=True); run.count("ctx:transitive_type")
        _, pf, other = observe(tres[i])
        rp = {"files": files, "entry": "proj/main.fer", "cmd": "ferret -t proj/main.fer", "expected": "rejected: field is private" if must_reject else "accepted"}
        if tres[i]["panic"]:
            run.violation("panic:transitive-type", "compiler panicked on an access to a value of a transitively imported type", rp)
        elif must_reject and (tres[i]["ok"] or not pf):
            run.violation("unchecked:transitive-type:" + what.split()[0], "private field access `%s` on a value whose type comes from a module that main does not import itself %s"
                          % (what, "is accepted" if tres[i]["ok"] else "is rejected only for another reason (%s)" % "; ".join(other[:2])), rp)
        elif not must_reject and not tres[i]["ok"]:
            run.violation("overreject:transitive-type:" + what.split()[0], "exported field access `%s` on a value of a transitively imported type is rejected: %s" % (what, "; ".join(other[:2])), rp)
    # ---- correspondence with the model (vm_compute)
    bad_total = []
    SH = 220
    def eval_shard(s0):
        shard = cases[s0:s0 + SH]
        v = ["From Coq Require Import List String ZArith.", "From FV Require Import Models.Vis.", "Import ListNotations.",
             "Open Scope string_scope.",
             "Definition lib_direct : module := %s." % c_module(lib_module("proj/lib")),
             "Definition lib_alias : module := %s." % c_module(lib_module("proj/utils/lib")),
             "Definition helpers_d : list decl := [%s]." % ";\n   ".join(c_decl(d) for d in helpers()),
             "Definition cases : list case := ["]
        items = []
        for c in shard:
            mods = ["lib_alias" if c.shape == "alias" else "lib_direct"] + [c_module(c.mods[1], ("helpers_d", len(helpers())))] + [c_module(m) for m in c.mods[2:]]
            items.append("  ((%d)%%Z, [%s], %s, %s)" % (c.id, ";\n    ".join(mods), common.coq_bool(c.ok), c_obs(c.ne, c.pf)))
        v.append(";\n".join(items)); v.append("].")
        v.append("Eval vm_compute in (bad_ids cases).")
        okc, out = common.coq_eval("C12_%d_%d" % (run.seed, s0), "\n".join(v) + "\n")
        return (common.parse_bad_ids(out) if okc else None), out
    for ids, out in common.pmap(eval_shard, list(range(0, len(cases), SH)), workers=4):
        if ids is None:
            run.violation("correspondence:eval", "model evaluation failed: " + out[-600:], {"log": out[-3000:]}, no_input=True)
            break
        bad_total += ids
    run.extra["model_disagreements"] = len(bad_total)
    T["model_eval_s"] = round(time.time() - t0, 1)
    run.extra["timing"] = T
    byid = {c.id: c for c in cases}
    for i in bad_total[:20]:
        c = byid[i]
        if c.kind == "method":
            continue
        key = "%s:%s:%s" % (c.ctx.split("+")[0], c.kind, "private" if c.priv else "exported")
        already = any(k in ("unchecked:" + key, "overreject:" + key, "panic:" + key) for k, _, _, _ in run.violations)
        if already:
            continue
        run.violation("model:" + key, "compiler and model Vis.check_project disagree on %s (accepted=%s, diagnostics=%s %s, other=%s)"
                      % (c.what, c.ok, c.ne, c.pf, c.other[:2]),
                      {"files": c.files, "entry": "proj/main.fer", "cmd": "ferret -t proj/main.fer", "case": c.what,
                       "correspondence": "Models/Vis.v check_project vs compiler diagnostics"}, no_input=True)
    if not ok:
        where, log = run.proof_failure
        run.violation("proof:C12:" + where, "Props/C12 no longer checks (%s)" % where,
                      {"theorem_file": "coq/Props/C12.v", "where": where, "log": log}, no_input=True)

def replay(run, path):
    r = json.load(open(path))
    rp = r.get("replay", {})
    files = rp.get("files")
    if not files:
        print(json.dumps(r, indent=1)); return 0
    work = Work()
    for rel, src in files.items():
        p = work.path(rel)
        open(p, "w").write(src)
    entry = work.path(rp.get("entry", "proj/main.fer"))
    rc, so, se = common.typecheck(entry, cwd=os.path.dirname(entry))
    print("case: %s\nexpected: %s\nferret -t rc=%d\n%s%s" % (rp.get("case"), rp.get("expected"), rc, so, se))
    return 0
