"""C02 — the QBE (native) and WebAssembly back ends agree.
Proof stage: Props/C02.v (instruction-selection agreement over the regenerated tables, layout agreement).
Tie: FerretCore programs accepted by both targets are run natively and under node with the shipped runtime.js;
the sequence of printed values and the termination kind must coincide (three-way with the reference model)."""
import os, json, hashlib
import common, core, c01
from common import Work

def values(text):
    """sequence of printed values (whitespace separated tokens; ints/bools/floats normalised)"""
    out = []
    for t in text.split():
        if t in ("true", "false"): out.append(t)
        else:
            try:
                out.append(int(t))
            except ValueError:
                try: out.append(float(t))
                except ValueError: out.append(t)
    return out

def term_kind(r):
    rc = r.get("rc")
    if rc == 0: return "normal"
    if rc is None: return "no-exe"
    return "panic-or-trap"

def main(run):
    work = Work()
    quick = run.tier == "quick"
    n = 80 if quick else 1500
    import isel
    run.extra["isel_tables"] = isel.gen_tables()
    ok = run.proof("Props/C02.v")
    # the binary encoders of module.go (LEB128, strings, sections, locals): Props/C02Enc.v + correspondence through hooks/wasmenc
    import c02enc
    c02enc.stage(run)
    progs, feats = c01.gen_programs(run, n, 25 if quick else 60, 3 if quick else 5, False, fnlits=False)
    # a few long functions (well over 64 basic blocks each: block indices need more than one LEB128 byte, deep dispatch)
    for _ in range(3 if quick else 12):
        g = core.Gen(run.rng, max_stmts=140, max_depth=2)
        g.long_main = True
        g.fnlits = False
        progs.append(g.program())
    corpus = c01.load_corpus("C02") + c01.load_corpus("C01")
    run.extra["corpus_programs"] = len(corpus)
    progs = corpus + progs
    nshrunk = [0]
    def differs(p):
        nshrunk[0] += 1
        a = c01.compile_run_all([p], work, "native", "sn%d_" % nshrunk[0])[0]
        b = c01.compile_run_all([p], work, "wasm", "sw%d_" % nshrunk[0])[0]
        if a["panic"] or b["panic"] or not (a["accepted"] and b["accepted"]): return False
        return term_kind(a) != term_kind(b) or values(a.get("out", "")) != values(b.get("out", ""))
    nviol = [0]
    def shrunk(p):
        nviol[0] += 1
        if nviol[0] > 2: return None
        try:
            return core.to_ferret(core.shrink(p, differs, max_tests=24))
        except Exception as e:
            return "(shrinking failed: %r)" % (e,)
    # source-level corpus (features outside FerretCore: no reference leg): former disagreements, replayed first
    cdir = os.path.join(common.VERIF, "corpus", "C02")
    for fn in sorted(os.listdir(cdir)) if os.path.isdir(cdir) else []:
        if not fn.endswith(".fer"): continue
        src = open(os.path.join(cdir, fn)).read()
        a = common.compile_and_run(src, work, "cn_" + fn[:-4], "native")
        b = common.compile_and_run(src, work, "cw_" + fn[:-4], "wasm")
        run.case(src, True)
        run.count("corpus-source")
        if not (a.get("accepted") and b.get("accepted")) or term_kind(a) != term_kind(b) or values(a.get("out") or "") != values(b.get("out") or ""):
            run.violation("corpus:" + fn, "corpus program %s: native and wasm differ (or one target no longer builds it)" % fn,
                          {"program": src, "native": {"accepted": a.get("accepted"), "rc": a.get("rc"), "stdout": a.get("out"), "stderr": (a.get("err") or "")[:400]},
                           "wasm": {"accepted": b.get("accepted"), "rc": b.get("rc"), "stdout": b.get("out"), "stderr": (b.get("err") or "")[:400]}})
    import c02rich; c02rich.run_family(run, work, quick)
    nat = c01.compile_run_all(progs, work, "native", "n")
    was = c01.compile_run_all(progs, work, "wasm", "w")
    both = 0
    observed = []
    for i, (p, a, b) in enumerate(zip(progs, nat, was)):
        src = core.to_ferret(p)
        run.case(src, True, {"program": src, "native": a.get("out", "")[:120], "wasm": b.get("out", "")[:120]} if i < 2 else None)
        observed.append(core.parse_output(a["out"]) if a.get("rc") == 0 else None)
        if c01.known_crash_key(a["panic"]) or c01.known_crash_key(b["panic"]):
            run.count("skipped:known-compiler-crash")
            continue
        if not (a["accepted"] and b["accepted"]):
            run.count("not-accepted-by-both")
            # FerretCore programs use nothing the wasm runtime lacks: a one-sided rejection is itself a disagreement
            if a["accepted"] != b["accepted"]:
                key = "accept:" + hashlib.sha256(src.encode()).hexdigest()[:16]
                run.violation(key, "targets disagree on acceptance (native=%s wasm=%s)" % (a["accepted"], b["accepted"]),
                              {"program": src, "native_diag": a["diag"][:1500], "wasm_diag": b["diag"][:1500]})
            continue
        both += 1
        ka, kb = term_kind(a), term_kind(b)
        va, vb = values(a.get("out", "")), values(b.get("out", ""))
        if ka != kb or va != vb:
            key = "prog:" + hashlib.sha256(src.encode()).hexdigest()[:16]
            run.violation(key, "native and wasm differ: termination %s/%s, %d/%d values" % (ka, kb, len(va), len(vb)),
                          {"program": src, "native": {"rc": a.get("rc"), "stdout": a.get("out"), "stderr": a.get("err", "")[:500]},
                           "wasm": {"rc": b.get("rc"), "stdout": b.get("out"), "stderr": b.get("err", "")[:500]},
                           "ast": p, "shrunk_program": shrunk(p)})
    run.extra["accepted_by_both"] = both
    for k, v in feats.items():
        run.dist[k] = v
    run.rule = ("type-directed random FerretCore programs (ints of 8 widths, bool, by-value structs with integer fields, methods with value receivers, functions, recursion, while, ranges with inclusive bounds and steps, match, casts), each compiled for "
                "native and wasm and executed (node + runtime/wasm/runtime.js); distinct = distinct source text")
    run.assumptions = ["V8/node and the section assembly of ModuleBuilder.emit around the proved encoders (LEB128 integers, strings, section framing, locals: Props/C02Enc.v) are trusted", "floats compared numerically (none generated in FerretCore v1)"]
    # third leg: the reference model on the native outputs (same comparison C01 does), so that 'both wrong the same way' is visible
    bad = c01.model_check("c02", progs, observed)
    nref = sum(1 for i, v in bad.items() if v == "diff" and nat[i].get("rc") == 0)
    run.extra["native_vs_reference_diffs(reported by C01)"] = nref
    if not ok:
        where, log = run.proof_failure
        found = False
        try:
            for be in ("qbe", "wasm"):
                for w in isel.search(be):
                    found = True
                    run.violation("isel:%s:%s" % (be, w.get("key")), "%s instruction selection for %s deviates from the reference (operands %s: expected %s, got %s)"
                                  % (be, w.get("key"), w.get("operands"), w.get("expected"), w.get("got")), w, no_input=(w.get("operands") is None))
        except Exception as e:
            log += "\n(isel.search failed: %r)" % (e,)
        if not found:
            run.violation("proof:C02:" + where, "Props/C02 no longer checks (%s)" % where, {"where": where, "log": log}, no_input=True)

def replay(run, path):
    """re-run a recorded disagreement against the current tree (AST in the replay file); exit 1 while the targets still differ"""
    d = json.load(open(path))
    rp = d.get("replay", d)
    ast = rp.get("ast")
    if ast is None:
        print(json.dumps(d, indent=1)[:6000])
        print("(no AST recorded in this replay file: nothing to re-run)")
        return 0
    work = Work()
    a = c01.compile_run_all([ast], work, "native", "rn")[0]
    b = c01.compile_run_all([ast], work, "wasm", "rw")[0]
    print(core.to_ferret(ast))
    print("native:", term_kind(a), repr(a.get("out")))
    print("wasm:  ", term_kind(b), repr(b.get("out")))
    if a["accepted"] == b["accepted"] and term_kind(a) == term_kind(b) and values(a.get("out") or "") == values(b.get("out") or ""):
        print("REPLAY: both targets agree on the current tree")
        return 0
    print("VIOLATION property=C02 replay=%s still fails on the current tree" % path)
    return 1
