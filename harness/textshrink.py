#!/usr/bin/env python3
"""textshrink.py <file.fer> <needle> [--target native|wasm] : line/block-level greedy reduction of a Ferret source while
`ferret -o` output (or, with --run, the program output) still contains <needle>. Lead's triage tool, not part of a check."""
import sys, os, subprocess, tempfile
sys.path.insert(0, os.path.dirname(os.path.abspath(__file__)))
import common

def main():
    src = open(sys.argv[1]).read().splitlines()
    needle = sys.argv[2]
    work = common.Work()
    n = [0]
    def pred(lines):
        n[0] += 1
        d = work.sub("t%d" % n[0])
        f = os.path.join(d, "p.fer"); open(f, "w").write("\n".join(lines) + "\n")
        rc, o, e = common.ferret(["-o", os.path.join(d, "p"), f], cwd=d, timeout=60)
        return needle in (o + e)
    assert pred(src), "needle not present initially"
    def block_end(lines, i):
        depth = 0
        for j in range(i, len(lines)):
            depth += lines[j].count("{") - lines[j].count("}")
            if depth <= 0 and j > i: return j
            if depth <= 0 and j == i: return i
        return None
    changed = True
    while changed:
        changed = False
        i = 0
        while i < len(src):
            cands = []
            j = block_end(src, i)
            if j is not None and j > i:
                cands.append(src[:i] + src[j + 1:])                 # drop whole block
                cands.append(src[:i] + src[i + 1:j] + src[j + 1:])  # hoist the body
            cands.append(src[:i] + src[i + 1:])
            for c in cands:
                if pred(c):
                    src = c; changed = True; break
            else:
                i += 1
    print("\n".join(src))
    sys.stderr.write("%d tests\n" % n[0])

main()
