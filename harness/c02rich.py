"""C02, source-level family: language features outside FerretCore, native vs wasm.

Reference-free: every program is compiled for both targets through the real CLI and executed (native executable;
.wasm under node with the shipped runtime/wasm/runtime.js); the printed token sequences (ints/floats numerically)
and the termination kinds must coincide, and a program only one target accepts is a disagreement as well.

Programs are assembled from *snippets*: parameterised templates (one feature each) swept over element types
(i8..u64, f32, f64, bool, str, a small struct) and edge values. A sweep program packs several snippets (process
start is the cost here), a composition program takes 2-4 random ones; a snippet that ends in a panic or trap is
always the last one of its program. A disagreeing program is reduced to a single snippet where possible.

Root causes that are recorded as open findings (harness/meta/C02.findings.json) are kept out of the generator
(GATES below) and exercised by exactly one dedicated probe program each, reported under the finding's key.
"""
import hashlib, random, os, sys
import common

# ------------------------------------------------------------------ types and values

INTS = {"i8": (-2**7, 2**7 - 1), "i16": (-2**15, 2**15 - 1), "i32": (-2**31, 2**31 - 1), "i64": (-2**63, 2**63 - 1),
        "u8": (0, 2**8 - 1), "u16": (0, 2**16 - 1), "u32": (0, 2**32 - 1), "u64": (0, 2**64 - 1)}
INT_TYPES = list(INTS)
FLOATS = ["f32", "f64"]
F_POOL = {"f32": ["0.0", "1.0", "-1.0", "0.5", "0.1", "0.2", "2.5", "-3.75", "1234.567", "0.000123", "100000.0", "1677721.0",
                  "0.001", "3.141593", "-0.25", "7.0", "1024.0", "0.0009765625"[:9], "65536.5", "-99999.9"],
          "f64": ["0.0", "1.0", "-1.0", "0.5", "0.1", "0.2", "2.5", "-3.75", "1234.5678", "0.000123", "100000.0", "123456789.125",
                  "99999999999999.0", "0.001", "3.14159265358979", "-0.25", "7.0", "1024.0", "0.0009765625", "4294967296.5",
                  "-2147483648.5", "0.333333333333333", "1000000000000000.0", "0.00001"]}
STRS = ["", "a", "ab", "hello", "x y", "Zz9", "tab\\there", "café", "0", "-1", "true", "a,b;c"]
GATES = ["float->int casts only with in-range finite operands (open finding cast:float-to-int-out-of-range)",
         "no comparison has a NaN operand (open finding float:nan-comparison)",
         "no signed MIN % -1 (open finding int:rem-min-by-minus-one); MIN / -1 is not generated either (traps on both)",
         "optionals, results/catch, map indexing, closures, function values, interface values only in the one-sided probes "
         "(open finding onesided:wasm-unsupported)",
         "map literals / map iteration only in their probe (open finding wasm:map-runtime-missing)",
         "no division whose divisor is a constant zero the native back end can see (open finding onesided:native-constant-zero-divisor)",
         "float literals keep to 15 (f64) / 7 (f32) significant digits without exponent (longer ones are typed f128 by the front end)",
         "fixed arrays are indexed by constants only, dynamic-array elements are not borrowed (rejected by the checker)"]


def edges(T, rng, extra=2):
    lo, hi = INTS[T]
    vs = [lo, lo + 1, 0, 1, hi - 1, hi]
    if lo < 0:
        vs += [-1, -2]
    vs += [rng.randint(lo, hi) for _ in range(extra)]
    vs += [rng.randint(max(lo, -100), min(hi, 100))]
    out = []
    for v in vs:
        if v not in out:
            out.append(v)
    return out


def wrap(T, v):
    lo, hi = INTS[T]
    m = hi - lo + 1
    return (v - lo) % m + lo


def is_int(T): return T in INTS
def is_float(T): return T in FLOATS


def pool(T, rng, n):
    """n literals of type T (source text)"""
    if is_int(T):
        e = edges(T, rng, extra=n)
        rng.shuffle(e)
        return [str(v) for v in e[:n]] if len(e) >= n else [str(e[i % len(e)]) for i in range(n)]
    if is_float(T):
        return [rng.choice(F_POOL[T]) for _ in range(n)]
    if T == "bool":
        return [rng.choice(["true", "false"]) for _ in range(n)]
    if T == "str":
        return ['"%s"' % rng.choice(STRS) for _ in range(n)]
    raise ValueError(T)


def zero(T):
    return "0" if is_int(T) else "0.0"


class Snip:
    def __init__(self, name, decls, body, feats=(), panics=False):
        self.name = name; self.decls = decls; self.body = body; self.feats = list(feats); self.panics = panics


PSTRUCT = "type P@ struct { .A: %s, .B: %s, .S: str };"

# ------------------------------------------------------------------ templates (each returns a Snip; '@' = unique suffix)


def show(T, e):
    """printable form of an expression of element type T"""
    if T == "P":
        return "%s.A, %s.B, %s.S" % (e, e, e)
    return e


def elem_setup(T, rng):
    """(declarations, type text, literal maker) for an element type, 'P' = small struct"""
    if T == "P":
        fa, fb = rng.choice(INT_TYPES), rng.choice(INT_TYPES + FLOATS + ["bool"])
        decl = PSTRUCT % (fa, fb)
        def mk():
            return "{ .A = %s, .B = %s, .S = %s } as P@" % (pool(fa, rng, 1)[0], pool(fb, rng, 1)[0], pool("str", rng, 1)[0])
        return decl, "P@", mk
    return "", T, (lambda: pool(T, rng, 1)[0])


def t_iter_fixed(rng, T):
    decl, tt, mk = elem_setup(T, rng)
    n = rng.randint(1, 6)
    vals = [mk() for _ in range(n)]
    b = ["let a: [%d]%s = [%s];" % (n, tt, ", ".join(vals)),
         "for v in a { io::Println(%s); }" % show(T, "v"),
         "for i, v in a { io::Println(i, %s); }" % show(T, "v"),
         "for i, _ in a { io::Print(i); }", "io::Println();",
         "let c: i32 = 0; for _, _ in a { c += 1; } io::Println(c, len(a));"]
    if is_int(T) or is_float(T):
        b += ["let s: %s = %s; for v in a { s += v; } io::Println(s);" % (T, zero(T)),
              "let b := a; b[0] = %s; io::Println(a[0], b[0], a[%d], b[-1]);" % (mk(), n - 1)]
    return Snip("iter_fixed<%s>" % T, decl, b, ["for-in-fixed", "elem:" + T])


def t_iter_dyn(rng, T):
    decl, tt, mk = elem_setup(T, rng)
    n = rng.randint(0, 5)
    vals = [mk() for _ in range(n)]
    b = ["let a: []%s = [%s];" % (tt, ", ".join(vals))]
    k = rng.randint(1, 9)
    for _ in range(k):
        b.append("append(&'a, %s);" % mk())
    b += ["io::Println(len(a));",
          "for v in a { io::Println(%s); }" % show(T, "v"),
          "for i, v in a { io::Println(i, %s); }" % show(T, "v"),
          "let x0 := a[0]; let xl := a[-1]; let xm := a[%d]; let xn := a[-%d];" % (n + k - 1, n + k),
          "io::Println(%s, %s, %s, %s);" % (show(T, "x0"), show(T, "xl"), show(T, "xm"), show(T, "xn")),
          "let j: i32 = 0; while j < len(a) { let y := a[j]; io::Println(j, %s); j += 2; }" % show(T, "y"),
          "a[%d] = %s; a[-1] = %s; let z := a[%d]; let w := a[len(a) - 1]; io::Println(%s, %s);"
          % (rng.randrange(n + k), mk(), mk(), rng.randrange(n + k), show(T, "z"), show(T, "w"))]
    if is_int(T) or is_float(T):
        b.append("let s: %s = %s; for v in a { s += v; } io::Println(s);" % (T, zero(T)))
    return Snip("iter_dyn<%s>" % T, decl, b, ["for-in-dyn", "append", "dyn-index", "elem:" + T])


def t_dyn_fn(rng, T):
    decl, tt, mk = elem_setup(T, rng)
    d = [decl,
         "fn fill@(a: []%s, v: %s) { let i: i32 = 0; while i < len(a) { a[i] = v; i += 2; } }" % (tt, tt),
         "fn mk@(n: i32, v: %s) -> []%s { let r: []%s = [v]; let i: i32 = 1; while i < n { append(&'r, v); i += 1; } return r; }" % (tt, tt, tt),
         "fn grow@(a: &'[]%s, v: %s, n: i32) { let i: i32 = 0; while i < n { append(a, v); i += 1; } }" % (tt, tt),
         "fn last@(a: []%s) -> %s { return a[-1]; }" % (tt, tt),
         "fn same@(a: []%s) -> []%s { return a; }" % (tt, tt)]
    n = rng.randint(2, 7)
    b = ["let a := mk@(%d, %s);" % (n, mk()),
         "let b := a;", "b[0] = %s;" % mk(),
         "let a0 := a[0]; let b0 := b[0]; io::Println(len(a), len(b), %s, %s);" % (show(T, "a0"), show(T, "b0")),
         "grow@(&'a, %s, %d);" % (mk(), rng.randint(1, 12)),
         "let l := last@(a); io::Println(len(a), len(b), %s);" % show(T, "l"),
         "fill@(a, %s);" % mk(),
         "for i, v in a { io::Println(i, %s); }" % show(T, "v"),
         "let c := same@(a); c[1] = %s; let a1 := a[1]; let l2 := last@(b); io::Println(%s, %s, len(c));" % (mk(), show(T, "a1"), show(T, "l2"))]
    return Snip("dyn_fn<%s>" % T, "\n".join(x for x in d if x), b, ["dyn-array-param", "dyn-array-result", "aliasing", "elem:" + T])


def t_dyn_panic(rng, T):
    decl, tt, mk = elem_setup(T, rng)
    n = rng.randint(1, 5)
    kind = rng.choice(["get-len", "get-neg", "get-big", "set-len", "set-neg", "empty"])
    d = [decl, "fn idx@(a: []%s, i: i32) -> %s { return a[i]; }" % (tt, tt),
         "fn put@(a: []%s, i: i32, v: %s) { a[i] = v; }" % (tt, tt)]
    b = ["let a: []%s = [%s];" % (tt, ", ".join(mk() for _ in range(n))),
         "let g := idx@(a, %d); let h := idx@(a, -%d); io::Println(%s, %s);" % (n - 1, n, show(T, "g"), show(T, "h")),
         "put@(a, -%d, %s); put@(a, %d, %s); io::Println(len(a));" % (n, mk(), n - 1, mk())]
    if kind == "get-len": b.append("let q := idx@(a, %d); io::Println(%s);" % (n, show(T, "q")))
    elif kind == "get-neg": b.append("let q := idx@(a, -%d); io::Println(%s);" % (n + 1, show(T, "q")))
    elif kind == "get-big": b.append("let q := idx@(a, %d); io::Println(%s);" % (rng.choice([2**31 - 1, -2**31, 1000000]), show(T, "q")))
    elif kind == "set-len": b.append("put@(a, %d, %s);" % (n, mk()))
    elif kind == "set-neg": b.append("put@(a, -%d, %s);" % (n + 1, mk()))
    else:
        b.append("let e: []%s = []; io::Println(len(e)); let q := idx@(e, 0); io::Println(%s);" % (tt, show(T, "q")))
    b.append('io::Println("not reached");')
    return Snip("dyn_panic<%s,%s>" % (T, kind), "\n".join(x for x in d if x), b, ["index-panic:" + kind, "elem:" + T], panics=True)


def t_nested_arrays(rng, T):
    vs = lambda k: ", ".join(pool(T, rng, k))
    r, c = rng.randint(1, 3), rng.randint(1, 4)
    b = ["let g: [][]%s = [%s];" % (T, ", ".join("[%s]" % vs(rng.randint(1, 4)) for _ in range(r))),
         "append(&'g, [%s]);" % vs(2),
         "for row in g { for v in row { io::Print(v); io::Print(\" \"); } io::Println(len(row)); }",
         "let r0 := g[-1]; io::Println(r0[0], r0[-1], len(g));",
         "let m: [%d][%d]%s = [%s];" % (r, c, T, ", ".join("[%s]" % vs(c) for _ in range(r))),
         "io::Println(m[%d][%d], m[0][0]);" % (r - 1, c - 1),
         "for row in m { for i, v in row { io::Println(i, v); } }",
         "let fd: [%d][]%s = [%s];" % (r, T, ", ".join("[%s]" % vs(rng.randint(1, 3)) for _ in range(r))),
         "for row in fd { io::Println(len(row), row[0]); }"]
    return Snip("nested_arrays<%s>" % T, "", b, ["nested-arrays", "elem:" + T])


def t_str_concat(rng, T):
    b = []
    if T == "mixed":
        parts = []
        decl = []
        for i, U in enumerate(rng.sample(INT_TYPES + FLOATS + ["bool", "str"], 5)):
            decl.append("let v%d: %s = %s;" % (i, U, pool(U, rng, 1)[0]))
            parts.append("v%d" % i)
        b += decl
        b.append('let s: str = "[" + %s + "]";' % ' + "|" + '.join(parts))
        b.append("io::Println(s, len(s));")
    else:
        vals = pool(T, rng, 6)
        for i, v in enumerate(vals):
            b.append("let v%d: %s = %s;" % (i, T, v))
        b.append('io::Println(%s);' % ", ".join('"%s=" + v%d' % (T, i) for i in range(len(vals))))
        b.append('let s: str = ""; %s io::Println(s, len(s));' % " ".join('s = s + v%d + ",";' % i for i in range(len(vals))))
        b.append('io::Println(("a" + v0) == ("a" + v0), ("a" + v0) == ("a" + v1), ("a" + v0) != ("b" + v0));')
    return Snip("str_concat<%s>" % T, "", b, ["str-concat:" + T])


def t_str_ops(rng, T=None):
    s = rng.choice([x for x in STRS if len(x) >= 2 and "\\" not in x])
    n = len(s.encode("utf8"))
    i = rng.randrange(n)
    d = ["type W@ struct { .Name: str, .N: i32 };",
         "fn ch@(s: str, i: i32) -> byte { return s[i]; }",
         "fn rep@(s: str, n: i32) -> str { let r: str = \"\"; let i: i32 = 0; while i < n { r = r + s; i += 1; } return r; }",
         "fn eq@(a: str, b: str) -> bool { return a == b; }"]
    b = ['let s: str = "%s";' % s,
         "io::Println(s, len(s), s[0], s[-1], s[%d], s[-%d]);" % (i, n),
         "io::Println(ch@(s, %d), ch@(s, -%d), ch@(s, %d) as i32, ch@(s, 0) as u8);" % (n - 1, n, i),
         "let r := rep@(s, %d); io::Println(r, len(r));" % rng.randint(0, 6),
         'io::Println(eq@(s, "%s"), eq@(s, s + ""), eq@(s, "%s"), s != "%s", eq@(rep@(s, 2), s + s), "" == rep@(s, 0));' % (s, s[:-1], s),
         "for c in s { io::Print(c); io::Print(\".\"); } io::Println();",
         "for k, c in s { io::Println(k, c, c as i32); }",
         'let w: W@ = { .Name = s + "!", .N = len(s) }; io::Println(w.Name, w.N, len(w.Name));',
         'let ws: []str = [s, "", s + s]; append(&\'ws, rep@("ab", 3)); for k, x in ws { io::Println(k, x, len(x)); }',
         'let fs: [3]str = ["x", s, ""]; for x in fs { io::Println(x == s, x); }',
         'let b: byte = s[%d]; io::Println(b, b as i32, "b=" + b);' % i]
    return Snip("str_ops", "\n".join(d), b, ["str-index", "str-len", "str-eq", "str-in-struct", "str-in-array", "for-in-str"])


def t_str_panic(rng, T=None):
    s = rng.choice(["abc", "x", "hello", ""])
    n = len(s)
    k = rng.choice([n, -(n + 1), 1000, -1000]) if n else 0
    d = "fn ch@(s: str, i: i32) -> byte { return s[i]; }"
    b = ['let s: str = "%s";' % s, "io::Println(len(s));"]
    if n: b.append("io::Println(ch@(s, 0), ch@(s, -%d));" % n)
    b += ["io::Println(ch@(s, %d));" % k, 'io::Println("not reached");']
    return Snip("str_panic<%d>" % k, d, b, ["str-index-panic"], panics=True)


def t_enum(rng, T=None):
    k = rng.randint(2, 7)
    names = ["V%d" % i for i in range(k)]
    d = ["type E@ enum { %s };" % ", ".join(names),
         "type H@ struct { .K: E@, .N: i32 };",
         "fn nm@(e: E@) -> str { match e { %s _ => { return \"other\"; } } }"
         % " ".join('E@::%s => { return "%s"; }' % (nm, nm.lower()) for nm in names[:-1]),
         "fn nx@(e: E@) -> E@ { match e { %s _ => { return E@::V0; } } }"
         % " ".join("E@::V%d => { return E@::V%d; }" % (i, i + 1) for i in range(k - 1))]
    pick = lambda: "E@::" + rng.choice(names)
    b = ["let e := %s;" % pick(),
         "let i: i32 = 0; while i < %d { io::Println(nm@(e), e as i32); e = nx@(e); i += 1; }" % (k + 1),
         "let es: []E@ = [%s]; append(&'es, %s);" % (", ".join(pick() for _ in range(3)), pick()),
         "for j, x in es { io::Println(j, nm@(x), x as i32, x == %s, x != %s); }" % (pick(), pick()),
         "let fe: [%d]E@ = [%s]; for x in fe { io::Print(x as i32); } io::Println();" % (k, ", ".join("E@::" + n for n in reversed(names))),
         "let h: H@ = { .K = %s, .N = 3 }; if h.K == %s { io::Println(\"hit\", h.N); } else { io::Println(\"miss\", nm@(h.K)); }" % (pick(), pick()),
         "h.K = nx@(h.K); io::Println(h.K as i32, (h.K as i32) as i64, (h.K as i32) as u8);"]
    return Snip("enum<%d>" % k, "\n".join(d), b, ["enum", "match-enum", "enum-in-array", "enum-in-struct"])


def t_match(rng, T):
    if T == "str":
        cs = rng.sample([s for s in STRS if "\\" not in s], 4)
        d = 'fn m@(s: str) -> i32 { match s { %s _ => { return -1; } } }' % " ".join('"%s" => { return %d; }' % (c, i) for i, c in enumerate(cs[:3]))
        b = ["io::Println(%s);" % ", ".join('m@("%s")' % c for c in cs), 'io::Println(m@("%s" + ""), m@("%s" + "%s"));' % (cs[0], cs[1][:1], cs[1][1:])]
    elif T == "bool":
        d = "fn m@(b: bool) -> i32 { match b { true => { return 1; } _ => { return 0; } } }"
        b = ["io::Println(m@(true), m@(false), m@(1 < 2));"]
    else:
        es = edges(T, rng)
        cs = rng.sample(es, min(4, len(es)))
        d = "fn m@(x: %s) -> i32 { match x { %s _ => { return -1; } } }" % (T, " ".join("%d => { return %d; }" % (c, i) for i, c in enumerate(cs)))
        b = ["io::Println(%s);" % ", ".join("m@(%d)" % v for v in es)]
        b.append("let v: %s = %d; match v { %d => { io::Println(\"first\"); } %d => { io::Println(\"second\"); } _ => { io::Println(\"dflt\"); } }"
                 % (T, rng.choice(es), es[0], es[-1]))
    return Snip("match<%s>" % T, d, b, ["match:" + T])


def t_refs(rng, T):
    if is_int(T) or is_float(T):
        v = lambda: pool(T, rng, 1)[0]
        one = "1" if is_int(T) else "1.0"
        d = ["type R@ struct { .X: %s, .Y: i64 };" % T,
             "fn bump@(r: &'%s, d: %s) { r = r + d; r += %s; r = r * %s; }" % (T, T, one, rng.choice(["2", "3"]) + ("" if is_int(T) else ".0")),
             "fn rd@(r: &%s) -> %s { return r; }" % (T, T),
             "fn rd2@(r: &%s) -> %s { return r - %s; }" % (T, T, one),
             "fn bs@(p: &'R@, d: %s) { p.X += d; p.Y = p.Y * 2 - 1; }" % T,
             "fn sum@(p: &R@) -> i64 { return p.Y + 1; }",
             "fn lend@(r: &'%s) { bump@(r, %s); }" % (T, v())]
        b = ["let x: %s = %s;" % (T, v()),
             "bump@(&'x, %s); io::Println(x, rd@(&x), rd2@(&x));" % v(),
             "{ let r: &'%s = &'x; r = %s; r += %s; r++; r--; }" % (T, v(), v()) if is_int(T) else "{ let r: &'%s = &'x; r = %s; r += %s; }" % (T, v(), v()),
             "io::Println(x);",
             "lend@(&'x); io::Println(x);",
             "let p: R@ = { .X = %s, .Y = %d };" % (v(), rng.randint(-10**12, 10**12)),
             "bs@(&'p, %s); io::Println(p.X, p.Y, sum@(&p));" % v(),
             "{ let rx: &'%s = &'p.X; rx = %s; }" % (T, v()), "{ let ry: &i64 = &p.Y; io::Println(ry, p.X); }",
             "let a: [3]%s = [%s];" % (T, ", ".join(v() for _ in range(3))),
             "bump@(&'a[1], %s); { let q: &%s = &a[2]; io::Println(a[0], a[1], q, rd@(&a[0])); }" % (v(), T)]
        return Snip("refs<%s>" % T, "\n".join(d), b, ["ref-param", "ref-local", "ref-field", "ref-fixed-elem", "ref-arith", "elem:" + T])
    # bool / str
    v = lambda: pool(T, rng, 1)[0]
    d = ["fn set@(r: &'%s, v: %s) { r = v; }" % (T, T), "fn get@(r: &%s) -> %s { return r; }" % (T, T)]
    b = ["let x: %s = %s;" % (T, v()), "set@(&'x, %s); io::Println(x, get@(&x));" % v(),
         "{ let r: &'%s = &'x; r = %s; }" % (T, v()), "io::Println(x);",
         "let a: [2]%s = [%s, %s]; set@(&'a[1], %s); io::Println(a[0], a[1]);" % (T, v(), v(), v())]
    return Snip("refs<%s>" % T, "\n".join(d), b, ["ref-param", "ref-local", "elem:" + T])


def f_in_range(T, rng):
    """float literals (f64 text) whose truncation is representable in the integer type T"""
    lo, hi = INTS[T]
    out = ["0.0", "0.9", "1.5", "2.5", "3.99"]
    if lo < 0: out += ["-0.9", "-1.5", "-3.99"]
    for v in (lo, hi, lo // 2, hi // 2, rng.randint(lo, hi)):
        if abs(v) >= 2**52: continue
        for fr in ("0", "5", "99"):
            x = "%d.%s" % (v, fr)
            if len(x.replace("-", "").replace(".", "").lstrip("0")) > 15: continue
            if v < 0 and v == lo and fr != "0": continue          # below the minimum
            out.append(x)
    return out


def t_cast_float_int(rng, T):
    F = rng.choice(FLOATS)
    lo, hi = INTS[T]
    d = ["fn fi@(x: %s) -> %s { return x as %s; }" % (F, T, T), "fn i2f@(x: %s) -> %s { return x as %s; }" % (T, F, F)]
    fl = f_in_range(T, rng)
    if F == "f32":
        fl = [x for x in fl if len(x.replace("-", "").replace(".", "").strip("0")) <= 6 and abs(float(x)) < 2**24]
    b = ["io::Println(%s);" % ", ".join("fi@(%s)" % x for x in fl)]
    es = edges(T, rng)
    b.append('io::Println(%s);' % ", ".join("i2f@(%d)" % v for v in es))
    small = [v for v in es if abs(v) < 2**24]
    b.append('io::Println(%s);' % ", ".join("fi@(i2f@(%d))" % v for v in small))
    b.append("let v: %s = %d; let f := v as %s; let g := (v as %s) / 2.0; io::Println(f, g, (g as %s));" % (T, rng.choice(small), F, F, T))
    if T in ("u32", "u64"):
        # in range for the unsigned type, above the signed range of the same width
        big = ["3000000000.0", "4294967295.0", "2147483648.0"] if F == "f64" else ["3000000.0"]
        b.append("io::Println(%s);" % ", ".join("fi@(%s)" % x for x in big))
        if T == "u64":
            b.append("let p: %s = 2147483648.0; io::Println(fi@(p * p * 2.0), fi@(p * p * 3.5), fi@(p * p * 1.5));" % F if F == "f64"
                     else "let p: f32 = 65536.0; io::Println(fi@(p * p * p * p / 2.0), fi@(p * p * p * 40000.0));")
    return Snip("cast_float_int<%s,%s>" % (F, T), "\n".join(d), b, ["cast:%s->%s" % (F, T), "cast:%s->%s" % (T, F)])


def t_float_arith(rng, F):
    vs = pool(F, rng, 5)
    nz = [v for v in F_POOL[F] if float(v) != 0.0]
    d = ["fn ad@(a: %s, b: %s) -> %s { return a + b; }" % (F, F, F), "fn sb@(a: %s, b: %s) -> %s { return a - b; }" % (F, F, F),
         "fn ml@(a: %s, b: %s) -> %s { return a * b; }" % (F, F, F), "fn dv@(a: %s, b: %s) -> %s { return a / b; }" % (F, F, F),
         "fn ng@(a: %s) -> %s { return -a; }" % (F, F),
         "fn cmp@(a: %s, b: %s) { io::Println(a < b, a <= b, a > b, a >= b, a == b, a != b); }" % (F, F)]
    b = []
    for _ in range(3):
        x, y = rng.choice(vs), rng.choice(nz)
        b.append("io::Println(ad@(%s, %s), sb@(%s, %s), ml@(%s, %s), dv@(%s, %s), ng@(%s));" % (x, y, x, y, x, y, x, y, x))
        b.append("cmp@(%s, %s); cmp@(%s, %s);" % (x, y, x, x))
    b += ["let t: %s = %s; t += %s; t *= %s; t -= %s; t /= %s; io::Println(t, -t);" % (F, vs[0], vs[1], rng.choice(nz), vs[2], rng.choice(nz)),
          "let g: %s = 1.0; let k: i32 = 0; while k < %d { g = g * %s; k += 1; if k %% 9 == 0 { io::Println(k, g); } } io::Println(g);"
          % (F, rng.randint(20, 70), rng.choice(["1.5", "10.0", "7.25", "-3.0"])),
          "let h: %s = 1.0; k = 0; while k < %d { h = h / %s; k += 1; if k %% 9 == 0 { io::Println(k, h); } } io::Println(h);"
          % (F, rng.randint(20, 70), rng.choice(["1.5", "10.0", "7.25", "-3.0"])),
          "let inf := dv@(1.0, 0.0); io::Println(inf, -inf, inf > 1.0, ml@(inf, 2.0), ad@(-0.0, 0.0), ng@(0.0), dv@(1.0, -inf));",
          'io::Println("s=" + %s, "i=" + inf, "n=" + dv@(0.0, 0.0));' % vs[3]]
    if F == "f64":
        b.append("let pw: f64 = %s; io::Println(pw ** 2.0, pw ** 0.5, pw ** -1.0, 2.0 ** pw);" % rng.choice(["2.0", "9.0", "0.25", "10.0", "1.5"]))
        b.append("let ib: i32 = %d; let ie: i32 = %d; let ip: f64 = ib ** ie; io::Println(ip, ip as i64);" % (rng.randint(-9, 9), rng.randint(0, 9)))
    return Snip("float_arith<%s>" % F, "\n".join(d), b, ["float-arith:" + F, "float-print:" + F, "float-compare:" + F, "inf-print"])


def t_int_edge(rng, T):
    lo, hi = INTS[T]
    es = edges(T, rng, extra=3)
    d = ["fn ad@(a: %s, b: %s) -> %s { return a + b; }" % (T, T, T), "fn sb@(a: %s, b: %s) -> %s { return a - b; }" % (T, T, T),
         "fn ml@(a: %s, b: %s) -> %s { return a * b; }" % (T, T, T), "fn md@(a: %s, b: %s) -> %s { return a %% b; }" % (T, T, T),
         "fn dv@(a: %s, b: %s) -> %s { return a / b; }" % (T, T, T),
         "fn cmp@(a: %s, b: %s) { io::Println(a < b, a <= b, a > b, a >= b, a == b, a != b); }" % (T, T)]
    if lo < 0: d.append("fn ng@(a: %s) -> %s { return -a; }" % (T, T))
    b = []
    for _ in range(4):
        x, y = rng.choice(es), rng.choice(es)
        b.append("io::Println(ad@(%d, %d), sb@(%d, %d), ml@(%d, %d)); cmp@(%d, %d);" % (x, y, x, y, x, y, x, y))
    divs = [v for v in es if v not in (0, -1)] or [1]
    for _ in range(3):
        x, y = rng.choice(es), rng.choice(divs)
        b.append("io::Println(md@(%d, %d));" % (x, y))
    safe = [v for v in es if v != lo] or [1]
    b.append("io::Println(md@(%d, %s));" % (rng.choice(safe), "-1" if lo < 0 else "1"))
    if lo < 0:
        b.append("io::Println(ng@(%d), ng@(%d), ng@(%d));" % (lo, hi, rng.choice(es)))
    b.append("let v: %s = %d; v++; io::Println(v); v--; v--; io::Println(v); v += %d; io::Println(v); v -= %d; io::Println(v); v *= %d; io::Println(v);"
             % (T, hi, rng.choice(es), rng.choice(es), rng.choice(es)))
    b.append("let w: %s = %d; w--; io::Println(w); w %%= %d; io::Println(w);" % (T, lo, rng.choice(divs)))
    for _ in range(3):
        x, y = rng.choice(es), rng.choice(divs)
        b.append("io::Println(dv@(%d, %d));" % (x, y))
    return Snip("int_edge<%s>" % T, "\n".join(d), b, ["int-edge:" + T])


def t_loops(rng, T=None):
    a, bnd, c = rng.randint(3, 12), rng.randint(2, 9), rng.randint(1, 5)
    IT = rng.choice(["i32", "i64", "u8", "i16", "u32"])
    b = ["let i: %s = 0; let total: i64 = 0;" % IT,
         "while i < %d { i += 1; if i %% %d == 0 { continue; } let j: i32 = 0;" % (a, rng.randint(2, 4)),
         "  while true { j += 1; if j > %d { break; } if j == %d { continue; }" % (bnd, c),
         "    for k in 0..j { if k == %d { break; } if k %% 2 == 1 { continue; } total += (k as i64) + (i as i64); } }" % rng.randint(1, 6),
         "  io::Println(i, j, total); }",
         "for x in 0..%d { for y in 0..=%d { if x == y { continue; } if x + y > %d { break; } io::Println(x, y); } }" % (rng.randint(2, 4), rng.randint(1, 3), rng.randint(2, 5)),
         "for s in %d..%d:%d { io::Print(s); io::Print(\",\"); } io::Println();" % (rng.randint(0, 5), rng.randint(6, 30), rng.randint(1, 7)),
         "for s in %d..0:-%d { io::Print(s); io::Print(\",\"); } io::Println();" % (rng.randint(5, 30), rng.randint(1, 7)),
         "let n: %s = %d; let cnt: i32 = 0; while n != 1 { if n %% 2 == 0 { n = n / 2; } else { n = n * 3 + 1; } cnt += 1; if cnt > 200 { break; } } io::Println(n, cnt);"
         % (rng.choice(["i32", "i64", "u32"]), rng.randint(2, 97))]
    return Snip("loops", "", b, ["while", "break-continue", "nested-loops", "range-step"])


def t_recursion(rng, T):
    d = ["fn fact@(n: %s) -> %s { if n <= 1 { return 1; } return n * fact@(n - 1); }" % (T, T),
         "fn fib@(n: i32) -> %s { if n < 2 { return n as %s; } return fib@(n - 1) + fib@(n - 2); }" % (T, T),
         "fn gcd@(a: %s, b: %s) -> %s { if b == 0 { return a; } return gcd@(b, a %% b); }" % (T, T, T),
         "fn ack@(m: i32, n: i32) -> i32 { if m == 0 { return n + 1; } if n == 0 { return ack@(m - 1, 1); } return ack@(m - 1, ack@(m, n - 1)); }",
         "fn ev@(n: i32) -> bool { if n == 0 { return true; } return od@(n - 1); }",
         "fn od@(n: i32) -> bool { if n == 0 { return false; } return ev@(n - 1); }",
         "fn sum@(a: []%s, i: i32) -> %s { if i >= len(a) { return 0; } return a[i] + sum@(a, i + 1); }" % (T, T),
         "fn depth@(n: i32) -> i32 { if n == 0 { return 0; } return 1 + depth@(n - 1); }"]
    lo, hi = INTS[T]
    b = ["io::Println(fact@(%d), fact@(%d), fib@(%d), gcd@(%d, %d));" % (rng.randint(0, 6), rng.randint(7, 25) if hi > 127 else 5, rng.randint(0, 18),
                                                                     rng.randint(1, min(hi, 10**6)), rng.randint(1, min(hi, 10**6))),
         "io::Println(ack@(%d, %d), ev@(%d), od@(%d), depth@(%d));" % (rng.randint(0, 2), rng.randint(0, 3), rng.randint(0, 50), rng.randint(0, 50), rng.randint(100, 3000)),
         "let a: []%s = [%s]; io::Println(sum@(a, 0), sum@(a, 2), sum@(a, 99));" % (T, ", ".join(pool(T, rng, 5)))]
    return Snip("recursion<%s>" % T, "\n".join(d), b, ["recursion", "mutual-recursion", "elem:" + T])


def t_large_output(rng, n):
    b = ["let i: i32 = 0; let acc: u64 = 1;",
         'while i < %d { acc = acc * 6364136223846793005 + 1442695040888963407; io::Println(i, acc, "row", (acc %% 1000) as i32, i %% 3 == 0); i += 1; }' % n]
    return Snip("large_output<%d>" % n, "", b, ["large-output"])


def t_struct(rng, T):
    v = lambda: pool(T, rng, 1)[0]
    d = ["type In@ struct { .A: %s, .B: [3]i16 };" % T,
         "type Out@ struct { .I: In@, .N: str, .F: f64, .Ok: bool };",
         "fn (o: &'Out@) bump(d: %s) { o.I.A = d; o.I.B[1] = 9; o.F = o.F * 2.0; o.Ok = !o.Ok; }" % T,
         "fn (o: &Out@) sum() -> i32 { return (o.I.B[0] as i32) + (o.I.B[1] as i32) + (o.I.B[2] as i32); }",
         "fn (o: Out@) moved(n: str) -> Out@ { o.N = o.N + n; o.I.B[0] = 100; return o; }",
         "fn (i: In@) first() -> %s { return i.A; }" % T,
         "fn mk@(a: %s) -> Out@ { return { .I = { .A = a, .B = [1, 2, 3] }, .N = \"n\", .F = 1.25, .Ok = false } as Out@; }" % T]
    b = ["let o := mk@(%s);" % v(), "o.bump(%s); o.bump(%s);" % (v(), v()),
         "io::Println(o.I.A, o.I.B[1], o.F, o.sum(), o.N, o.Ok, o.I.first());",
         'let p := o.moved("+x"); io::Println(p.N, o.N, p.I.B[0], o.I.B[0], p.sum());',
         "let q := o; q.I.B[2] = 77; q.I.A = %s; io::Println(q.I.B[2], o.I.B[2], q.I.A, o.I.A);" % v(),
         "let os: []Out@ = [o, p]; append(&'os, q); for k, x in os { io::Println(k, x.I.A, x.N, x.F, x.sum()); }",
         "let x1: In@ = { .A = %s, .B = [1, 2, 3] }; let x2: In@ = { .A = x1.A, .B = [1, 2, 3] }; io::Println(x1.A == x2.A, x1.B[2] == x2.B[2]);" % v()]
    return Snip("struct<%s>" % T, "\n".join(d), b, ["nested-struct", "methods-ref-receiver", "struct-copy", "array-of-struct", "elem:" + T])


def t_print(rng, T=None):
    vs = ["p%d" % i for i in range(6)]
    ts = [rng.choice(INT_TYPES + FLOATS + ["bool", "str"]) for _ in vs]
    b = ["let %s: %s = %s;" % (v, U, pool(U, rng, 1)[0]) for v, U in zip(vs, ts)]
    b += ['io::Print("a"); io::Print("b", 1); io::Println("c");', "io::Print(%s); io::Println();" % vs[0],
         "io::Println(%s);" % ", ".join(vs[1:4]), 'io::Println("");', "io::Println();",
         'io::Print(%s, %s); io::Print(" "); io::Println(%s);' % (vs[3], vs[4], vs[5]),
         'io::Println("x y", "z", "tab\\there", "bs\\\\n", "café", "日本");']
    return Snip("print", "", b, ["print-no-newline", "println-empty", "utf8-literal"])


def t_union(rng, T=None):
    A, B = rng.sample(["i32", "i64", "str", "bool", "f64", "u8"], 2)
    va, vb = pool(A, rng, 1)[0], pool(B, rng, 1)[0]
    d = "type N@ union { %s, %s };" % (A, B)
    b = ["let va: %s = %s; let vb: %s = %s; let a: N@ = va; let b: N@ = vb;" % (A, va, B, vb),
         'if a is %s { io::Println("a-first"); } else { io::Println("a-second"); }' % A,
         'if b is %s { io::Println("b-first"); } else { io::Println("b-second"); }' % A,
         'if b is %s { io::Println("b-is-second"); }' % B]
    return Snip("union<%s,%s>" % (A, B), d, b, ["union-is"])


def t_div_trap(rng, T):
    op = rng.choice(["/", "%"])
    d = "fn dz@(a: %s, b: %s) -> %s { return a %s b; }" % (T, T, T, op)
    b = ["io::Println(1, 2);", 'io::Println("before", dz@(%s, %s));' % (pool(T, rng, 1)[0], rng.choice(["1", "3", "7"])),
         "io::Println(dz@(%s, 0));" % pool(T, rng, 1)[0], 'io::Println("not reached");']
    return Snip("div_trap<%s,%s>" % (T, op), d, b, ["div-by-zero-trap:" + T], panics=True)


def t_panic_builtin(rng, T=None):
    n = rng.randint(0, 4)
    d = 'fn chk@(n: i32) { if n > %d { panic("limit %d reached"); } io::Println("ok", n); }' % (n, n)
    b = ["let i: i32 = 0; while i < 10 { chk@(i); i += 1; }", 'io::Println("not reached");']
    return Snip("panic_builtin<%d>" % n, d, b, ["panic-builtin"], panics=True)


def t_float_pressure(rng, F):
    """many float values live across calls (every xmm register is caller-saved: they all go through stack slots)"""
    n = rng.randint(6, 12)
    d = ["fn mix@(a: %s, b: %s, c: i32) -> %s { if c %% 2 == 0 { return a * b + 1.0; } return a - b; }" % (F, F, F),
         "fn show@(k: i32, v: %s) -> %s { io::Println(k, v); return v / 2.0; }" % (F, F)]
    b = ["let v%d: %s = %s;" % (i, F, rng.choice(F_POOL[F])) for i in range(n)]
    b.append("let acc: %s = 0.0; let k: i32 = 0;" % F)
    b.append("while k < %d {" % rng.randint(2, 5))
    for i in range(n):
        j = rng.randrange(n)
        b.append("  v%d = mix@(v%d, v%d, k + %d);" % (i, i, j, rng.randint(0, 3)))
        if rng.random() < 0.4:
            b.append("  acc = acc + show@(k, v%d);" % i)
    b.append("  k += 1; }")
    b.append("io::Println(%s, acc);" % ", ".join("v%d" % i for i in range(n)))
    b.append("let w: %s = %s; io::Println(w, (w as f32), (w as f64));" % (F, " + ".join("v%d" % i for i in range(min(n, 6)))))
    return Snip("float_pressure<%s>" % F, "\n".join(d), b, ["float-spill:" + F, "float-cast-f32-f64"])


def t_big_struct(rng, T):
    k = rng.randint(4, 9)
    d = ["type B@ struct { .N: i32, .V: [%d]%s, .T: str, .W: i64 };" % (k, T),
         "fn mk@(n: i32) -> B@ { return { .N = n, .V = [%s], .T = \"t\" + n, .W = (n as i64) * 4294967311 } as B@; }" % ", ".join(pool(T, rng, k)),
         "fn upd@(b: B@, v: %s) -> B@ { b.V[%d] = v; b.N += 1; return b; }" % (T, rng.randrange(k)),
         "fn inpl@(b: &'B@, v: %s) { b.V[0] = v; b.W -= 1; }" % T,
         "fn (b: &B@) dump() { io::Println(b.N, b.T, b.W); for i, x in b.V { io::Println(i, x); } }"]
    v = lambda: pool(T, rng, 1)[0]
    b = ["let x := mk@(%d);" % rng.randint(-5, 50), "let y := upd@(x, %s);" % v(), "inpl@(&'x, %s);" % v(), "x.dump(); y.dump();",
         "let bs: []B@ = [x, y]; append(&'bs, upd@(y, %s)); for q in bs { io::Println(q.N, q.V[%d], q.T); }" % (v(), k - 1),
         "let z := bs[-1]; z.dump();"]
    return Snip("big_struct<%s>" % T, "\n".join(d), b, ["struct-by-value-large", "fixed-array-field", "elem:" + T])


def t_many_params(rng, T=None):
    """more parameters than argument registers (6 integer, 8 float on x86-64): the rest travel on the stack"""
    n = rng.randint(9, 14)
    ts = [rng.choice(INT_TYPES + FLOATS + ["bool", "str"]) for _ in range(n)]
    ps = ", ".join("p%d: %s" % (i, U) for i, U in enumerate(ts))
    nums = [i for i, U in enumerate(ts) if is_int(U)]
    fls = [i for i, U in enumerate(ts) if is_float(U)]
    d = ["fn many@(%s) -> f64 {" % ps,
         "    io::Println(%s);" % ", ".join("p%d" % i for i in range(n)),
         "    let si: i64 = 0; %s" % " ".join("si = si + (p%d as i64);" % i for i in nums if ts[i] != "u64"),
         "    let sf: f64 = 0.0; %s" % " ".join("sf = sf + (p%d as f64);" % i for i in fls),
         "    io::Println(si, sf);",
         "    return sf + 1.0;", "}",
         "fn fw@(%s) -> f64 { return many@(%s) * 2.0; }" % (ps, ", ".join("p%d" % i for i in reversed(range(n))) if len(set(ts)) == 1 else ", ".join("p%d" % i for i in range(n)))]
    args = lambda: ", ".join(pool(U, rng, 1)[0] for U in ts)
    b = ["io::Println(many@(%s));" % args(), "io::Println(fw@(%s));" % args()]
    return Snip("many_params<%d>" % n, "\n".join(d), b, ["many-params", "stack-args"])


def t_float_loop(rng, F):
    d = ["fn sq@(x: %s) -> %s { let g: %s = x; let k: i32 = 0; while k < 30 { g = (g + x / g) / 2.0; k += 1; } return g; }" % (F, F, F),
         "fn cnt@(lim: %s, st: %s) -> i32 { let x: %s = 0.0; let n: i32 = 0; while x < lim { x = x + st; n += 1; if n > 5000 { break; } } return n; }" % (F, F, F)]
    b = ["io::Println(sq@(2.0), sq@(9.0), sq@(%s), sq@(0.25));" % rng.choice(["10.0", "12345.0", "0.5", "1000000.0"]),
         "io::Println(cnt@(1.0, 0.1), cnt@(10.0, 0.3), cnt@(%s, %s));" % (rng.choice(["100.0", "3.5", "0.0"]), rng.choice(["0.7", "1.25", "33.0"])),
         "let t: %s = 0.0; for i in 0..%d { t = t + (i as %s) * 0.5; if t > 40.0 { t = t - 40.0; } } io::Println(t);" % (F, rng.randint(5, 60), F),
         "let xs: []%s = [%s]; let mx: %s = xs[0]; let mn: %s = xs[0]; for v in xs { if v > mx { mx = v; } if v < mn { mn = v; } } io::Println(mx, mn, mx - mn);"
         % (F, ", ".join(pool(F, rng, 6)), F, F)]
    return Snip("float_loop<%s>" % F, "\n".join(d), b, ["float-loop-condition:" + F, "float-compare:" + F])


def t_str_recursion(rng, T=None):
    d = ["fn digits@(n: i64) -> str { if n < 10 { return \"\" + n; } return digits@(n / 10) + \"\" + (n % 10); }",
         "fn bin@(n: u32) -> str { if n < 2 { return \"\" + n; } return bin@(n / 2) + (n % 2); }",
         "fn cntc@(s: str, c: byte, i: i32) -> i32 { if i >= len(s) { return 0; } if s[i] == c { return 1 + cntc@(s, c, i + 1); } return cntc@(s, c, i + 1); }",
         "fn val@(s: str) -> i32 { let r: i32 = 0; for c in s { r = r * 10 + ((c as i32) - 48); } return r; }"]
    s0 = rng.choice(["banana", "mississippi", "aaa", "xyz", "a"])
    b = ["io::Println(digits@(%d), digits@(0), bin@(%d), bin@(4294967295));" % (rng.randint(0, 2**62), rng.randint(0, 2**32 - 1)),
         'let s: str = "%s"; io::Println(cntc@(s, s[0], 0), cntc@(s, s[-1], 0), val@("%d"), val@(digits@(%d)));' % (s0, rng.randint(0, 99999), rng.randint(0, 2**31 - 1))]
    return Snip("str_recursion", "\n".join(d), b, ["str-recursion", "byte-compare", "str-build"])


ELEMS = INT_TYPES + FLOATS + ["bool", "str", "P"]
NUMS = INT_TYPES + FLOATS
TEMPLATES = [  # (function, parameter domain, weight)
    (t_iter_fixed, ELEMS, 3), (t_iter_dyn, ELEMS, 3), (t_dyn_fn, ELEMS, 2), (t_nested_arrays, NUMS + ["bool", "str"], 1),
    (t_str_concat, NUMS + ["bool", "str", "mixed"], 3), (t_str_ops, [None], 2), (t_enum, [None], 2),
    (t_match, INT_TYPES + ["str", "bool"], 2), (t_refs, NUMS + ["bool", "str"], 3), (t_cast_float_int, INT_TYPES, 3),
    (t_float_arith, FLOATS, 3), (t_int_edge, INT_TYPES, 3), (t_loops, [None], 1), (t_recursion, ["i32", "i64", "u32", "u64", "i16", "u8"], 1),
    (t_struct, NUMS + ["bool", "str"], 2), (t_print, [None], 1), (t_union, [None], 1),
    (t_float_pressure, FLOATS, 2), (t_big_struct, NUMS + ["bool", "str"], 2), (t_many_params, [None], 2), (t_float_loop, FLOATS, 2),
    (t_str_recursion, [None], 1)]
PANIC_TEMPLATES = [(t_dyn_panic, ELEMS, 3), (t_str_panic, [None], 1), (t_div_trap, INT_TYPES, 2), (t_panic_builtin, [None], 1)]

# ------------------------------------------------------------------ probes: one program per open finding / gated feature

PROBES = [
    ("cast:float-to-int-out-of-range", "float->int cast of an out-of-range value: the native executable prints INT_MIN, the wasm module traps", '''import "std/io";
fn f(x: f64) -> i32 { return x as i32; }
fn main() {
    io::Println(f(2.5));
    io::Println(f(3000000000.0));
    io::Println(1);
}
'''),
    ("float:nan-comparison", "comparisons with a NaN operand: the native code answers ==, <, <= with true", '''import "std/io";
fn d(a: f64, b: f64) -> f64 { return a / b; }
fn main() {
    let n := d(0.0, 0.0);
    io::Println(n == n, n != n, n < 1.0, n <= 1.0, n > 1.0, n >= 1.0);
}
'''),
    ("int:rem-min-by-minus-one", "MIN % -1 (i32/i64): the native executable dies with SIGFPE, the wasm module prints 0", '''import "std/io";
fn md(a: i32, b: i32) -> i32 { return a % b; }
fn main() {
    io::Println(md(7, -1));
    io::Println(md(-2147483648, -1));
    io::Println(99);
}
'''),
    ("onesided:native-constant-zero-divisor", "a divisor the native back end sees as the constant 0 is a compile-time failure there (QBE: null divisor), the wasm target accepts the program", '''import "std/io";
fn main() {
    let z: f64 = 0.0;
    let q: f64 = 1.0 / z;
    io::Println(q > 1.0);
}
'''),
    ("wasm:map-runtime-missing", "map literal + iteration: accepted by both targets, the wasm module cannot be instantiated (runtime.js has no ferret_map_*)", '''import "std/io";
fn main() {
    let m := { "a" => 1 } as map[str]i32;
    io::Println(len(m));
    for k, v in m { io::Println(k, v); }
}
'''),
]
# features the wasm back end declares unsupported (clean diagnostics or a failing constant parse): one-sided acceptance
ONESIDED_KEY = "onesided:wasm-unsupported"
ONESIDED = [
    ("optional", '''import "std/io";
fn main() {
    let a: i32? = 5;
    let b: i32? = none;
    let v := a ?? 0;
    let w := b ?? 7;
    io::Println(v, w);
}
'''),
    ("result-catch", '''import "std/io";
fn divide(a: i32, b: i32) -> str ! i32 { if b == 0 { return "division by zero"!; } return a + b; }
fn main() {
    let ok := divide(10, 2) catch -1;
    io::Println(ok);
    let f := divide(10, 0) catch e { io::Println(e); } -1;
    io::Println(f);
}
'''),
    ("map-index", '''import "std/io";
fn main() {
    let m := { "a" => 1 } as map[str]i32;
    m["b"] = 2;
    io::Println(len(m));
}
'''),
    ("closure", '''import "std/io";
fn main() {
    let x: i32 = 5;
    let add := fn(y: i32) -> i32 { return x + y; };
    io::Println(add(7));
}
'''),
    ("function-value", '''import "std/io";
fn inc(x: i32) -> i32 { return x + 1; }
fn apply(f: fn(x: i32) -> i32, v: i32) -> i32 { return f(f(v)); }
fn main() { io::Println(apply(inc, 5)); }
'''),
    ("interface-value", '''import "std/io";
type Shape interface { area() -> i32 };
type Sq struct { .S: i32 };
fn (s: Sq) area() -> i32 { return s.S * s.S; }
fn main() {
    let a: Sq = { .S = 3 };
    let s: Shape = a as Shape;
    io::Println(s.area());
}
'''),
]

# ------------------------------------------------------------------ assembling, running, comparing


def assemble(snips):
    out = ['import "std/io";']
    calls = []
    for i, s in enumerate(snips):
        sfx = "_%d" % i
        if s.decls:
            out.append(s.decls.replace("@", sfx))
        out.append("fn snip%s() {\n    %s\n}" % (sfx, "\n    ".join(s.body).replace("@", sfx)))
        calls.append('    io::Println("#%d", "%s");\n    snip%s();' % (i, s.name.replace('"', ""), sfx))
    out.append("fn main() {\n%s\n}" % "\n".join(calls))
    return "\n".join(out) + "\n"


def tokens(text):
    out = []
    for t in (text or "").split():
        if t in ("true", "false"):
            out.append(t); continue
        try:
            out.append(int(t)); continue
        except ValueError:
            pass
        try:
            f = float(t)
            out.append("NaN" if f != f else f)      # the sign / spelling of a NaN is not a value
        except ValueError:
            out.append(t)
    return out


def term_kind(r):
    rc = r.get("rc")
    if rc == 0: return "normal"
    if rc is None: return "no-exe"
    if rc == -9: return "timeout"
    return "panic-or-trap"


def run_both(work, name, src, timeout=25):
    a = common.compile_and_run(src, work, "rn_" + name, "native", timeout=timeout)
    b = common.compile_and_run(src, work, "rw_" + name, "wasm", timeout=timeout)
    if timeout < 90 and (a.get("rc") == -9 or b.get("rc") == -9 or a.get("crc") == -9 or b.get("crc") == -9):
        return run_both(work, name + "_t", src, timeout=120)       # a loaded machine, not a hang: once more with room
    return a, b


def verdict(a, b):
    """None if the targets agree, else a short description"""
    aa, ba = bool(a.get("accepted")), bool(b.get("accepted"))
    if not aa and not ba:
        return None
    if aa != ba:
        return "accepted by one target only (native=%s wasm=%s)" % (aa, ba)
    ka, kb = term_kind(a), term_kind(b)
    ta, tb = tokens(a.get("out")), tokens(b.get("out"))
    if ka != kb:
        return "termination differs (native %s, wasm %s)" % (ka, kb)
    if ta != tb:
        i = 0
        while i < min(len(ta), len(tb)) and ta[i] == tb[i]: i += 1
        return "printed values differ at token %d (native %r, wasm %r; %d/%d tokens)" % (
            i, ta[i] if i < len(ta) else None, tb[i] if i < len(tb) else None, len(ta), len(tb))
    return None


def replay_of(src, a, b):
    f = lambda r: {"accepted": r.get("accepted"), "rc": r.get("rc"), "stdout": (r.get("out") or "")[:3000],
                   "stderr": (r.get("err") or "")[:400], "compiler": ((r.get("cout") or "") + (r.get("cerr") or ""))[:1200] if not r.get("accepted") else ""}
    return {"program": src, "native": f(a), "wasm": f(b)}


def gen_snip(rng, table):
    fns = [t for t in table for _ in range(t[2])]
    fn, dom, _ = rng.choice(fns)
    return fn(rng, rng.choice(dom))


def run_family(run, work, quick):
    import time
    t0 = time.time()
    rng = random.Random("C02rich/%d" % run.seed)
    n_sweep, per_sweep, n_combo = (16, 8, 12) if quick else (110, 8, 120)
    if os.environ.get("C02RICH_N"):
        n_sweep, n_combo = [int(x) for x in os.environ["C02RICH_N"].split(",")]
    progs = []          # (name, kind, snippets or None, src)
    # ---- sweep: every template at least once per run, parameters rotating with the seed
    todo = []
    for fn, dom, wgt in TEMPLATES:
        k = max(1, (n_sweep * per_sweep * wgt) // sum(t[2] for t in TEMPLATES))
        ds = list(dom); rng.shuffle(ds)
        todo += [fn(rng, ds[i % len(ds)]) for i in range(k)]
    rng.shuffle(todo)
    for i in range(0, len(todo), per_sweep):
        sn = todo[i:i + per_sweep] + [gen_snip(rng, PANIC_TEMPLATES)]
        progs.append(("s%d" % (i // per_sweep), "sweep", sn, assemble(sn)))
    for i in range(n_combo):
        k = rng.randint(2, 4)
        sn = [gen_snip(rng, TEMPLATES) for _ in range(k - 1)]
        sn.append(gen_snip(rng, PANIC_TEMPLATES) if rng.random() < 0.4 else gen_snip(rng, TEMPLATES))
        progs.append(("c%d" % i, "combo", sn, assemble(sn)))
    n_large = 1 if quick else 4
    for i in range(n_large):
        sn = [t_large_output(rng, rng.choice([600, 2500] if quick else [600, 2500, 9000])), gen_snip(rng, TEMPLATES)]
        progs.append(("l%d" % i, "large", sn, assemble(sn)))
    for key, what, src in PROBES:
        progs.append(("p_" + hashlib.sha256(key.encode()).hexdigest()[:6], "probe:" + key, None, src))
    for feat, src in ONESIDED:
        progs.append(("o_" + feat.replace("-", "_"), "onesided:" + feat, None, src))

    results = common.pmap(lambda p: run_both(work, p[0], p[3]), progs, workers=6)
    what_of = {k: w for k, w, _ in PROBES}
    stats = {"programs": 0, "snippets": 0, "snippets_reached": 0, "accepted_by_both": 0, "rejected_by_both": 0, "panic_or_trap_on_both": 0, "disagreements": 0}
    reported = 0
    rejected_both = []
    nshrink = [0]
    for (name, kind, sn, src), (a, b) in zip(progs, results):
        stats["programs"] += 1
        run.case(src, True)
        v = verdict(a, b)
        if kind.startswith("probe:"):
            key = kind[6:]
            run.count("rich-probe")
            if v is not None:
                run.violation(key, "%s [%s]" % (what_of[key], v), replay_of(src, a, b))
            else:
                run.count("rich-probe-agrees-now:" + key)
            continue
        if kind.startswith("onesided:"):
            feat = kind[9:]
            run.count("rich-probe")
            if v is not None:
                run.violation(ONESIDED_KEY, "the wasm back end does not implement %s (and the other features listed in the finding): "
                              "the native target accepts the program, the wasm target rejects it [%s]" % (feat, v), replay_of(src, a, b))
            else:
                run.count("rich-feature-on-both-targets:" + feat)
            continue
        stats["snippets"] += len(sn)
        stats["snippets_reached"] += sum(1 for t in (a.get("out") or "").split("\n") if t.startswith("#"))
        for s in sn:
            run.count("rich:" + s.name.split("<")[0])
            for f in s.feats:
                run.dist["rich-feature:" + f] = run.dist.get("rich-feature:" + f, 0) + 1
        if a.get("accepted") and b.get("accepted"):
            stats["accepted_by_both"] += 1
            if term_kind(a) == "panic-or-trap" and term_kind(b) == "panic-or-trap":
                stats["panic_or_trap_on_both"] += 1
        elif not a.get("accepted") and not b.get("accepted"):
            stats["rejected_by_both"] += 1
            rejected_both.append({"program": name, "snippets": [s.name for s in sn], "diag": ((a.get("cout") or "") + (a.get("cerr") or ""))[:300]})
        if v is None:
            continue
        stats["disagreements"] += 1
        if reported >= 6:           # one root cause tends to show in many programs: keep the report readable
            continue
        reported += 1
        # reduce to one snippet if a single one reproduces a disagreement
        culprit, csrc, ca, cb, cv = None, src, a, b, v
        if len(sn) > 1 and nshrink[0] < 3:
            nshrink[0] += 1
            for j, s in enumerate(sn):
                ssrc = assemble([s])
                sa, sb = run_both(work, "%s_r%d" % (name, j), ssrc)
                sv = verdict(sa, sb)
                if sv is not None:
                    culprit, csrc, ca, cb, cv = s, ssrc, sa, sb, sv
                    break
        tname = culprit.name if culprit else "+".join(s.name for s in sn)
        key = "rich:%s:%s" % (tname.split("<")[0] if culprit else "combo", hashlib.sha256(csrc.encode()).hexdigest()[:12])
        rp = replay_of(csrc, ca, cb)
        rp["snippets"] = [s.name for s in ([culprit] if culprit else sn)]
        if culprit: rp["found_in_program"] = src
        run.violation(key, "native and wasm disagree on %s: %s" % (tname, cv), rp)
    stats["wall_s"] = round(time.time() - t0, 1)
    run.extra["c02rich"] = dict(stats, gates=GATES, rejected_by_both=rejected_both[:5],
                                rule="source-level templates (for-in over fixed/dynamic arrays, dynamic arrays incl. index panics, "
                                     "functions and aliasing, nested arrays, strings, enums, match, references, float<->int casts, float arithmetic "
                                     "and printing, float values live across calls, float loop conditions, integer edge arithmetic, loops, recursion, structs and "
                                     "methods, large by-value structs, many parameters, string recursion, Print/Println, unions, traps, panic) x element types x edge values; sweep programs of %d snippets, compositions of 2-4" % per_sweep)
    return stats


if __name__ == "__main__":       # development driver: python3 c02rich.py [seed]   (C02RICH_N=sweep,combo overrides the sizes)
    class _Run:
        def __init__(self, seed):
            self.seed = seed; self.dist = {}; self.extra = {}; self.counts = {}; self.tier = "quick"
            self.known = [k for k in common.load_known() if k["property"] == "C02"]
        def case(self, *a, **k): pass
        def count(self, k, n=1): self.counts[k] = self.counts.get(k, 0) + n
        def violation(self, key, what, replay, no_input=False):
            known = any(k["key"] == key and k.get("status") == "open" for k in self.known)
            print(("KNOWN " if known else "VIOLATION ") + key + " :: " + what)
            if not known or os.environ.get("V"):
                print(replay["program"])
                for t in ("native", "wasm"):
                    print("---", t, {k: v for k, v in replay[t].items()})
    import time, json
    t0 = time.time()
    r = _Run(int(sys.argv[1]) if len(sys.argv) > 1 else 1)
    st = run_family(r, common.Work(), os.environ.get("TIER", "quick") == "quick")
    print(json.dumps(st), "wall %.1fs" % (time.time() - t0))
    print(json.dumps(r.extra["c02rich"]["rejected_by_both"], indent=1)[:3000])
    print({k: v for k, v in sorted(r.counts.items())})
