"""C15 — import graphs: every cycle is rejected, every DAG builds, under all schedules.

 proof      coq/Props/C15.v over the port coq/Models/DepGraph.v (AddDependency / findCycle / hasCyclePath /
            ComputeTopologicalOrder of internal/context_v2/context.go)
 tie (i)    hook `depgraph` drives the real context_v2 with call sequences (all digraphs on <=3 nodes,
            structured families on <=6/8 nodes, every case under a random permutation of the calls); per-call
            result incl. the reported cycle, the final DepGraph and the topological order are compared with the
            port evaluated by vm_compute (bad_ids); the property is also evaluated on the observed outputs by the
            proved deciders (spec_bad_ids) and by an independent python oracle
 tie (ii)   the same hook runs the groups concurrently (one goroutine per importer, like the parser goroutines);
            every observed outcome must be the port's outcome under SOME interleaving (cbad_ids) and satisfy the
            property
 tie (iii)  pipeline: all 512 digraphs on 3 modules materialised as projects and compiled in-process under
            GOMAXPROCS 1 and 16; larger families; a native sample is built and run (sums, one .ssa per module,
            no executable for cyclic projects)
"""
import os, json, itertools, subprocess, re, hashlib, shutil
import common
from common import Work

CAP = {}

def report(run, key, what, replay, no_input=False):
    """run.violation with at most 2 reports per kind of failure (one root cause shows up in hundreds of cases)"""
    kind = key.split(":")[0]
    if run._match_known(key) is None:
        if CAP.get(kind, 0) >= 2:
            return False
        CAP[kind] = CAP.get(kind, 0) + 1
    return run.violation(key, what, replay, no_input=no_input)

# ------------------------------------------------------------------ python mirror of the port (search only)

def succs(g, u):
    return [b for (a, b) in g if a == u]

def find_cycle(g, frm, to):
    visited = set(); path = []
    def rec(start):
        if start == to: return True
        if start in visited: return False
        visited.add(start); path.append(start)
        for d in succs(g, start):
            if rec(d): return True
        path.pop()
        return False
    if rec(frm):
        return [to] + path + [to]
    return None

def add_dependency(g, u, v):
    c = find_cycle(g, v, u)
    if c is not None: return c
    if v not in succs(g, u): g.append((u, v))
    return None

def run_model(calls):
    g = []; rs = []
    for (u, v) in calls: rs.append(add_dependency(g, u, v))
    return g, rs

def topo_model(g, mods):
    deg = {}
    for (u, v) in g: deg[u] = deg.get(u, 0) + 1
    queue = sorted(m for m in mods if deg.get(m, 0) == 0)
    out = []
    while queue:
        cur = queue.pop(0); out.append(cur); nxt = []
        for (u, v) in g:
            if v == cur:
                deg[u] = deg.get(u, 0) - 1
                if deg[u] == 0: nxt.append(u)
        queue += sorted(nxt)
    return out

def canon_graph(g):
    return [(u, v) for u in sorted(set(a for a, _ in g)) for v in succs(g, u)]

# ------------------------------------------------------------------ independent spec oracle (python)

def reach_set(edges, s):
    seen = set(); st = [s]
    while st:
        x = st.pop()
        for (a, b) in edges:
            if a == x and b not in seen:
                seen.add(b); st.append(b)
    return seen          # nodes reachable by >= 1 edge

def is_cyclic(edges):
    return any(a in reach_set(edges, a) for a in set(x for x, _ in edges))

def spec_check(mods, calls, results, graph, order):
    """the property itself, on what the implementation answered; returns None or a message"""
    errs = [r for r in results if r is not None]
    if is_cyclic(graph):
        return "the stored DepGraph contains a cycle"
    if is_cyclic(calls):
        if not errs: return "the requested edges contain a cycle but no AddDependency call reported one"
    else:
        if errs: return "acyclic import graph but a circular import was reported: %r" % (errs[0],)
        if set(graph) != set(calls): return "acyclic import graph but stored edges differ from requested edges"
    if len(set(graph)) != len(graph):
        return "duplicate edge stored"
    nodes = set(a for a, _ in graph) | set(b for _, b in graph)
    if nodes <= set(mods):
        if sorted(order) != sorted(set(mods)):
            return "topological order %r is not an enumeration of the modules %r" % (order, sorted(mods))
        pos = {m: i for i, m in enumerate(order)}
        for (u, v) in graph:
            if pos[v] >= pos[u]:
                return "module %d is ordered before its dependency %d" % (u, v)
    return None

# ------------------------------------------------------------------ hook driver

POOL = ["global", "p/a", "p/b", "p/lib/x", "p/m1", "p/m10", "p/m2", "p/main", "q", "std/io", "z/y/w"]   # sorted, unique base names
assert POOL == sorted(POOL)

def base(n):
    return n.rsplit("/", 1)[-1]

def hook_run(reqs, env=None):
    hook = common.build_hook("depgraph")
    inp = "".join(json.dumps(r) + "\n" for r in reqs).encode()
    e = dict(os.environ)
    if env: e.update(env)
    try:
        p = subprocess.run([hook], input=inp, stdout=subprocess.PIPE, stderr=subprocess.PIPE, timeout=600, env=e, preexec_fn=common.limit_mem())
    except subprocess.TimeoutExpired as ex:
        return {}, "TIMEOUT (deadlock?)", (ex.stdout or b"")
    out = {}
    for line in p.stdout.decode("utf8", "replace").splitlines():
        try:
            j = json.loads(line)
        except ValueError:
            continue
        out[j["id"]] = j
    err = ""
    if p.returncode != 0 or len(out) < len(reqs):
        err = "hook depgraph died rc=%s: %s" % (p.returncode, p.stderr.decode("utf8", "replace")[-1500:])
    return out, err, p.stdout

def parse_err(msg, names):
    """'' -> None ; 'circular import detected: a -> b -> a' -> [ids] ; anything else -> ('other', msg)"""
    if msg == "": return None
    m = re.match(r"^circular import detected: (.*)$", msg)
    if not m: return ("other", msg)
    b2i = {base(n): i for i, n in enumerate(names)}
    try:
        return [b2i[x] for x in m.group(1).split(" -> ")]
    except KeyError:
        return ("other", msg)

def graph_ids(gr, names):
    idx = {n: i for i, n in enumerate(names)}
    return [(idx[k], idx[d]) for k, deps in gr for d in deps]

# ------------------------------------------------------------------ generators

def fam_edges(rng, fam, n):
    perm = list(range(n)); rng.shuffle(perm)
    def dag(p):
        return [(perm[i], perm[j]) for i in range(n) for j in range(i + 1, n) if rng.random() < p]
    if fam == "dag": return dag(rng.choice([0.3, 0.5, 0.8]))
    if fam == "chain": return [(perm[i], perm[i + 1]) for i in range(n - 1)]
    if fam == "diamond":
        if n < 4: return dag(0.9)
        mids = perm[1:n - 1]
        return [(perm[0], m) for m in mids] + [(m, perm[n - 1]) for m in mids]
    if fam == "shared-leaf": return [(perm[i], perm[n - 1]) for i in range(n - 1)] + dag(0.2)
    if fam == "cycle":
        k = rng.randint(1, n)
        cyc = perm[:k]
        return dag(rng.choice([0.0, 0.3, 0.6])) + [(cyc[i], cyc[(i + 1) % k]) for i in range(k)]
    if fam == "back-edge":
        e = dag(0.6)
        if not e: return [(perm[0], perm[0])]
        # close a cycle along an existing path
        a, b = rng.choice(e)
        tgt = rng.choice(sorted(reach_set(e, a)))
        return e + [(tgt, a)]
    if fam == "random":
        p = rng.choice([0.15, 0.3, 0.5])
        return [(i, j) for i in range(n) for j in range(n) if rng.random() < p]
    raise ValueError(fam)

FAMS = ["dag", "dag", "chain", "diamond", "shared-leaf", "cycle", "cycle", "back-edge", "back-edge", "random"]

def dedupe(seq):
    out = []
    for x in seq:
        if x not in out: out.append(x)
    return out

def gen_case(rng, nmax):
    n = rng.randint(1, nmax)
    fam = rng.choice(FAMS)
    edges = dedupe(fam_edges(rng, fam, n))
    calls = list(edges)
    if calls and rng.random() < 0.35:                      # repeated imports
        calls += [rng.choice(edges) for _ in range(rng.randint(1, 3))]
    rng.shuffle(calls)                                     # the schedule: any permutation of the calls
    names = sorted(rng.sample(POOL, n))
    mods = list(range(n))
    r = rng.random()
    tag = "all-registered"
    if r < 0.08 and n > 1:
        mods.remove(rng.randrange(n)); tag = "one-unregistered"
    rng.shuffle(mods)
    return dict(fam=fam, n=n, names=names, mods=mods, calls=calls, tag=tag)

def exhaustive_small(rng):
    cases = []
    for n in (1, 2):
        pairs = [(i, j) for i in range(n) for j in range(n)]
        for mask in range(1 << len(pairs)):
            edges = [pairs[k] for k in range(len(pairs)) if mask >> k & 1]
            for perm in itertools.permutations(edges):
                cases.append(dict(fam="all-digraphs-%d" % n, n=n, names=sorted(rng.sample(POOL, n)),
                                  mods=list(range(n)), calls=list(perm), tag="all-registered"))
    pairs = [(i, j) for i in range(3) for j in range(3)]
    for mask in range(512):
        edges = [pairs[k] for k in range(9) if mask >> k & 1]
        rng.shuffle(edges)
        cases.append(dict(fam="all-digraphs-3", n=3, names=sorted(rng.sample(POOL, 3)), mods=[0, 1, 2],
                          calls=edges, tag="all-registered"))
    return cases

# ------------------------------------------------------------------ Coq rendering

def cq_nat_list(xs): return "[" + "; ".join(str(x) for x in xs) + "]"
def cq_edges(es): return "[" + "; ".join("(%d,%d)" % e for e in es) + "]"
def cq_res(r): return "None" if r is None else "Some " + cq_nat_list(r)

def parse_all_ids(out):
    res = []
    for body in re.findall(r"=\s*(\[[^\]]*\]|nil)\s*(?:%\w+)?\s*:\s*list\s+Z", out, re.S):
        res.append([] if body in ("nil", "[]") else [int(x) for x in re.findall(r"-?\d+", body.replace("%Z", ""))])
    return res

def coq_all(cases, ccases):
    """one coqc run (start-up dominates): bad_ids / spec_bad_ids of the sequential cases, cbad_ids of the concurrent ones"""
    v = ["From Coq Require Import List ZArith.", "Import ListNotations.", "From FV Require Import Models.DepGraph."]
    nsh = 0
    for i in range(0, max(len(cases), 1), 1000):
        v.append("Definition cases%d : list obs := [" % nsh)
        v.append(";\n".join("  mkObs (%d)%%Z %s %s [%s] %s %s" % (
            c["id"], cq_nat_list(c["mods"]), cq_edges(c["calls"]), "; ".join(cq_res(r) for r in c["results"]),
            cq_edges(c["graph"]), cq_nat_list(c["order"])) for c in cases[i:i + 1000]))
        v.append("].")
        nsh += 1
    v.append("Definition ccases : list cobs := [")
    v.append(";\n".join("  mkCobs (%d)%%Z %s [%s] [%s]" % (
        c["id"], cq_nat_list(c["mods"]), "; ".join(cq_edges(g) for g in c["groups"]),
        "; ".join("(%s, %s, %s)" % (cq_nat_list(o["errs"]), cq_edges(o["graph"]), cq_nat_list(o["order"]))
                  for o in c["outcomes"])) for c in ccases))
    v.append("].")
    allc = " ++ ".join("cases%d" % k for k in range(nsh))
    v.append("Eval vm_compute in (bad_ids (%s))." % allc)
    v.append("Eval vm_compute in (spec_bad_ids (%s))." % allc)
    v.append("Eval vm_compute in (cbad_ids ccases).")
    ok, out = common.coq_eval("c15_all", "\n".join(v) + "\n")
    if not ok:
        raise RuntimeError("coq evaluation of cases failed:\n" + out[-3000:])
    ids = parse_all_ids(out)
    if len(ids) != 3:
        raise RuntimeError("cannot parse coq output:\n" + out[-2000:])
    return ids

# ------------------------------------------------------------------ tie (i): sequential call sequences

def observe_seq(cases):
    reqs = [dict(id=c["id"], mode="seq", mods=[c["names"][m] for m in c["mods"]],
                 calls=[[c["names"][u], c["names"][v]] for (u, v) in c["calls"]]) for c in cases]
    out, err, _ = hook_run(reqs)
    for c in cases:
        j = out.get(c["id"])
        if j is None or j.get("panic"):
            c["crash"] = (j or {}).get("panic") or err or "no answer"
            continue
        c["raw"] = j["results"]
        c["results"] = [parse_err(m, c["names"]) for m in j["results"]]
        c["graph"] = graph_ids(j["graph"], c["names"])
        idx = {n: i for i, n in enumerate(c["names"])}
        c["order"] = [idx[x] for x in j["order"]]
    return err

def model_diff(c):
    g, rs = run_model(c["calls"])
    if rs != c["results"]: return "per-call results: model %r, implementation %r" % (rs, c["results"])
    if canon_graph(g) != c["graph"]: return "final DepGraph: model %r, implementation %r" % (canon_graph(g), c["graph"])
    t = topo_model(g, c["mods"])
    if t != c["order"]: return "topological order: model %r, implementation %r" % (t, c["order"])
    return None

def describe(c):
    return dict(modules=c["names"], registered=[c["names"][m] for m in c["mods"]],
                calls=[[c["names"][u], c["names"][v]] for (u, v) in c["calls"]],
                observed_results=c.get("raw"), observed_graph=c.get("graph"), observed_order=c.get("order"))

def key_of(kind, c):
    canon = json.dumps([kind, c["n"], sorted(c["mods"]), c["calls"]])
    return "%s:%s" % (kind, hashlib.sha256(canon.encode()).hexdigest()[:16])

def shrink_seq(c, failing):
    """drop calls / modules while `failing(case)` still holds (re-observing the implementation each time)"""
    cur = c
    changed = True
    budget = 60
    while changed and budget > 0:
        changed = False
        for i in range(len(cur["calls"])):
            budget -= 1
            if budget <= 0: break
            cand = dict(cur, calls=cur["calls"][:i] + cur["calls"][i + 1:], id=0)
            for k in ("results", "graph", "order", "raw", "crash"): cand.pop(k, None)
            observe_seq([cand])
            if "crash" not in cand and failing(cand):
                cur = cand; changed = True
                break
    return cur

def tie_seq(run, cases):
    err = observe_seq(cases)
    viol = 0
    good = []
    for c in cases:
        run.count("seq/" + c["fam"]); run.count("seq/n=%d" % c["n"]); run.count("seq/" + c["tag"])
        if "crash" in c:
            viol += 1
            report(run, key_of("crash", c), "context_v2 crashed or hung on an AddDependency sequence: %s" % c["crash"][:200],
                          dict(describe(c), crash=c["crash"]))
            continue
        cyc = is_cyclic(c["calls"])
        run.count("seq/cyclic" if cyc else "seq/acyclic")
        if any(isinstance(r, tuple) for r in c["results"]):
            viol += 1
            report(run, key_of("msg", c), "AddDependency returned an error that is not a circular-import error: %r" % (c["raw"],),
                          describe(c))
            continue
        run.case((c["n"], sorted(c["mods"]), c["calls"]), nontrivial=len(c["calls"]) > 0,
                 sample=dict(calls=describe(c)["calls"], results=c["raw"], order=c["order"]))
        good.append(c)
    return viol, good, err

def judge_seq(run, good, bad, sbad, err, viol):
    # the property itself on the observed behaviour (python oracle), the model, and the proved deciders in Coq
    byid = {c["id"]: c for c in good}
    spec_bad = {}
    for c in good:
        m = spec_check(c["mods"], c["calls"], c["results"], c["graph"], c["order"])
        if m: spec_bad[c["id"]] = m
    run.extra["seq_model_disagreements"] = len(bad)
    for i in sbad:
        spec_bad.setdefault(i, "the proved decider spec_ok of Models/DepGraph.v rejects the observed behaviour")
    reported = 0
    for i in sorted(spec_bad, key=lambda k: len(byid[k]["calls"])):
        if reported >= 3: break
        c = shrink_seq(byid[i], lambda x: spec_check(x["mods"], x["calls"], x["results"], x["graph"], x["order"]) is not None)
        m = spec_check(c["mods"], c["calls"], c["results"], c["graph"], c["order"]) or spec_bad[i]
        if report(run, key_of("spec", c), "AddDependency/ComputeTopologicalOrder break the property: " + m,
                         dict(describe(c), how="feed `calls` to hooks/depgraph (mode seq)")):
            reported += 1
        viol += 1
    if not spec_bad and bad:
        # model and implementation disagree although the property holds on these cases: the port is no longer a port
        for i in sorted(bad, key=lambda k: len(byid[k]["calls"]))[:2]:
            c = shrink_seq(byid[i], lambda x: model_diff(x) is not None)
            report(run, key_of("corr", c), "port Models/DepGraph.v and context_v2 disagree (%s)" % (model_diff(c) or "coq bad_ids"),
                          dict(describe(c), correspondence="bad_ids (coq/Models/DepGraph.v) vs hooks/depgraph",
                               theorems_no_longer_tied="all of coq/Props/C15.v"), no_input=True)
            viol += 1
    if err and not viol:
        report(run, "hook:seq", err, {"hook": "depgraph", "mode": "seq"}, no_input=True)
    return viol

# ------------------------------------------------------------------ tie (ii): concurrent groups

def gen_conc(rng, k):
    cases = []
    fixed = [
        [[(0, 1)], [(1, 0)]],                                # the 2-cycle race
        [[(0, 1)], [(1, 2)], [(2, 0)]],                      # 3-cycle, each edge from its own goroutine
        [[(0, 0)], [(1, 0)]],                                # self import
        [[(0, 1), (0, 2)], [(1, 3)], [(2, 3)], [(3, 0)]],    # diamond + back edge
        [[(0, 1), (0, 2)], [(1, 2)], [(2, 1)]],
        [[(0, 1), (0, 2)], [(1, 3)], [(2, 3)]],              # diamond
        [[(0, 3)], [(1, 3)], [(2, 3)]],                      # shared leaf
        [[(0, 1), (0, 1)], [(1, 0), (1, 0)]],                # repeated imports racing
        [[(0, 1)], [(1, 2)], [(2, 3)], [(3, 4)], [(4, 0)]],  # 5-cycle
    ]
    for g in fixed:
        cases.append(g)
    while len(cases) < k:
        n = rng.randint(2, 5)
        fam = rng.choice(["cycle", "back-edge", "dag", "random", "cycle"])
        edges = dedupe(fam_edges(rng, fam, n))
        rng.shuffle(edges)
        edges = edges[:6]
        if not edges: continue
        groups = [[e for e in edges if e[0] == u] for u in sorted(set(a for a, _ in edges))]
        cases.append(groups)
    out = []
    for i, groups in enumerate(cases):
        n = 1 + max(max(a, b) for g in groups for (a, b) in g)
        out.append(dict(id=i, n=n, names=sorted(rng.sample(POOL, n)), mods=list(range(n)), groups=groups))
    return out

def tie_conc(run, cases, trials):
    viol = 0
    allcc = []; info = {}; deferred = []
    for pi, procs in enumerate(("16", "2")):
        reqs = [dict(id=c["id"], mode="conc", mods=[c["names"][m] for m in c["mods"]], trials=trials,
                     groups=[[c["names"][g[0][0]], [c["names"][v] for (_, v) in g]] for g in c["groups"]]) for c in cases]
        out, err, _ = hook_run(reqs, env={"GOMAXPROCS": procs})
        for c in cases:
            j = out.get(c["id"])
            flat = [e for g in c["groups"] for e in g]
            if j is None or j.get("panic"):
                viol += 1
                report(run, "conc-crash:%s" % hashlib.sha256(json.dumps(c["groups"]).encode()).hexdigest()[:16],
                              "concurrent AddDependency crashed or hung: %s" % (((j or {}).get("panic") or err or "no answer")[:300]),
                              dict(modules=c["names"], groups=reqs[c["id"]]["groups"], gomaxprocs=procs, trials=trials))
                continue
            idx = {n: i for i, n in enumerate(c["names"])}
            ocs = []
            for o in j["outcomes"]:
                oc = dict(errs=o["errs"], graph=graph_ids(o["graph"], c["names"]), order=[idx[x] for x in o["order"]], n=o["n"],
                          msgs=o["msgs"])
                ocs.append(oc)
                run.count("conc/outcomes")
                # property on the observed outcome
                res = [[0, 0]] * sum(o["errs"]) if sum(o["errs"]) else []
                m = spec_check(c["mods"], flat, res, oc["graph"], oc["order"])
                if m:
                    nm = lambda i: c["names"][i]
                    deferred.append(("conc-spec:%s" % hashlib.sha256(json.dumps(c["groups"]).encode()).hexdigest()[:16],
                                     "under concurrent AddDependency calls (one goroutine per importer) the property breaks: " + m,
                                     dict(modules=c["names"], groups=reqs[c["id"]]["groups"], gomaxprocs=procs, trials=trials,
                                          observed=o, seen_in_trials=o["n"],
                                          how="hooks/depgraph mode conc: one goroutine per group, all released together")))
                    break
            run.count("conc/cases")
            run.case(("conc", procs, c["groups"]), nontrivial=True)
            run.extra["conc_trials"] = run.extra.get("conc_trials", 0) + trials
            if len(ocs) > 1: run.count("conc/cases-with-several-outcomes")
            cid = pi * 100000 + c["id"]
            info[cid] = dict(modules=c["names"], groups=reqs[c["id"]]["groups"], gomaxprocs=procs, trials=trials,
                             observed=out[c["id"]]["outcomes"], correspondence="cbad_ids", key=json.dumps(c["groups"]))
            allcc.append(dict(id=cid, mods=c["mods"], groups=c["groups"], outcomes=ocs))
        if err and not viol:
            viol += 1
            report(run, "hook:conc", err, {"hook": "depgraph", "mode": "conc"}, no_input=True)
    return viol, allcc, info, deferred

def judge_conc(run, cbad, info):
    viol = 0
    for i in cbad[:2]:
        d = dict(info[i]); k = d.pop("key")
        viol += 1
        report(run, "conc-corr:%s" % hashlib.sha256(k.encode()).hexdigest()[:16],
                      "an outcome of concurrent AddDependency calls is not the port's outcome under any interleaving "
                      "(check-then-insert not atomic, or the port no longer matches)", d, no_input=True)
    return viol

# ------------------------------------------------------------------ tie (iii): the pipeline

def modname(i): return "main" if i == 0 else "m%d" % i

def render_module(proj, i, deps, style, weights):
    """module i imports deps (list, may repeat); exports Val() = weight + sum of its imports' Val()"""
    lines = []
    if i == 0: lines.append('import "std/io";')
    terms = [str(weights[i])]
    for k, d in enumerate(deps):
        path = "%s/%s" % (proj, modname(d))
        first = d not in deps[:k]
        if style == "same":                       # identical statement repeated (legal only as far as the import graph goes:
            aliased = False                       # the type checker then reports a duplicate alias — used for cyclic projects)
        elif style == "plain+alias":              # same path: first plain, every repetition under a fresh alias
            aliased = not first
        else:
            aliased = style == "alias" or deps.count(d) > 1 or (style == "mixed" and (i + d + k) % 2 == 0)
        if aliased:
            al = "x%d_%d" % (d, k)
            lines.append('import "%s" as %s;' % (path, al))
        else:
            al = modname(d)
            lines.append('import "%s";' % path)
        terms.append("%s::Val()" % al)
    lines.append("")
    lines.append("fn Val() -> i64 {\n    return %s;\n}" % " + ".join(terms))
    if i == 0:
        lines.append("\nfn main() {\n    io::Println(Val());\n}")
    return "\n".join(lines) + "\n"

def expected_val(adj, weights, i, memo=None):
    memo = {} if memo is None else memo
    if i in memo: return memo[i]
    v = weights[i] + sum(expected_val(adj, weights, d, memo) for d in adj.get(i, []))
    memo[i] = v
    return v

def reachable_sub(adj, root=0):
    seen = {root}; st = [root]
    while st:
        x = st.pop()
        for d in adj.get(x, []):
            if d not in seen: seen.add(d); st.append(d)
    return seen

def make_project(work, name, n, adj, style="plain"):
    """adj: {i: [deps in file order]}"""
    proj = "p"
    d = os.path.join(work.sub(name), proj)
    os.makedirs(d, exist_ok=True)
    weights = [3 ** i for i in range(n)]
    for i in range(n):
        open(os.path.join(d, modname(i) + ".fer"), "w").write(render_module(proj, i, adj.get(i, []), style, weights))
    reach = reachable_sub(adj)
    edges = [(u, v) for u in reach for v in adj.get(u, [])]
    return dict(name=name, dir=d, file=os.path.join(d, "main.fer"), n=n, adj=adj, style=style, reach=sorted(reach),
                cyclic=is_cyclic(edges), expected=None if is_cyclic(edges) else str(expected_val(adj, weights, 0)))

def proj_replay(p):
    return dict(files={modname(i) + ".fer": open(os.path.join(p["dir"], modname(i) + ".fer")).read() for i in range(p["n"])},
                project_dir_name="p", entry="p/main.fer", imports={modname(i): [modname(d) for d in p["adj"].get(i, [])] for i in range(p["n"])},
                reachable_graph_cyclic=p["cyclic"], expected_output=p["expected"])

def proj_key(kind, p):
    canon = json.dumps([kind, p["n"], sorted((k, v) for k, v in p["adj"].items() if v), p["style"]])
    return "%s:%s" % (kind, hashlib.sha256(canon.encode()).hexdigest()[:16])

def check_verdict(run, p, r, how):
    """r: dict(ok, panic, out) from batch_compile. Returns 1 if a violation was raised."""
    out = r.get("out") or ""
    if r.get("panic"):
        what = "compiler crashed or hung" if "died" in r["panic"] or "TIMEOUT" in r["panic"] else "compiler panicked"
        report(run, proj_key("pipe-crash", p), "%s on an import graph (%s): %s" % (what, how, r["panic"][:200]),
                      dict(proj_replay(p), how=how, panic=r["panic"][:2000]))
        return 1
    if p["cyclic"]:
        if r["ok"]:
            report(run, proj_key("pipe-cycle-accepted", p), "project with a circular import compiled successfully (%s)" % how,
                          dict(proj_replay(p), how=how))
            return 1
        if "circular import detected" not in out:
            report(run, proj_key("pipe-cycle-nodiag", p), "circular import rejected without a 'circular import detected' diagnostic (%s)" % how,
                          dict(proj_replay(p), how=how, output=out[-1500:]))
            return 1
    else:
        if not r["ok"]:
            report(run, proj_key("pipe-dag-rejected", p), "acyclic import graph failed to compile (%s): %s" % (how, out.strip()[:160]),
                          dict(proj_replay(p), how=how, output=out[-1500:]))
            return 1
    return 0

def batch_env(reqs, env_extra, nproc=8, timeout=240):
    """common.batch_compile with an explicit environment (GOMAXPROCS) so that two settings can run side by side;
    a slice whose process dies or hangs is resumed after the request it died on (reported as panic)."""
    hook = common.build_hook("batch")
    im = common.impl()
    env = dict(os.environ, FERRET_LIBS_PATH=im.libs, NO_COLOR="1")
    env.update(env_extra)
    slices = [reqs[i::nproc] for i in range(nproc)]
    def runslice(sl):
        res = {}; todo = list(sl)
        while todo:
            inp = "".join(json.dumps(r) + "\n" for r in todo).encode()
            try:
                p = subprocess.run([hook], input=inp, stdout=subprocess.PIPE, stderr=subprocess.PIPE, env=env, timeout=timeout, preexec_fn=common.limit_mem())
                out = p.stdout; err = p.stderr.decode("utf8", "replace"); rc = p.returncode
            except subprocess.TimeoutExpired as e:
                out = e.stdout or b""; err = "TIMEOUT"; rc = -9
            done = 0
            for line in out.decode("utf8", "replace").splitlines():
                try: j = json.loads(line)
                except ValueError: continue
                res[j["id"]] = dict(ok=j["ok"], panic=j["panic"], out=common.html_text(j["out"])); done += 1
            if done < len(todo):
                r = todo[done]
                res[r["id"]] = dict(ok=False, panic="process died rc=%s: %s" % (rc, err[-1500:]), out="")
                todo = todo[done + 1:]
            else:
                todo = []
        return res
    allres = {}
    for r in common.pmap(runslice, slices, workers=nproc):
        allres.update(r)
    return allres

def all_digraphs(n):
    pairs = [(i, j) for i in range(n) for j in range(n)]
    for mask in range(1 << len(pairs)):
        yield mask, [pairs[k] for k in range(len(pairs)) if mask >> k & 1]

def adj_of(edges, rng=None):
    adj = {}
    for (u, v) in edges: adj.setdefault(u, []).append(v)
    if rng:
        for u in adj: rng.shuffle(adj[u])
    return adj

def insert_repeats(adj, rng, prob=1.0):
    """import lists are lists with repetition: repeat one import of a module at ANY position (first, middle, last)"""
    for u in list(adj):
        if adj[u] and rng.random() < prob:
            for _ in range(rng.choice([1, 1, 2])):
                adj[u].insert(rng.randint(0, len(adj[u])), rng.choice(adj[u]))
    return adj

def sweep_lists(L):
    """every way of repeating one element of L once at any position, plus a triple occurrence"""
    out = []
    for t in dedupe(L):
        for pos in range(len(L) + 1):
            c = L[:pos] + [t] + L[pos:]
            if c not in out: out.append(c)
    out.append([L[0], L[0]] + L)
    return out

def repeat_sweep_projects(work):
    """Repeated imports at every position of an import list, under two aliases / plain + alias / identical statements,
    where an import written AFTER the repetition is (a) the only route to a module of a DAG, (b) the edge closing a cycle."""
    bases = [("dag-fan3", 4, {0: [1, 2, 3]}, 0), ("dag-diamond", 4, {0: [1, 2], 1: [3], 2: [3]}, 0),
             ("dag-inner", 4, {0: [1], 1: [2, 3]}, 1), ("dag-chain-side", 4, {0: [1, 3], 1: [2]}, 0),
             ("cyc-close-last", 3, {0: [1], 1: [2, 0]}, 1), ("cyc-close-first", 3, {0: [1], 1: [0, 2]}, 1),
             ("cyc-via-entry", 3, {0: [1, 2], 2: [0]}, 0), ("cyc-deep", 4, {0: [1], 1: [2, 3], 3: [1]}, 1),
             ("cyc-self-after", 3, {0: [1, 2], 2: [2]}, 0)]
    ps = []
    for tag, n, adj, u in bases:
        cyc = tag.startswith("cyc")
        for L in sweep_lists(adj[u]):
            for style in (["alias", "plain+alias", "same"] if cyc else ["alias", "plain+alias"]):
                a = {k: list(v) for k, v in adj.items()}; a[u] = L
                ps.append(("repeat-sweep/" + tag, make_project(work, "rs%d" % len(ps), n, a, style)))
    return ps

def family_projects(run, work, rng, count):
    ps = []
    def add(tag, n, edges, style="plain", dup=False):
        adj = adj_of(edges, rng)
        if dup:
            insert_repeats(adj, rng, 0.6)
        ps.append((tag, make_project(work, "fam%d" % len(ps), n, adj, style)))
    add("chain-8", 8, [(i, i + 1) for i in range(7)])
    add("diamond", 4, [(0, 1), (0, 2), (1, 3), (2, 3)], "mixed")
    add("shared-leaf-6", 7, [(0, i) for i in range(1, 6)] + [(i, 6) for i in range(0, 6)], "alias")
    add("repeated-aliased", 3, [(0, 1), (0, 2), (1, 2)], "alias", dup=True)
    add("cycle-8", 8, [(i, (i + 1) % 8) for i in range(8)])
    add("self-import-leaf", 3, [(0, 1), (1, 2), (2, 2)])
    add("self-import-entry", 1, [(0, 0)])
    add("two-cycle-deep", 5, [(0, 1), (1, 2), (2, 3), (3, 4), (4, 3)], "mixed")
    add("diamond-back-edge", 4, [(0, 1), (0, 2), (1, 3), (2, 3), (3, 1)])
    add("dense-dag-6", 6, [(i, j) for i in range(6) for j in range(i + 1, 6)], "mixed")
    # wide fan-out with further imports below every child (seed C15e: a bounded pool of parser slots taken by the importing
    # goroutine before its children are spawned deadlocks once 8 modules each wait for a slot for their own first import)
    def wide(k, leaves, shared=True, back=None):
        es = [(0, i) for i in range(1, k + 1)]
        nxt = k + 1
        base = None
        if shared:
            base = nxt; nxt += 1
        for i in range(1, k + 1):
            for _ in range(leaves):
                es.append((i, nxt))
                if shared and nxt % 2 == 0: es.append((nxt, base))
                nxt += 1
            if shared: es.append((i, base))
        if back is not None: es.append((nxt - 1, back))
        return nxt, es
    n_, es_ = wide(12, 2); add("wide-12x2-shared", n_, es_)
    n_, es_ = wide(9, 1, shared=False); add("wide-9x1", n_, es_, "alias")
    n_, es_ = wide(16, 0, shared=False); add("wide-16-flat", n_, es_)
    n_, es_ = wide(10, 2, back=3); add("wide-10x2-cycle", n_, es_, "mixed")
    while len(ps) < count:
        n = rng.randint(4, 7)
        fam = rng.choice(["dag", "cycle", "back-edge", "diamond", "shared-leaf", "chain"])
        edges = dedupe(fam_edges(rng, fam, n))
        # make node 0 the entry reaching as much as possible: swap labels with the best root
        best = max(range(n), key=lambda r: len(reachable_sub(adj_of(edges), r)))
        sw = lambda x: 0 if x == best else (best if x == 0 else x)
        edges = [(sw(u), sw(v)) for (u, v) in edges]
        add(fam + "-%d" % n, n, edges, rng.choice(["plain", "alias", "mixed"]), dup=rng.random() < 0.3)
    return ps

def tie_pipeline(run, work, rng, thorough):
    viol = 0
    projs = []
    for mask, edges in all_digraphs(3):
        projs.append(("all-digraphs-3", make_project(work, "g3_%03d" % mask, 3, adj_of(edges, rng))))
        if edges:
            projs.append(("all-digraphs-3-with-repeats", make_project(work, "g3r_%03d" % mask, 3,
                                                                      insert_repeats(adj_of(edges, rng), rng), rng.choice(["alias", "plain+alias"]))))
    sweeps = repeat_sweep_projects(work)
    projs += sweeps
    if thorough:
        sel = set(rng.sample(range(65536), 6000))
        for mask, edges in all_digraphs(4):
            if mask in sel:
                projs.append(("digraphs-4-sample", make_project(work, "g4_%05d" % mask, 4, adj_of(edges, rng),
                                                                 rng.choice(["plain", "alias", "mixed"]))))
    projs += family_projects(run, work, rng, 60 if thorough else 24)
    reqs = [dict(id=i, file=p["file"], mode="t") for i, (_, p) in enumerate(projs)]
    both = common.pmap(lambda procs: batch_env(reqs, {"GOMAXPROCS": procs}), ["1", "16"], workers=2)
    for procs, res in zip(("1", "16"), both):
        for i, (tag, p) in enumerate(projs):
            r = res.get(i) or dict(ok=False, panic="process died: no answer", out="")
            run.count("pipe/" + tag); run.count("pipe/" + ("cyclic" if p["cyclic"] else "acyclic"))
            run.case(("pipe", procs, p["n"], sorted(p["adj"].items()), p["style"]), nontrivial=True,
                     sample=dict(imports=proj_replay(p)["imports"], cyclic=p["cyclic"], accepted=r["ok"]) if i in (17, 273) and procs == "1" else None)
            if viol < 6:
                viol += check_verdict(run, p, r, "in-process compiler.Compile, type-check only, GOMAXPROCS=%s" % procs)
    # native sample through the real CLI: sums, one .ssa per reachable module, nothing produced for cyclic projects
    dags = [(t, p) for (t, p) in projs if not p["cyclic"] and len(p["reach"]) >= 2]
    cycs = [(t, p) for (t, p) in projs if p["cyclic"]]
    sample = [x for x in projs if x[0] not in ("all-digraphs-3", "all-digraphs-3-with-repeats", "digraphs-4-sample") and not x[0].startswith("repeat-sweep/")]
    sample += [x for k, x in enumerate(sweeps) if k % (5 if thorough else 16) == 0]
    rep = [x for x in projs if x[0] == "all-digraphs-3-with-repeats" and not x[1]["cyclic"] and len(x[1]["reach"]) >= 2]
    sample += rng.sample(rep, min(len(rep), 20 if thorough else 4))
    sample += rng.sample(dags, min(len(dags), 30 if thorough else 10)) + rng.sample(cycs, min(len(cycs), 16 if thorough else 6))
    def native(tp):
        tag, p = tp
        exe = os.path.join(os.path.dirname(p["dir"]), "prog")
        rc, o, e = common.ferret(["-keep-gen", "-o", exe, p["file"]], cwd=p["dir"], timeout=60)
        r = dict(rc=rc, out=o + e, exe=os.path.exists(exe))
        if rc == 0 and r["exe"]:
            r["run"] = common.run_exe(exe, timeout=20)
        gen = os.path.join(os.path.dirname(exe), "gen")
        r["ssa"] = sorted(f for f in os.listdir(gen) if f.endswith(".ssa")) if os.path.isdir(gen) else []
        return r
    results = common.pmap(native, sample, workers=4)
    for (tag, p), r in zip(sample, results):
        run.count("native/" + ("cyclic" if p["cyclic"] else "acyclic"))
        run.case(("native", p["n"], sorted(p["adj"].items()), p["style"]), nontrivial=True)
        how = "ferret -keep-gen -o prog p/main.fer"
        if r["rc"] == -9:
            viol += 1
            report(run, proj_key("native-hang", p), "compiler did not terminate within 60 s (deadlock?)", dict(proj_replay(p), how=how))
            continue
        if check_verdict(run, p, dict(ok=(r["rc"] == 0), panic=("panic: " + r["out"][-800:]) if "goroutine " in r["out"] and "panic" in r["out"] else "", out=r["out"]), how):
            viol += 1
            continue
        if p["cyclic"]:
            if r["exe"] or r["rc"] == 0:
                viol += 1
                report(run, proj_key("native-partial", p), "circular import reported but an executable was produced / exit status 0",
                              dict(proj_replay(p), how=how, exit_status=r["rc"], executable_exists=r["exe"]))
            continue
        got = (r.get("run") or (None, "", ""))
        if got[0] != 0 or got[1].strip() != p["expected"]:
            viol += 1
            report(run, proj_key("native-sum", p), "program of an acyclic project printed %r (exit %r), expected %s: a dependency's symbols "
                          "were not visible/initialised for an importer" % (got[1].strip()[:60], got[0], p["expected"]),
                          dict(proj_replay(p), how=how + " && ./prog"))
            continue
        want = sorted("p_%s.ssa" % modname(i) for i in p["reach"])
        have = [f for f in r["ssa"] if f.startswith("p_")]
        if have != want:
            viol += 1
            report(run, proj_key("native-once", p), "modules processed are %r, expected exactly one unit per reachable module %r" % (have, want),
                          dict(proj_replay(p), how=how + " ; ls p/gen"))
    return viol

# ------------------------------------------------------------------ import-path spellings (gate of the generators)

SPELLINGS = [("canonical", "p/m1"), ("double-slash", "p//m1"), ("trailing-slash", "p/m1/"), ("dot-segment", "p/./m1"),
             ("dotdot-segment", "p/../p/m1"), ("leading-space", " p/m1")]

def spelling_project(work, name, imports_of_main):
    d = os.path.join(work.sub("sp_" + name), "p")
    os.makedirs(d, exist_ok=True)
    lines = ['import "std/io";'] + ['import "%s" as x%d;' % (sp, i) for i, sp in enumerate(imports_of_main)]
    lines += ["", "fn main() {", "    io::Println(%s);" % " + ".join("x%d::Val()" % i for i in range(len(imports_of_main))), "}"]
    files = {"main.fer": "\n".join(lines) + "\n",
             "m1.fer": 'import "p/m2";\n\nfn Val() -> i64 {\n    return 10 + m2::Val();\n}\n',
             "m2.fer": "fn Val() -> i64 {\n    return 100;\n}\n"}
    for fn, txt in files.items(): open(os.path.join(d, fn), "w").write(txt)
    return d, files

def tie_spelling(run, work):
    """The module identity used by DepGraph / p.seen is the import path string after fs.NormalizePath. The other
    generators only write canonical paths; this stage probes non-canonical spellings of an ACYCLIC project: it must build,
    print the right sum and process m1 exactly once."""
    jobs = [(tag, [sp]) for tag, sp in SPELLINGS] + [("mixed-dot-segment", ["p/m1", "p/./m1"]), ("mixed-double-slash", ["p/m1", "p//m1"])]
    viol = 0
    def one(job):
        tag, imps = job
        d, files = spelling_project(work, tag, imps)
        exe = os.path.join(os.path.dirname(d), "prog")
        rc, o, e = common.ferret(["-keep-gen", "-o", exe, os.path.join(d, "main.fer")], cwd=d, timeout=60)
        r = dict(rc=rc, out=(o + e), files=files)
        if rc == 0 and os.path.exists(exe): r["run"] = common.run_exe(exe, timeout=20)
        gen = os.path.join(os.path.dirname(exe), "gen")
        r["ssa"] = sorted(f for f in os.listdir(gen) if f.endswith(".ssa") and f.startswith("p_")) if os.path.isdir(gen) else []
        return r
    rejected = []; twice = []
    for (tag, imps), r in zip(jobs, common.pmap(one, jobs, workers=4)):
        run.count("spelling/" + tag)
        run.case(("spelling", tag), nontrivial=True)
        rp = dict(files=r["files"], project_dir_name="p", entry="p/main.fer", how="ferret -keep-gen -o prog p/main.fer && ./prog ; ls gen",
                  spelling=imps)
        want = str(110 * len(imps))
        if tag == "canonical":
            if r["rc"] != 0 or (r.get("run") or (None, ""))[1].strip() != want or len(r["ssa"]) != 3:
                viol += 1
                report(run, "spelling:canonical", "the canonical three-module chain no longer builds/prints %s" % want, dict(rp, output=r["out"][-1200:]))
            continue
        if r["rc"] != 0:
            msg = [l for l in r["out"].splitlines() if "error" in l.lower()]
            rejected.append((tag, imps[-1], (msg[0].strip() if msg else r["out"].strip()[:120]), rp))
            continue
        got = r.get("run") or (None, "", "")
        if got[0] != 0 or got[1].strip() != want:
            viol += 1
            report(run, "spelling:%s:wrong-output" % tag, "project with import spelt %r printed %r, expected %s" % (imps[-1], got[1].strip()[:40], want), rp)
            continue
        if len(r["ssa"]) != 3:
            twice.append((tag, imps, r["ssa"], rp))
    # one root cause each: (a) parse.go normalises the path (fs.NormalizePath) but the resolver looks the raw string up;
    # (b) NormalizePath leaves '.'/'..' segments, so one file reached under two spellings is two modules
    if rejected:
        viol += 1
        tag, sp, msg, rp = rejected[0]
        report(run, "spelling:noncanonical:rejected",
               "acyclic project fails to compile when an import path is spelt non-canonically (%s): %s" %
               (", ".join(repr(x[1]) for x in rejected), msg), dict(rp, variants=[x[1] for x in rejected]))
    if twice:
        viol += 1
        tag, imps, ssa, rp = twice[0]
        report(run, "spelling:two-spellings:processed-twice",
               "module file m1.fer imported as %r is processed as two modules (units %r): 'every module processed exactly once' "
               "fails when one file is reachable under two spellings" % (imps, ssa), dict(rp, units=ssa))
    return viol

# ------------------------------------------------------------------ main

def proof_stage(run):
    """run.proof, retried when common.grep_gate trips over another check's transient coq/gen/cases_*.v file"""
    import time
    for attempt in range(5):
        snap = (list(run.theorems), run.obligations)
        try:
            return run.proof("Props/C15.v")
        except FileNotFoundError:
            run.theorems, run.obligations = snap
            time.sleep(1 + attempt)
    return run.proof("Props/C15.v")

def setup():
    common.build_hook("depgraph")
    common.build_hook("batch")

def main(run):
    work = Work()
    thorough = run.tier == "thorough"
    run.rule = ("a case is (registered modules, AddDependency call sequence) canonicalised by node rank, or (pipeline project import "
                "lists, style, GOMAXPROCS); exhaustive: all digraphs on <=3 nodes (all call permutations for <=2 nodes, one random "
                "permutation each for 3), all 512 three-module projects; seeded: structured families (dag, chain, diamond, shared leaf, "
                "cycle of chosen length incl. self-import, back edge along an existing path, random) on <=6 (quick) / <=8 (thorough) nodes "
                "under a random permutation of the calls with repeated imports; concurrent groups, one goroutine per importer")
    run.trusted += ["hooks/depgraph/main.go (drives exported context_v2 API; reads ctx.DepGraph)",
                    "hooks/batch (in-process compiler.Compile) cross-checked by the native CLI sample",
                    "python oracle spec_check in harness/c15.py (independent of the Coq deciders, which are proved exact)"]
    run.assumptions = ["ctx.mu is held for the whole of AddDependency and ComputeTopologicalOrder, so a schedule is a sequence of atomic "
                       "calls (checked dynamically by the concurrent mode: every outcome must be the port's outcome under some interleaving)",
                       "module identity is the normalised import path string; the rank of the path in byte order stands for the path",
                       "pipeline level (exactly-once scheduling, visibility of symbols) is tied by exhaustive/seeded compilation, not by proof",
                       "only modules reachable from the entry file are part of the project"]
    run.extra["gates"] = []
    import time
    T = [time.time()]; stage = {}
    def lap(name):
        T.append(time.time()); stage[name] = round(T[-1] - T[-2], 1); run.extra["stage_s"] = stage
    common.impl(); lap("build")
    ok = proof_stage(run); lap("proof")
    viol = 0
    # ---- tie (i)
    cases = exhaustive_small(run.rng)
    nmax = 8 if thorough else 6
    for _ in range(12000 if thorough else 600):
        cases.append(gen_case(run.rng, nmax))
    for i, c in enumerate(cases): c["id"] = i
    v1, good, err = tie_seq(run, cases)
    # ---- tie (ii)
    v2, allcc, info, deferred = tie_conc(run, gen_conc(run.rng, 60 if thorough else 24), 3000 if thorough else 400)
    lap("hook depgraph seq+conc")
    bad, sbad, cbad = coq_all(good, allcc); lap("coq vm_compute of the port on all cases")
    viol += judge_seq(run, good, bad, sbad, err, v1) + v2
    # concurrent-mode failures: a race shows up only here; a sequential root cause has been reported above already
    for (k, what, rp) in deferred:
        if viol == 0 or not any(v[0].startswith("spec:") for v in run.violations):
            report(run, k, what, rp)
        viol += 1
    if not viol:
        viol += judge_conc(run, cbad, info)
    run.extra["conc_model_unexplained_outcomes"] = len(cbad)
    # ---- tie (iii)
    viol += tie_pipeline(run, work, run.rng, thorough); lap("pipeline projects")
    tie_spelling(run, work); lap("spelling probes")
    run.extra["gates"] = ["generators write canonical import paths only (project/name, no '.', '..', doubled or trailing slashes); "
                          "non-canonical spellings are probed by the dedicated `spelling` stage"]
    if not ok and not run.violations:
        where, log = run.proof_failure
        report(run, "proof:C15:" + where, "Props/C15 no longer checks (%s)" % where,
                      {"theorem_file": "coq/Props/C15.v", "where": where, "log": log}, no_input=True)

def replay(run, path):
    r = json.load(open(path))
    print(json.dumps(r, indent=1))
    rp = r.get("replay", {})
    if "calls" in rp and "modules" in rp:
        names = rp["modules"]
        out, err, _ = hook_run([dict(id=0, mode="seq", mods=rp.get("registered", names), calls=rp["calls"])])
        print("re-observed:", json.dumps(out.get(0)), err)
    elif "files" in rp:
        work = Work()
        d = os.path.join(work.sub("replay"), rp.get("project_dir_name", "p"))
        os.makedirs(d)
        for fn, txt in rp["files"].items(): open(os.path.join(d, fn), "w").write(txt)
        rc, o, e = common.ferret(["-t", os.path.join(d, "main.fer")], cwd=d, timeout=60)
        print("re-observed: rc=%d\n%s%s" % (rc, o, e))
    return 0
