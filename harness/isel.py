"""Instruction-selection tables of both back ends (component of C01 / C02).

Translators: hooks `qbesel` / `wasmsel` build one-instruction MIR functions for every (operator, integer type)
and run the REAL emitters; this module parses the emitted QBE IL / decodes the emitted wasm function bodies
(fail closed on anything outside the modelled subset) and writes coq/gen/Gen_QbeSel.v / Gen_WasmSel.v as plain data.
The theorems of coq/Proofs/ISelThm.v are re-checked against them.

API:  gen_tables() -> dict          regenerate both tables from common.REPO's working tree
      search(backend) -> [dict]     entries the recogniser rejects, each with a concrete witness if one exists
      python3 harness/isel.py       self-test: table sizes + search results
"""
import os, re, sys, time
sys.path.insert(0, os.path.dirname(os.path.abspath(__file__)))
import common

ITY = ["i8", "i16", "i32", "i64", "u8", "u16", "u32", "u64"]
BINOPS = {"add": "Add", "sub": "Sub", "mul": "Mul", "div": "Div", "mod": "Mod", "lt": "Lt", "le": "Le",
          "gt": "Gt", "ge": "Ge", "eq": "Eq", "ne": "Ne", "and": "And", "or": "Or"}
SRCOP = {"add": "+", "sub": "-", "mul": "*", "div": "/", "mod": "%", "lt": "<", "le": "<=", "gt": ">", "ge": ">=",
         "eq": "==", "ne": "!=", "and": "&&", "or": "||"}

class TranslateError(Exception):
    pass

# ------------------------------------------------------------------ keys

def parse_key(name):
    """hook function name -> (kind, ...) tuple"""
    p = name.split("_")
    if p[0] == "bin" and len(p) == 3 and p[1] in BINOPS and p[2] in ITY:
        return ("bin", p[1], p[2])
    if p[0] == "bbin" and len(p) == 2 and p[1] in BINOPS:
        return ("bbin", p[1])
    if p[0] == "neg" and len(p) == 2 and p[1] in ITY:
        return ("neg", p[1])
    if name == "not_bool":
        return ("not",)
    if p[0] == "cast" and len(p) == 3 and p[1] in ITY and p[2] in ITY:
        return ("cast", p[1], p[2])
    if p[0] == "rt" and len(p) == 2 and (p[1] in ITY or p[1] == "bool"):
        return ("rt", p[1])
    raise TranslateError("unknown table key %r" % name)

def coq_key(k):
    if k[0] == "bin": return "KBin %s %s" % (BINOPS[k[1]], k[2].upper())
    if k[0] == "bbin": return "KBBin %s" % BINOPS[k[1]]
    if k[0] == "neg": return "KNeg %s" % k[1].upper()
    if k[0] == "not": return "KNot"
    if k[0] == "cast": return "KCast %s %s" % (k[1].upper(), k[2].upper())
    if k[0] == "rt": return "KRt VB" if k[1] == "bool" else "KRt (VI %s)" % k[1].upper()
    raise TranslateError(k)

def key_name(k):
    return "_".join(k) if k[0] != "not" else "not_bool"

def z(n):
    return "(%d)" % n if n < 0 else "%d" % n

# ------------------------------------------------------------------ QBE IL -> qfun

Q_BIN = {"add": "Oadd", "sub": "Osub", "mul": "Omul", "div": "Odivs", "udiv": "Odivu", "rem": "Orems",
         "urem": "Oremu", "and": "Oand", "or": "Oor", "xor": "Oxor", "shl": "Oshl", "shr": "Oshru", "sar": "Oshrs"}
Q_CMP = {"eq": "Ceq", "ne": "Cne", "slt": "Clts", "sle": "Cles", "sgt": "Cgts", "sge": "Cges",
         "ult": "Cltu", "ule": "Cleu", "ugt": "Cgtu", "uge": "Cgeu"}
Q_EXT = {"extsw": ("Uexts32", "l"), "extuw": ("Uextu32", "l"), "extsb": ("Uext8s", "w"), "extub": ("Uext8u", "w"),
         "extsh": ("Uext16s", "w"), "extuh": ("Uext16u", "w")}
Q_LOAD = {"loadsb": "LDsb", "loadub": "LDub", "loadsh": "LDsh", "loaduh": "LDuh", "loadw": "LDsw", "loadsw": "LDsw",
          "loaduw": "LDuw", "loadl": "LDl"}
Q_STORE = {"storeb": "STb", "storeh": "STh", "storew": "STw", "storel": "STl"}
CLS = {"w": "W", "l": "L"}

def parse_qbe(text):
    """returns {key tuple: coq term of type qfun}"""
    out = {}
    funcs = re.findall(r"^export function( \w+)? \$(\w+)\(([^)]*)\) \{\n(.*?)^\}", text, re.S | re.M)
    if len(funcs) != text.count("function"):
        raise TranslateError("qbe: unparsed function header")
    for ret, name, params, body in funcs:
        key = parse_key(name)
        ret = ret.strip()
        if ret not in CLS:
            raise TranslateError("qbe %s: return class %r" % (name, ret))
        tmps = {}
        def tmp(n):
            if n not in tmps:
                tmps[n] = len(tmps)
            return tmps[n]
        pcls = []
        for p in [x.strip() for x in params.split(",") if x.strip()]:
            m = re.fullmatch(r"([wl]) (%\w+)", p)
            if not m:
                raise TranslateError("qbe %s: parameter %r" % (name, p))
            pcls.append(CLS[m.group(1)]); tmp(m.group(2))
        def arg(a):
            a = a.strip()
            if re.fullmatch(r"%\w+", a): return "Tmp %d" % tmp(a)
            if re.fullmatch(r"-?\d+", a): return "Imm %s" % z(int(a))
            raise TranslateError("qbe %s: operand %r" % (name, a))
        ins = []
        lines = [l.strip() for l in body.splitlines() if l.strip()]
        if not lines or not re.fullmatch(r"@\w+", lines[0]):
            raise TranslateError("qbe %s: missing entry label" % name)
        for l in lines[1:]:
            m = re.fullmatch(r"(%\w+) =([wl]) (\w+) (.*)", l)
            if m:
                d, c, op, rest = m.groups()
                args = [a for a in rest.split(",")]
                if op in Q_BIN and len(args) == 2:
                    a, b = arg(args[0]), arg(args[1])
                    ins.append("QBin %d %s %s (%s) (%s)" % (tmp(d), CLS[c], Q_BIN[op], a, b))
                elif re.fullmatch(r"c(eq|ne|s[lg][te]|u[lg][te])[wl]", op) and len(args) == 2:
                    if c != "w": raise TranslateError("qbe %s: comparison into class %s" % (name, c))
                    a, b = arg(args[0]), arg(args[1])
                    ins.append("QCmp %d %s %s (%s) (%s)" % (tmp(d), CLS[op[-1]], Q_CMP[op[1:-1]], a, b))
                elif op == "copy" and len(args) == 1:
                    a = arg(args[0])
                    ins.append("QCopy %d %s (%s)" % (tmp(d), CLS[c], a))
                elif op in Q_EXT and len(args) == 1:
                    a = arg(args[0])
                    ins.append("QExt %d %s %s (%s)" % (tmp(d), CLS[c], Q_EXT[op][0], a))
                elif re.fullmatch(r"alloc(4|8|16)", op) and len(args) == 1 and c == "l" and re.fullmatch(r"\d+", args[0].strip()):
                    ins.append("QAlloc %d %s %s" % (tmp(d), op[5:], args[0].strip()))
                elif op in Q_LOAD and len(args) == 1:
                    a = arg(args[0])
                    ins.append("QLoad %d %s %s (%s)" % (tmp(d), CLS[c], Q_LOAD[op], a))
                else:
                    raise TranslateError("qbe %s: unknown instruction %r" % (name, l))
                continue
            m = re.fullmatch(r"(store[bhwl]) (.*)", l)
            if m and len(m.group(2).split(",")) == 2:
                v, a = m.group(2).split(",")
                v, a = arg(v), arg(a)
                ins.append("QStore %s (%s) (%s)" % (Q_STORE[m.group(1)], v, a))
                continue
            m = re.fullmatch(r"ret (.+)", l)
            if m:
                ins.append("QRet (%s)" % arg(m.group(1)))
                continue
            raise TranslateError("qbe %s: unknown line %r" % (name, l))
        if key in out:
            raise TranslateError("qbe: duplicate key %s" % name)
        out[key] = "{| qparams := [%s]; qret := %s; qbody := [%s] |}" % ("; ".join(pcls), CLS[ret], "; ".join(ins))
    return out

# ------------------------------------------------------------------ wasm binary -> wfun

class Rd:
    def __init__(self, b, what):
        self.b = b; self.i = 0; self.what = what
    def eof(self): return self.i >= len(self.b)
    def byte(self):
        if self.i >= len(self.b): raise TranslateError("wasm %s: truncated" % self.what)
        v = self.b[self.i]; self.i += 1
        return v
    def u(self):
        r = 0; s = 0
        while True:
            b = self.byte(); r |= (b & 0x7f) << s; s += 7
            if not b & 0x80: return r
    def s(self, bits):
        r = 0; s = 0
        while True:
            b = self.byte(); r |= (b & 0x7f) << s; s += 7
            if not b & 0x80:
                if b & 0x40: r -= 1 << s
                if not -(1 << (bits - 1)) <= r < (1 << (bits - 1)): raise TranslateError("wasm %s: const out of range" % self.what)
                return r
    def take(self, n):
        if self.i + n > len(self.b): raise TranslateError("wasm %s: truncated" % self.what)
        v = self.b[self.i:self.i + n]; self.i += n
        return v
    def name(self):
        return self.take(self.u()).decode("utf8")

VT = {0x7f: "W", 0x7e: "L"}
W_CMP32 = {0x46: "Ceq", 0x47: "Cne", 0x48: "Clts", 0x49: "Cltu", 0x4a: "Cgts", 0x4b: "Cgtu", 0x4c: "Cles", 0x4d: "Cleu",
           0x4e: "Cges", 0x4f: "Cgeu"}
W_BIN32 = {0x6a: "Oadd", 0x6b: "Osub", 0x6c: "Omul", 0x6d: "Odivs", 0x6e: "Odivu", 0x6f: "Oremsw", 0x70: "Oremu",
           0x71: "Oand", 0x72: "Oor", 0x73: "Oxor", 0x74: "Oshl", 0x75: "Oshrs", 0x76: "Oshru"}
W_UN = {0x45: "Ueqz W", 0x50: "Ueqz L", 0xa7: "Uwrap", 0xac: "Uexts32", 0xad: "Uextu32", 0xc0: "Uext8s", 0xc1: "Uext16s"}
W_LOAD = {0x28: ("W", "LDsw"), 0x29: ("L", "LDl"), 0x2c: ("W", "LDsb"), 0x2d: ("W", "LDub"), 0x2e: ("W", "LDsh"),
          0x2f: ("W", "LDuh")}
W_STORE = {0x36: ("W", "STw"), 0x37: ("L", "STl"), 0x3a: ("W", "STb"), 0x3b: ("W", "STh")}

def decode_wasm(name, blob):
    r = Rd(blob, name)
    if r.take(8) != b"\0asm\1\0\0\0":
        raise TranslateError("wasm %s: bad magic" % name)
    types = []; imports = []; funcs = []; bodies = []
    while not r.eof():
        sid = r.byte(); sec = Rd(r.take(r.u()), name)
        if sid == 1:
            for _ in range(sec.u()):
                if sec.byte() != 0x60: raise TranslateError("wasm %s: type form" % name)
                ps = [sec.byte() for _ in range(sec.u())]
                rs = [sec.byte() for _ in range(sec.u())]
                types.append((ps, rs))
        elif sid == 2:
            for _ in range(sec.u()):
                mod = sec.name(); nm = sec.name(); kind = sec.byte()
                if kind != 0: raise TranslateError("wasm %s: non-function import" % name)
                imports.append((mod, nm, sec.u()))
        elif sid == 3:
            funcs = [sec.u() for _ in range(sec.u())]
        elif sid == 10:
            for _ in range(sec.u()):
                bodies.append(sec.take(sec.u()))
        elif sid in (5, 6, 7, 11):
            pass
        else:
            raise TranslateError("wasm %s: unknown section %d" % (name, sid))
    if len(funcs) != 1 or len(bodies) != 1:
        raise TranslateError("wasm %s: expected exactly one function, got %d" % (name, len(bodies)))
    alloc = [i for i, (m, n, t) in enumerate(imports) if (m, n) == ("ferret", "ferret_alloc")]
    if alloc and ([VT.get(x) for x in types[imports[alloc[0]][2]][0]], [VT.get(x) for x in types[imports[alloc[0]][2]][1]]) != (["L"], ["W"]):
        raise TranslateError("wasm %s: ferret_alloc signature" % name)
    ps, rs = types[funcs[0]]
    if len(rs) != 1 or any(p not in VT for p in ps + rs):
        raise TranslateError("wasm %s: signature %r" % (name, (ps, rs)))
    b = Rd(bodies[0], name)
    locs = []
    for _ in range(b.u()):
        n = b.u(); t = b.byte()
        if t not in VT: raise TranslateError("wasm %s: local type %#x" % (name, t))
        locs += [VT[t]] * n
    code = b.b[b.i:]
    B = len(ps)
    if B >= 0x80: raise TranslateError("wasm %s: too many parameters" % name)
    # the emitter's block-dispatch frame around the single basic block (emitFunction)
    prefix = bytes([0x41, 0x00, 0x21, B, 0x03, 0x40, 0x20, B, 0x41, 0x00, 0x46, 0x04, 0x40])
    dflt = {0x7f: bytes([0x41, 0x00]), 0x7e: bytes([0x42, 0x00])}[rs[0]]
    suffix = bytes([0x0b, 0x0c, 0x00, 0x0b]) + dflt + bytes([0x0f, 0x0b])
    if not code.startswith(prefix) or len(locs) < 2 or locs[0] != "W":
        raise TranslateError("wasm %s: unexpected function frame (prefix)" % name)
    c = Rd(code[len(prefix):], name)
    ins = []
    while True:
        if c.b[c.i:] == suffix:
            break
        if c.eof():
            raise TranslateError("wasm %s: unexpected function frame (suffix)" % name)
        op = c.byte()
        if op == 0x20: ins.append("WGet %d" % c.u())
        elif op == 0x21:
            n = c.u()
            if n == B: raise TranslateError("wasm %s: block register written inside the block" % name)
            ins.append("WSet %d" % n)
        elif op == 0x41: ins.append("WConst W %s" % z(c.s(32)))
        elif op == 0x42: ins.append("WConst L %s" % z(c.s(64)))
        elif op in W_CMP32: ins.append("WCmp W %s" % W_CMP32[op])
        elif op - 0x0b in W_CMP32 and op >= 0x51: ins.append("WCmp L %s" % W_CMP32[op - 0x0b])
        elif op in W_BIN32: ins.append("WBin W %s" % W_BIN32[op])
        elif op - 0x12 in W_BIN32 and op >= 0x7c: ins.append("WBin L %s" % W_BIN32[op - 0x12])
        elif op in W_UN: ins.append("WUn (%s)" % W_UN[op])
        elif op in W_LOAD:
            c.u(); off = c.u()
            if off != 0: raise TranslateError("wasm %s: load offset %d" % (name, off))
            ins.append("WLoad %s %s" % W_LOAD[op])
        elif op in W_STORE:
            c.u(); off = c.u()
            if off != 0: raise TranslateError("wasm %s: store offset %d" % (name, off))
            ins.append("WStore %s %s" % W_STORE[op])
        elif op == 0x10:
            idx = c.u()
            if not alloc or idx != alloc[0]: raise TranslateError("wasm %s: call %d is not ferret_alloc" % (name, idx))
            ins.append("WAlloc")
        elif op == 0x0f: ins.append("WReturn")
        else:
            raise TranslateError("wasm %s: unknown opcode %#x" % (name, op))
    if any(("WGet %d" % B) == i for i in ins):
        raise TranslateError("wasm %s: block register read inside the block" % name)
    return "{| wparams := [%s]; wlocals := [%s]; wret := %s; wbody := [%s] |}" % (
        "; ".join(VT[p] for p in ps), "; ".join(locs), VT[rs[0]], "; ".join(ins))

def parse_wasm(text):
    out = {}
    for line in text.splitlines():
        if not line.strip(): continue
        name, hx = line.split()
        key = parse_key(name)
        if key in out: raise TranslateError("wasm: duplicate key %s" % name)
        out[key] = decode_wasm(name, bytes.fromhex(hx))
    return out

# ------------------------------------------------------------------ generated files

def _write(path, content):
    os.makedirs(os.path.dirname(path), exist_ok=True)
    if not os.path.exists(path) or open(path).read() != content:
        open(path, "w").write(content)
        return True
    return False

def _gen(name, ident, ty, tbl):
    rows = ";\n".join("  (%s, %s)" % (coq_key(k), tbl[k]) for k in sorted(tbl))
    return ("(* generated by harness/isel.py from the working tree of the compiler -- do not edit *)\n"
            "From Coq Require Import ZArith List.\nFrom FV Require Import Core.Syntax Models.Qbe Models.WasmSem Models.ISel.\n"
            "Import ListNotations.\nLocal Open Scope Z_scope.\n"
            "Definition %s : list (key * %s) := [\n%s\n].\n" % (ident, ty, rows))

_tables = {}

def run_hooks():
    q = common.build_hook("qbesel")
    w = common.build_hook("wasmsel")
    pq = common.sh([q], timeout=120)
    if pq.returncode != 0:
        raise TranslateError("qbesel hook failed: " + pq.stderr.decode("utf8", "replace")[-2000:])
    pw = common.sh([w], timeout=120)
    if pw.returncode != 0:
        raise TranslateError("wasmsel hook failed: " + pw.stderr.decode("utf8", "replace")[-2000:])
    return pq.stdout.decode(), pw.stdout.decode()

def gen_tables():
    """Regenerate coq/gen/Gen_QbeSel.v and Gen_WasmSel.v from common.REPO's working tree."""
    t0 = time.time()
    qil, wtxt = run_hooks()
    qt = parse_qbe(qil); wt = parse_wasm(wtxt)
    _tables["qbe"] = qt; _tables["wasm"] = wt
    cq = _write(os.path.join(common.GEN, "Gen_QbeSel.v"), _gen("Gen_QbeSel", "qbe_code", "qfun", qt))
    cw = _write(os.path.join(common.GEN, "Gen_WasmSel.v"), _gen("Gen_WasmSel", "wasm_code", "wfun", wt))
    return {"qbe_rows": len(qt), "wasm_rows": len(wt), "qbe_changed": cq, "wasm_changed": cw,
            "seconds": round(time.time() - t0, 2)}

# ------------------------------------------------------------------ search

def _bits(t): return int(t[1:])
def _signed(t): return t[0] == "i"

def _res_type(k):
    if k[0] == "bin": return k[2] if k[1] in ("add", "sub", "mul", "div", "mod") else "bool"
    if k[0] in ("bbin", "not"): return "bool"
    if k[0] == "neg": return k[1]
    if k[0] == "cast": return k[2]
    return k[1]

def _arg_types(k):
    if k[0] == "bin": return [k[2], k[2]]
    if k[0] == "bbin": return ["bool", "bool"]
    if k[0] == "neg": return [k[1]]
    if k[0] == "not": return ["bool"]
    if k[0] == "cast": return [k[1]]
    return [k[1]]

def _lit(t, v):
    if t == "bool": return "true" if v else "false"
    return str(v)

def program(k, vals):
    """A three-line Ferret program (inside main) whose output exposes the row: the result is consumed directly by a
    widening cast / print, without going through memory (a store+load would re-normalise it)."""
    ats = _arg_types(k); names = ["a", "b"][:len(ats)]
    decl = ["    let %s: %s = %s;" % (n, t, _lit(t, v)) for n, t, v in zip(names, ats, vals)]
    if k[0] in ("bin", "bbin"): e = "a %s b" % SRCOP[k[1]]
    elif k[0] == "neg": e = "-a"
    elif k[0] == "not": e = "!a"
    elif k[0] == "cast": e = "a as %s" % k[2]
    else: e = "a"
    rt = _res_type(k)
    if rt != "bool" and _bits(rt) < 64:
        e = "(%s) as %s" % (e, "i64" if _signed(rt) else "u64")
    return 'import "std/io";\n\nfn main() {\n%s\n    io::Println(%s);\n}\n' % ("\n".join(decl), e)

_FIND = r"""
From Coq Require Import ZArith List Bool.
From FV Require Import Core.Syntax Core.Sem Models.Qbe Models.WasmSem Models.ISel gen.%(gen)s.
Import ListNotations.
Local Open Scope Z_scope.
Definition in_ty (t : ity) (v : Z) : bool := (tmin t <=? v) && (v <=? tmax t).
Definition cands (v : vty) : list Z :=
  match v with
  | VI t => map (encode t) (filter (in_ty t)
              [100; 127; 1; 2; 3; 7; 0; -1; -2; -100; -128; 128; 200; 255; 256; 300; 32767; 32768; 65535; 65536;
               2147483647; 2147483648; 4294967295; tmin t; tmin t + 1; tmax t / 2 + 1; tmax t - 1; tmax t])
  | VB => [0; 1]
  end.
Definition cand_args (k : key) : list (list Z) :=
  match argtys k with
  | [a] => map (fun x => [x]) (cands a)
  | [a; b] => flat_map (fun x => map (fun y => [x; y]) (cands b)) (cands a)
  | _ => []
  end.
Definition differs (p : option Z * option Z) : bool :=
  match p with
  | (Some v, Some g) => negb (v =? g)
  | (Some _, None) => true
  | (None, _) => false
  end.
Definition enc (o : option Z) : Z * Z :=
  match o with None => (0, 0) | Some g => if g <? 2 ^ 99 then (1, g) else (2, g - 2 ^ 100) end.
Fixpoint scan {F} (probe : key -> F -> list Z -> option Z * option Z) (entry_ok : key -> F -> bool)
         (n : Z) (tbl : list (key * F)) : list (Z * list Z * list Z * Z * (Z * Z)) :=
  match tbl with
  | [] => []
  | (k, f) :: r =>
      (if entry_ok k f then []
       else match find (fun rs => differs (probe k f rs)) (cand_args k) with
            | Some rs => let p := probe k f rs in
                         [(n, rs, denotes (argtys k) rs, match fst p with Some v => v | None => 0 end, enc (snd p))]
            | None => [(n, [], [], 0, (-1, 0))]
            end) ++ scan probe entry_ok (n + 1) r
  end.
Eval vm_compute in (scan %(probe)s %(ok)s 0 %(tbl)s).
Eval vm_compute in (covers %(tbl)s).
"""

def search(backend):
    """Entries of the regenerated table the recogniser rejects. Each result: dict(key, operands, expected, got, program);
    operands are source-level values; got is 'trap', a value, or 'non-canonical register 0x..' ; operands None when no
    disagreeing boundary operand was found (the shape is merely unknown to the recogniser)."""
    if backend not in _tables:
        gen_tables()
    tbl = _tables[backend]
    keys = sorted(tbl)
    par = {"qbe": dict(gen="Gen_QbeSel", probe="probe_q", ok="entry_ok_q", tbl="qbe_code"),
           "wasm": dict(gen="Gen_WasmSel", probe="probe_w", ok="entry_ok_w", tbl="wasm_code")}[backend]
    ok, mk = common.coq_make(["Models/ISel.vo", "gen/%s.vo" % par["gen"]], timeout=1200)
    if not ok:
        raise RuntimeError("isel: models/table do not compile:\n" + mk[-3000:])
    ok, out = common.coq_eval("isel_find_%s_%d" % (backend, os.getpid()), _FIND % par, timeout=900)
    if not ok:
        raise RuntimeError("isel: witness search failed to evaluate:\n" + out[-3000:])
    res = []
    body = out.replace("\n", " ")
    m = re.search(r"=\s*(.*?):\s*list \(Z \* list Z \* list Z \* Z \* \(Z \* Z\)\)", body)
    if not m:
        raise RuntimeError("isel: cannot parse witness output:\n" + out[-3000:])
    lst = lambda s: [int(x) for x in re.findall(r"-?\d+", s)]
    for t in re.finditer(r"\((-?\d+),\s*(\[[^\]]*\]|nil),\s*(\[[^\]]*\]|nil),\s*(-?\d+),\s*\((-?\d+),\s*(-?\d+)\)\)", m.group(1)):
        idx, regs, vals, exp, kind, g = t.groups()
        k = keys[int(idx)]; kind = int(kind); g = int(g)
        if kind == -1:
            res.append(dict(key=key_name(k), operands=None, expected=None, got=None, program=None, code=tbl[k],
                            what="%s: shape not recognised; no disagreeing boundary operand found" % key_name(k)))
            continue
        vals = lst(vals)
        got = "trap" if kind == 0 else (g if kind == 1 else "non-canonical register %#x" % g)
        res.append(dict(key=key_name(k), operands=vals, registers=lst(regs), expected=int(exp), got=got,
                        program=program(k, vals), code=tbl[k],
                        what="%s on %s: reference %s, %s code yields %s" % (key_name(k), vals, exp, backend, got)))
    cov = re.search(r"=\s*(true|false)\s*:\s*bool", body[m.end():])
    if cov and cov.group(1) == "false":
        import itertools
        res.append(dict(key="coverage", operands=None, expected=None, got=None, program=None,
                        what="regenerated %s table does not cover every expected row" % backend))
    return res

if __name__ == "__main__":
    t0 = time.time()
    print("gen_tables:", gen_tables())
    for be in ("qbe", "wasm"):
        r = search(be)
        print("%s: %d entries rejected by the recogniser" % (be, len(r)))
        for x in r:
            print("  ", x["what"])
        if r and r[0].get("program"):
            print(r[0]["program"])
    print("total %.1fs" % (time.time() - t0))
