#!/usr/bin/env python3
"""seedtest.py <seed dir, e.g. /tmp/seed_out/C16a> [--skip-tests]
Confirms a seeded breaking change independently (builds, Go tests pass, demo fails with / passes without), runs the
property's check against it (VERIF_REPO = scratch worktree with the patch), and files it under /verif/seeded/<id>/."""
import sys, os, json, subprocess, shutil, time
V = os.path.dirname(os.path.dirname(os.path.abspath(__file__)))
sys.path.insert(0, os.path.join(V, "harness"))
import common

def sh(cmd, cwd=None, timeout=3000, env=None):
    p = subprocess.run(cmd, shell=True, cwd=cwd, stdout=subprocess.PIPE, stderr=subprocess.STDOUT, timeout=timeout, env=env)
    return p.returncode, p.stdout.decode("utf8", "replace")

def main():
    sd = sys.argv[1].rstrip("/")
    sid = os.path.basename(sd)
    meta = json.load(open(os.path.join(sd, "meta.json")))
    pid = meta["property"]
    wt = "/tmp/sv_" + sid
    clean = "/tmp/sv_clean_" + sid
    env = common.goenv()
    res = {"seed": sid, "property": pid}
    try:
        for d in (wt, clean):
            sh("git -C /repo worktree remove --force %s" % d)
            shutil.rmtree(d, ignore_errors=True)
        rc, o = sh("git -C /repo worktree add --detach %s && git -C /repo worktree add --detach %s" % (wt, clean))
        rc, o = sh("git apply %s" % os.path.join(sd, "patch.diff"), cwd=wt)
        res["patch_applies"] = rc == 0
        if rc != 0:
            res["error"] = o[-500:]
            return res
        rc, o = sh("go build ./...", cwd=wt, env=env)
        res["build_ok"] = rc == 0
        if "--skip-tests" not in sys.argv:
            rc, o = sh("go test -vet=off -count=1 ./... 2>&1 | grep -v 'no test files' | grep -v '^ok' | head -20", cwd=wt, env=env)
            res["tests_pass"] = o.strip() == ""
            res["tests_output"] = o[-800:]
        demo = os.path.join(sd, "demo.sh")
        if os.path.exists(demo):
            t = time.time()
            rc0, o0 = sh("bash %s %s" % (demo, clean), cwd=sd, env=env, timeout=1800)
            rc1, o1 = sh("bash %s %s" % (demo, wt), cwd=sd, env=env, timeout=1800)
            res["demo_unmodified_rc"] = rc0; res["demo_modified_rc"] = rc1
            res["demo_unmodified_tail"] = o0[-400:]; res["demo_modified_tail"] = o1[-600:]
            res["demo_confirms"] = (rc0 == 0 and rc1 != 0)
        # the demo may have built libs/bin inside the worktree: remove build output so the check sees only source changes
        sh("git clean -qfdx", cwd=wt)
        t = time.time()
        e2 = dict(os.environ, VERIF_REPO=wt, VERIF_CACHE_KEEP="12")
        rc, o = sh("./check %s --tier quick" % pid, cwd=V, env=e2, timeout=3400)
        res["check_rc"] = rc
        res["check_wall_s"] = round(time.time() - t, 1)
        res["check_violation_lines"] = [l[:300] for l in o.splitlines() if l.startswith("VIOLATION")][:6]
        res["check_tail"] = o[-600:]
        res["detected"] = (rc == 1 and bool(res["check_violation_lines"]))
        return res
    finally:
        for d in (wt, clean):
            sh("git -C /repo worktree remove --force %s" % d)
            shutil.rmtree(d, ignore_errors=True)
        out = os.path.join(V, "seeded", sid)
        os.makedirs(out, exist_ok=True)
        for fn in os.listdir(sd):
            src = os.path.join(sd, fn)
            if os.path.isfile(src) and os.path.getsize(src) < 2_000_000 and not fn.startswith("."):
                shutil.copy(src, out)
            elif os.path.isdir(src) and not fn.startswith(".") and sum(len(f) for _, _, f in os.walk(src)) < 40:
                shutil.copytree(src, os.path.join(out, fn), dirs_exist_ok=True)
        meta["lead_confirmation"] = res
        json.dump(meta, open(os.path.join(out, "meta.json"), "w"), indent=1)
        print(json.dumps({k: res.get(k) for k in ("seed", "patch_applies", "build_ok", "tests_pass", "demo_confirms", "check_rc", "detected", "check_wall_s")}))
        for l in res.get("check_violation_lines", [])[:3]:
            print("   ", l[:220])

if __name__ == "__main__":
    main()
