"""C17 — runtime maps and dynamic arrays behave as abstract maps and lists, memory-safely.

Proof stage : Props/C17.v (refinement of the ported hash map to std++ gmap and of the ported vector to list, for every
              operation history and every hash function).
Tie         : cshim/map_drv.c / cshim/arr_drv.c link the *working tree's* runtime/core/map.c, array.c, optional.c,
              runtime/libs/len.c, append.c with ASan+UBSan and execute generated operation histories; the Gallina port
              (Models/MapRt.v, Models/ArrayRt.v) executes the same histories inside Coq (vm_compute) and is compared
              with what the implementation printed; a plain Python dict / list is the spec-side oracle.
Search      : an oracle mismatch or a sanitizer report is shrunk (op-list minimisation) and reported with the history.
"""
import os, sys, json, hashlib, subprocess, re, shutil
import common
from common import Work

RT_MAP = ["runtime/core/map.c", "runtime/core/optional.c", "runtime/libs/len.c", "runtime/core/array.c",
          "runtime/core/string_runtime.c"]
RT_ARR = ["runtime/core/array.c", "runtime/libs/len.c", "runtime/libs/append.c", "runtime/core/map.c",
          "runtime/core/string_runtime.c"]
HEADERS = ["runtime/core/map.h", "runtime/core/array.h", "runtime/core/string_runtime.h"]

# ------------------------------------------------------------------ build (own builder: C17 needs no ferret binary)

def build_shim(name, repo_sources):
    """clang -fsanitize=address,undefined cshim/<name>.c + the working tree's runtime sources; cached by content."""
    src = os.path.join(common.VERIF, "cshim", name + ".c")
    flags = ["-std=gnu99", "-O1", "-g", "-w", "-I", os.path.join(common.REPO, "runtime", "core"),
             "-I", os.path.join(common.REPO, "runtime", "libs"),
             "-fsanitize=address,undefined", "-fno-sanitize-recover=undefined", "-fno-omit-frame-pointer"]
    h = hashlib.sha256()
    h.update(open(src, "rb").read())
    for s in list(repo_sources) + HEADERS:
        p = os.path.join(common.REPO, s)
        h.update(s.encode() + b"\0" + (open(p, "rb").read() if os.path.exists(p) else b"<missing>"))
    h.update(" ".join(flags).encode())
    d = os.path.join(common.CACHE, "c17", h.hexdigest()[:24])
    out = os.path.join(d, name)
    with common.flock("c17_" + name):
        if not os.path.exists(out):
            os.makedirs(d, exist_ok=True)
            cmd = ["clang"] + flags + [src] + [os.path.join(common.REPO, s) for s in repo_sources] + ["-o", out + ".tmp", "-lm"]
            common.sh(cmd, timeout=600, check=True)
            os.rename(out + ".tmp", out)
            base = os.path.join(common.CACHE, "c17")                  # keep the cache small
            ents = sorted((os.path.join(base, e) for e in os.listdir(base)), key=os.path.getmtime, reverse=True)
            for p in ents[12:]:
                shutil.rmtree(p, ignore_errors=True)
        os.utime(d)
    return out

# ------------------------------------------------------------------ helpers

def fnv1a(b):
    h = 2166136261
    for x in b:
        h = ((h ^ x) * 16777619) & 0xffffffff
    return h

def hx(b):
    return b.hex() if b else "-"

def unhx(s):
    return b"" if s == "-" else bytes.fromhex(s)

def le(b):
    return int.from_bytes(b, "little")

def val_bytes(v, vsize):
    return v.to_bytes(vsize, "little")

ASAN_ENV = dict(os.environ, ASAN_OPTIONS="detect_leaks=1:abort_on_error=0:allocator_may_return_null=0",
                UBSAN_OPTIONS="print_stacktrace=1")
# bulk runs: no symbolisation (a symbolised report costs seconds); the shrunk history is re-run with ASAN_ENV
FAST_ENV = dict(ASAN_ENV, ASAN_OPTIONS=ASAN_ENV["ASAN_OPTIONS"] + ":symbolize=0", UBSAN_OPTIONS="print_stacktrace=0:symbolize=0")
MAX_CRASHES = 6

def run_driver(exe, hists, render, env=None):
    """hists: list of (id, ops).  Returns {id: (lines, crash)} where crash is None or a dict(kind, frame, report).
    All histories go through one process; after a crash the remaining ones are run in a fresh process (at most
    MAX_CRASHES times; histories not run after that are absent from the result)."""
    res = {}
    todo = list(hists)
    crashes = 0
    while todo and crashes < MAX_CRASHES:
        text = "".join("H %d\n%s" % (hid, "".join(render(o) + "\n" for o in ops)) for hid, ops in todo)
        try:
            p = subprocess.run([exe], input=text.encode(), stdout=subprocess.PIPE, stderr=subprocess.PIPE,
                               timeout=600, env=env or ASAN_ENV)
            out = p.stdout.decode("latin1"); err = p.stderr.decode("latin1"); rc = p.returncode
        except subprocess.TimeoutExpired as e:
            out = (e.stdout or b"").decode("latin1"); err = "TIMEOUT"; rc = -9
        cur = None; ended = False
        for line in out.splitlines():
            if line.startswith("H "):
                cur = int(line[2:]); res[cur] = ([], None)
            elif line == "END":
                ended = True
            elif cur is not None:
                res[cur][0].append(line)
        if ended and rc == 0:
            break
        # died (sanitizer report, crash, leak report at exit)
        crash = classify(err, rc)
        if ended:                          # LeakSanitizer at exit: attribute to the batch (cannot name one history)
            for hid, _ in todo:
                if hid in res and res[hid][1] is None:
                    pass
            res["__leak__"] = ([], crash)
            break
        ids = [hid for hid, _ in todo]
        if cur is None:
            cur = ids[0]; res[cur] = ([], None)
        res[cur] = (res[cur][0], crash)
        crashes += 1
        todo = todo[ids.index(cur) + 1:]
    return res

def classify(err, rc):
    m = re.search(r"ERROR: (AddressSanitizer|LeakSanitizer): ([\w-]+)", err)
    kind = None
    if m:
        kind = m.group(2) if m.group(1) == "AddressSanitizer" else "leak"
    else:
        m2 = re.search(r"runtime error: ([^\n]+)", err)
        if m2:
            kind = "ubsan:" + re.sub(r"0x[0-9a-f]+|\d+", "N", m2.group(1))[:60]
    if kind is None:
        kind = "TIMEOUT" if err == "TIMEOUT" else "exit-%s" % rc
    fm = re.search(r"#\d+ 0x[0-9a-f]+ in (ferret_\w+)", err)
    return {"kind": kind, "frame": fm.group(1) if fm else "?", "report": err[:2500]}

# ------------------------------------------------------------------ maps: generator

KINDS = ["i32", "i64", "str", "bytes"]

def gen_key(rng, kind, ksize):
    if kind == "i32" or kind == "i64":
        n = 4 if kind == "i32" else 8
        r = rng.random()
        if r < 0.5:
            v = rng.randrange(-40, 400)
        elif r < 0.6:
            v = rng.choice([0, -1, 1, 2 ** (8 * n - 1) - 1, -2 ** (8 * n - 1), 255, 256, 65535, 65536])
        else:
            v = rng.randrange(-2 ** (8 * n - 1), 2 ** (8 * n - 1))
        return (v % 2 ** (8 * n)).to_bytes(n, "little")
    if kind == "str":
        ln = rng.choice([0, 1, 1, 2, 3, 3, 4, 5, 8, 11])
        alphabet = rng.choice([b"ab", b"abcdefghijklmnopqrstuvwxyz", bytes(range(1, 256))])
        return bytes(rng.choice(alphabet) for _ in range(ln))
    return bytes(rng.randrange(256) if rng.random() < 0.7 else rng.choice([0, 255]) for _ in range(ksize))

def gen_universe(rng, kind, ksize, size, collide):
    """distinct keys; in collide mode all keys fall into 1..3 residues modulo 64 (hence collide modulo 16 and 32)."""
    keys = set()
    residues = set(rng.sample(range(64), rng.choice([1, 2, 3]))) if collide else None
    tries = 0
    while len(keys) < size and tries < size * 400:
        tries += 1
        k = gen_key(rng, kind, ksize)
        if residues is not None and fnv1a(k) % 64 not in residues:
            continue
        keys.add(k)
    return sorted(keys)

def gen_map_history(rng, tier):
    kind = rng.choice(KINDS)
    ksize = {"i32": 4, "i64": 8, "str": 8}.get(kind) or rng.choice([1, 3, 3, 5, 16])
    vsize = rng.choice([0, 1, 4, 4, 8, 8, 12])
    usize = rng.choice([2, 5, 14, 14, 30, 30, 60, 60, 110, 110, 220 if tier == "thorough" else 150])
    collide = rng.random() < 0.4
    if kind == "bytes" and ksize == 1:
        collide = False
    if kind == "str" and collide:
        usize = min(usize, 60)
    uni = gen_universe(rng, kind, ksize, usize, collide)
    if not uni:
        uni = [gen_key(rng, kind, ksize)]
    stranger = lambda: gen_key(rng, kind, ksize)
    vmax = 2 ** (8 * vsize)
    val = lambda: rng.randrange(vmax) if vsize else 0
    ops = []
    if rng.random() < 0.3:
        n = rng.choice([0, 1, 2, 11, 12, 13, 23, 24, 25, 36, 47, 48, 49, len(uni)])
        if rng.random() < 0.5:
            ks = [rng.choice(uni) for _ in range(n)]                 # with duplicates
        else:
            ks = (uni * (n // len(uni) + 1))[:n]
            rng.shuffle(ks)
        ops.append(("fp", kind, ksize, vsize, [(k, val()) for k in ks]))
    else:
        ops.append(("new", kind, ksize, vsize))
    if rng.random() < 0.35:
        ops.append(("iter",))                                        # iteration right after creation (often empty)
    nops = rng.choice([8, 30, 60, 120, 200, 200, 300 if tier == "thorough" else 240])
    fresh = list(uni); rng.shuffle(fresh)
    # phases: fill (mostly new keys), churn (updates + queries)
    for i in range(nops):
        r = rng.random()
        filling = i < nops * 0.6
        if r < (0.62 if filling else 0.3):
            if fresh and rng.random() < (0.8 if filling else 0.3):
                k = fresh.pop()
            else:
                k = rng.choice(uni)
            ops.append(("set", k, val()))
        elif r < 0.78:
            k = rng.choice(uni) if rng.random() < 0.8 else stranger()
            ops.append(("get", k))
        elif r < 0.86:
            k = rng.choice(uni) if rng.random() < 0.7 else stranger()
            ops.append(("has", k))
        elif r < 0.92:
            k = rng.choice(uni) if rng.random() < 0.7 else stranger()
            ops.append(("opt", k, val()))
        elif r < 0.97:
            ops.append(("size",))
        else:
            ops.append(("iter",))
    ops.append(("size",)); ops.append(("iter",))
    return ops

def render_map_op(o):
    t = o[0]
    if t == "new": return "new %s %d %d" % (o[1], o[2], o[3])
    if t == "fp":
        vs = o[3]
        return "fp %s %d %d %d%s" % (o[1], o[2], vs, len(o[4]),
                                    "".join(" %s %s" % (hx(k), hx(val_bytes(v, vs))) for k, v in o[4]))
    if t == "set": return "set %s %s" % (hx(o[1]), hx(val_bytes(o[2], render_map_op.vsize)))
    if t == "get": return "get " + hx(o[1])
    if t == "has": return "has " + hx(o[1])
    if t == "opt": return "opt %s %s" % (hx(o[1]), hx(val_bytes(o[2], render_map_op.vsize)))
    return t

def map_renderer(ops):
    """set/opt need the value size of the history: returns a closure-free list of lines."""
    vs = 0; lines = []
    for o in ops:
        if o[0] in ("new", "fp"):
            vs = o[3]
        render_map_op.vsize = vs
        lines.append(render_map_op(o))
    return lines

def parse_map_line(o, line, vsize):
    """-> canonical observed result, or ('bad', line)"""
    t = o[0]
    p = line.split(" ")
    try:
        if t in ("new", "fp"):
            return ("unit",) if p[0] == t else ("bad", line)
        if t == "set":
            return ("unit",) if line == "set 1" else ("bad", line)
        if t == "get":
            if line == "get N": return ("none",)
            if p[0] == "get" and p[1] == "S": return ("some", le(unhx(p[2])))
        if t == "has" and p[0] == "has":
            return ("bool", p[1] == "1")
        if t == "size" and p[0] == "size":
            return ("size", int(p[1])) if p[1] == p[2] else ("bad", line)
        if t == "opt" and p[0] == "opt":
            return ("opt", le(unhx(p[1])), le(unhx(p[2])))
        if t == "iter" and p[0] == "iter":
            if "OVERRUN" in p: return ("bad", line)
            items = []
            for it in p[1:]:
                k, v = it.split(":")
                items.append((unhx(k), le(unhx(v))))
            return ("iter", items)
    except (ValueError, IndexError):
        pass
    return ("bad", line)

def map_oracle(ops):
    """spec side: a Python dict.  Returns list of expected results (iteration = sorted item list)."""
    d = {}; vs = 0; out = []
    for o in ops:
        t = o[0]
        if t == "new":
            d = {}; vs = o[3]; out.append(("unit",))
        elif t == "fp":
            d = {}; vs = o[3]
            for k, v in o[4]: d[k] = v
            out.append(("unit",))
        elif t == "set":
            d[o[1]] = o[2]; out.append(("unit",))
        elif t == "get":
            out.append(("some", d[o[1]]) if o[1] in d else ("none",))
        elif t == "has":
            out.append(("bool", o[1] in d))
        elif t == "size":
            out.append(("size", len(d)))
        elif t == "opt":
            if o[1] in d:
                out.append(("opt", le(val_bytes(d[o[1]], vs) + b"\x01"), d[o[1]]))
            else:
                out.append(("opt", le(b"\xee" * vs + b"\x00"), o[2]))
        elif t == "iter":
            out.append(("iter", sorted(d.items())))
    return out

def canon_obs(r):
    return ("iter", sorted(r[1])) if r[0] == "iter" else r

def map_check_history(ops, lines, crash):
    """-> None if the implementation's output satisfies the property on this history, else (opindex, what)"""
    exp = map_oracle(ops)
    vs = 0
    for i, o in enumerate(ops):
        if o[0] in ("new", "fp"): vs = o[3]
        if i >= len(lines):
            if crash:
                return (i, "sanitizer: %s in %s" % (crash["kind"], crash["frame"]))
            return (i, "no output for op %d" % i)
        got = parse_map_line(o, lines[i], vs)
        if canon_obs(got) != exp[i]:
            return (i, "op %d `%s`: expected %s, implementation answered `%s`" % (i, map_renderer(ops[:i + 1])[-1][:80],
                                                                                 short(exp[i]), lines[i][:120]))
    if crash:
        return (len(ops), "sanitizer: %s in %s" % (crash["kind"], crash["frame"]))
    return None

def short(r):
    s = repr(r)
    return s if len(s) < 140 else s[:140] + "..."

# ---- Coq rendering

def ck(k):
    return "%d %d" % (len(k), le(k))

def coq_map_case(cid, ops, obs):
    vs = ops[0][3]
    cops = []; cobs = []
    for o, r in zip(ops, obs):
        t = o[0]
        if t == "new": cops.append("CNew")
        elif t == "fp": cops.append("CFP [%s]" % "; ".join("(%d,%d,%d)" % (len(k), le(k), v) for k, v in o[4]))
        elif t == "set": cops.append("CSet %s %d" % (ck(o[1]), o[2]))
        elif t == "get": cops.append("CGet " + ck(o[1]))
        elif t == "has": cops.append("CHas " + ck(o[1]))
        elif t == "opt": cops.append("COpt %s %d" % (ck(o[1]), o[2]))
        elif t == "size": cops.append("CSize")
        elif t == "iter": cops.append("CIter")
        k = r[0]
        if k == "unit": cobs.append("XUnit")
        elif k == "none": cobs.append("XNone")
        elif k == "some": cobs.append("XSome %d" % r[1])
        elif k == "bool": cobs.append("XBool %s" % ("true" if r[1] else "false"))
        elif k == "size": cobs.append("XSize %d" % r[1])
        elif k == "opt": cobs.append("XOpt %d %d" % (r[1], r[2]))
        elif k == "iter": cobs.append("XIter [%s]" % "; ".join("(%d,%d,%d)" % (len(a), le(a), b) for a, b in r[1]))
        else: cobs.append("XUnit")
    return "MCase %d %d%%nat\n  [%s]\n  [%s]" % (cid, vs, "; ".join(cops), "; ".join(cobs))

def parse_two_lists(out):
    ls = re.findall(r"=\s*(\[[^\]]*\]|nil)\s*(?:%\w+)?\s*:\s*list\s+Z", out, re.S)
    r = []
    for body in ls:
        r.append([] if body in ("nil", "[]") else [int(x) for x in re.findall(r"-?\d+", body.replace("%Z", ""))])
    return r

# ------------------------------------------------------------------ arrays

def gen_arr_history(rng, tier):
    esize = rng.choice([0, 1, 4, 4, 8, 8, 24])
    cap = rng.choice([0, -3, 1, 4, 4, 5, 7, 8, 16, 33])
    ops = [("new", esize, cap)]
    vmax = 2 ** (8 * esize)
    nops = rng.choice([6, 20, 40, 80, 160, 300 if tier == "thorough" else 200])
    n = 0; curcap = max(4, cap)
    for i in range(nops):
        r = rng.random()
        if r < 0.5:
            ops.append(("app" if rng.random() < 0.6 else "app2", rng.randrange(vmax))); n += 1
            while n > curcap: curcap *= 2
        elif r < 0.9:
            c = rng.random()
            if c < 0.45 and n > 0: idx = rng.randrange(n)
            elif c < 0.6: idx = n
            elif c < 0.7: idx = n - 1
            elif c < 0.75: idx = -1
            elif c < 0.8: idx = curcap
            elif c < 0.85: idx = curcap - 1
            elif c < 0.9: idx = n + 1
            elif c < 0.95: idx = rng.choice([2 ** 31 - 1, -2 ** 31, 2 ** 30, -2 ** 30, 65536, 0])
            else: idx = rng.randrange(-2 ** 31, 2 ** 31)
            if r < 0.72: ops.append(("get", idx))
            else: ops.append(("set", idx, rng.randrange(vmax)))
        else:
            ops.append(("len",))
    ops.append(("len",))
    return ops

def arr_renderer(ops):
    es = 0; lines = []
    for o in ops:
        t = o[0]
        if t == "new": es = o[1]; lines.append("new %d %d" % (o[1], o[2]))
        elif t in ("app", "app2"): lines.append("%s %s" % (t, hx(val_bytes(o[1], es))))
        elif t == "get": lines.append("get %d" % o[1])
        elif t == "set": lines.append("set %d %s" % (o[1], hx(val_bytes(o[2], es))))
        else: lines.append("len")
    return lines

def parse_arr_line(o, line):
    """-> (result, cap)"""
    t = o[0]; p = line.split(" ")
    try:
        if t == "new" and p[0] == "new": return ("unit",), int(p[1])
        if t in ("app", "app2") and p[0] == "app": return (("done",) if p[1] == "1" else ("bad", line)), int(p[2])
        if t == "get" and p[0] == "get":
            if p[1] == "N": return ("refused",), int(p[2])
            return ("val", le(unhx(p[2]))), int(p[3])
        if t == "set" and p[0] == "set": return (("done",) if p[1] == "1" else ("refused",)), int(p[2])
        if t == "len" and p[0] == "len": return (("len", int(p[1])) if p[1] == p[2] else ("bad", line)), int(p[3])
    except (ValueError, IndexError):
        pass
    return ("bad", line), -1

def arr_oracle(ops):
    l = []; out = []
    for o in ops:
        t = o[0]
        if t == "new": l = []; out.append(("unit",))
        elif t in ("app", "app2"): l.append(o[1]); out.append(("done",))
        elif t == "get": out.append(("val", l[o[1]]) if 0 <= o[1] < len(l) else ("refused",))
        elif t == "set":
            if 0 <= o[1] < len(l): l[o[1]] = o[2]; out.append(("done",))
            else: out.append(("refused",))
        else: out.append(("len", len(l)))
    return out

def arr_check_history(ops, lines, crash):
    exp = arr_oracle(ops)
    rl = arr_renderer(ops)
    for i, o in enumerate(ops):
        if i >= len(lines):
            if crash: return (i, "sanitizer: %s in %s" % (crash["kind"], crash["frame"]))
            return (i, "no output for op %d" % i)
        got, _ = parse_arr_line(o, lines[i])
        if got != exp[i]:
            return (i, "op %d `%s`: expected %s, implementation answered `%s`" % (i, rl[i][:80], short(exp[i]), lines[i][:120]))
    if crash: return (len(ops), "sanitizer: %s in %s" % (crash["kind"], crash["frame"]))
    return None

def coq_arr_case(cid, ops, obs, caps):
    cops = []; cobs = []
    for o, r in zip(ops, obs):
        t = o[0]
        if t == "new": cops.append("ANew (%d)" % o[2])
        elif t in ("app", "app2"): cops.append("AAppend %d" % o[1])
        elif t == "get": cops.append("AGet (%d)" % o[1])
        elif t == "set": cops.append("ASet (%d) %d" % (o[1], o[2]))
        else: cops.append("ALen")
        k = r[0]
        if k == "unit": cobs.append("AUnit")
        elif k == "done": cobs.append("ADone")
        elif k == "refused": cobs.append("ARefused")
        elif k == "val": cobs.append("AVal %d" % r[1])
        elif k == "len": cobs.append("ALength %d" % r[1])
        else: cobs.append("AOob")
    return "ACase %d\n  [%s]\n  [%s]\n  [%s]" % (cid, "; ".join(cops), "; ".join(cobs), "; ".join("(%d)" % c for c in caps))

# ------------------------------------------------------------------ shrinking

def shrink(ops, fails, budget=70):
    """op-list minimisation; the first op (constructor) is kept.  fails(ops) -> bool"""
    cur = list(ops); n = 2
    while len(cur) > 2 and budget > 0:
        chunk = max(1, (len(cur) - 1) // n)
        removed = False
        i = 1
        while i < len(cur) and budget > 0:
            cand = cur[:i] + cur[i + chunk:]
            budget -= 1
            if len(cand) >= 1 and fails(cand):
                cur = cand; removed = True
            else:
                i += chunk
        if not removed:
            if chunk == 1: break
            n *= 2
    return cur

# ------------------------------------------------------------------ main

def fixed_map_histories():
    """boundary histories that are always run (sizes crossing 12/24/48/96 with colliding keys; empty-map iteration)"""
    hs = []
    for kind, ks in (("i32", 4), ("i64", 8), ("str", 8), ("bytes", 3)):
        hs.append([("new", kind, ks, 4), ("iter",), ("size",), ("get", b"\1" * (ks if kind != "str" else 2)),
                   ("opt", b"\1" * (ks if kind != "str" else 2), 7)])
        hs.append([("fp", kind, ks, 4, []), ("iter",), ("size",)])
    keys = [(i).to_bytes(4, "little") for i in range(100)]
    ops = [("new", "i32", 4, 8)]
    for i, k in enumerate(keys):
        ops.append(("set", k, i * 3 + 1))
        if i + 1 in (11, 12, 13, 23, 24, 25, 47, 48, 49, 95, 96, 97):
            ops += [("size",), ("iter",)] + [("get", kk) for kk in keys[:i + 2]]
    hs.append(ops)
    coll = [k for k in ((i).to_bytes(8, "little", signed=False) for i in range(6000)) if fnv1a(k) % 64 == 5][:60]
    ops = [("new", "i64", 8, 4)]
    for i, k in enumerate(coll):
        ops.append(("set", k, i))
        ops.append(("set", coll[i // 2], 1000 + i))
        if i % 6 == 5:
            ops += [("size",), ("iter",)] + [("get", kk) for kk in coll[:i + 2]]
    hs.append(ops)
    hs.append([("fp", "bytes", 3, 1, [(bytes([i % 30, 1, 2]), i % 256) for i in range(60)]), ("size",), ("iter",)] +
              [("get", bytes([i, 1, 2])) for i in range(32)])
    return hs

def main(run):
    work = Work()
    quick = run.tier == "quick"
    n_map = 220 if quick else 2500
    n_arr = 120 if quick else 1200
    run.rule = ("a case is one operation history; maps: kind in {i32,i64,str,bytes} x value size {0,1,4,8,12}, key universe "
                "2..150 keys (40% forced into <=3 residues mod 64 so that chains collide mod 16/32/64), new or from_pairs "
                "(0..49 pairs incl. duplicates, sizes around 12/24/48), then up to 240 set/get/has/opt/size/iter ops "
                "crossing the 12/24/48/96 resize thresholds; arrays: elem size {0,1,4,8,24}, initial capacity {-3..33}, up to "
                "200 append/get/set/len ops crossing capacities 4..128 with indices at -1, len-1, len, len+1, cap-1, cap, "
                "INT32 extremes; distinct = sha256 of the canonical history text")
    run.trusted += ["cshim/map_drv.c, cshim/arr_drv.c (drivers: call protocol of the generated code, exact-size heap buffers)",
                    "clang 14 AddressSanitizer + UndefinedBehaviorSanitizer as the memory-safety observer",
                    "harness/c17.py generators, Python dict/list oracle, output parsing"]
    run.assumptions = ["malloc/calloc/realloc succeed (allocation-failure paths are not exercised nor modelled)",
                       "fewer than 2^30 array elements (int32 capacity*2) and fewer than 2^51 map entries (double load factor)",
                       "string keys: the map stores the caller's char*; the string storage outlives the map (as Ferret strings do)",
                       "iteration is not interleaved with set (an `iterate` is atomic in a history)",
                       "use-after-free / out-of-bounds of the C code itself is observed by ASan on the executed histories only; "
                       "the proved part of memory safety is index-in-range for every modelled heap-block access (partial)"]
    # ---- build from the working tree
    try:
        mexe = build_shim("map_drv", RT_MAP)
        aexe = build_shim("arr_drv", RT_ARR)
    except RuntimeError as e:
        run.violation("build:c17", "runtime sources no longer build with the C17 drivers: %s" % str(e)[-600:],
                      {"kind": "build-failure", "log": str(e)[-3000:]}, no_input=True)
        return
    # ---- proof stage
    ok = run.proof("Props/C17.v")

    # ---- correspondence: maps
    corpus = load_corpus()
    mh = [h for k, h in corpus if k == "map"] + fixed_map_histories()
    while len(mh) < n_map:
        mh.append(gen_map_history(run.rng, run.tier))
    ah = [h for k, h in corpus if k == "arr"]
    while len(ah) < n_arr:
        ah.append(gen_arr_history(run.rng, run.tier))
    found = set()

    def report(kindname, ops, exe, renderer, checker, crash, what):
        def fails(c):
            r = run_driver(exe, [(0, renderer(c))], lambda l: l, env=FAST_ENV)
            lines, cr = r.get(0, ([], None))
            return checker(c, lines, cr) is not None
        small = shrink(ops, fails)
        r = run_driver(exe, [(0, renderer(small))], lambda l: l)
        lines, cr = r.get(0, ([], None))
        bad = checker(small, lines, cr)
        if bad is None:
            small = ops; lines = []; cr = crash
            bad = (0, what)
        if cr:
            key = "asan:%s:%s" % (cr["kind"], cr["frame"])
        else:
            key = "oracle:%s:%s" % (kindname, hashlib.sha256("\n".join(renderer(small)).encode()).hexdigest()[:12])
        if key in found:
            return
        found.add(key)
        run.violation(key, "%s history violates C17: %s" % (kindname, bad[1]),
                      {"kind": kindname, "history": renderer(small), "failing_op_index": bad[0], "what": bad[1],
                       "implementation_output": lines, "sanitizer": (cr or {}).get("report", "")[:1500],
                       "how": "feed `H 0` + the history lines to the driver built from cshim/%s_drv.c" %
                              ("map" if kindname == "map" else "arr")})

    # maps
    res = run_driver(mexe, [(i, map_renderer(h)) for i, h in enumerate(mh)], lambda l: l, env=FAST_ENV)
    mcases = []; mcoq = []; acases = []; acoq = []
    for i, h in enumerate(mh):
        if i not in res:
            run.count("map.not_run_after_%d_crashes" % MAX_CRASHES); continue
        lines, crash = res.get(i, ([], None))
        txt = "\n".join(map_renderer(h))
        run.case(txt, nontrivial=len(h) > 3, sample={"map_history_head": map_renderer(h)[:6], "ops": len(h)} if i in (8, 30) else None)
        run.count("map.kind." + h[0][1]); run.count("map.ctor." + h[0][0])
        for o in h: run.count("map.op." + o[0])
        nset = len({o[1] for o in h if o[0] == "set"} | {k for o in h if o[0] == "fp" for k, _ in o[4]})
        run.count("map.distinct_keys." + ("<=12" if nset <= 12 else "<=24" if nset <= 24 else "<=48" if nset <= 48 else "<=96" if nset <= 96 else ">96"))
        bad = map_check_history(h, lines, crash)
        if bad is not None:
            if len(found) < 2:
                report("map", h, mexe, map_renderer, map_check_history, crash, bad[1])
            continue
        obs = []; cvs = h[0][3]
        for o, line in zip(h, lines):
            if o[0] in ("new", "fp"): cvs = o[3]
            obs.append(parse_map_line(o, line, cvs))
        mcases.append((i, h[0][3], map_renderer(h), lines[:len(h)]))
        if len(h) <= 40 and len(mcoq) < 4:
            mcoq.append((i, coq_map_case(i, h, obs)))
    if "__leak__" in res:
        run.violation("asan:leak:map", "LeakSanitizer reports leaked runtime allocations after all map histories were destroyed",
                      {"kind": "map", "sanitizer": res["__leak__"][1]["report"][:2000]}, no_input=True)

    # arrays
    res = run_driver(aexe, [(i, arr_renderer(h)) for i, h in enumerate(ah)], lambda l: l, env=FAST_ENV)
    nmapfound = len(found)
    for i, h in enumerate(ah):
        if i not in res:
            run.count("arr.not_run_after_%d_crashes" % MAX_CRASHES); continue
        lines, crash = res.get(i, ([], None))
        run.case("\n".join(arr_renderer(h)), nontrivial=len(h) > 2,
                 sample={"array_history_head": arr_renderer(h)[:6], "ops": len(h)} if i == 5 else None)
        for o in h: run.count("arr.op." + o[0])
        napp = sum(1 for o in h if o[0] in ("app", "app2"))
        run.count("arr.appends." + ("<=4" if napp <= 4 else "<=16" if napp <= 16 else "<=64" if napp <= 64 else ">64"))
        bad = arr_check_history(h, lines, crash)
        if bad is not None:
            if len(found) - nmapfound < 2:
                report("array", h, aexe, arr_renderer, arr_check_history, crash, bad[1])
            continue
        acases.append((i, arr_renderer(h), lines[:len(h)]))
        if len(h) <= 45 and len(acoq) < 4:
            pr = [parse_arr_line(o, l) for o, l in zip(h, lines)]
            acoq.append((i, coq_arr_case(i, h, [p[0] for p in pr], [p[1] for p in pr])))
    if "__leak__" in res:
        run.violation("asan:leak:array", "LeakSanitizer reports leaked runtime allocations after all array histories were destroyed",
                      {"kind": "array", "sanitizer": res["__leak__"][1]["report"][:2000]}, no_input=True)

    # ---- the port executes the same histories (OCaml extraction of the Gallina model; compared by the extracted functions)
    r = model_eval(mcases, acases)
    xm, xa = coq_crosscheck(mcoq, acoq)
    run.trusted.append("Coq extraction to OCaml (ExtrOcamlBasic; Z/positive/nat as extracted datatypes) + hooks/c17model/driver.ml "
                       "(parsing only); cross-checked against vm_compute inside Coq on %d small histories" % (len(mcoq) + len(acoq)))
    mbad = sorted(set(r["bad_ids"]) | set(xm)); mord = r["order_ids"]
    abad = sorted(set(r["abad_ids"]) | set(xa)); acap = r["acap_ids"]
    run.extra["map_histories"] = len(mh)
    run.extra["map_histories_compared_with_model"] = len(mcases)
    run.extra["map_iteration_order_differs_from_port"] = len(mord)
    run.extra["array_histories"] = len(ah)
    run.extra["array_histories_compared_with_model"] = len(acases)
    run.extra["array_capacity_differs_from_port"] = len(acap)
    run.extra["histories_crosschecked_in_coq_vm"] = len(mcoq) + len(acoq)
    if mord:
        print("NOTE: C17 map iteration order differs from the port on %d histories (not a property violation)" % len(mord))
    if acap:
        print("NOTE: C17 array capacity growth differs from the port on %d histories (not a property violation)" % len(acap))
    for cid in mbad[:3]:
        run.violation("model:map:%d" % cid, "map model (Models/MapRt.v) and implementation disagree on a history on which the "
                      "implementation satisfies the oracle: the port no longer corresponds to map.c",
                      {"kind": "map", "history": map_renderer(mh[cid]), "correspondence": "MapRt.bad_ids"}, no_input=True)
    for cid in abad[:3]:
        run.violation("model:array:%d" % cid, "array model (Models/ArrayRt.v) and implementation disagree on a history on which "
                      "the implementation satisfies the oracle: the port no longer corresponds to array.c",
                      {"kind": "array", "history": arr_renderer(ah[cid]), "correspondence": "ArrayRt.abad_ids"}, no_input=True)

    if not ok and not run.violations:
        where, log = run.proof_failure
        run.violation("proof:C17:" + where, "Props/C17 no longer checks (%s)" % where,
                      {"theorem_file": "coq/Props/C17.v", "where": where, "log": log}, no_input=True)

EXTRACT_V = """From FV Require Import Models.MapRt Models.ArrayRt.
Require Extraction.
Require Import ExtrOcamlBasic.
Extraction Language OCaml.
Extraction "c17model.ml" bad_ids order_ids abad_ids acap_ids of_le MCase ACase.
"""

def build_model():
    """OCaml extraction of Models/MapRt.v + Models/ArrayRt.v linked with hooks/c17model/driver.ml (cached by content)."""
    srcs = [os.path.join(common.COQ, "Models", "MapRt.v"), os.path.join(common.COQ, "Models", "ArrayRt.v"),
            os.path.join(common.VERIF, "hooks", "c17model", "driver.ml")]
    h = hashlib.sha256(EXTRACT_V.encode())
    for p in srcs:
        h.update(open(p, "rb").read())
    d = os.path.join(common.CACHE, "c17", "m_" + h.hexdigest()[:24])
    out = os.path.join(d, "c17model")
    with common.flock("c17_model"):
        if not os.path.exists(out):
            okm, log = common.coq_make(["Models/MapRt.vo", "Models/ArrayRt.vo"])
            if not okm:
                raise RuntimeError("Models/MapRt.v / ArrayRt.v do not build:\n" + log[-2000:])
            os.makedirs(d, exist_ok=True)
            w = Work("fv_c17x_")
            open(w.path("ex.v"), "w").write(EXTRACT_V)
            shutil.copy(srcs[2], w.path("driver.ml"))
            common.sh(["timeout", "600", "coqc", "-Q", common.COQ, "FV", "ex.v"], cwd=w.dir, check=True)
            common.sh(["timeout", "600", "ocamlfind", "ocamlopt", "-w", "-a", "c17model.mli", "c17model.ml", "driver.ml",
                       "-o", out + ".tmp"], cwd=w.dir, check=True)
            os.rename(out + ".tmp", out)
        os.utime(d)
    return out

def model_eval(mcases, acases):
    """mcases: list of (id, vsize, op lines, result lines); acases: list of (id, op lines, result lines).
    Returns dict name -> id list, computed by the extracted Coq functions."""
    exe = build_model()
    buf = []
    for cid, vs, ops, res in mcases:
        buf.append("M %d %d" % (cid, vs))
        for o, r in zip(ops, res):
            buf.append(o); buf.append(r)
        buf.append(".")
    for cid, ops, res in acases:
        buf.append("A %d" % cid)
        for o, r in zip(ops, res):
            buf.append(o); buf.append(r)
        buf.append(".")
    p = subprocess.run(["/bin/sh", "-c", "ulimit -s unlimited 2>/dev/null; exec \"$0\"", exe], input=("\n".join(buf) + "\n").encode(),
                       stdout=subprocess.PIPE, stderr=subprocess.PIPE, timeout=1200)
    out = p.stdout.decode()
    if p.returncode != 0 or "DONE" not in out:
        raise RuntimeError("extracted model failed: rc=%s %s %s" % (p.returncode, out[-500:], p.stderr.decode()[-1500:]))
    r = {}
    for line in out.splitlines():
        w = line.split()
        if w and w[0] in ("bad_ids", "order_ids", "abad_ids", "acap_ids"):
            r[w[0]] = [int(x) for x in w[1:]]
    return r

def coq_crosscheck(mcoq, acoq):
    """the same comparison evaluated by vm_compute inside Coq on a few small histories (guards the extraction).
    mcoq / acoq: lists of (id, coq text).  Returns (bad map ids, bad array ids)."""
    v = ["From Coq Require Import ZArith List.", "From FV Require Import Models.MapRt Models.ArrayRt.", "Import ListNotations.",
         "Open Scope Z_scope.",
         "Definition mcases : list mcase := [", ";\n".join(t for _, t in mcoq), "].",
         "Definition acases : list acase := [", ";\n".join(t for _, t in acoq), "].",
         "Eval vm_compute in (bad_ids mcases).", "Eval vm_compute in (abad_ids acases)."]
    okc, out = common.coq_eval("c17x_%d" % os.getpid(), "\n".join(v) + "\n")
    ls = parse_two_lists(out)
    if not okc or len(ls) != 2:
        raise RuntimeError("coq evaluation of C17 cases failed:\n" + out[-3000:])
    return ls[0], ls[1]

def load_corpus():
    d = os.path.join(common.VERIF, "corpus", "C17")
    out = []
    if os.path.isdir(d):
        for fn in sorted(os.listdir(d)):
            if fn.endswith(".json"):
                j = json.load(open(os.path.join(d, fn)))
                out.append((j["kind"], [decode_op(o) for o in j["ops"]]))
    return out

def decode_op(o):
    """corpus ops are JSON lists with keys as hex strings"""
    t = o[0]
    if t == "fp": return ("fp", o[1], o[2], o[3], [(unhx(k), v) for k, v in o[4]])
    if t in ("set", "opt") and isinstance(o[1], str): return (t, unhx(o[1]), o[2])
    if t in ("get", "has"): return (t, unhx(o[1]))
    return tuple(o)

def replay(run, path):
    r = json.load(open(path))
    rp = r.get("replay", r)
    print(json.dumps(r, indent=1)[:4000])
    hist = rp.get("history")
    if not hist:
        return 0
    ismap = rp.get("kind") == "map"
    exe = build_shim("map_drv", RT_MAP) if ismap else build_shim("arr_drv", RT_ARR)
    p = subprocess.run([exe], input=("H 0\n" + "\n".join(hist) + "\n").encode(), stdout=subprocess.PIPE,
                       stderr=subprocess.PIPE, env=ASAN_ENV)
    out = p.stdout.decode("latin1").splitlines()
    print("---- implementation output now:")
    print("\n".join(out[-12:]))
    if p.returncode != 0:
        print(p.stderr.decode("latin1")[:1500])
        return 1
    was = rp.get("implementation_output") or []
    return 1 if was and out[1:1 + len(was)] == was else 0
