"""C19 — layout of the source text does not change meaning; diagnostics follow the text.

Proof stage : coq/Props/C19.v (models coq/Models/Trivia.v = Position.Advance + lexer pattern table + Tokenize loop,
              coq/Models/DocComment.v = parser comment handling + hasExternTag).
Tie         : programs (smoke_test corpus, FerretCore generated, tab-indented variants, token-level ill-formed mutants)
              x byte offsets that are token gaps (as lexed by the implementation) x generated trivia.  Through the
              in-process hook hooks/lexgaps:  tokens of both texts, structured diagnostics of both texts.
   (T1) model vs implementation: checksum of (class, start, end) of every token + position of every
        unrecognised-character diagnostic, evaluated by vm_compute in Coq on the same text;
        documentation-comment model vs implementation: predicted @extern flags vs the D0005 diagnostics;
   (A)  spec-side oracle on the implementation's tokens: every token sits at the line/column computed from the text
        (newline -> line+1, tab -> +4 columns, any other rune -> +1), the significant tokens are unchanged, the inserted
        text is trivia in the reformatted program;
   (B)  spec-side oracle on diagnostics: same verdict, same multiset of diagnostics after mapping byte offsets through
        the insertion, every label sits at the line/column computed from the new text;
   (C)  native build + run of a sample: same output.
Gates (open findings, each reproduced by a dedicated small stream): tab quirk of Position.Advance, `@extern` in comments.
"""
import os, json, subprocess, re
import common, core
from common import Work

KCLS = {"comment": 0, "string literal": 1, "byte literal": 2, "numeric literal": 3, "end_of_file": 6}
MASK = (1 << 30) - 1
EXTERN_MSG = "@extern is only allowed in standard library modules"

def cls_of(kind):
    if kind in KCLS:
        return KCLS[kind]
    if kind == "identifier" or kind[0].isalpha() or kind[0] == "_":
        return 4
    return 5

# ------------------------------------------------------------------ hook driver

def hook(reqs, timeout=900):
    """reqs: list of dict(id, file, mode). Returns {id: response dict}; a request whose process died gets panic."""
    exe = common.build_hook("lexgaps")
    im = common.impl()
    env = dict(os.environ, FERRET_LIBS_PATH=im.libs, NO_COLOR="1")
    nproc = min(common.NCPU, 8, max(1, len(reqs) // 40))
    slices = [reqs[i::nproc] for i in range(nproc)]
    def runslice(sl):
        res = {}
        todo = list(sl)
        while todo:
            inp = "".join(json.dumps(r) + "\n" for r in todo).encode()
            try:
                p = subprocess.run([exe], input=inp, stdout=subprocess.PIPE, stderr=subprocess.PIPE, env=env, timeout=timeout, preexec_fn=common.limit_mem())
                out = p.stdout; err = p.stderr.decode("utf8", "replace"); rc = p.returncode
            except subprocess.TimeoutExpired as e:
                out = e.stdout or b""; err = "TIMEOUT"; rc = -9
            done = 0
            for ln in out.decode("utf8", "replace").splitlines():
                try:
                    j = json.loads(ln)
                except ValueError:
                    continue
                res[j["id"]] = j
                done += 1
            if done < len(todo):
                r = todo[done]
                res[r["id"]] = dict(id=r["id"], ok=False, panic="process died rc=%s: %s" % (rc, err[-1500:]))
                todo = todo[done + 1:]
            else:
                todo = []
        return res
    allres = {}
    for r in common.pmap(runslice, slices, workers=nproc):
        allres.update(r)
    return allres

class Texts:
    """Writes byte strings to <work>/<n>/main.fer (one directory each: the directory is the project root)."""
    def __init__(self, work):
        self.work = work; self.n = 0; self.paths = {}
    def path(self, b):
        if b not in self.paths:
            d = self.work.sub("t%d" % self.n); self.n += 1
            f = os.path.join(d, "main.fer")
            with open(f, "wb") as fh:
                fh.write(b)
            self.paths[b] = f
        return self.paths[b]

def run_hook_on(texts, blobs, mode):
    blobs = list(dict.fromkeys(blobs))
    res = hook([dict(id=i, file=texts.path(b), mode=mode) for i, b in enumerate(blobs)])
    return {b: res[i] for i, b in enumerate(blobs)}

# ------------------------------------------------------------------ spec side (independent of the Coq model)

def rune_widths(b):
    """list of (byte length, column width) per rune of VALID utf-8 bytes b"""
    out = []
    for ch in b.decode("utf8"):
        out.append((len(ch.encode("utf8")), 4 if ch == "\t" else 1))
    return out

def spec_pos(text, off):
    """(line, column, index) of byte offset off: newline -> next line col 1, tab -> +4, other rune -> +1"""
    ls = text.rfind(b"\n", 0, off) + 1
    line = 1 + text.count(b"\n", 0, off)
    seg = text[ls:off]
    try:
        col = 1 + sum(w for _, w in rune_widths(seg))
    except UnicodeDecodeError:
        col = None
    return (line, col, off)

def tab_quirk_sites(text, toks):
    """offsets of tabs that are followed, inside the same lexer match, by a byte other than tab/newline — the region
    of open finding F-C19-TAB-QUIRK (Position.Advance does not count that byte)."""
    starts = set(t[4] for t in toks)
    out = []
    i = text.find(b"\t")
    while i >= 0:
        if i + 1 < len(text) and text[i + 1] not in (9, 10) and (i + 1) not in starts:
            out.append(i)
        i = text.find(b"\t", i + 1)
    return out

def sig(toks):
    return [(t[0], t[1]) for t in toks if t[0] != "comment"]

def impl_sum(resp):
    h = 0
    def mix(h, x): return (5 * h + x + 7) & MASK
    for t in resp["toks"]:
        h = mix(h, cls_of(t[0]))
        for x in t[2:8]:
            h = mix(h, x)
    for d in resp.get("diags") or []:
        if d["msg"].startswith("unrecognized character"):
            l = d["labels"][0]
            for x in l[2:5]:
                h = mix(h, x)
    return h

def gaps_of(text, toks):
    """byte offsets at which text may be inserted: not strictly inside a token (comment tokens included)"""
    inside = set()
    for t in toks:
        inside.update(range(t[4] + 1, t[7]))
        if t[0] == "comment" and text[t[4]:t[4] + 2] == b"//":
            inside.add(t[7])          # a line comment is open-ended: its end (before the newline) is still inside it
    return [o for o in range(len(text) + 1) if o not in inside]

# ------------------------------------------------------------------ generators

WORDS = [b"fn", b"let", b"return", b"x", b"TODO", b"1+2", b"a/b", b"\"q\"", b"'", b"\"", b"/*", b"//", b"*", b"@", b"@ extern",
         b"{", b"}", b";", b"\xc3\xa9t\xc3\xa9", b"\xe2\x82\xac", b"\xf0\x9f\x98\x80", b"#", b"if", b"0x1F", b"-1", b"extern", b"\\n", b"\\"]

def gen_comment_text(rng, block):
    n = rng.choice([0, 1, 1, 2, 3, 5])
    parts = []
    for _ in range(n):
        parts.append(rng.choice(WORDS))
        parts.append(rng.choice([b" ", b" ", b"", b"  "]))
    if block and rng.random() < 0.4:
        parts.insert(rng.randrange(len(parts) + 1), rng.choice([b"\n", b"\n * ", b"\r\n", b"\n\n"]))
    t = b"".join(parts)
    if block:
        while b"*/" in t:
            t = t.replace(b"*/", b"* /")
        if t.endswith(b"*") and rng.random() < 0.5:     # "/***/"-like endings are fine: keep some
            pass
    else:
        t = t.replace(b"\n", b" ").replace(b"\r", b" ")
    t = t.replace(b"@extern", b"@ extern")
    return t

def gen_ws(rng, tabs_ok=True):
    n = rng.choice([1, 1, 2, 3, 4])
    alphabet = [b" ", b" ", b"\n", b"\r\n", b"\t" if tabs_ok else b" ", b"\n", b"\x0c", b"\r", b"  "]
    return b"".join(rng.choice(alphabet) for _ in range(n))

def gen_trivia(rng):
    """(bytes, class). The text is lexed as trivia wherever it is inserted at a gap, except directly after `/`."""
    k = rng.random()
    if k < 0.30:
        return gen_ws(rng), "ws"
    if k < 0.50:
        eol = rng.choice([b"\n", b"\n", b"\r\n"])
        return rng.choice([b"", b" ", b"\n"]) + b"//" + gen_comment_text(rng, False) + eol, "line"
    if k < 0.75:
        return b"/*" + gen_comment_text(rng, True) + b"*/", "block"
    if k < 0.85:
        return b"/*" + gen_comment_text(rng, True) + b" /* inner */", "nested-looking"
    parts = []
    for _ in range(rng.randint(2, 3)):
        c = rng.random()
        if c < 0.4:
            parts.append(gen_ws(rng))
        elif c < 0.7:
            parts.append(b"//" + gen_comment_text(rng, False) + b"\n")
        else:
            parts.append(b"/*" + gen_comment_text(rng, True) + b"*/")
    return b"".join(parts), "mixed"

def quirk_gate(text, g, t):
    """Keep an insertion out of the tab-quirk region (F-C19-TAB-QUIRK): returns a repaired trivia."""
    # q1: inside t, a tab may only be followed by tab / newline / a comment start
    out = bytearray()
    for i, b in enumerate(t):
        out.append(b)
        if b == 9 and i + 1 < len(t) and t[i + 1] not in (9, 10, 47):
            out.append(10)
    t = bytes(out)
    # tabs inside comments: replace (a comment is one match)
    t = re.sub(rb"//[^\n\r]*", lambda m: m.group(0).replace(b"\t", b" "), t)
    t = re.sub(rb"(?s)/\*.*?\*/", lambda m: m.group(0).replace(b"\t", b" "), t)
    # q2: t ends with a tab and the following source byte is whitespace other than tab/newline
    if t.endswith(b"\t") and g < len(text) and text[g] in (32, 13, 12):
        t = t + b"\n"
    # q3: the source byte before is a tab and t starts with whitespace other than tab/newline
    if g > 0 and text[g - 1] == 9 and t[:1] in (b" ", b"\r", b"\x0c"):
        t = b"\n" + t
    return t

def fuse_gate(text, g, t):
    """A comment directly after a `/` would not be a comment in the result (`//...`): separate it."""
    if g > 0 and text[g - 1] == 47 and t[:1] == b"/":
        return b" " + t
    return t

def tabbed(src):
    return re.sub(rb"(?m)^((?:    )+)", lambda m: b"\t" * (len(m.group(1)) // 4), src)

def mutants(rng, text, toks, n):
    """token-level ill-formed variants (ASCII)"""
    out = []
    real = [t for t in toks if t[0] not in ("comment", "end_of_file")]
    if not real:
        return out
    for _ in range(n):
        t = rng.choice(real)
        a, b = t[4], t[7]
        k = rng.choice(["del", "undef", "type", "badchar", "dup", "semi", "str"])
        if k == "del":
            m = text[:a] + text[b:]
        elif k == "undef":
            ids = [x for x in real if x[0] == "identifier"]
            x = rng.choice(ids) if ids else t
            m = text[:x[4]] + b"zz_undefined" + text[x[7]:]
        elif k == "type":
            tys = [x for x in real if x[0] == "identifier" and x[1] in ("i8", "i16", "i32", "i64", "u8", "u16", "u32", "u64", "bool", "str", "f64")]
            if not tys:
                continue
            x = rng.choice(tys)
            m = text[:x[4]] + rng.choice([b"bool", b"str", b"i8", b"f32"]) + text[x[7]:]
        elif k == "badchar":
            m = text[:b] + rng.choice([b"#", b"@", b"$", b"`", b" # ", b"~"]) + text[b:]
        elif k == "dup":
            m = text[:b] + b" " + text[a:b] + text[b:]
        elif k == "semi":
            semis = [x for x in real if x[0] == ";"]
            if not semis:
                continue
            x = rng.choice(semis)
            m = text[:x[4]] + text[x[7]:]
        else:
            nums = [x for x in real if x[0] == "numeric literal"]
            if not nums:
                continue
            x = rng.choice(nums)
            m = text[:x[4]] + b"\"s\"" + text[x[7]:]
        if m != text:
            out.append((k, m))
    return out

# ------------------------------------------------------------------ oracles

def check_positions(text, resp):
    """(A) every token and every lexer diagnostic sits where the text says. Returns None or a description."""
    for t in resp["toks"]:
        for (l, c, i) in ((t[2], t[3], t[4]), (t[5], t[6], t[7])):
            e = spec_pos(text, i)
            if e[1] is None:
                continue
            if i > len(text) or (l, c) != e[:2]:
                return "token %r reported at %d:%d (byte %d) but the text puts byte %d at %d:%d" % (t[1][:20], l, c, i, i, e[0], e[1])
    for d in resp.get("diags") or []:
        m = re.match(r"unrecognized character '(.)'$", d["msg"], re.S)
        if m and d["labels"]:
            l = d["labels"][0]
            i = l[4]
            ch = m.group(1).encode("utf8")
            if len(ch) == 1 and (i >= len(text) or text[i:i + 1] != ch):
                return "diagnostic %r points at %d:%d (byte %d) where the text has %r" % (d["msg"], l[2], l[3], i, text[i:i + 1])
            e = spec_pos(text, min(i, len(text)))
            if e[1] is not None and (l[2], l[3]) != e[:2]:
                return "diagnostic %r at %d:%d but byte %d is at %d:%d" % (d["msg"], l[2], l[3], i, e[0], e[1])
    return None

def check_insertion_tokens(s, g, t, r0, r1):
    """(A) significant tokens unchanged and the inserted bytes are trivia in the result."""
    if sig(r0["toks"]) != sig(r1["toks"]):
        a, b = sig(r0["toks"]), sig(r1["toks"])
        k = next((i for i in range(min(len(a), len(b))) if a[i] != b[i]), min(len(a), len(b)))
        return "token sequence changed at token %d: %r -> %r" % (k, a[k:k + 2], b[k:k + 2])
    lo, hi = g, g + len(t)
    for x in r1["toks"]:
        if x[0] == "end_of_file":
            continue
        a, b = x[4], x[7]
        if x[0] == "comment":
            if a < hi and b > lo and not (lo <= a and b <= hi):
                return "comment token %d..%d straddles the inserted text %d..%d" % (a, b, lo, hi)
        elif a < hi and b > lo:
            return "token %r (%d..%d) overlaps the inserted text %d..%d" % (x[1][:20], a, b, lo, hi)
    return None

def canon_diag(d, labels):
    return json.dumps([d["sev"], d["code"], d["msg"], d["help"], d["notes"], labels], sort_keys=True)

LINE_REF = re.compile(r"\bline (\d+)")

def line_ref_variants(txt, L, dl, own=None):
    """A diagnostic text may MENTION a line number ("missing return in case at line 55"); it has to follow the text too.
    L = line of the gap, dl = newlines inserted.  A reference to a line before L stays, after L moves by dl; a reference
    to line L itself is the label's own line when `own` = (old line, new line) says so, otherwise either reading."""
    if dl == 0 or not txt or not LINE_REF.search(txt):
        return [txt]
    outs = [""]
    pos = 0
    for m in LINE_REF.finditer(txt):
        N = int(m.group(1))
        if own is not None and N == own[0]:
            alts = [own[1]]
        elif N < L:
            alts = [N]
        elif N > L:
            alts = [N + dl]
        else:
            alts = [N, N + dl]
        pre = txt[pos:m.start()]
        outs = [o + pre + "line %d" % a for o in outs for a in alts][:8]
        pos = m.end()
    return [o + txt[pos:] for o in outs]

def expected_forms(d, s1, g, n):
    """canonical forms the diagnostic d of the ORIGINAL text may take in the reformatted text s1 (insertion of n bytes
    at byte g): byte offsets after g move by n; a zero-width label exactly at g may be the end of the token before the
    gap (stays) or the start of the token after it (moves); line/column are then what the new text says."""
    forms = [[]]
    L = 1 + s1.count(b"\n", 0, g)
    dl = s1.count(b"\n", g, g + n)
    for l in d["labels"]:
        style, f, so, eo, msg = l[0], l[1], l[4], l[7], l[8]
        if f != "<entry>" or so < 0:
            opts = [l[:8] + [m2] for m2 in line_ref_variants(msg, L, dl)] if f == "<entry>" else [l]
        else:
            def mv(o, after): return o + n if (o > g or (o == g and after)) else o
            cands = []
            if so == g and eo == g:
                cands = [(g, g), (g + n, g + n)]
            else:
                cands = [(mv(so, eo > g), mv(eo, False) if eo == g else mv(eo, True))]
            opts = []
            for (a, b) in cands:
                pa, pb = spec_pos(s1, min(a, len(s1))), spec_pos(s1, min(b, len(s1)))
                for m2 in line_ref_variants(msg, L, dl, own=(l[2], pa[0])):
                    opts.append([style, f, pa[0], pa[1], a, pb[0], pb[1], b, m2])
        forms = [fs + [o] for fs in forms for o in opts][:32]
    heads = [dict(d, msg=a, help=b) for a in line_ref_variants(d["msg"], L, dl) for b in line_ref_variants(d["help"], L, dl)]
    heads = [dict(h, notes=nn) for h in heads
             for nn in ([[v] for v in line_ref_variants(h["notes"][0], L, dl)] if len(h["notes"]) == 1 else [h["notes"]])][:8]
    out = [canon_diag(h, fs) for h in heads for fs in forms[:16]]
    # a help/note text may QUOTE the source (Location.GetText of an expression): the quotation then contains the inserted text
    if d["help"] and g >= 0 and n > 0:
        tt = s1[g:g + n].decode("utf8", "replace")
        h = d["help"]
        for k in range(len(h) + 1):
            d2 = dict(d, help=h[:k] + tt + h[k:])
            out += [canon_diag(d2, fs) for fs in forms[:4]]
    return out

def check_diags(s0, s1, g, n, d0, d1):
    """(B) verdict and diagnostics. Returns None or description."""
    if d0.get("panic") or d1.get("panic"):
        if bool(d0.get("panic")) != bool(d1.get("panic")):
            return "compiler crash only on one of the two texts: %s" % ((d0.get("panic") or d1.get("panic"))[:200])
        return None
    if d0["ok"] != d1["ok"]:
        extra = [x["msg"] for x in (d1.get("diags") or []) if x["sev"] == "error"][:2] + \
                [x["msg"] for x in (d0.get("diags") or []) if x["sev"] == "error"][:2]
        return "verdict changed: %s -> %s (%s)" % ("accepted" if d0["ok"] else "rejected", "accepted" if d1["ok"] else "rejected", "; ".join(extra))
    new = [canon_diag(d, d["labels"]) for d in (d1.get("diags") or [])]
    for d in (d0.get("diags") or []):
        forms = expected_forms(d, s1, g, n)
        hit = next((f for f in forms if f in new), None)
        if hit is None:
            near = [x for x in (d1.get("diags") or []) if x["msg"] == d["msg"]]
            return "diagnostic %r (label %s) has no counterpart at the moved position; same-message diagnostics now at %s" % (
                d["msg"], [l[2:8] for l in d["labels"]], [[l[2:8] for l in x["labels"]] for x in near][:3])
        new.remove(hit)
    if new:
        x = json.loads(new[0])
        return "new diagnostic appeared: %r %s" % (x[2], x[5])
    return None

def check_diag_positions(text, d):
    """every label of a diagnostic of the entry file sits at the line/column of its byte offset"""
    for x in d.get("diags") or []:
        for l in x["labels"]:
            if l[1] != "<entry>" or l[4] < 0:
                continue
            for (ln, c, i) in ((l[2], l[3], l[4]), (l[5], l[6], l[7])):
                if i < 0 or i > len(text):
                    continue
                e = spec_pos(text, i)
                if e[1] is not None and (ln, c) != e[:2]:
                    return "diagnostic %r label at %d:%d (byte %d) but the text puts that byte at %d:%d" % (x["msg"], ln, c, i, e[0], e[1])
    return None

def extern_flags(d, starts):
    hit = set()
    for x in d.get("diags") or []:
        if x["msg"] == EXTERN_MSG and x["labels"]:
            hit.add(x["labels"][0][4])
    return [s in hit for s in starts]

def toplevel_fns(toks):
    depth = 0; out = []
    for t in toks:
        if t[0] in ("{", "(", "["): depth += 1
        elif t[0] in ("}", ")", "]"): depth -= 1
        elif t[0] == "fn" and depth == 0:
            out.append(t[4])
    return out

# ------------------------------------------------------------------ Coq side

def coq_cases(name, bases, cases, doc_cases):
    """bases: {key: bytes}; cases: [(id, basekey, g, t, checksum)]; doc_cases: [(id, bytes, starts, flags)]"""
    v = ["From Coq Require Import ZArith List String.", "From FV Require Import Models.Trivia Models.DocComment.",
         "Import ListNotations.", "Open Scope Z_scope.", "Open Scope string_scope."]
    for k, b in bases.items():
        v.append('Definition s%d : list Z := unhex "%s".' % (k, b.hex()))
    v.append("Definition cases : list (Z * list Z * nat * list Z * Z) := [")
    v.append(";\n".join("(%d, s%d, %d%%nat, %s, %d)" % (i, k, g, 'unhex "%s"' % t.hex() if t else "[]", h) for (i, k, g, t, h) in cases))
    v.append("].")
    v.append("Definition dcases : list (Z * list Z * list Z * list bool) := [")
    v.append(";\n".join("(%d, %s, [%s], [%s])" % (i, 'unhex "%s"' % b.hex(), "; ".join(str(x) for x in st),
                                                 "; ".join(common.coq_bool(x) for x in fl)) for (i, b, st, fl) in doc_cases))
    v.append("].")
    v.append("Eval vm_compute in (List.app (bad_ids cases) (doc_bad_ids dcases)).")
    return common.coq_eval(name, "\n".join(v) + "\n")

# ------------------------------------------------------------------ main

def load_bases(run, work, n_gen):
    bases = []
    sm = os.path.join(common.REPO, "smoke_test")
    fns = sorted(fn for fn in os.listdir(sm) if fn.endswith(".fer"))
    if n_gen < 20:
        fns = sorted(run.rng.sample(fns, min(8, len(fns))))      # quick tier: a seeded subset of the corpus
    for fn in fns:
        bases.append(("smoke:" + fn, open(os.path.join(sm, fn), "rb").read()))
    cdir = os.path.join(common.VERIF, "corpus", "C19")
    if os.path.isdir(cdir):
        for fn in sorted(os.listdir(cdir)):
            if fn.endswith(".fer"):
                bases.append(("corpus:" + fn, open(os.path.join(cdir, fn), "rb").read()))
    for i in range(n_gen):
        g = core.Gen(run.rng, max_stmts=run.rng.choice([6, 12, 20]), max_depth=3)
        bases.append(("gen:%d" % i, core.to_ferret(g.program()).encode()))
    return bases

def report(run, key, what, s, g, t, extra=None):
    rp = {"source": s.decode("utf8", "replace"), "source_bytes": list(s) if len(s) < 400 else None, "offset": g,
          "inserted": t.decode("utf8", "replace"), "inserted_bytes": list(t),
          "reformatted": (s[:g] + t + s[g:]).decode("utf8", "replace")}
    rp.update(extra or {})
    return run.violation(key, what, rp)

TRIVIA_RE = re.compile(rb"(?s)^(?:[ \t\n\r\x0c]+|//[^\n\r]*\r?\n|/\*(?:(?!\*/).)*\*/)*$")
def is_trivia(t):
    return TRIVIA_RE.match(t) is not None

def shrink_insertion(s, g, t, fails):
    """shrink the inserted text (and keep the source): drop bytes of t while the oracle still fails"""
    cur = t
    changed = True
    while changed and len(cur) > 1:
        changed = False
        for i in range(len(cur)):
            c = cur[:i] + cur[i + 1:]
            try:
                if c and is_trivia(c) and fuse_gate(s, g, c) == c and fails(s, g, c):
                    cur = c; changed = True
                    break
            except Exception:
                pass
    return cur

# ------------------------------------------------------------------ exhaustive comment insertion + lookahead coverage

TRAILING_CTX = re.compile(r'checkTrailing\(\s*tokens\.\w+\s*,\s*tokens\.\w+\s*,\s*"([^"]+)"')

def lookahead_sites():
    """Every place where the parser looks further ahead than one token, read from the working tree on every run:
    direct uses of Parser.next(), the contexts of checkTrailing (which calls next()), and isCompositeLiteral (save /
    advance / restore).  Returns (list of 'file:line: code', direct next() uses outside checkTrailing, trailing contexts)."""
    d = os.path.join(common.REPO, "internal", "frontend", "parser")
    sites = []; direct = []; ctxs = []
    for fn in sorted(os.listdir(d)):
        if not fn.endswith(".go") or fn.endswith("_test.go"):
            continue
        infn = None
        for i, ln in enumerate(open(os.path.join(d, fn), encoding="utf8", errors="replace").read().splitlines(), 1):
            m = re.match(r"func \(p \*Parser\) (\w+)\(", ln)
            if m:
                infn = m.group(1)
            hit = False
            if "p.next()" in ln:
                hit = True
                if infn != "checkTrailing":
                    direct.append("%s:%d (%s)" % (fn, i, infn))
            m = TRAILING_CTX.search(ln)
            if m:
                hit = True; ctxs.append(m.group(1))
            if "p.isCompositeLiteral()" in ln or "p.current = savedPos" in ln or "savedPos := p.current" in ln:
                hit = True
            if hit:
                sites.append("%s:%d: %s" % (fn, i, ln.strip()[:110]))
    return sites, direct, sorted(set(ctxs))

# constructs of corpus/C19/lookahead*.fer, keyed by what the coverage rule looks for
KNOWN_DIRECT_NEXT = {"parseCatchClause"}        # `catch e {` : covered by corpus/C19/lookahead.fer and smoke 06/18

def exhaustive(run, texts, quick):
    """Comment insertion at EVERY token gap of the small hand-written programs (corpus/C19 always; the smoke corpus as far
    as the budget allows in the quick tier, all of it in the thorough tier): `/*c*/` directly after every token and
    `//c NL` directly before every token (thorough: both kinds at both ends).  Observables: verdict, diagnostics modulo the
    position shift.  Also the coverage rule for the parser's look-ahead sites."""
    sites, direct, ctxs = lookahead_sites()
    run.extra["parser_lookahead_sites"] = sites
    run.extra["parser_lookahead_constructs"] = {
        "direct next()": direct, "checkTrailing contexts": ctxs,
        "covered by": "corpus/C19/lookahead.fer (catch e {..}, catch {..}, trailing , in fn parameters / fn-type parameters / struct / enum / "
                      "union / composite literal, trailing ; in interface, `else if`, closure, method receiver, match arms), "
                      "corpus/C19/lookahead_t.fer (isCompositeLiteral: {} / number, string, identifier keys)"}
    progs = []
    cdir = os.path.join(common.VERIF, "corpus", "C19")
    for fn in sorted(os.listdir(cdir)):
        if fn.endswith(".fer"):
            progs.append(("corpus:" + fn, open(os.path.join(cdir, fn), "rb").read()))
    sm = os.path.join(common.REPO, "smoke_test")
    sfn = sorted(fn for fn in os.listdir(sm) if fn.endswith(".fer"))
    run.rng.shuffle(sfn)
    smoke = [("smoke:" + fn, open(os.path.join(sm, fn), "rb").read()) for fn in sfn]
    lx = run_hook_on(texts, [b for _, b in progs + smoke], "lex")
    budget = 1500 if quick else 10 ** 9
    chosen = []
    for name, b in progs + smoke:
        r = lx[b]
        if not r.get("toks"):
            continue
        cost = (2 if quick else 4) * len(r["toks"])
        if name.startswith("smoke:") and cost > budget:
            continue
        budget -= cost
        chosen.append((name, b, r["toks"]))
    cases = []
    for name, b, toks in chosen:
        gs = set(gaps_of(b, toks))
        ends = sorted(set(t[7] for t in toks if t[0] != "end_of_file") & gs)
        starts = sorted(set(t[4] for t in toks) & gs)
        plan = [(g, b"/*c*/") for g in ends] + [(g, b"//c\n") for g in starts]
        if not quick:
            plan += [(g, b"//c\n") for g in ends if g not in starts] + [(g, b"/*c*/") for g in starts if g not in ends]
        for g, t in plan:
            cases.append((name, b, g, fuse_gate(b, g, t)))
    news = [b[:g] + t + b[g:] for (_, b, g, t) in cases]
    dg = run_hook_on(texts, [b for _, b, _ in chosen] + news, "diag")
    run.extra["exhaustive_programs"] = [n for n, _, _ in chosen]
    nv = 0
    for (name, b, g, t), s1 in zip(cases, news):
        run.case((b, g, t), nontrivial=True)
        run.count("exhaustive:" + ("block" if t.endswith(b"*/") else "line"))
        w = check_diags(b, s1, g, len(t), dg[b], dg[s1])
        if w and nv < 4:
            nv += 1
            report(run, "diagnostics:%s:%d:%s" % (name, g, t.hex()),
                   "inserting %r at byte %d of %s (directly %s %r): %s" % (
                       t.decode(), g, name, "after" if t.endswith(b"*/") else "before",
                       (b[max(0, g - 12):g] if t.endswith(b"*/") else b[g:g + 12]).decode("utf8", "replace"), w), b, g, t,
                   {"oracle": "diagnostics", "stream": "exhaustive"})
    # coverage rule (fail closed): every look-ahead site of the parser must be exercised by a base program
    alld = [d["msg"] for _, b, _ in chosen for d in (dg[b].get("diags") or [])]
    missing = [c for c in ctxs if not any(m.startswith("trailing") and m.endswith(" in " + c) for m in alld)]
    unknown = [x for x in direct if not any(x.endswith("(%s)" % k) for k in KNOWN_DIRECT_NEXT)]
    if missing or unknown:
        run.violation("lookahead-coverage:" + ",".join(missing + unknown),
                      "the parser has look-ahead sites that no base program of corpus/C19 exercises: trailing-separator contexts %s, "
                      "direct next() uses %s — extend corpus/C19/lookahead.fer" % (missing, unknown),
                      {"sites": sites}, no_input=True)


def _tm(run, label):
    import time
    now = time.time()
    run.extra.setdefault("phase_seconds", {})[label] = round(now - getattr(run, "_t_last", run.t0), 1)
    run._t_last = now

def main(run):
    work = Work()
    texts = Texts(work)
    quick = run.tier == "quick"
    n_gen = 8 if quick else 60
    n_mut = 1 if quick else 3
    n_ins = 5 if quick else 10
    run.rule = ("a case is (program text, byte offset of a token gap, inserted trivia); distinct = hash of the triple; "
                "non-trivial = the insertion is not empty and the program has at least 3 tokens")
    run.trusted += ["hooks/lexgaps/main.go (calls lexer.New(...).Tokenize and the -t pipeline, prints tokens/diagnostics as structure)",
                    "harness/c19.py spec-side oracles (spec_pos: newline/tab=4/rune=1; offset mapping of diagnostics)"]
    run.assumptions = [
        "the inserted text is trivia IN THE RESULT: a comment is never placed directly after a `/` token (it would read `//`), "
        "and programs with an unterminated string / block-comment opener are outside the token-invariance theorem "
        "(C19_slash_fuse_refuted / C19_lone_quote_refuted show both hypotheses are necessary); such insertions are generated only "
        "for the model-vs-implementation comparison",
        "parser proper not ported: trivia-independence of parsing beyond the comment handling is established by the differential tie only",
        "main stream uses valid UTF-8 text; invalid UTF-8 is compared model-vs-implementation only (index drift of Position.Advance is C13's concern)",
        "generator gates: no tab followed inside one lexer match by a non-tab/non-newline byte (F-C19-TAB-QUIRK), no `@extern` in comments (F-C19-EXTERN-DOC)"]
    ok = run.proof("Props/C19.v")
    if not ok:
        where, log = run.proof_failure
        run.extra["proof_failure"] = where

    _tm(run, "proof")
    # ---------------- programs
    bases = load_bases(run, work, n_gen)
    progs = []                      # (name, kind, bytes)
    lex0 = run_hook_on(texts, [b for _, b in bases], "lex")
    for name, b in bases:
        progs.append((name, "base", b))
    for name, b in bases:
        if name.startswith("gen:") and run.rng.random() < 0.5 or name.startswith("smoke:") and run.rng.random() < 0.3:
            tb = tabbed(b)
            if tb != b:
                progs.append((name + ":tabbed", "tabbed", tb))
        r = lex0[b]
        if r.get("toks"):
            for (k, m) in mutants(run.rng, b, r["toks"], n_mut):
                progs.append((name + ":mut-" + k, "mutant", m))
    # dedupe
    seen = set(); progs = [p for p in progs if not (p[2] in seen or seen.add(p[2]))]
    lexp = run_hook_on(texts, [p[2] for p in progs], "lex")

    # ---------------- insertions
    cases = []          # dict(name, kind, s, g, t, tcls)
    for (name, kind, s) in progs:
        r = lexp[s]
        if r.get("panic") or not r.get("toks"):
            run.violation("lexer-crash:" + name, "lexer crashed on %s: %s" % (name, (r.get("panic") or "")[:200]),
                          {"source": s.decode("utf8", "replace")})
            continue
        gs = gaps_of(s, r["toks"])
        tokb = sorted(set([t[4] for t in r["toks"]] + [t[7] for t in r["toks"]]))
        for _ in range(n_ins):
            # prefer offsets at token boundaries (adjacent tokens included), sometimes inside whitespace runs
            g = run.rng.choice(tokb) if run.rng.random() < 0.7 else run.rng.choice(gs)
            if g not in gs:
                continue
            t, tc = gen_trivia(run.rng)
            t = fuse_gate(s, g, quirk_gate(s, g, t))
            assert is_trivia(t), t
            cases.append(dict(name=name, kind=kind, s=s, g=g, t=t, tcls=tc))
    news = [c["s"][:c["g"]] + c["t"] + c["s"][c["g"]:] for c in cases]
    lexn = run_hook_on(texts, news, "lex")
    diag_all = run_hook_on(texts, [p[2] for p in progs] + news, "diag")

    _tm(run, "hook-runs")
    # ---------------- (A)/(B) on the implementation
    def oracle(s, g, t, r0=None, r1=None, d0=None, d1=None):
        s1 = s[:g] + t + s[g:]
        r0 = r0 or run_hook_on(texts, [s], "lex")[s]; r1 = r1 or run_hook_on(texts, [s1], "lex")[s1]
        if r1.get("panic") or r0.get("panic"):
            return "lexer-crash", "lexer crashed: %s" % (r1.get("panic") or r0.get("panic"))[:300]
        w = check_insertion_tokens(s, g, t, r0, r1)
        if w: return "tokens", w
        if not tab_quirk_sites(s1, r1["toks"]):
            w = check_positions(s1, r1)
            if w: return "positions", w
        d0 = d0 or run_hook_on(texts, [s], "diag")[s]; d1 = d1 or run_hook_on(texts, [s1], "diag")[s1]
        w = check_diags(s, s1, g, len(t), d0, d1)
        if w: return "diagnostics", w
        if not tab_quirk_sites(s1, r1["toks"]):
            w = check_diag_positions(s1, d1)
            if w: return "diag-positions", w
        return None

    base_checked = set()
    nviol = 0
    for c, s1 in zip(cases, news):
        s, g, t = c["s"], c["g"], c["t"]
        r0, r1, d0, d1 = lexp[s], lexn[s1], diag_all[s], diag_all[s1]
        run.case((s, g, t), nontrivial=len(t) > 0 and len(r0["toks"]) >= 3,
                 sample={"program": c["name"], "offset": g, "inserted": t.decode("utf8", "replace"),
                         "verdict": "accepted" if d1.get("ok") else "rejected", "diagnostics": len(d1.get("diags") or [])})
        run.count("program:" + c["kind"]); run.count("trivia:" + c["tcls"])
        run.count("verdict:" + ("accepted" if d0.get("ok") else "rejected"))
        if b"\t" in t: run.count("trivia-has-tab")
        if b"\r" in t: run.count("trivia-has-CR")
        if any(x >= 128 for x in t): run.count("trivia-has-multibyte")
        if s not in base_checked:
            base_checked.add(s)
            if not tab_quirk_sites(s, r0["toks"]):
                w = check_positions(s, r0) or check_diag_positions(s, d0)
                if w and nviol < 6:
                    nviol += 1
                    key = "badchar-pos" if "unrecognized character" in w else "base-positions:" + c["name"]
                    run.violation(key, "positions do not follow the text in %s: %s" % (c["name"], w),
                                  {"source": s.decode("utf8", "replace"), "what": w})
        res = oracle(s, g, t, r0, r1, d0, d1)
        if res and nviol < 6:
            nviol += 1
            kind, w = res
            t2 = shrink_insertion(s, g, t, lambda a, b, cc: (oracle(a, b, cc) or ("", ""))[0] == kind)
            res2 = oracle(s, g, t2) or res
            key = "badchar-pos" if "unrecognized character" in res2[1] else "%s:%s:%d:%s" % (kind, c["name"], g, t2.hex())
            report(run, key, "inserting %r at byte %d of %s: %s" % (t2.decode("utf8", "replace"), g, c["name"], res2[1]), s, g, t2,
                   {"oracle": kind, "inserted_before_shrinking": t.decode("utf8", "replace"), "first_failure": w})

    _tm(run, "oracles")
    # ---------------- (C) native output on a sample of accepted programs
    acc = [(c, s1) for c, s1 in zip(cases, news) if diag_all[c["s"]].get("ok") and c["kind"] in ("base", "tabbed")
           and b"fn main" in c["s"] and not c["name"].startswith("smoke:17") and not c["name"].startswith("smoke:18")]
    run.rng.shuffle(acc)
    acc = acc[: (4 if quick else 40)]
    reqs = []; exes = {}
    for i, (c, s1) in enumerate(acc):
        for j, b in enumerate((c["s"], s1)):
            f = texts.path(b); exe = f[:-8] + "prog"
            exes[(i, j)] = exe
            reqs.append(dict(id=2 * i + j, file=f, mode="native", out=exe))
    if reqs:
        br = common.batch_compile(reqs)
        for i, (c, s1) in enumerate(acc):
            outs = []
            for j in (0, 1):
                r = br[2 * i + j]
                if r["ok"] and os.path.exists(exes[(i, j)]):
                    outs.append(common.run_exe(exes[(i, j)], timeout=20)[:2])
                else:
                    outs.append(("build failed", r["out"][-300:] + (r["panic"] or "")[:300]))
            run.count("native-compared")
            if outs[0] != outs[1]:
                # confirm with the real CLI, sequentially (a transient assembler/linker failure under load is not a verdict)
                outs = []
                for j, b in enumerate((c["s"], s1)):
                    r = common.compile_and_run(b.decode("utf8"), work, "confirm_%d_%d" % (i, j))
                    outs.append((r.get("rc"), r.get("out")) if r["accepted"] and r.get("exe_exists") else ("build failed", r["cerr"][-300:]))
                run.count("native-reconfirmed")
            if outs[0] != outs[1] and (outs[0][0] != "build failed" or outs[1][0] != "build failed"):
                report(run, "output:%s:%d:%s" % (c["name"], c["g"], c["t"].hex()),
                       "program output changed by inserting %r at byte %d of %s: %r -> %r" % (
                           c["t"].decode("utf8", "replace"), c["g"], c["name"], outs[0], outs[1]), c["s"], c["g"], c["t"])

    _tm(run, "native")
    exhaustive(run, texts, quick)
    _tm(run, "exhaustive")
    # ---------------- dedicated streams for the open findings and the necessity witnesses
    special(run, texts, progs, lexp)
    _tm(run, "special")
    import c19num                                   # number / byte-literal spellings x trivia kinds (C19_token_boundary_all_kinds)
    c19num.stage(run, texts)
    _tm(run, "num-boundary")

    # ---------------- (T1) model vs implementation in Coq
    tie_model(run, texts, progs, lexp, cases, news, lexn, quick)
    _tm(run, "model-tie")

    if not ok:
        where, log = run.proof_failure
        if not run.violations:
            run.violation("proof:C19:" + where, "Props/C19 no longer checks (%s)" % where,
                          {"theorem_file": "coq/Props/C19.v", "where": where, "log": log}, no_input=True)

FN_PROG = b'import "std/io";\n\nfn helper(a: i32) -> i32 {\n    return a + 1;\n}\n\nfn main() {\n    io::Println(helper(2));\n}\n'

def special(run, texts, progs, lexp):
    """Dedicated inputs inside the gated regions: they must reproduce the open findings (KNOWN-FINDING) exactly."""
    # --- tab quirk: a tab followed by a space inside one whitespace match
    s = FN_PROG
    g = s.index(b"return")
    quirk = []
    for t in (b"\t ", b" \t ", b"/*\tx*/"):
        s1 = s[:g] + t + s[g:]
        r1 = run_hook_on(texts, [s1], "lex")[s1]
        w = check_positions(s1, r1)
        run.count("stream:tab-quirk")
        if w:
            quirk.append((t, w))
    if quirk:
        t, w = quirk[0]
        report(run, "tab-quirk", "column does not move with the inserted text: inserting %r before `return`: %s" % (t.decode(), w), s, g, t)
    # --- @extern carried by a comment
    ext = []
    g = s.index(b"fn helper")
    for t in (b"// @extern\n", b"/* @extern */ ", b"/* @extern */\n", b"// x\n// @extern\n"):
        s1 = s[:g] + t + s[g:]
        d0, d1 = run_hook_on(texts, [s, s1], "diag")[s], run_hook_on(texts, [s1], "diag")[s1]
        run.count("stream:extern")
        w = check_diags(s, s1, g, len(t), d0, d1)
        if w:
            ext.append((s, g, t, w))
    s2 = s[:g] + b"// @extern\n" + s[g:]
    g2 = g + len(b"// @extern\n")
    d0, d1 = run_hook_on(texts, [s2], "diag")[s2], None
    s3 = s2[:g2] + b"\n" + s2[g2:]
    d1 = run_hook_on(texts, [s3], "diag")[s3]
    w = check_diags(s2, s3, g2, 1, d0, d1)
    if w:
        ext.append((s2, g2, b"\n", w))
    if ext:
        a, b, t, w = ext[0]
        report(run, "extern-doc-comment", "a comment changes the meaning: inserting %r above `fn helper`: %s" % (t.decode(), w), a, b, t,
               {"all": [[x[2].decode(), x[3]] for x in ext]})
    run.extra["gates"] = {"tab-quirk": "F-C19-TAB-QUIRK: generated insertions never put a non-tab/non-newline byte after a tab inside one lexer match; %d/3 dedicated inputs reproduce it" % len(quirk),
                          "extern-doc-comment": "F-C19-EXTERN-DOC: generated comments never contain `@extern`; %d/5 dedicated inputs reproduce it" % len(ext)}

def tie_model(run, texts, progs, lexp, cases, news, lexn, quick):
    bases = {}; keyof = {}
    for i, (_, _, s) in enumerate(progs):
        bases[i] = s; keyof[s] = i
    cc = []; meta = {}
    cid = 0
    for (_, _, s) in progs:
        r = lexp[s]
        if r.get("toks"):
            cc.append((cid, keyof[s], 0, b"", impl_sum(r))); meta[cid] = (s, 0, b""); cid += 1
    for c, s1 in zip(cases, news):
        r = lexn[s1]
        if r.get("toks"):
            cc.append((cid, keyof[c["s"]], c["g"], c["t"], impl_sum(r))); meta[cid] = (c["s"], c["g"], c["t"]); cid += 1
    # malformed / boundary stream: compared model-vs-implementation only
    mal = [b"a\tb", b"a\t b", b"\t\tx \t y", b"x = \"a\tb\" + 'c';", b"a /* \t */ b", b"a//*c*/ b\nd", b"a / /*c*/ b", b"let s = \"abc;\n/* \" */ x",
           b"'\\x41' '\\n' '\\'' 'a' '' ' ' '\\", b"0x1F 0xZ 0b102 0o78 1_000 1__0 1_ 1.5e+3 1.e5 1e+ 2.5.6 -3 - 4 x-1 --1", b"a\r\nb\rc\x0cd",
           b"\xc3\xa9 = 1; // \xe2\x82\xac\n\"\xf0\x9f\x98\x80\" z", b"// \xff\xfe bad\nx", b"\"\xc3\" y z", b"\xe2\x82\xac; x", b"a /* unterminated\nb",
           b"a \"unterminated\nb", b"&' & && | || ^ ^= ** **= * *= ... ..= .. . ?? ? :: := : => = == != ! -> -- - -= ++ + += <= < >= > % %= / /=",
           b"", b"\n", b"/**/", b"/***/x", b"/*/ x */y", b"//\n", b"//", b"x//y", b"x/*y", b"@#$`~\\"]
    for i in range(12 if quick else 200):
        n = run.rng.randint(1, 24)
        mal.append(bytes(run.rng.choice(b" \t\n\r/*\"'\\ax1_.e-+=&|<>:;#\xc3\xa9\xe2\x82\xac\xff0xb") for _ in range(n)))
    lm = run_hook_on(texts, mal, "lex")
    k0 = len(bases)
    for j, b in enumerate(mal):
        r = lm[b]
        run.count("stream:malformed")
        if r.get("panic"):
            run.count("malformed-lexer-panic")      # totality is C13's property; not compared
            continue
        if any(x >= 128 for x in b):
            # invalid UTF-8 and non-ASCII bytes outside strings/comments: how far the cursor moves there is C13's
            # concern (fixes/C13-lexer-byte-advance.patch changes it); compared only where both behaviours agree
            try:
                b.decode("utf8"); valid = True
            except UnicodeDecodeError:
                valid = False
            if not valid or any(d["msg"].startswith("unrecognized character") and not d["msg"].isascii() for d in r.get("diags") or []):
                run.count("malformed-skipped-nonascii")
                continue
        bases[k0 + j] = b
        cc.append((cid, k0 + j, 0, b"", impl_sum(r))); meta[cid] = (b, 0, b""); cid += 1
    # doc-comment model: predicted @extern flags vs D0005 diagnostics
    dcases = []; dmeta = {}
    s = FN_PROG
    g = s.index(b"fn helper")
    variants = [b"// @extern\n", b"// @extern\n\n", b"/* @extern */ ", b"/* @extern */\n", b"// x\n// @extern\n", b"// @extern\n// x\n",
                b"// @extern\n\n// x\n", b"/* a\n@extern\nb */\n", b"//@extern\n", b"// @ extern\n", b"// @externs\n", b"/* @extern */\n\n\n"]
    dsrc = [s[:g] + v + s[g:] for v in variants]
    gm = s.index(b"fn main")
    dsrc += [s[:gm - 1] + b" // @extern\n" + s[gm:], s[:gm - 2] + b" // @extern\n" + s[gm - 1:], s[:gm] + b"// @extern\n" + s[gm:],
             s[:g + 3] + b"/* @extern */" + s[g + 3:], s + b"// @extern\n", b"// @extern\n" + s]
    for (_, kind, b) in progs[:40]:
        if kind == "base" and b.count(b"\nfn ") >= 1 and run.rng.random() < 0.5:
            o = b.index(b"\nfn ") + 1
            dsrc.append(b[:o] + run.rng.choice(variants) + b[o:])
    dl = run_hook_on(texts, dsrc, "lex"); dd = run_hook_on(texts, dsrc, "diag")
    for b in dsrc:
        if dl[b].get("toks") and not dd[b].get("panic"):
            st = toplevel_fns(dl[b]["toks"])
            dcases.append((cid, b, st, extern_flags(dd[b], st))); dmeta[cid] = b; cid += 1
            run.count("stream:doc-model")
    bad = []
    shard = 400
    for i in range(0, max(1, len(cc)), shard):
        part = cc[i:i + shard]
        used = {k: bases[k] for k in sorted(set(x[1] for x in part))}
        okc, out = coq_cases("C19_%d" % (i // shard), used, part, dcases if i == 0 else [])
        ids = common.parse_bad_ids(out) if okc else None
        if ids is None:
            run.violation("coq-eval:C19", "the correspondence file did not evaluate: %s" % out[-600:], {"log": out[-3000:]}, no_input=True)
            return
        bad += ids
    run.extra["model_cases"] = len(cc); run.extra["doc_model_cases"] = len(dcases)
    for i in bad[:4]:
        if i in meta:
            s, g, t = meta[i]
            s1 = s[:g] + t + s[g:]
            r = run_hook_on(texts, [s1], "lex")[s1]
            w = check_positions(s1, r) if not tab_quirk_sites(s1, r["toks"]) else None
            key = "badchar-pos" if (w and "unrecognized character" in w) else "model-lex:%s" % s1.hex()[:80]
            report(run, key, "lexer model and implementation disagree on the tokens/positions of a text%s" % (": " + w if w else
                   " (no spec-side failure on this input: the port coq/Models/Trivia.v no longer describes tokenizer.go/positions.go)"),
                   s, g, t, {"impl_tokens": r["toks"][:60], "impl_lexdiags": r.get("diags")})
        else:
            b = dmeta[i]
            report(run, "model-doc:%s" % b.hex()[:80], "documentation-comment model and implementation disagree on which fn is flagged @extern "
                   "(coq/Models/DocComment.v no longer describes parser.go/collector.go)", b, 0, b"",
                   {"observed": extern_flags(dd[b], toplevel_fns(dl[b]["toks"]))})

def replay(run, path):
    r = json.load(open(path))
    rp = r["replay"]
    print(json.dumps({k: r[k] for k in ("property", "key", "what")}, indent=1))
    if "source" in rp and "inserted_bytes" in rp:
        work = Work(); texts = Texts(work)
        s = bytes(rp["source_bytes"]) if rp.get("source_bytes") else rp["source"].encode()
        t = bytes(rp["inserted_bytes"]); g = rp["offset"]
        s1 = s[:g] + t + s[g:]
        for name, b in (("original", s), ("reformatted", s1)):
            lx = run_hook_on(texts, [b], "lex")[b]; dg = run_hook_on(texts, [b], "diag")[b]
            print("---- %s\n%s" % (name, b.decode("utf8", "replace")))
            print("tokens:", [(x[1], x[2], x[3]) for x in lx.get("toks", [])][:80])
            print("lexer diagnostics:", [(d["msg"], d["labels"][0][2:5]) for d in lx.get("diags") or []])
            print("verdict:", "accepted" if dg.get("ok") else "rejected")
            for d in dg.get("diags") or []:
                print("  %s[%s] %s %s" % (d["sev"], d["code"], d["msg"], [l[2:4] for l in d["labels"]]))
    return 0
