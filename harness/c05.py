"""C05 — a non-void function always returns a value from a return statement.

Proof stage : coq/Props/C05.v (soundness of the ported CFG analysis w.r.t. a path semantics over abstract guards).
Tie stage   : generated bodies (nested if / else-if / else, match with and without `_`, while (true) with break /
              continue, for, early returns, bare `return;`, code after a terminator) in the three positions
              (function, method, function literal); the compiler's diagnostics (in-process `batch` hook) are compared
              with Models/Returns.v `check_body` evaluated by vm_compute inside Coq.
Oracle      : every accepted body is compiled natively (several functions per program) and called on argument
              values that enumerate the guard outcomes; each printed value must be one of the body's `return`
              constants (property itself) and equal to the value computed by the reference interpreter below.
Search      : a disagreement is shrunk at AST level; a concrete argument on which the accepted body falls off its end
              is looked for with the interpreter and shown on the executable.
"""
import os, json, hashlib, re
import common
from common import Work

POSITIONS = ["func", "method", "funclit"]
PCTOR = {"func": "PFunc", "method": "PMethod", "funclit": "PFuncLit"}
RET_BASE = 7000
NBITS = 10                     # guards read bits 0..NBITS-1 of the argument

# ------------------------------------------------------------------ AST
# stmt:  ('simple',) | ('ret', has_value) | ('break',) | ('continue',)
#        | ('if', guard, then, els)        els: None | ('else', block) | ('elif', ifstmt)
#        | ('while', lit_true, lid, bit, body) | ('for', lid, bit, body)
#        | ('match', bit, [(is_default, block), ...]) | ('block', block)
# guard: ('bit', j) | ('cnt', lid, c) | ('done', lid)

class Gen:
    def __init__(self, rng, static_only, maxdepth):
        self.rng = rng; self.static = static_only; self.maxdepth = maxdepth
        self.nloop = 0; self.nbit = 0

    def bit(self, width=1):
        j = self.nbit % NBITS
        if j + width > NBITS: j = 0
        self.nbit = j + width
        return j

    def guard(self, loops):
        if loops and self.rng.random() < 0.35:
            return ('cnt', self.rng.choice(loops), self.rng.randrange(0, 2))
        return ('bit', self.bit())

    def block(self, depth, loops, term):
        r = self.rng
        out = []
        for _ in range(r.choice([0, 0, 1, 1, 2])):
            out.append(self.stmt(depth, loops, False))
        if term:
            out.append(self.stmt(depth, loops, True))
        elif not out or r.random() < 0.3:
            out.append(('simple',))
        if self.static and r.random() < 0.08:            # code after the end (unreachable when the block terminates)
            out.append(('simple',))
        return out

    def terminal_leaf(self, loops):
        r = self.rng
        if loops and r.random() < 0.3:
            return ('break',) if r.random() < 0.5 else ('continue',)
        if self.static and r.random() < 0.06:
            return ('ret', False)
        if self.static and not loops and r.random() < 0.04:
            return ('break',) if r.random() < 0.5 else ('continue',)
        return ('ret', True)

    def ifchain(self, depth, loops, term, n):
        """term: every branch terminates (and there is a final else); otherwise some branch falls through or is absent"""
        r = self.rng
        g = self.guard(loops)
        tt = term or r.random() < 0.5
        thn = self.block(depth + 1, loops, tt)
        if n > 1:
            els = ('elif', self.ifchain(depth, loops, term or (not tt and r.random() < 0.5), n - 1))
        elif term or (not tt and r.random() < 0.5):
            els = ('else', self.block(depth + 1, loops, term or r.random() < 0.5))
        elif tt or r.random() < 0.5:
            els = None
        else:
            els = ('else', self.block(depth + 1, loops, False))
        return ('if', g, thn, els)

    def loop(self, depth, loops, term):
        r = self.rng
        self.nloop += 1; lid = self.nloop
        if term or r.random() < 0.3:
            # while true: falls through only by break
            b = self.bit(2)
            inner = self.block(depth + 1, loops + [lid], r.random() < 0.3)
            if self.static and r.random() < 0.25:
                body = inner                                    # possibly no escape at all
            else:
                esc = ('ret', True) if term else ('break',)
                body = [('if', ('done', lid), [esc], None)] + inner
            return ('while', True, lid, b, body)
        b = self.bit(2)
        body = self.block(depth + 1, loops + [lid], r.random() < 0.4)
        c = r.random()
        if c < 0.25:
            # constant-counted loop: counter initialised from a literal and advanced by a plain assignment
            # (`let k: i32 = C; while k > 0 { k = k - 1; ... }`) — the shape on which stale constant propagation could
            # make the condition look constant; encoded as bit = 100 + C
            return ('while', False, lid, 100 + r.randint(1, 3), body)
        if c < 0.6:
            return ('while', False, lid, b, body)
        return ('for', lid, b, body)

    def stmt(self, depth, loops, term):
        r = self.rng
        if depth >= self.maxdepth:
            return self.terminal_leaf(loops) if term else ('simple',)
        k = r.random()
        if term:
            if k < 0.25: return self.terminal_leaf(loops)
            if k < 0.55: return self.ifchain(depth, loops, True, r.choice([1, 1, 2, 3]))
            if k < 0.80:
                n = r.choice([1, 2, 3])
                arms = [(False, self.block(depth + 1, loops, True)) for _ in range(n)]
                if r.random() < 0.6:
                    # the `_` arm stands last or (a third of the time) before value arms: those are still dispatched to by value
                    # (seed C05e: arms written after `_` were not analysed)
                    arms.insert(len(arms) if r.random() < 0.65 else r.randrange(len(arms)), (True, self.block(depth + 1, loops, True)))
                return ('match', self.bit(2), arms)
            if k < 0.93: return self.loop(depth, loops, True)
            return ('block', self.block(depth + 1, loops, True))
        if k < 0.2: return ('simple',)
        if k < 0.5: return self.ifchain(depth, loops, False, r.choice([1, 1, 2]))
        if k < 0.7:
            n = r.choice([1, 2, 3])
            arms = [(False, self.block(depth + 1, loops, r.random() < 0.5)) for _ in range(n)]
            if r.random() < 0.5:
                arms.insert(len(arms) if r.random() < 0.65 else r.randrange(len(arms)), (True, self.block(depth + 1, loops, False)))
            return ('match', self.bit(2), arms)
        if k < 0.93: return self.loop(depth, loops, False)
        return ('block', self.block(depth + 1, loops, False))

# --- near-miss mutations: turn a body whose paths all return into one that just misses (and back)
def _paths(node, path, out):
    """enumerate (path, stmt) of all statements; path = list of accessors"""
    if isinstance(node, list):
        for i, s in enumerate(node):
            out.append((path + [i], s))
            _paths_stmt(s, path + [i], out)

def _paths_stmt(s, path, out):
    k = s[0]
    if k == 'if':
        _paths(s[2], path + [2], out)
        e = s[3]
        if e is not None:
            if e[0] == 'else': _paths(e[1], path + [3, 1], out)
            else:
                out.append((path + [3, 1], e[1])); _paths_stmt(e[1], path + [3, 1], out)
    elif k == 'while': _paths(s[4], path + [4], out)
    elif k == 'for': _paths(s[3], path + [3], out)
    elif k == 'match':
        for i, (d, b) in enumerate(s[2]): _paths(b, path + [2, i, 1], out)
    elif k == 'block': _paths(s[1], path + [1], out)

def _get(root, path):
    for p in path: root = root[p]
    return root

def _set(root, path, val):
    """functional update of nested tuples/lists"""
    if not path: return val
    p = path[0]
    if isinstance(root, list):
        c = list(root); c[p] = _set(root[p], path[1:], val); return c
    c = list(root); c[p] = _set(root[p], path[1:], val); return tuple(c)

def near_miss(body, rng, static):
    out = []; _paths(body, [], out)
    cands = []
    for path, s in out:
        if s[0] == 'ret' and s[1]: cands.append(('drop_ret', path))
        if s[0] == 'if' and s[3] is not None and s[3][0] == 'else': cands.append(('drop_else', path))
        if s[0] == 'match' and any(d for d, _ in s[2]): cands.append(('drop_default', path))
        if s[0] == 'match' and not any(d for d, _ in s[2]): cands.append(('add_default', path))
        if s[0] == 'while' and s[1] and static: cands.append(('unlit', path))
    if not cands: return body
    kind, path = rng.choice(cands)
    s = _get(body, path)
    if kind == 'drop_ret': new = ('simple',)
    elif kind == 'drop_else': new = (s[0], s[1], s[2], None)
    elif kind == 'drop_default': new = (s[0], s[1], [a for a in s[2] if not a[0]])
    elif kind == 'add_default': new = (s[0], s[1], list(s[2]) + [(True, [('ret', True)])])
    else: new = ('while', False) + tuple(s[2:])
    if kind == 'drop_default' and not new[2]: return body
    return _set(body, path, new)

MAXSTMTS = 40

def gen_body(rng, static, maxdepth):
    while True:
        g = Gen(rng, static, maxdepth)
        term = rng.random() < 0.8
        body = g.block(0, [], term)
        if stats(body)[1] <= MAXSTMTS: break
    if rng.random() < 0.4:
        body = near_miss(body, rng, static)
    return body

# ------------------------------------------------------------------ systematic family: arm-exit combinations inside loops
# For every loop kind x nesting depth 1-3 x branching form, the arms of an if/else, an else-if chain or a match leave by
# return / break / continue / fall-through; two thirds of the bodies are forced to "every arm exits and some arm breaks",
# i.e. the loop is left only through a `break` sitting in an all-exiting conditional.  With nothing (or only a simple
# statement) after the loop such a body must be rejected; with a trailing return it must be accepted and is executed.
FAM_LOOPS = ["while_true", "while_cond", "while_const", "for"]
FAM_FORMS = ["if_else", "else_if", "match_default", "match_nodefault"]
FAM_TRAIL = ["none", "simple", "return"]
FAM_EXITS = ["return", "break", "continue", "fall"]
# `while true` twice: it is the only loop kind that can be left through `break` alone
FAM_COMBOS = [(lk, dep, form) for dep in (1, 2, 3) for form in FAM_FORMS for lk in FAM_LOOPS + ["while_true"]]

def family_body(rng, idx):
    """returns (body, tag dict)"""
    lk, dep, form = FAM_COMBOS[idx % len(FAM_COMBOS)]
    trail = FAM_TRAIL[(idx // len(FAM_COMBOS) + idx) % 3]
    g = Gen(rng, False, 5)
    g.nloop += 1; lid = g.nloop
    narms = {"if_else": 2, "else_if": rng.choice([3, 4]), "match_default": rng.choice([2, 3, 4]),
             "match_nodefault": rng.choice([1, 2, 3])}[form]
    if idx % 3 != 2:
        # every arm exits, at least one by break
        exits = [rng.choice(["return", "break", "continue"]) for _ in range(narms)]
        exits[rng.randrange(narms)] = "break"
    else:
        exits = [rng.choice(FAM_EXITS) for _ in range(narms)]
    def arm(e):
        pre = [('simple',)] if rng.random() < 0.4 else []
        if e == "return": return pre + [('ret', True)]
        if e == "break": return pre + [('break',)]
        if e == "continue": return pre + [('continue',)]
        return pre or [('simple',)]
    def guard():
        return ('cnt', lid, rng.randrange(0, 2)) if rng.random() < 0.4 else ('bit', g.bit())
    if form == "if_else":
        br = ('if', guard(), arm(exits[0]), ('else', arm(exits[1])))
    elif form == "else_if":
        br = ('if', guard(), arm(exits[-2]), ('else', arm(exits[-1])))
        for e in reversed(exits[:-2]):
            br = ('if', guard(), arm(e), ('elif', br))
    else:
        arms = [(False, arm(e)) for e in exits]
        if form == "match_default":
            arms[-1] = (True, arms[-1][1])
        br = ('match', g.bit(2), arms)
    inner = [br]
    for _ in range(dep - 1):                     # further nesting between the loop and the conditional
        w = rng.choice(["block", "if", "if_else_ret", "match_arm"])
        if w == "block": inner = [('block', inner)]
        elif w == "if": inner = [('if', ('bit', g.bit()), inner, None)]
        elif w == "if_else_ret": inner = [('if', ('bit', g.bit()), inner, ('else', [('ret', True)]))]
        else: inner = [('match', g.bit(2), [(False, inner), (True, [('ret', True)])])]
    if rng.random() < 0.3: inner = [('simple',)] + inner
    if lk == "while_true":
        loop = ('while', True, lid, g.bit(2), [('if', ('done', lid), [('ret', True)], None)] + inner)
    elif lk == "while_cond":
        loop = ('while', False, lid, g.bit(2), inner)
    elif lk == "while_const":
        loop = ('while', False, lid, 100 + rng.randint(1, 3), inner)
    else:
        loop = ('for', lid, g.bit(2), inner)
    body = ([('simple',)] if rng.random() < 0.3 else []) + [loop]
    if trail == "simple": body.append(('simple',))
    elif trail == "return": body.append(('ret', True))
    allexit = all(e != "fall" for e in exits) and form != "match_nodefault"
    tag = dict(loop=lk, depth=dep, form=form, trail=trail, allexit=allexit, brk="break" in exits,
               cont="continue" in exits)
    return body, tag

def _exit_kind(b):
    """how a block ends, syntactically: return / break / continue / fall"""
    if not b: return "fall"
    k = b[-1][0]
    return {"ret": "return", "break": "break", "continue": "continue"}.get(k, "fall")

def exit_shapes(body):
    """count conditionals (if/else, else-if chains, match) inside a loop whose every arm exits, by how they exit"""
    out = {}
    def note(kinds, complete):
        if not complete or any(k == "fall" for k in kinds): return
        key = "shape_allarms_exit_" + ("with_break" if "break" in kinds else "with_continue" if "continue" in kinds else "return_only")
        out[key] = out.get(key, 0) + 1
    def blk(b, inloop):
        for s in b: st(s, inloop)
    def chain(s):
        kinds = [_exit_kind(s[2])]; e = s[3]
        while e is not None and e[0] == 'elif':
            kinds.append(_exit_kind(e[1][2])); e = e[1][3]
        if e is None: return kinds, False
        return kinds + [_exit_kind(e[1])], True
    def st(s, inloop, elif_part=False):
        k = s[0]
        if k == 'if':
            if inloop and not elif_part: note(*chain(s))
            blk(s[2], inloop)
            e = s[3]
            if e is not None:
                if e[0] == 'else': blk(e[1], inloop)
                else: st(e[1], inloop, True)
        elif k == 'while': blk(s[4], True)
        elif k == 'for': blk(s[3], True)
        elif k == 'match':
            if inloop: note([_exit_kind(b) for _, b in s[2]], any(d for d, _ in s[2]))
            for _, b in s[2]: blk(b, inloop)
        elif k == 'block': blk(s[1], inloop)
    blk(body, False)
    return out

# ------------------------------------------------------------------ numbering of returns, stats
def number_returns(body):
    """replace ('ret', True) by ('ret', True, const) in walk order; returns (body, consts)"""
    cnt = [0]
    def blk(b): return [st(s) for s in b]
    def st(s):
        k = s[0]
        if k == 'ret':
            if s[1]:
                cnt[0] += 1; return ('ret', True, RET_BASE + cnt[0])
            return ('ret', False, None)
        if k == 'if':
            e = s[3]
            thn = blk(s[2])
            if e is None: ne = None
            elif e[0] == 'else': ne = ('else', blk(e[1]))
            else: ne = ('elif', st(e[1]))
            return ('if', s[1], thn, ne)
        if k == 'while': return ('while', s[1], s[2], s[3], blk(s[4]))
        if k == 'for': return ('for', s[1], s[2], blk(s[3]))
        if k == 'match': return ('match', s[1], [(d, blk(b)) for d, b in s[2]])
        if k == 'block': return ('block', blk(s[1]))
        return s
    nb = blk(body)
    return nb, [RET_BASE + i for i in range(1, cnt[0] + 1)]

def stats(body):
    d = {"depth": 0, "n": 0}
    kinds = {}
    def blk(b, dep):
        d["depth"] = max(d["depth"], dep)
        for s in b: st(s, dep)
    def st(s, dep):
        d["n"] += 1
        k = s[0]
        if k == 'match': k = 'match_default' if any(x for x, _ in s[2]) else 'match_nodefault'
        if k == 'while': k = 'while_true' if s[1] else 'while_cond'
        if k == 'ret' and not s[1]: k = 'bare_return'
        kinds[k] = kinds.get(k, 0) + 1
        if s[0] == 'if':
            blk(s[2], dep + 1)
            e = s[3]
            if e is not None:
                if e[0] == 'else': blk(e[1], dep + 1)
                else:
                    kinds['else_if'] = kinds.get('else_if', 0) + 1; st(e[1], dep)
        elif s[0] == 'while': blk(s[4], dep + 1)
        elif s[0] == 'for': blk(s[3], dep + 1)
        elif s[0] == 'match':
            for _, b in s[2]: blk(b, dep + 1)
        elif s[0] == 'block': blk(s[1], dep + 1)
    blk(body, 0)
    return d["depth"], d["n"], kinds

# ------------------------------------------------------------------ rendering: Ferret
def g_src(g):
    if g[0] == 'bit': return "(a / %d) %% 2 == 1" % (1 << g[1])
    if g[0] == 'cnt': return "k%d == %d" % (g[1], g[2])
    return "k%d <= 0" % g[1]

def r_block(b, ind):
    return "".join(r_stmt(s, ind) for s in b)

def r_if(s, ind, lead):
    pad = "    " * ind
    out = "%sif %s {\n%s%s}" % (lead, g_src(s[1]), r_block(s[2], ind + 1), pad)
    e = s[3]
    if e is None: return out + "\n"
    if e[0] == 'else': return out + " else {\n%s%s}\n" % (r_block(e[1], ind + 1), pad)
    return out + r_if(e[1], ind, " else ")

def r_stmt(s, ind):
    pad = "    " * ind
    k = s[0]
    if k == 'simple': return pad + "s = s + 1;\n"
    if k == 'ret': return pad + ("return %d;\n" % s[2] if s[1] else "return;\n")
    if k == 'break': return pad + "break;\n"
    if k == 'continue': return pad + "continue;\n"
    if k == 'if': return r_if(s, ind, pad)
    if k == 'while':
        lid, bit = s[2], s[3]
        if s[1]:
            return ("%slet k%d: i32 = (a / %d) %% 3 + 1;\n%swhile true {\n%s    k%d = k%d - 1;\n%s%s}\n"
                    % (pad, lid, 1 << bit, pad, pad, lid, lid, r_block(s[4], ind + 1), pad))
        if bit >= 100:
            return ("%slet k%d: i32 = %d;\n%swhile k%d > 0 {\n%s    k%d = k%d - 1;\n%s%s}\n"
                    % (pad, lid, bit - 100, pad, lid, pad, lid, lid, r_block(s[4], ind + 1), pad))
        return ("%slet k%d: i32 = (a / %d) %% 3;\n%swhile k%d > 0 {\n%s    k%d = k%d - 1;\n%s%s}\n"
                % (pad, lid, 1 << bit, pad, lid, pad, lid, lid, r_block(s[4], ind + 1), pad))
    if k == 'for':
        lid, bit = s[1], s[2]
        return ("%slet z%d: i32 = 0;\n%slet n%d: i32 = (a / %d) %% 3;\n%sfor k%d in z%d..n%d {\n%s%s}\n"
                % (pad, lid, pad, lid, 1 << bit, pad, lid, lid, lid, r_block(s[3], ind + 1), pad))
    if k == 'match':
        out = "%smatch (a / %d) %% 4 {\n" % (pad, 1 << s[1])
        i = 0
        for d, b in s[2]:
            if d: pat = "_"
            else: pat = str(i); i += 1
            out += "%s    %s => {\n%s%s    }\n" % (pad, pat, r_block(b, ind + 2), pad)
        return out + pad + "}\n"
    if k == 'block': return "%s{\n%s%s}\n" % (pad, r_block(s[1], ind + 1), pad)
    raise ValueError(k)

def r_function(body, pos, name):
    """declaration text for positions func/method; for funclit the text of a `let name := fn...;` statement"""
    if pos == "func":
        return "fn %s(a: i32) -> i32 {\n    let s: i32 = 0;\n%s}\n" % (name, r_block(body, 1))
    if pos == "method":
        return "fn (t: T) %s(a: i32) -> i32 {\n    let s: i32 = 0;\n%s}\n" % (name, r_block(body, 1))
    return "    let %s := fn(a: i32) -> i32 {\n        let s: i32 = 0;\n%s    };\n" % (name, r_block(body, 2))

HEADER = 'import "std/io";\n\ntype T struct {\n    .V: i32\n};\n\n'

def program(funcs, calls):
    """funcs: list of (body, pos, name); calls: {name: [args]}.  Without calls nothing is imported (type-check only:
    importing std/io costs ~0.4 s per compile)."""
    header = HEADER if calls else HEADER.replace('import "std/io";\n\n', '')
    top = "".join(r_function(b, p, n) + "\n" for b, p, n in funcs if p != "funclit")
    main = "fn main() {\n    let t := { .V = 0 } as T;\n"
    main += "".join(r_function(b, p, n) for b, p, n in funcs if p == "funclit")
    for b, p, n in funcs:
        for a in calls.get(n, []):
            main += "    io::Println(%s%s(%d));\n" % ("t." if p == "method" else "", n, a)
    return header + top + main + "}\n"

# ------------------------------------------------------------------ rendering: Coq
def c_block(b):
    out = "BNil"
    for s in reversed(b): out = "(BCons %s %s)" % (c_stmt(s), out)
    return out

def c_ifs(s):
    e = s[3]
    if e is None: ce = "ENone"
    elif e[0] == 'else': ce = "(EBlock %s)" % c_block(e[1])
    else: ce = "(EIf %s)" % c_ifs(e[1])
    return "(IfS %s %s)" % (c_block(s[2]), ce)

def c_stmt(s):
    k = s[0]
    if k == 'simple': return "SSimple"
    if k == 'ret': return "(SReturn %s)" % ("true" if s[1] else "false")
    if k == 'break': return "SBreak"
    if k == 'continue': return "SContinue"
    if k == 'if': return "(SIf %s)" % c_ifs(s)
    if k == 'while': return "(SWhile %s %s)" % ("true" if s[1] else "false", c_block(s[4]))
    if k == 'for': return "(SFor %s)" % c_block(s[3])
    if k == 'match':
        out = "ANil"
        for d, b in reversed(s[2]): out = "(ACons %s %s %s)" % ("true" if d else "false", c_block(b), out)
        return "(SMatch %s)" % out
    if k == 'block': return "(SBlock %s)" % c_block(s[1])
    raise ValueError(k)

# ------------------------------------------------------------------ reference interpreter (spec side)
class Diverge(Exception): pass

def interp(body, a, cap=2000):
    """returns ('ret', const) | ('bare',) | ('fall',) | ('break',) | ('continue',) for argument a; raises Diverge"""
    env = {}
    steps = [0]
    def guard(g):
        if g[0] == 'bit': return (a >> g[1]) & 1 == 1
        if g[0] == 'cnt': return env[g[1]] == g[2]
        return env[g[1]] <= 0
    def blk(b):
        for s in b:
            r = st(s)
            if r is not None: return r
        return None
    def st(s):
        steps[0] += 1
        if steps[0] > cap: raise Diverge()
        k = s[0]
        if k == 'simple': return None
        if k == 'ret': return ('ret', s[2]) if s[1] else ('bare',)
        if k == 'break': return ('break',)
        if k == 'continue': return ('continue',)
        if k == 'if':
            if guard(s[1]): return blk(s[2])
            e = s[3]
            if e is None: return None
            if e[0] == 'else': return blk(e[1])
            return st(e[1])
        if k == 'while':
            lid = s[2]
            env[lid] = (s[3] - 100) if s[3] >= 100 else ((a // (1 << s[3])) % 3) + (1 if s[1] else 0)
            while s[1] or env[lid] > 0:
                steps[0] += 1
                if steps[0] > cap: raise Diverge()
                env[lid] -= 1
                r = blk(s[4])
                if r is None or r[0] == 'continue': continue
                if r[0] == 'break': break
                return r
            return None
        if k == 'for':
            lid = s[1]
            n = (a // (1 << s[2])) % 3
            for i in range(n):
                env[lid] = i
                r = blk(s[3])
                if r is None or r[0] == 'continue': continue
                if r[0] == 'break': break
                return r
            return None
        if k == 'match':
            v = (a // (1 << s[1])) % 4
            # value arms are dispatched by value wherever the `_` arm stands (lowerMatch compares every value arm first)
            i = 0
            for d, b in s[2]:
                if d: continue
                if v == i: return blk(b)
                i += 1
            for d, b in s[2]:
                if d: return blk(b)
            return None
        if k == 'block': return blk(s[1])
        raise ValueError(k)
    r = blk(body)
    return r if r is not None else ('fall',)

def arg_values(rng, n):
    full = 1 << NBITS
    vals = {0, full - 1}
    vals.update(range(0, 16))
    while len(vals) < n: vals.add(rng.randrange(full))
    return sorted(vals)[:max(n, 18)]

def find_fall(body, limit=1 << NBITS):
    """an argument on which the reference interpreter reaches the end of the body (or a bare return)"""
    for a in range(limit):
        try:
            r = interp(body, a)
        except Diverge:
            continue
        if r[0] != 'ret': return a, r
    return None

# ------------------------------------------------------------------ reading the compiler's diagnostics
PAT = {"missing": "not all code paths in function", "unreach": "error: unreachable code",
       "infloop": "error: infinite loop without escape", "outside": "statement outside loop",
       "bare": "missing return value"}

def observe(res):
    out = res["out"]
    o = {k: out.count(p) for k, p in PAT.items()}
    m = re.search(r"Compilation failed with (\d+) error", out)
    total = int(m.group(1)) if m else 0
    o["other"] = total - sum(o.values())
    o["ok"] = bool(res["ok"]); o["panic"] = bool(res["panic"])
    return o

def canon(body, pos):
    return pos + ":" + c_block(body)

def key_of(body, pos):
    return "body:" + hashlib.sha256(canon(body, pos).encode()).hexdigest()[:16]

# ------------------------------------------------------------------ shrinking (spec-side predicate only)
def shrink_candidates(body):
    out = []; _paths(body, [], out)
    cands = []
    for path, s in out:
        if not isinstance(path[-1], int) or (len(path) >= 2 and path[-2] == 3):
            continue                                    # `else if` link: handled through its parent
        parent = _get(body, path[:-1])
        if isinstance(parent, list):
            c = list(parent); del c[path[-1]]
            cands.append(_set(body, path[:-1], c))                       # delete the statement
            subs = []
            if s[0] == 'if':
                subs.append(s[2])
                if s[3] is not None and s[3][0] == 'else': subs.append(s[3][1])
                if s[3] is not None: cands.append(_set(body, path, (s[0], s[1], s[2], None)))
            elif s[0] == 'while': subs.append(s[4])
            elif s[0] == 'for': subs.append(s[3])
            elif s[0] == 'block': subs.append(s[1])
            elif s[0] == 'match':
                for i, (d, b) in enumerate(s[2]):
                    subs.append(b)
                    if len(s[2]) > 1:
                        cands.append(_set(body, path, (s[0], s[1], [x for j, x in enumerate(s[2]) if j != i])))
            for sub in subs:
                if not any(x[0] in ('break', 'continue') for _, x in _all(sub)) or s[0] not in ('while', 'for'):
                    c = list(parent); c[path[-1]:path[-1] + 1] = sub
                    cands.append(_set(body, path[:-1], c))               # replace by a sub-block
    return cands

def _all(b):
    out = []; _paths(b, [], out); return out

def uses_ok(body):
    """loop counters referenced by guards must be in scope; break/continue positions are kept as they are"""
    def blk(b, loops):
        return all(st(s, loops) for s in b)
    def gok(g, loops): return g[0] == 'bit' or g[1] in loops
    def st(s, loops):
        k = s[0]
        if k == 'if':
            if not gok(s[1], loops) or not blk(s[2], loops): return False
            e = s[3]
            if e is None: return True
            return blk(e[1], loops) if e[0] == 'else' else st(e[1], loops)
        if k == 'while': return blk(s[4], loops + [s[2]])
        if k == 'for': return blk(s[3], loops + [s[1]])
        if k == 'match': return all(blk(b, loops) for _, b in s[2])
        if k == 'block': return blk(s[1], loops)
        return True
    return blk(body, [])

def shrink(body, pos, still_bad, rounds=12):
    """greedy: still_bad(list of bodies) -> list of bool, evaluated in one batch per round"""
    for _ in range(rounds):
        cands = [c for c in shrink_candidates(body) if uses_ok(c)]
        cands.sort(key=lambda c: len(c_block(c)))
        cands = cands[:60]
        if not cands: break
        flags = still_bad(cands)
        nxt = [c for c, f in zip(cands, flags) if f]
        if not nxt: break
        body = nxt[0]
    return body

# ------------------------------------------------------------------ stages
def typecheck_all(cases, work, prefix):
    srcs = []
    for body, pos in cases:
        nb, _ = number_returns(body)
        srcs.append(program([(nb, pos, "f0")], {}))
    rs = common.batch_typecheck_sources(srcs, work, prefix=prefix)
    return [observe(r) for r in rs], srcs

def coq_verdicts(name, cases, obs):
    """returns list of bad indices (model != observed) or None if Coq evaluation failed"""
    SH = 200
    def shard(sh):
        lines = ["From Coq Require Import List ZArith Bool.", "From FV Require Import Models.Returns Models.ReturnsSpec.",
                 "Import ListNotations.",
                 "(* spec-side oracle: the compiler reported nothing although the specification (decided by spec_ok, proved exact) fails *)",
                 "Definition spec_bad (cs : list case) : list Z := map c_id (filter (fun c => negb (o_missing c) && Nat.eqb (o_unreach c) 0 "
                 "&& Nat.eqb (o_infloop c) 0 && Nat.eqb (o_outside c) 0 && Nat.eqb (o_bare c) 0 && negb (spec_ok (c_body c))) cs)."]
        names = {}
        items = []
        for i in range(sh, min(sh + SH, len(cases))):
            body, pos = cases[i]; o = obs[i]
            cb = c_block(body)
            if cb not in names:
                names[cb] = "b%d" % len(names)
                lines.append("Definition %s : block := %s." % (names[cb], cb))
            items.append("  mkcase (%d)%%Z %s %s %s %d %d %d %d" % (
                i, PCTOR[pos], names[cb], "true" if o["missing"] > 0 else "false",
                o["unreach"], o["infloop"], o["outside"], o["bare"]))
        lines.append("Definition cases : list case := [")
        lines.append(";\n".join(items)); lines.append("].")
        lines.append("Eval vm_compute in (bad_ids cases).")
        lines.append("Eval vm_compute in (spec_bad cases).")
        ok, out = common.coq_eval("%s_%d" % (name, sh), "\n".join(lines) + "\n")
        try: os.remove(os.path.join(common.GEN, "cases_%s_%d.v" % (name, sh)))      # per-process name: do not accumulate
        except OSError: pass
        parts = re.findall(r"=\s*(\[[^\]]*\]|nil)\s*(?:%\w+)?\s*:\s*list\s+Z", out, re.S) if ok else []
        if len(parts) != 2:
            raise RuntimeError("Coq evaluation of the C05 cases failed:\n" + out[-2000:])
        return [[int(x) for x in re.findall(r"-?\d+", p_.replace("%Z", ""))] for p_ in parts]
    bad = []; sbad = []
    for ids, sids in common.pmap(shard, range(0, len(cases), SH), workers=6):
        bad += ids; sbad += sids
    return sorted(set(bad) | set(sbad))

def exec_stage(run, work, items, tag):
    """items: list of (body(numbered), pos, consts, args). Compiles ~12 functions per program, runs, checks.
    Returns list of failures: dict(kind, body, pos, arg, printed, expected, program)."""
    fails = []
    PER = 16
    progs = []
    for gi in range(0, len(items), PER):
        grp = items[gi:gi + PER]
        funcs = []; calls = {}; expect = []
        for j, (nb, pos, consts, args) in enumerate(grp):
            name = "f%d" % j
            funcs.append((nb, pos, name)); calls[name] = args
            for a in args:
                expect.append((j, a))
        progs.append((grp, funcs, calls, expect, program(funcs, calls)))
    reqs = []
    for pi, (grp, funcs, calls, expect, src) in enumerate(progs):
        d = work.sub("%s_x%d" % (tag, pi))
        f = os.path.join(d, "main.fer"); open(f, "w").write(src)
        reqs.append(dict(id=pi, file=f, mode="native", out=os.path.join(d, "prog")))
    if not reqs: return fails
    # the real CLI builds the executables (one process per program; a dozen programs per quick run)
    def build(r):
        rc, o, e = common.ferret(["-o", r["out"], r["file"]], cwd=os.path.dirname(r["file"]), timeout=300)
        return dict(ok=(rc == 0), panic="", out=o + e)
    res = common.pmap(build, reqs, workers=4)
    def runone(pi):
        exe = reqs[pi]["out"]
        if not (res[pi]["ok"] and os.path.exists(exe)): return None
        return common.run_exe(exe, timeout=30)
    outs = common.pmap(runone, range(len(progs)))
    for pi, (grp, funcs, calls, expect, src) in enumerate(progs):
        if outs[pi] is None:
            fails.append(dict(kind="compile", program=src, detail=(res[pi]["panic"] or res[pi]["out"])[-1500:],
                              body=grp[0][0], pos=grp[0][1]))
            continue
        rc, so, se = outs[pi]
        lines = so.split()
        run.count("exec_programs"); run.count("exec_calls", len(expect))
        if rc != 0 or len(lines) != len(expect):
            fails.append(dict(kind="run", program=src, detail="rc=%s lines=%d expected=%d stderr=%s" % (rc, len(lines), len(expect), se[-500:]),
                              body=grp[0][0], pos=grp[0][1]))
            continue
        for (j, a), ln in zip(expect, lines):
            nb, pos, consts, args = grp[j]
            want = interp(nb, a)
            try: got = int(ln)
            except ValueError: got = None
            if got not in consts:
                fails.append(dict(kind="not-a-return-value", body=nb, pos=pos, arg=a, printed=ln, expected=want,
                                  consts=consts, program=program([(nb, pos, "f0")], {"f0": [a]})))
            elif want != ('ret', got):
                fails.append(dict(kind="wrong-return", body=nb, pos=pos, arg=a, printed=ln, expected=want,
                                  consts=consts, program=program([(nb, pos, "f0")], {"f0": [a]})))
    return fails

def demo_fall(work, body, pos, tag):
    """compile `body` alone and call it on an argument where the interpreter falls off; returns dict or None"""
    nb, consts = number_returns(body)
    hit = find_fall(nb)
    if hit is None: return None
    a, r = hit
    src = program([(nb, pos, "f0")], {"f0": [a]})
    d = work.sub(tag)
    f = os.path.join(d, "main.fer"); open(f, "w").write(src)
    exe = os.path.join(d, "prog")
    res = common.batch_compile([dict(id=0, file=f, mode="native", out=exe)])
    if not res[0]["ok"] or not os.path.exists(exe):
        return dict(arg=a, interp=r, program=src, compiled=False, detail=(res[0]["panic"] or res[0]["out"])[-800:])
    rc, so, se = common.run_exe(exe, timeout=20)
    return dict(arg=a, interp=r, program=src, compiled=True, rc=rc, printed=so.strip(), return_constants=consts)

def main(run):
    work = Work()
    thorough = run.tier == "thorough"
    nbodies = 1500 if thorough else 260
    maxdepth = 5
    run.rule = ("random structured bodies (nesting <= 5 of if/else-if/else, match +- default, while (true) +- break/continue, "
                "for, early/bare returns, trailing code), 80% generated as all-paths-return then 40% near-miss mutated "
                "(drop a return / else / default arm); plus a systematic family (loop kind x depth 1-3 x if-else/else-if/match +- default, arms leaving by "
                "return/break/continue/fall-through, +- trailing return; 2/3 with every arm exiting and some arm breaking); each body in 3 positions; a case is (position, body); accepted bodies are "
                "executed on >= 18 argument values driving every guard")
    run.assumptions = ["guards, match scrutinees and loop counts are unconstrained in the specification (path semantics over "
                       "abstract guard outcomes): a rejected body whose falling path is infeasible is not a violation",
                       "acceptance = no error diagnostic from the compiler (type-check mode of the in-process driver)",
                       "result type i32; parameters and return constants are i32; `default` arm is written last",
                       "model describes the tree with fixes/C05-match-default, C05-funclit, C05-bare-return applied"]
    run.trusted += ["harness/c05.py: generator, Ferret/Coq renderers of the same AST, reading of the diagnostics text, "
                    "reference interpreter used as execution oracle",
                    "hooks/batch (in-process compiler.Compile driver), native toolchain + runtime for executions"]
    run.extra["gates"] = [
                          "while conditions other than `true` always decrement their counter (the 'variable never "
                          "modified / wrong direction' loop diagnostics are not modelled)"]

    import time
    T = {}; t0 = time.time()
    def lap(name):
        nonlocal t0
        T[name] = round(time.time() - t0, 1); t0 = time.time()
    run.extra["timing_s"] = T
    ok = run.proof("Props/C05.v")
    lap("proof")

    # ---- corpus + generated cases
    bodies = []
    cdir = os.path.join(common.VERIF, "corpus", "C05")
    if os.path.isdir(cdir):
        for fn in sorted(os.listdir(cdir)):
            if fn.endswith(".json"):
                j = json.load(open(os.path.join(cdir, fn)))
                bodies.append((_tolist(j["body"]), True, "corpus"))
    nfam = (len(FAM_COMBOS) * 6) if thorough else (len(FAM_COMBOS) * 3) // 2        # 90 per quick run: every combo at least once
    fam0 = run.rng.randrange(len(FAM_COMBOS) * 3)
    for i in range(nfam):
        b, tag = family_body(run.rng, fam0 + i)
        bodies.append((b, False, "family"))
        run.count("family_bodies")
        run.count("family_loop_" + tag["loop"]); run.count("family_depth_%d" % tag["depth"])
        run.count("family_form_" + tag["form"]); run.count("family_trailing_" + tag["trail"])
        if tag["allexit"] and tag["brk"]:
            run.count("family_allarms_exit_some_break")
            run.count("family_allarms_exit_some_break_" + tag["loop"])
            run.count("family_allarms_exit_some_break_trailing_" + tag["trail"])
        elif tag["allexit"]:
            run.count("family_allarms_exit_no_break")
        else:
            run.count("family_some_arm_falls_through")
    for i in range(nbodies - nfam):
        static = run.rng.random() < 0.3
        b = gen_body(run.rng, static, run.rng.choice([2, 3, 4, 5, 5]))
        bodies.append((b, static, "gen"))
    for b, static, src in bodies:
        for k, v in exit_shapes(b).items(): run.count(k, v)
    cases = []
    for b, static, src in bodies:
        for p in POSITIONS:
            cases.append((b, p))
    lap("generate")
    obs, srcs = typecheck_all(cases, work, "t")
    lap("typecheck")
    for i, ((b, p), o) in enumerate(zip(cases, obs)):
        dep, n, kinds = stats(b)
        run.case(canon(b, p), nontrivial=(n >= 2), sample=None)
        run.count("pos_" + p)
        run.count("accepted" if o["ok"] else "rejected")
        if p == "func":
            run.count("depth_%d" % dep)
            for k in kinds: run.count("has_" + k)
            for k in ("missing", "unreach", "infloop", "outside", "bare"):
                if o[k]: run.count("diag_" + k)
    run.samples = [{"position": cases[i][1], "program": srcs[i], "diagnostics": {k: obs[i][k] for k in PAT}}
                   for i in (0, 4, 8) if i < len(cases)]

    # ---- the in-process driver vs the real CLI on a seeded sample (exit status is the observable)
    sample = run.rng.sample(range(len(cases)), min(6, len(cases)))
    def cli(i):
        d = work.sub("cli%d" % i)
        f = os.path.join(d, "main.fer"); open(f, "w").write(srcs[i])
        return common.typecheck(f, cwd=d)[0]
    for i, rc in zip(sample, common.pmap(cli, sample)):
        if (rc == 0) != obs[i]["ok"]:
            raise RuntimeError("batch hook and CLI disagree on case %d: cli rc=%d batch ok=%s" % (i, rc, obs[i]["ok"]))
    run.extra["cli_crosschecked"] = len(sample)
    lap("cli")

    reported = set()
    def report(body, pos, what, replay, no_input=False):
        k = key_of(body, pos)
        if k in reported: return
        reported.add(k)
        run.violation(k, what, replay, no_input=no_input)

    # ---- unexpected diagnostics / crashes
    for i, o in enumerate(obs):
        if o["panic"] or o["other"] != 0 or (o["ok"] != (sum(o[k] for k in PAT) == 0)):
            b, p = cases[i]
            report(b, p, "compiler output outside the modelled diagnostics (panic=%s other_errors=%s ok=%s)" % (o["panic"], o["other"], o["ok"]),
                   {"program": srcs[i], "observed": o, "correspondence": "diagnostics of cfg.go vs Models/Returns.v"}, no_input=True)

    # ---- correspondence model vs implementation
    bad = coq_verdicts("c05_p%d" % os.getpid(), cases, obs)
    lap("coq_eval")
    run.extra["correspondence_cases"] = len(cases)
    run.extra["correspondence_disagreements"] = len(bad)
    seen_bodies = set()
    for i in bad[:40]:
        b, p = cases[i]; o = obs[i]
        if id(b) in seen_bodies and len(seen_bodies) > 3: continue
        seen_bodies.add(id(b))
        if o["ok"]:
            # accepted although the model reports a diagnostic: look for a failing input of the property itself
            def still_bad(cands):
                os_, _ = typecheck_all([(c, p) for c in cands], work, "s%d_" % i)
                return [x["ok"] and find_fall(number_returns(c)[0]) is not None for c, x in zip(cands, os_)]
            small = b
            if find_fall(number_returns(b)[0]) is not None:
                small = shrink(b, p, still_bad)
            demo = demo_fall(work, small, p, "demo%d" % i)
            nb, consts = number_returns(small)
            if demo is not None:
                report(small, p, "accepted %s body reaches its end without `return <value>`: f(%d) printed %r, return constants %s"
                       % (p, demo["arg"], demo.get("printed"), consts),
                       {"program": demo["program"], "argument": demo["arg"], "interpreter": demo["interp"],
                        "printed": demo.get("printed"), "return_constants": consts, "position": p,
                        "body": small, "theorem": "C05_sound"})
            else:
                report(b, p, "compiler accepts a body for which the model reports a diagnostic (no falling argument found)",
                       {"program": srcs[i], "observed": o, "position": p, "body": b,
                        "correspondence": "Models/Returns.v check_body"}, no_input=True)
        else:
            report(b, p, "diagnostics differ from the ported analysis: observed %s" % {k: o[k] for k in PAT},
                   {"program": srcs[i], "observed": o, "position": p, "body": b,
                    "correspondence": "Models/Returns.v check_body"}, no_input=True)

    # ---- spec-side oracle 1 (static): an accepted body must not fall off under any enumerated argument
    # ---- spec-side oracle 2 (dynamic): printed values are return constants
    items = []
    per_body_pos = {}
    for i, ((b, p), o) in enumerate(zip(cases, obs)):
        if not o["ok"]: continue
        static = bodies[i // 3][1]
        nb, consts = number_returns(b)
        args = []
        for a in arg_values(run.rng, 24 if not thorough else 48):
            try:
                r = interp(nb, a)
            except Diverge:
                continue
            if r[0] != 'ret':
                # the property fails on the reference semantics: demonstrate on the executable
                demo = demo_fall(work, b, p, "fall%d" % i)
                report(b, p, "accepted %s body falls off its end for argument %d (%s)" % (p, a, r[0]),
                       {"program": (demo or {}).get("program", srcs[i]), "argument": a, "interpreter": r,
                        "printed": (demo or {}).get("printed"), "return_constants": consts, "position": p, "body": b,
                        "theorem": "C05_sound"})
                args = []
                break
            args.append(a)
        if not args: continue
        # every accepted body is executed in one position (round robin), every 3rd body in all positions
        bi = i // 3
        if POSITIONS[bi % 3] == p or bi % 3 == 0:
            items.append((nb, p, consts, args))
    if not thorough and len(items) > 128:
        items = run.rng.sample(items, 128)
    run.count("executed_functions", len(items))
    lap("interp")
    fails = exec_stage(run, work, items, "e")
    lap("exec")
    for f in fails:
        if f["kind"] in ("compile", "run"):
            report(f["body"], f["pos"] + ":" + f["kind"], "accepted program does not build/run: " + f["detail"][:200],
                   {"program": f["program"], "detail": f["detail"]}, no_input=True)
        else:
            report(f["body"], f["pos"], "%s: f(%d) printed %s, reference %s, return constants %s" %
                   (f["kind"], f["arg"], f["printed"], f["expected"], f["consts"]),
                   {"program": f["program"], "argument": f["arg"], "printed": f["printed"], "expected": f["expected"],
                    "return_constants": f["consts"], "position": f["pos"], "body": f["body"], "theorem": "C05_sound"})

    if not ok and not run.violations:
        where, log = run.proof_failure
        run.violation("proof:C05:" + where, "Props/C05 no longer checks (%s)" % where,
                      {"theorem_file": "coq/Props/C05.v", "where": where, "log": log}, no_input=True)

def _tolist(x):
    """JSON -> AST (lists stay lists for blocks/arms, statements become tuples)"""
    if isinstance(x, list):
        if x and isinstance(x[0], str):
            return tuple(_tolist(y) for y in x)
        return [_tolist(y) for y in x]
    return x

def replay(run, path):
    r = json.load(open(path))
    print(json.dumps(r, indent=1)[:6000])
    prog = r.get("replay", {}).get("program")
    if not prog: return 0
    work = Work()
    d = work.sub("replay"); f = os.path.join(d, "main.fer"); open(f, "w").write(prog)
    exe = os.path.join(d, "prog")
    rc, o, e = common.ferret(["-o", exe, f], cwd=d)
    print("compile rc=%d" % rc); print((o + e)[-1500:])
    if rc == 0 and os.path.exists(exe):
        print("run:", common.run_exe(exe))
    return 0
