"""C06 — immutable bindings cannot be modified.
Proof stage: Props/C06.v (Models/Mut.v is a port of ref.go + the guards of the mutation forms).
Correspondence: the product  root kind x access path (<= 3 steps of field / index / paren) x mutation form x context
is rendered to one-mutation Ferret programs, type-checked in-process (hook `batch`), the class of the first
diagnostic is compared with `diagnose` evaluated inside Coq, and a python spec-side oracle (frozen target => must be
rejected; mutable control => must be accepted) is applied to the compiler's verdict directly.
An accepted program whose target is frozen is the failing input; it is also run natively with the value printed
before and after the mutation."""
import os, re, json, itertools
import common
from common import Work

# ------------------------------------------------------------------ the little type universe of the programs

PRELUDE = '''type In struct { .V: i32, .W: [3]i32 };
type S struct { .N: i32, .I: In, .A: [3]In, .D: []i32, .P: map[str]i32 };
type H struct { .M: &'In, .R: &In, .K: i32, .V: In, .FA: [2]In, .DA: []In, .RI: &i32, .MI: &'i32, .RA: [2]&i32 };
type Ctx struct { .Z: i32 };
fn (x: &'In) bump() { x.V = x.V + 1; }
fn (x: &'S) bump() { x.N = x.N + 1; }
fn setI(x: &'i32) { x = 70; }
fn setIn(x: &'In) { x.V = 71; }
fn setS(x: &'S) { x.N = 72; }
fn setW(x: &'[3]i32) { x[0] = 73; }
fn mkIn() -> In { return { .V = 1, .W = [1, 2, 3] } as In; }
fn mkS() -> S { return { .N = 1, .I = mkIn(), .A = [mkIn(), mkIn(), mkIn()], .D = [1, 2, 3], .P = { "a" => 1 } as map[str]i32 } as S; }
fn mayfail(a: i32) -> S ! i32 { if a == 0 { let e := mkS(); return e!; } return a; }
'''
IN_LIT = "{ .V = 1, .W = [1, 2, 3] } as In"
S_LIT = "{ .N = 1, .I = %s, .A = [%s, %s, %s], .D = [1, 2, 3], .P = { \"a\" => 1 } as map[str]i32 } as S" % ((IN_LIT,) * 4)

# type -> list of (step, rendered suffix, result type, coq step)
#   step kinds: ('f', name) field, ('i', kind) index, ('p',) paren
STEPS = {
    "S": [(("f", "N"), "i32"), (("f", "I"), "In"), (("f", "A"), "[3]In"), (("f", "D"), "[]i32"), (("f", "P"), "map")],
    "In": [(("f", "V"), "i32"), (("f", "W"), "[3]i32")],
    "[3]In": [(("i", "IFixed"), "In")],
    "[3]i32": [(("i", "IFixed"), "i32")],
    "[]i32": [(("i", "IDyn"), "i32")],
    "map": [(("i", "IMap"), "i32")],
    "i32": [],
    # the reference-field family (root type H)
    "H": [(("f", "M"), "&'In"), (("f", "R"), "&In"), (("f", "K"), "i32"), (("f", "V"), "In"), (("f", "FA"), "[2]In"),
          (("f", "DA"), "[]In"),
          # places whose OWN type is a reference to a scalar: `rt.RI++`, `rt.RA[1] -= 2`, `rt.MI = 7` write through that reference
          # (seed C06e: ++/-- on a non-identifier place of type &i32 accepted)
          (("f", "RI"), "&i32"), (("f", "MI"), "&'i32"), (("f", "RA"), "[2]&i32")],
    "[2]&i32": [(("i", "IFixed"), "&i32")],
    "&i32": [], "&'i32": [],
    "[2]In": [(("i", "IFixed"), "In")],
    "[]In": [(("i", "IDyn"), "In")],
    "&'In": [(("f", "V"), "i32"), (("f", "W"), "[3]i32")],
    "&In": [(("f", "V"), "i32"), (("f", "W"), "[3]i32")],
}
INDEX_TEXT = {"IFixed": "[1]", "IDyn": "[1]", "IMap": '["a"]'}

def refk(t):
    return "RMut" if t.startswith("&'") else ("RImm" if t.startswith("&") else "RNone")

def deref(t):
    return t[2:] if t.startswith("&'") else (t[1:] if t.startswith("&") else t)

def paths_from(t0, maxlen):
    """all step sequences of length <= maxlen starting at type t0, at most one paren; yields (steps, types)
    where types[i] is the type after i steps (types[0] = t0)."""
    out = []
    def rec(steps, types, parens):
        out.append((tuple(steps), tuple(types)))
        if len(steps) == maxlen:
            return
        t = types[-1]
        for st, rt in (STEPS.get(t) or STEPS.get(deref(t), [])):
            rec(steps + [st], types + [rt], parens)
        if parens == 0 and (not steps or steps[-1] != ("p",)):
            rec(steps + [("p",)], types + [t], parens + 1)
    rec([], [t0], 0)
    return out

def render_place(root, steps):
    s = root
    for st in steps:
        if st[0] == "f": s = s + "." + st[1]
        elif st[0] == "i": s = s + INDEX_TEXT[st[1]]
        else: s = "(" + s + ")"
    return s

def coq_place(steps, types):
    s = "PIdent 0"
    for i, st in enumerate(steps):
        if st[0] == "f": s = "PField (%s) %s" % (s, refk(types[i + 1]))
        elif st[0] == "i": s = "PIndex (%s) %s %s" % (s, st[1], refk(types[i + 1]))
        else: s = "PParen (%s)" % s
    return s

# ------------------------------------------------------------------ root kinds

# kind -> (coq symbol, root type, immutable?)   root types: S, i32 (for index), H; references to S / H
KINDS = {
    # immutable bindings named by the property
    "const":      ("mkSym SConstant false RNone", "S"),
    "gconst":     ("mkSym SConstant false RNone", "S"),
    "catch":      ("mkSym SVariable true RNone", "S"),
    "immparam":   ("mkSym SParameter false RImm", "&S"),
    "immrecv":    ("mkSym SReceiver false RImm", "&S"),
    "immlocal":   ("mkSym SVariable false RImm", "&S"),
    "constimmref": ("mkSym SConstant false RImm", "&S"),
    # mutable controls: must stay accepted
    "let":        ("mkSym SVariable false RNone", "S"),
    "glet":       ("mkSym SVariable false RNone", "S"),
    "mutparam":   ("mkSym SParameter false RMut", "&'S"),
    "mutrecv":    ("mkSym SReceiver false RMut", "&'S"),
    "mutlocal":   ("mkSym SVariable false RMut", "&'S"),
    "valparam":   ("mkSym SParameter false RNone", "S"),
    "valrecv":    ("mkSym SReceiver false RNone", "S"),
    "constmutref": ("mkSym SConstant false RMut", "&'S"),
    # reference-field family
    "letH":       ("mkSym SVariable false RNone", "H"),
    "constH":     ("mkSym SConstant false RNone", "H"),
    "immparamH":  ("mkSym SParameter false RImm", "&H"),
    "mutparamH":  ("mkSym SParameter false RMut", "&'H"),
}
# for statements: kind name  for<role>:<source>:<shape>.  The scope of the body is computed INSIDE Coq by the port of
# collectForStmt / markForIteratorIndexReadOnly (`for_syms decls`), root variable = 0, the other variable = 1, `_` = None.
FOR_SOURCES = {            # source -> (setup statement, iterated expression)
    "lit":   ("", "[10, 20, 30]"),
    "arr":   ("    let src: [4]i32 = [10, 20, 30, 40];\n", "src"),
    "dyn":   ("    let src: []i32 = [1, 2, 3];\n", "src"),
    "range": ("", "0..3"),
    "map":   ("    let src := { 1 => 2, 3 => 4 } as map[i32]i32;\n", "src"),
}
FOR_SHAPES = {             # shape -> (header variables, coq decl list, is the root the index of a two-variable loop?)
    "idx_named": ("rt, xv", "[Some 0%nat; Some 1%nat]", True),      # for rt, xv in e
    "idx_blank": ("rt, _",  "[Some 0%nat; None]", True),            # for rt, _ in e
    "val_named": ("ix, rt", "[Some 1%nat; Some 0%nat]", False),     # for ix, rt in e   (value variable)
    "val_blank": ("_, rt",  "[None; Some 0%nat]", False),           # for _, rt in e
    "one":       ("rt",     "[Some 0%nat]", False),                 # for rt in e
}
FOR_IMM = ["foridx:%s:%s" % (src, sh) for src in ("lit", "arr", "dyn", "range", "map") for sh in ("idx_named", "idx_blank")]
FOR_CTL = ["forval:lit:val_named", "forval:arr:val_blank", "forval:dyn:val_blank", "forval:range:val_named",
           "forval:map:val_named", "forone:range:one", "forone:dyn:one"]
for _k in FOR_IMM + FOR_CTL:
    KINDS[_k] = ("for_syms " + FOR_SHAPES[_k.split(":")[2]][1], "i32")

def scope_expr(kind):
    v = KINDS[kind][0]
    return v if v.startswith("for_syms") else "[(0%%nat, %s)]" % v

IMM_KINDS = ["const", "gconst", "catch", "immparam", "immrecv", "immlocal", "constimmref"] + FOR_IMM
CTL_KINDS = ["let", "glet", "mutparam", "mutrecv", "mutlocal", "valparam", "valrecv", "constmutref"] + FOR_CTL
KINDS.update({
    "valparamH":  ("mkSym SParameter false RNone", "H"),
    "valrecvH":   ("mkSym SReceiver false RNone", "H"),
    "immrecvH":   ("mkSym SReceiver false RImm", "&H"),
    "mutrecvH":   ("mkSym SReceiver false RMut", "&'H"),
    "immlocalH":  ("mkSym SVariable false RImm", "&H"),
    "mutlocalH":  ("mkSym SVariable false RMut", "&'H"),
    "forvalH":    ("for_syms [None; Some 0%nat]", "H"),
})
# roots whose type has reference-typed fields: every root kind x chains through value / &T / &'T fields, fixed and
# dynamic array elements (the chain rule C06_chain_rule_exact)
H_KINDS = ["letH", "constH", "immparamH", "mutparamH", "valparamH", "valrecvH", "immrecvH", "mutrecvH", "immlocalH",
           "mutlocalH", "forvalH"]
# read-only bindings by the property text (the for index in BOTH shapes: `for i, v in e` and `for i, _ in e`)
RO_KINDS = {"const", "gconst", "catch", "constimmref", "constmutref", "constH"} | set(FOR_IMM)
CONTEXTS = ["function", "method", "closure", "loop", "match"]
FORMS = ["FAssign", "FCompound", "FIncDec", "FBorrowMut", "FPassBorrow", "FPassRef", "FCallMut"]

RHS = {"i32": "7", "In": "mkIn()", "S": "mkS()", "[3]i32": "[7, 7, 7]"}
SETTER = {"i32": "setI", "In": "setIn", "S": "setS", "[3]i32": "setW"}

def forms_for(ttype, variant):
    """well-typed mutation statements for a target of type ttype: list of (form, statement template with %s = place)"""
    base = deref(ttype)
    isref = ttype.startswith("&")
    out = []
    if base in RHS:
        out.append(("FAssign", "%%s = %s;" % RHS[base]))
    if base == "i32":
        out.append(("FCompound", ["%s += 1;", "%s -= 2;", "%s *= 3;"][variant % 3]))
        out.append(("FIncDec", ["%s++;", "%s--;", "++%s;", "--%s;"][variant % 4]))
    if not isref and base in SETTER:
        out.append(("FBorrowMut", "let qb := &'%s;"))
        out.append(("FPassBorrow", SETTER[base] + "(&'%s);"))
    if isref and base in SETTER:
        out.append(("FPassRef", SETTER[base] + "(%s);"))
    if base in ("In", "S"):
        out.append(("FCallMut", "%s.bump();"))
    return out

# ------------------------------------------------------------------ rendering a case to a program

def wrap(ctx, stmt):
    if ctx in ("function", "method"):
        return "    " + stmt + "\n"
    if ctx == "closure":
        return "    let fcl := fn() {\n        " + stmt + "\n    };\n    fcl();\n"
    if ctx == "loop":
        return "    let lk := 0;\n    while lk < 1 {\n        " + stmt + "\n        lk = lk + 1;\n    }\n"
    if ctx == "match":
        return "    let zsel := 7;\n    match zsel {\n        7 => { " + stmt + " }\n        _ => { }\n    }\n"
    raise ValueError(ctx)

def program(kind, ctx, stmt):
    """one program with the single mutation statement `stmt` on root `rt` placed in context ctx."""
    body = wrap(ctx, stmt)
    meth = ctx == "method"
    pre = PRELUDE
    # enclosure: a function `work(...)` or a method `(self: Ctx) work(...)`; main() calls it
    def enclose(params, args, inner, setup=""):
        if meth:
            return ("fn (self: Ctx) work(%s) {\n%s}\nfn main() {\n%s    let cx := { .Z = 0 } as Ctx;\n    cx.work(%s);\n}\n"
                    % (params, inner, setup, args))
        return "fn work(%s) {\n%s}\nfn main() {\n%s    work(%s);\n}\n" % (params, inner, setup, args)
    if kind == "const":
        return pre + enclose("", "", "    const rt := %s;\n%s" % (S_LIT, body))
    if kind == "gconst":
        return pre + "const rt := %s;\n" % S_LIT + enclose("", "", body)
    if kind == "let":
        return pre + enclose("", "", "    let rt := mkS();\n" + body)
    if kind == "glet":
        return pre + "let rt := %s;\n" % S_LIT + enclose("", "", body)
    if kind.startswith("for") and ":" in kind:
        _, src, shape = kind.split(":")
        setup, expr = FOR_SOURCES[src]
        return pre + enclose("", "", "%s    for %s in %s {\n%s    }\n" % (setup, FOR_SHAPES[shape][0], expr, body))
    if kind == "catch":
        return pre + enclose("", "", "    let rs := mayfail(0) catch rt {\n%s    } 0;\n" % body)
    if kind == "immparam":
        return pre + enclose("rt: &S", "&v", body, "    let v := mkS();\n")
    if kind == "mutparam":
        return pre + enclose("rt: &'S", "&'v", body, "    let v := mkS();\n")
    if kind == "valparam":
        return pre + enclose("rt: S", "mkS()", body)
    if kind == "immlocal":
        return pre + enclose("", "", "    let v := mkS();\n    let rt := &v;\n" + body)
    if kind == "mutlocal":
        return pre + enclose("", "", "    let v := mkS();\n    let rt := &'v;\n" + body)
    if kind == "constimmref":
        return pre + enclose("", "", "    let v := mkS();\n    const rt := &v;\n" + body)
    if kind == "constmutref":
        return pre + enclose("", "", "    let v := mkS();\n    const rt := &'v;\n" + body)
    if kind in ("immrecv", "mutrecv", "valrecv"):
        rty = {"immrecv": "&S", "mutrecv": "&'S", "valrecv": "S"}[kind]
        return pre + "fn (rt: %s) work() {\n%s}\nfn main() {\n    let v := mkS();\n    v.work();\n}\n" % (rty, body)
    hsetup = "    let ha := mkIn();\n    let hb := mkIn();\n    let hi: i32 = 1;\n    let hj: i32 = 2;\n    let hk: i32 = 3;\n    let hl: i32 = 4;\n"
    hlit = "{ .M = &'ha, .R = &hb, .K = 1, .V = mkIn(), .FA = [mkIn(), mkIn()], .DA = [mkIn()], .RI = &hi, .MI = &'hj, .RA = [&hk, &hl] } as H"
    hvset = hsetup + "    let hv := %s;\n" % hlit
    if kind == "valparamH":
        return pre + enclose("rt: H", "hv", body, hvset)
    if kind in ("valrecvH", "immrecvH", "mutrecvH"):
        rty = {"immrecvH": "&H", "mutrecvH": "&'H", "valrecvH": "H"}[kind]
        return pre + "fn (rt: %s) work() {\n%s}\nfn main() {\n%s    hv.work();\n}\n" % (rty, body, hvset)
    if kind == "immlocalH":
        return pre + enclose("", "", hvset + "    let rt := &hv;\n" + body)
    if kind == "mutlocalH":
        return pre + enclose("", "", hvset + "    let rt := &'hv;\n" + body)
    if kind == "forvalH":
        return pre + enclose("", "", hvset + "    for _, rt in [hv] {\n%s    }\n" % body)
    if kind == "letH":
        return pre + enclose("", "", hsetup + "    let rt := %s;\n" % hlit + body)
    if kind == "constH":
        return pre + enclose("", "", hsetup + "    const rt := %s;\n" % hlit + body)
    if kind == "immparamH":
        return pre + enclose("rt: &H", "&hv", body, hsetup + "    let hv := %s;\n" % hlit)
    if kind == "mutparamH":
        return pre + enclose("rt: &'H", "&'hv", body, hsetup + "    let hv := %s;\n" % hlit)
    raise ValueError(kind)

# ------------------------------------------------------------------ python spec-side oracle (independent of the port)

def through_imm(kind, steps, types):
    """an immutable reference is dereferenced strictly inside the place"""
    for i, st in enumerate(steps):
        if st[0] in ("f", "i") and refk(types[i]) == "RImm":
            return True
    return False

def in_readonly_binding(kind, steps, types):
    if kind not in RO_KINDS:
        return False
    for i, st in enumerate(steps):
        if st[0] in ("f", "i") and refk(types[i]) != "RNone":
            return False
    return True

def target_frozen(kind, steps, types, form):
    t = refk(types[-1])
    slot = in_readonly_binding(kind, steps, types) or through_imm(kind, steps, types)
    if t == "RNone":
        return slot
    stores = form in ("FAssign", "FCompound") and bool(steps) and steps[-1] == ("i", "IMap")
    if stores:
        return slot
    return t == "RImm" or through_imm(kind, steps, types)

def must_accept(kind, steps, types, form):
    """mutable control: not frozen, not inside a read-only binding at all, and the form is applicable"""
    if target_frozen(kind, steps, types, form):
        return False
    if kind in RO_KINDS:
        # `const r := &'v; r = x` / `&'r.N`: the compiler is stricter than the property needs; not a control
        return False
    if form in ("FBorrowMut", "FPassBorrow"):
        return all(st != ("i", "IDyn") and st != ("i", "IMap") for st in steps)
    return True

# ------------------------------------------------------------------ reading the compiler's verdict

MSG = re.compile(r"(error|warning)(?:\[(\w+)\])?: (.*?)\s+-->", re.S)
CLASSES = [
    (2, "cannot assign to constant"),
    (3, "cannot modify read-only variable"),
    (4, "cannot modify through immutable"),
    (4, "cannot assign through immutable reference"),
    (4, "through immutable reference"),
    (5, "cannot take mutable reference of a read-only value"),
    (6, "cannot take reference of this expression"),
    (7, "cannot take reference of a reference"),
    (9, "must be a mutable reference"),
    (8, "must be a reference"),
]
CLASS_NAME = {0: "accepted", 1: "accepted+value-receiver-warning", 2: "constant", 3: "read-only", 4: "immutable-reference",
              5: "read-only-borrow", 6: "not-addressable", 7: "ref-of-ref", 8: "arg-not-ref", 9: "arg-not-mutable-ref",
              -1: "other-error", -2: "panic"}

def classify(res):
    """-> (class code, list of unrelated error messages)"""
    if res["panic"]:
        return -2, [res["panic"][:300]]
    errs = []; warn = False; other = []; mir = False
    for sev, code, msg in MSG.findall(res["out"]):
        msg = " ".join(msg.split())
        if sev == "warning":
            if "modifying value receiver" in msg: warn = True
            continue
        if msg.startswith("MIR lowering unsupported"):
            mir = True            # passed the type checker; a later stage lacks support (not a mutability verdict)
            continue
        for c, pat in CLASSES:
            if pat in msg:
                errs.append(c); break
        else:
            other.append(msg[:200])
    if res["ok"] or (mir and not errs and not other):
        return (1 if warn else 0), (["mir-unsupported"] if mir else other)
    if other or not errs:
        return -1, other or ["rejected without a recognised diagnostic: " + res["out"][:300]]
    return errs[0], other

# ------------------------------------------------------------------ case generation

def all_cases(maxlen, contexts, variant_rng):
    cases = []
    for kind in IMM_KINDS + CTL_KINDS + H_KINDS:
        sym, rtype = KINDS[kind]
        for steps, types in paths_from(rtype, maxlen):
            # a path through a reference type only in the H family and at the root
            ttype = types[-1]
            for form, tmpl in forms_for(ttype, variant_rng.randrange(12)):
                for ctx in contexts:
                    if "recv" in kind and ctx == "function":
                        continue          # the receiver kinds live in a method by construction
                    cases.append(dict(kind=kind, steps=steps, types=types, form=form, tmpl=tmpl, ctx=ctx))
    return cases

def case_key(c):
    return "%s|%s|%s|%s" % (c["kind"], render_place("rt", c["steps"]), c["form"], c["ctx"])

def case_program(c):
    return program(c["kind"], c["ctx"], c["tmpl"] % render_place("rt", c["steps"]))

def probe_expr(c):
    """an i32 leaf under the target, to print before / after in the replay"""
    base = deref(c["types"][-1])
    pl = render_place("rt", c["steps"])
    return {"i32": pl, "In": pl + ".V", "S": pl + ".N", "[3]i32": pl + "[0]"}[base]

def run_variant(c):
    pe = probe_expr(c)
    stmt = "io::Println(%s); %s io::Println(%s);" % (pe, c["tmpl"] % render_place("rt", c["steps"]), pe)
    return 'import "std/io";\n' + program(c["kind"], c["ctx"], stmt)

def class_sig(c):
    if c["kind"].endswith("H"):
        return tuple(refk(t) for st, t in zip(c["steps"], c["types"][1:]) if st[0] != "p")
    if c["kind"].startswith("for"):
        return 0
    return len(c["steps"])

def select(run, cases, n):
    """quick tier: all boundary shapes once (every kind x form x path, one context each), then a seeded sample."""
    rng = run.rng
    by = {}
    for c in cases:
        by.setdefault((c["kind"], c["steps"], c["form"]), []).append(c)
    chosen = []
    rest = []
    for k in sorted(by, key=repr):
        grp = by[k]
        pick = grp[rng.randrange(len(grp))]
        chosen.append(pick)
        rest += [g for g in grp if g is not pick]
    if len(chosen) > n:
        # keep every (kind, form, path length) class, sample inside
        cls = {}
        for c in chosen:
            # for-loop kinds have only the paths rt / (rt): one class per (kind, form), so that every shape of the
            # for statement (index named / `_`, five sources) meets every mutation form in every run
            # otherwise the signature of the chain: the reference kind of the root and of every link (value / &T / &'T)
            # and whether an element is fixed or dynamic, parens ignored — so e.g. (value receiver, .R: &T, value field)
            # is a class of its own and is present in every run
            sig = class_sig(c)
            fcls = c["form"]
            if c["kind"].endswith("H") and fcls not in ("FAssign", "FCompound", "FIncDec"):
                fcls = "non-write"      # reference-field roots: the three write forms each, the other forms as one class
            cls.setdefault((c["kind"], fcls, sig), []).append(c)
        keep = [v[rng.randrange(len(v))] for _, v in sorted(cls.items(), key=repr)]
        pool = [c for c in chosen if c not in keep]
        rng.shuffle(pool)
        rest = pool[max(0, n - len(keep)):] + rest
        chosen = keep + pool[:max(0, n - len(keep))]
    else:
        rng.shuffle(rest)
        chosen += rest[:n - len(chosen)]
    return chosen

# ------------------------------------------------------------------ catch handlers with control flow, built and run
# The product above observes the type-check verdict only (code generation is never reached for a rejected program, and
# every mutation of a catch variable is rejected), so the back end never saw a catch handler containing control flow.
# This stage builds and RUNS accepted programs whose handler contains if / if-else / while / match / guarded early
# return, with and without the error binder, with a fallback value and as handler-only catch; inside the control
# flow the handler mutates a MUTABLE outer variable (a control of the property: must stay accepted, and the mutation
# must be visible afterwards) and reads the read-only error variable.

CF_PRE = '''import "std/io";
fn mayfail(a: i32) -> str ! i32 {
    if a == 0 {
        return "boom"!;
    }
    return a;
}
'''
CF_BODIES = {
    "if":     "if k > 0 { cnt = cnt + 1; }",
    "ifelse": "if k > 1 { cnt = cnt + 10; } else { cnt = cnt + 20; }",
    "while":  "let j := 0; while j < k { cnt = cnt + 1; j = j + 1; }",
    "match":  "match k { 1 => { cnt = cnt + 5; } _ => { cnt = cnt + 6; } }",
    "ret":    "if k > 5 { io::Println(cnt); return; } cnt = cnt + 2;",
}

def cf_apply(kind, k, cnt):
    """python semantics of CF_BODIES: -> (cnt, returned, printed)"""
    if kind == "if": return (cnt + 1 if k > 0 else cnt), False, []
    if kind == "ifelse": return (cnt + 10 if k > 1 else cnt + 20), False, []
    if kind == "while": return cnt + max(k, 0), False, []
    if kind == "match": return (cnt + 5 if k == 1 else cnt + 6), False, []
    if kind == "ret":
        if k > 5: return cnt, True, [str(cnt)]
        return cnt + 2, False, []
    raise ValueError(kind)

def cf_program(kind, binder, fallback, k):
    """-> (source, expected stdout lines)"""
    head = "catch e {" if binder else "catch {"
    pre = "io::Println(e); " if binder else ""
    body = pre + CF_BODIES[kind]
    out = []
    if fallback:
        src = ("fn main() {\n    let k := %d;\n    let cnt := 0;\n"
               "    let r := mayfail(0) %s\n        %s\n    } -1;\n    io::Println(r);\n    io::Println(cnt);\n"
               "    let s := mayfail(5) %s\n        %s\n    } -1;\n    io::Println(s);\n    io::Println(cnt);\n}\n"
               % (k, head, body, head, body))
        if binder: out.append("boom")
        cnt, ret, pr = cf_apply(kind, k, 0)
        out += pr
        if not ret:
            out += ["-1", str(cnt), "5", str(cnt)]
    else:
        src = ("fn main() {\n    let k := %d;\n    let cnt := 0;\n"
               "    mayfail(5) %s\n        %s\n        return;\n    };\n    io::Println(cnt);\n"
               "    mayfail(0) %s\n        %s\n        io::Println(cnt);\n        return;\n    };\n    io::Println(99);\n}\n"
               % (k, head, body, head, body))
        out.append("0")
        if binder: out.append("boom")
        cnt, ret, pr = cf_apply(kind, k, 0)
        out += pr
        if not ret:
            out.append(str(cnt))
    return CF_PRE + src, out

def catch_flow_stage(run, work):
    thorough = run.tier == "thorough"
    progs = []
    for kind in sorted(CF_BODIES):
        for binder in (True, False):
            for fallback in (True, False):
                ks = [0, 1, 2, 7] if thorough else [run.rng.choice([0, 1, 2, 7])]
                if not thorough and not fallback and binder != (kind in ("if", "while", "ret")):
                    continue            # quick: every shape with a fallback, handler-only with one binder choice
                for k in ks:
                    progs.append((kind, binder, fallback, k))
    def one(a):
        i, (kind, binder, fallback, k) = a
        src, exp = cf_program(kind, binder, fallback, k)
        r = common.compile_and_run(src, work, "cf%d" % i)
        return src, exp, r
    bad = 0
    for (kind, binder, fallback, k), (src, exp, r) in zip(progs, common.pmap(one, list(enumerate(progs)), workers=4)):
        name = "%s|%s|%s" % (kind, "binder" if binder else "nobinder", "fallback" if fallback else "handler-only")
        run.case("catchflow|%s|k=%d" % (name, k), nontrivial=True)
        run.count("catchflow:" + kind)
        got = (r.get("out") or "").split() if r.get("accepted") and r.get("rc") == 0 else None
        if got == exp:
            continue
        bad += 1
        if not r.get("accepted"):
            m = re.search(r"(predecessors not matched in phi[^\n]*|error[^\n]*)", common.strip_ansi(r.get("cerr", "") + r.get("cout", "")))
            what = "valid program rejected at code generation (%s)" % (m.group(1)[:120] if m else "build failed")
        else:
            what = "wrong behaviour: printed %s rc=%s, expected %s" % (got if got is not None else r.get("out"), r.get("rc"), exp)
        if bad > 4:
            continue                # same stage, most likely the same root cause: counted in catch_flow_failures
        run.violation("catchflow:" + name,
                      "catch handler containing %s (%s, %s): %s" % (kind, "error binder" if binder else "no binder",
                                                                    "fallback value" if fallback else "handler only", what),
                      {"program": src, "expected_stdout": exp, "k": k, "native": {x: r.get(x) for x in ("accepted", "crc", "rc", "out", "err")},
                       "compiler_output": common.strip_ansi(r.get("cerr", "") + r.get("cout", ""))[-1500:]})
    run.extra["catch_flow_programs"] = len(progs)
    run.extra["catch_flow_failures"] = bad

# ------------------------------------------------------------------ main

def coq_cases(cases, obs, shard):
    lines = ["From Coq Require Import List ZArith.", "From FV Require Import Models.Mut.", "Import ListNotations.",
             "Definition cases : list case := ["]
    rows = []
    for i, c in cases:
        rows.append("  ((%d)%%Z, %s, %s, %s, (%d)%%Z)" % (i, scope_expr(c["kind"]), c["form"],
                                                                  coq_place(c["steps"], c["types"]), obs[i]))
    lines.append(";\n".join(rows))
    lines.append("].")
    lines.append("Eval vm_compute in (bad_ids cases).")
    return "\n".join(lines) + "\n"

def main(run):
    work = Work()
    thorough = run.tier == "thorough"
    contexts = CONTEXTS
    cases = all_cases(3, contexts, run.rng)
    total = len(cases)
    if not thorough:
        cases = select(run, cases, 800)
    run.rule = ("one-mutation programs: root kind (17 immutable: const, module const, catch variable, &S parameter / receiver / "
                "local, const &S, and the for index in the shapes `for i, v in e` / `for i, _ in e` over a literal, a fixed array, "
                "a dynamic array, a range and a map; 15 mutable controls incl. `for _, v` / `for i, v` value variables and "
                "one-variable loops; 11 root kinds (let, const, by-value / & / &' parameter, value / & / &' receiver, & / &' local, loop "
                "variable) of a struct with value, &T, &'T, fixed-array and dynamic-array fields, so every root kind meets every chain "
                "signature of reference kinds in every run; 4 roots with reference-typed fields) x access path of <= 3 steps "
                "(field / fixed, dynamic, map index / paren) x 7 mutation forms x 5 contexts; thorough enumerates the product, "
                "quick keeps every (kind, form, path length) class and samples (kind, path, form) triples in a seeded context up to 800 programs; a case is distinct by "
                "(kind, path, form, context)")
    run.extra["product_size"] = total
    run.extra["exhaustive"] = bool(thorough)
    run.trusted.append("harness/c06.py: program renderer, diagnostic classifier (first error class), python spec oracle")
    run.assumptions = ["acceptance is the type-check verdict of compiler.Compile with SkipCodegen (the gate before code generation), "
                       "cross-checked against the `ferret -t` CLI on a sample",
                       "the model abstracts inferExprType to the reference kind of each step of the place; maps / arrays whose "
                       "element type is a reference are in the model but not generated",
                       "parentheses: the parser currently erases them, the model keeps ParenExpr as the type checker does"]

    import time
    t0 = time.time()
    ok = run.proof("Props/C06.v")
    run.extra["t_proof_s"] = round(time.time() - t0, 1)

    # ---- run the implementation
    srcs = [case_program(c) for c in cases]
    t0 = time.time()
    res = common.batch_typecheck_sources(srcs, work)
    run.extra["t_typecheck_s"] = round(time.time() - t0, 1)
    obs = {}
    broken = []
    for i, (c, r) in enumerate(zip(cases, res)):
        code, other = classify(r)
        obs[i] = code
        run.case(case_key(c), nontrivial=True)
        run.count("kind:" + c["kind"]); run.count("form:" + c["form"]); run.count("ctx:" + c["ctx"])
        run.count("pathlen:%d" % len(c["steps"])); run.count("verdict:" + CLASS_NAME[code])
        if code < 0:
            broken.append((i, other))
        elif other == ["mir-unsupported"]:
            run.count("typecheck-accepted-but-MIR-lowering-unsupported")
    run.samples = [{"program": srcs[i], "case": case_key(cases[i]), "verdict": CLASS_NAME[obs[i]]}
                   for i in (0, len(cases) // 3, 2 * len(cases) // 3) if i < len(cases)]

    # ---- CLI cross-check on a seeded sample
    sample = run.rng.sample(range(len(cases)), min(24, len(cases)))
    def cli(i):
        d = work.sub("cli%d" % i)
        f = os.path.join(d, "main.fer")
        open(f, "w").write(srcs[i])
        rc, o, e = common.typecheck(f, cwd=d)
        return classify(dict(ok=(rc == 0), panic="", out=o + e))[0]
    for i, cc in zip(sample, common.pmap(cli, sample)):
        if cc != obs[i]:
            raise RuntimeError("batch hook and CLI disagree on %s: cli class=%d batch class=%d" % (case_key(cases[i]), cc, obs[i]))
    run.extra["cli_crosschecked"] = len(sample)

    # ---- accepted programs with control flow inside catch handlers: build natively and run
    t0 = time.time()
    catch_flow_stage(run, work)
    run.extra["t_catch_flow_s"] = round(time.time() - t0, 1)

    # ---- spec-side oracle on the implementation's verdict
    viol = []       # frozen target accepted
    over = []       # mutable control rejected
    for i, c in enumerate(cases):
        acc = obs[i] in (0, 1)
        fr = target_frozen(c["kind"], c["steps"], c["types"], c["form"])
        run.count("frozen" if fr else "not-frozen")
        if fr and acc:
            viol.append(i)
        elif obs[i] >= 2 and must_accept(c["kind"], c["steps"], c["types"], c["form"]):
            over.append(i)

    # ---- model vs implementation inside Coq
    bad = []
    idx = [(i, c) for i, c in enumerate(cases) if obs[i] >= 0]
    shards = [idx[k:k + 1000] for k in range(0, len(idx), 1000)]
    def ev(a):
        n, sh = a
        name = "C06_%d_%d" % (os.getpid(), n)
        try:
            okc, out = common.coq_eval(name, coq_cases(sh, obs, n))
        finally:
            try: os.remove(os.path.join(common.GEN, "cases_%s.v" % name))
            except OSError: pass
        ids = common.parse_bad_ids(out) if okc else None
        if ids is None:
            raise RuntimeError("cases file did not evaluate:\n" + out[-2000:])
        return ids
    t0 = time.time()
    for ids in common.pmap(ev, list(enumerate(shards)), workers=4):
        bad += ids
    run.extra["t_coq_eval_s"] = round(time.time() - t0, 1)
    run.extra["model_disagreements"] = len(bad)

    # ---- report
    reported = set()
    def group(c):
        return (c["kind"], c["form"], min(len(c["steps"]), 1))
    shown = 0
    for i in sorted(viol, key=lambda i: (len(cases[i]["steps"]), i)):
        c = cases[i]
        g = group(c)
        if g in reported:
            continue
        reported.add(g)
        if shown >= 12:
            continue
        shown += 1
        rv = common.compile_and_run(run_variant(c), work, "viol%d" % i) if shown <= 4 else None
        what = ("accepted: %s on %s root, place %s, in %s — the target is immutable (%s)"
                % (c["form"], c["kind"], render_place("rt", c["steps"]), c["ctx"],
                   "run prints %s" % rv["out"].split() if rv and rv.get("out") is not None else "not run"))
        run.violation("accept:" + case_key(c), what,
                      {"program": srcs[i], "expected": "compile error (T0007 / T0004)", "observed": "accepted by the type checker",
                       "theorem": "C06_full", "run_variant": run_variant(c) if rv else None,
                       "native_run": {k: rv.get(k) for k in ("accepted", "rc", "out", "err", "cerr")} if rv else None,
                       "same_root_cause_cases": sum(1 for j in viol if group(cases[j]) == g)})
    run.extra["frozen_accepted"] = len(viol)
    shown = 0
    for i in over:
        c = cases[i]
        g = ("over",) + group(c)
        if g in reported:
            continue
        reported.add(g)
        if shown >= 6:
            continue
        shown += 1
        run.violation("overreject:" + case_key(c),
                      "mutable control rejected (%s): %s on %s root, place %s, in %s" %
                      (CLASS_NAME[obs[i]], c["form"], c["kind"], render_place("rt", c["steps"]), c["ctx"]),
                      {"program": srcs[i], "expected": "accepted (C06_mutable_accepted)", "observed": res[i]["out"][:1500],
                       "correspondence": "python oracle must_accept / Models.Mut.diagnose"}, no_input=True)
    run.extra["controls_rejected"] = len(over)
    shown = 0
    for i, other in broken:
        c = cases[i]
        if shown >= 4:
            break
        shown += 1
        run.violation("unexpected:" + case_key(c), "program of the generator is rejected for an unrelated reason or crashes: %s" % other[:2],
                      {"program": srcs[i], "output": res[i]["out"][:2000], "panic": res[i]["panic"][:2000]}, no_input=True)
    run.extra["unrelated_rejections"] = len(broken)
    shown = 0
    for i in bad:
        c = cases[i]
        if i in viol or i in over:
            continue
        g = ("model",) + group(c)
        if g in reported:
            continue
        reported.add(g)
        if shown >= (2 if viol else 6):
            continue
        shown += 1
        run.violation("model:" + case_key(c),
                      "port and implementation disagree on the diagnostic class (implementation: %s): %s on %s root, place %s, in %s"
                      % (CLASS_NAME[obs[i]], c["form"], c["kind"], render_place("rt", c["steps"]), c["ctx"]),
                      {"program": srcs[i], "observed_class": CLASS_NAME[obs[i]], "observed": res[i]["out"][:1500],
                       "coq_place": coq_place(c["steps"], c["types"]), "coq_scope": scope_expr(c["kind"]),
                       "correspondence": "Models.Mut.diagnose vs first diagnostic"}, no_input=True)
    if not ok and not run.violations:
        where, log = run.proof_failure
        run.violation("proof:C06:" + where, "Props/C06 no longer checks (%s)" % where,
                      {"theorem_file": "coq/Props/C06.v", "where": where, "log": log}, no_input=True)
    elif not ok:
        where, log = run.proof_failure
        run.extra["proof_failure"] = where

def replay(run, path):
    r = json.load(open(path))
    rep = r.get("replay", {})
    print(json.dumps({k: v for k, v in r.items() if k != "replay"}, indent=1))
    prog = rep.get("program")
    if not prog:
        print(json.dumps(rep, indent=1)); return 0
    work = Work()
    d = work.sub("replay")
    f = os.path.join(d, "main.fer")
    open(f, "w").write(prog)
    rc, o, e = common.typecheck(f, cwd=d)
    print("---- program\n" + prog)
    print("---- ferret -t: rc=%d\n%s%s" % (rc, o[-1500:], e[-1500:]))
    if rep.get("run_variant"):
        rv = common.compile_and_run(rep["run_variant"], work, "replay_run")
        print("---- native run of the printing variant: accepted=%s out=%r" % (rv["accepted"], rv.get("out")))
    return 1 if rc == 0 and rep.get("expected", "").startswith("compile error") else 0
