"""C10 — integer literals are range-checked exactly and keep their value.

 proof stage      coq/Props/C10.v : theorems about the Gallina port (Models/Numeric.v) of numeric.go / value.go /
                  fitsInType / inferLiteralType / checkFitness / normalizeInt / emitLargeConst / ferret_parse_uint
 correspondence   boundary-weighted literals (4 bases, separators, leading zeros, sign) x 12 types x 3 positions:
                  accept/reject through the in-process type-check hook (cross-checked against the CLI on a sample),
                  printed value through real native executables (20 literals per program);
                  the port is evaluated on the same cases inside Coq (vm_compute) and must agree with the implementation,
                  and the *property itself* (exact range check, exact value) is checked on the implementation's output by
                  two independent oracles (python `spec_value`, Coq `lit_value`, which must also agree with each other)
 search           every disagreeing case is a concrete failing input; the shortest per failure class is reported
"""
import os, re, json
import common
from common import Work, pmap

TYPES = ["i8", "i16", "i32", "i64", "i128", "i256", "u8", "u16", "u32", "u64", "u128", "u256"]
POS = ["let", "arg", "ret"]
BASES = {"dec": (10, ""), "hex": (16, "0x"), "oct": (8, "0o"), "bin": (2, "0b")}
KS = [7, 8, 15, 16, 31, 32, 63, 64, 127, 128, 255, 256]

def bits(t): return int(t[1:])
def signed(t): return t[0] == "i"
def lo(t): return -(1 << (bits(t) - 1)) if signed(t) else 0
def hi(t): return (1 << (bits(t) - 1)) - 1 if signed(t) else (1 << bits(t)) - 1

# ------------------------------------------------------------------ spec-side oracle (independent of the Coq spec)
def spec_value(lit):
    s = lit
    neg = s.startswith("-")
    if neg: s = s[1:]
    base = 10
    if len(s) > 1 and s[0] == "0" and s[1] in "xXoObB":
        base = {"x": 16, "o": 8, "b": 2}[s[1].lower()]
        s = s[2:]
    v = int(s.replace("_", ""), base)     # python accepts leading zeros for an explicit base
    return -v if neg else v

# ------------------------------------------------------------------ generator
def digits_of(v, base):
    if v == 0: return "0"
    ds = ""
    while v:
        ds = "0123456789abcdef"[v % base] + ds
        v //= base
    return ds

def render(rng, v, base, sep=False, lead=0, upper_prefix=False, neg_zero=False):
    """a literal token whose mathematical value is v"""
    b, pre = BASES[base]
    ds = digits_of(abs(v), b)
    if base == "hex":
        ds = "".join(c.upper() if rng.random() < 0.4 else c for c in ds)
    ds = "0" * lead + ds
    if sep and len(ds) > 1:
        out = ds[0]
        for c in ds[1:]:
            if rng.random() < 0.3: out += "_"
            out += c
        ds = out
    if upper_prefix: pre = pre.upper()
    return ("-" if (v < 0 or neg_zero) else "") + pre + ds

def limb_values(rng, t, n):
    """values whose decimal text has a proper prefix that is a multiple of 2^64 / 2^128 / 2^192 (an all-zero low limb with a
    non-zero higher limb while digits are still being accumulated): m * 2^(64 j) * 10^e (+ d)"""
    out = []
    if bits(t) < 128: return out
    for _ in range(n):
        j = rng.randint(1, bits(t) // 64 - 1)
        v = (rng.choice([1, 1, 2, 3, 5, 7]) << (64 * j)) * 10 ** rng.randint(1, 8) + rng.choice([0, 0, 0, 1, 7, 90])
        if rng.random() < 0.3 and signed(t): v = -v
        out.append(v)
    return out

def values_for(rng, t, n_random):
    vs = [lo(t) - 1, lo(t), lo(t) + 1, hi(t) - 1, hi(t), hi(t) + 1, 0, 1, -1]
    for _ in range(n_random):
        r = rng.random()
        k = rng.choice(KS)
        if r < 0.35:      # another type's boundary
            v = rng.choice([(1 << k) - 1, 1 << k, (1 << k) + 1, -(1 << k), -(1 << k) - 1, -(1 << k) + 1])
        elif r < 0.6:     # near this type's own boundary
            v = rng.choice([lo(t), hi(t)]) + rng.randint(-3, 3)
        elif r < 0.85:    # random magnitude of random bit length (inside and outside the range)
            v = rng.getrandbits(rng.randint(1, bits(t) + 8)) * rng.choice([1, 1, -1])
        else:             # huge
            v = rng.getrandbits(rng.randint(250, 300)) * rng.choice([1, -1])
        vs.append(v)
    # magnitudes written with the hex digit e (0x7e, 0x1e5, 0xe...e): must never be taken for an exponent form
    for _ in range(3):
        m = int("".join(rng.choice(["e", "e", "1", "7", "0"]) for _ in range(rng.randint(1, max(1, bits(t) // 4)))) or "e", 16) | 0xE
        vs.append(m * rng.choice([1, -1]))
    return vs

def gen_cases(rng, per_type):
    cases = []
    for t in TYPES:
        for v in limb_values(rng, t, 4):
            cases.append(dict(t=t, v=v, base="dec", lit=render(rng, v, "dec"), pos=rng.choice(POS), form="tok", limb=True))
        vals = values_for(rng, t, per_type)
        for i, v in enumerate(vals):
            base = rng.choice(["dec", "dec", "hex", "hex", "oct", "bin"]) if i >= 6 else ["dec", "hex", "oct", "bin"][rng.randrange(4)]
            if i >= len(vals) - 3: base = "hex"     # the e-digit magnitudes
            if i < 6 and rng.random() < 0.5:
                # the six own-boundary values are rendered in every base over the run: add the other bases too
                for b2 in BASES:
                    if b2 != base:
                        cases.append(dict(t=t, v=v, base=b2, lit=render(rng, v, b2), pos=rng.choice(POS), form="tok"))
            sep = rng.random() < 0.35
            lead = rng.choice([0, 0, 0, 1, 2]) if rng.random() < 0.6 else rng.choice([0, 1, 3])
            up = rng.random() < 0.15
            nz = (v == 0 and rng.random() < 0.3)
            lit = render(rng, v, base, sep, lead, up, nz)
            form = "tok"
            if v < 0 and rng.random() < 0.2:
                form = "spaced"       # `- 5`: unary minus applied to the literal token
            cases.append(dict(t=t, v=v, base=base, lit=lit, pos=rng.choice(POS), form=form,
                              sep=sep, lead=lead, up=up))
    # committed corpus (minimised past failures and hand-picked boundaries) — always replayed
    cp = os.path.join(common.VERIF, "corpus", "C10", "literals.json")
    if os.path.exists(cp):
        for e in json.load(open(cp)):
            lit = e["lit"]
            body = lit.lstrip("-")
            base = {"x": "hex", "o": "oct", "b": "bin"}.get(body[1:2].lower(), "dec") if body.startswith("0") and len(body) > 1 else "dec"
            cases.append(dict(t=e["t"], v=spec_value(lit), base=base, lit=lit, pos=e["pos"], form="tok", corpus=True,
                              sep="_" in lit, lead=1 if (base == "dec" and len(body) > 1 and body[0] == "0") else 0))
    for i, c in enumerate(cases):
        c["id"] = i
        assert spec_value(c["lit"]) == c["v"], c
    return cases

def src_lit(c):
    """the source text of the literal expression (binary-minus lexing: a space always precedes it)"""
    if c["form"] == "spaced":
        return "- " + c["lit"][1:]
    return c["lit"]

def verdict_program(c):
    t, l = c["t"], src_lit(c)
    if c["pos"] == "let":
        return "fn main() {\n  let x: %s = %s;\n}\n" % (t, l)
    if c["pos"] == "arg":
        return "fn f(p: %s) {\n}\nfn main() {\n  f(%s);\n}\n" % (t, l)
    return "fn g() -> %s {\n  return %s;\n}\nfn main() {\n}\n" % (t, l)

def value_program(cs):
    top, body = [], []
    for j, c in enumerate(cs):
        t, l = c["t"], src_lit(c)
        if c["pos"] == "let" and c.get("twice"):
            # the same literal in a branch that is not taken and again after it (seeds C10e / C16e: a wide literal materialised
            # once per function, at its textually first occurrence)
            top.append("fn t%d(early: bool) -> %s {\n  if early {\n    return %s;\n  }\n  let x: %s = %s;\n  return x;\n}" % (j, t, l, t, l))
            body.append("  io::Println(t%d(false));" % j)
        elif c["pos"] == "let":
            body.append("  let x%d: %s = %s;\n  io::Println(x%d);" % (j, t, l, j))
        elif c["pos"] == "arg":
            top.append("fn a%d(p: %s) -> %s {\n  return p;\n}" % (j, t, t))
            body.append("  io::Println(a%d(%s));" % (j, l))
        else:
            top.append("fn r%d() -> %s {\n  return %s;\n}" % (j, t, l))
            body.append("  io::Println(r%d());" % j)
    return 'import "std/io";\n' + "\n".join(top) + "\nfn main() {\n" + "\n".join(body) + "\n}\n"

# gate of the open finding F-NEG-UNARY: the unary-minus form is only *executed* where the operand literal's default type
# (i32 / i64 / i128 / i256 by magnitude) has the register class the code generator expects for the declared type
def default_type(mag):
    for t in ("i32", "i64", "i128", "i256"):
        if mag <= hi(t): return t
    return None
def spaced_value_gate(c):
    d = default_type(abs(c["v"]))
    if d is None: return False
    t = c["t"]
    if t in ("i8", "i16", "i32"): return d == "i32"
    return t == "i64" and d == "i64"      # 128/256-bit negation runs through ferret_sub_limbs (open C16 finding F-SUB-BORROW)

INT_RE = re.compile(r"^-?\d+$")

def run_values(work, cs, tag):
    """compile + run one program printing the literals of cs; returns list of int|str (one per case)"""
    r = common.compile_and_run(value_program(cs), work, tag)
    if not r["accepted"] or not r.get("exe_exists"):
        return None, "compile failed: " + (r["cout"] + r["cerr"])[-400:]
    lines = r.get("out", "").split("\n")
    if lines and lines[-1] == "": lines.pop()
    if r.get("rc") != 0 or len(lines) != len(cs) or not all(INT_RE.match(x) for x in lines):
        return None, "run rc=%s out=%r err=%r" % (r.get("rc"), r.get("out", "")[-300:], r.get("err", "")[-300:])
    return [int(x) for x in lines], None

COQ_TY = {t: t.upper() for t in TYPES}

def coq_cases(name, cs):
    v = ["From Coq Require Import ZArith List String.", "From FV Require Import Models.Numeric.",
         "Import ListNotations.", "Open Scope Z_scope.", "Definition cases : list case := ["]
    rows = []
    for c in cs:
        out = "None" if c.get("out") is None else "(Some (%d))" % c["out"]
        rows.append("  Case %d %s (str_of %s) %s %s (%d)" % (c["id"], COQ_TY[c["t"]], common.coq_str(c["lit"]),
                                                          common.coq_bool(c["acc"]), out, c["v"]))
    v.append(";\n".join(rows))
    v.append("].")
    v.append("Eval vm_compute in (bad_ids case_model_ok cases).")
    v.append("Eval vm_compute in (bad_ids case_spec_ok cases).")
    try:
        ok, out = common.coq_eval(name, "\n".join(v) + "\n")
    finally:
        try: os.remove(os.path.join(common.GEN, "cases_%s.v" % name))
        except OSError: pass
    lists = re.findall(r"=\s*(\[[^\]]*\]|nil)\s*(?:%\w+)?\s*:\s*list\s+Z", out, re.S)
    if not ok or len(lists) != 2:
        return None, None, out[-1500:]
    def ids(b):
        return [] if b in ("nil", "[]") else [int(x) for x in re.findall(r"-?\d+", b.replace("%Z", ""))]
    return ids(lists[0]), ids(lists[1]), None

def klass(c, kind):
    return (kind, c["base"], "neg" if c["lit"].startswith("-") else "pos", "lead0" if c.get("lead") else "nolead",
            "large" if bits(c["t"]) > 64 else "small", c["form"])

def describe(c, kind, extra=""):
    exp_acc = lo(c["t"]) <= c["v"] <= hi(c["t"])
    if kind == "verdict":
        return ("literal %s : %s (value %d, position %s) is %s but its value is %s the range [%d, %d]"
                % (src_lit(c), c["t"], c["v"], c["pos"], "accepted" if c["acc"] else "rejected",
                   "inside" if exp_acc else "outside", lo(c["t"]), hi(c["t"])))
    return "literal %s : %s (position %s) is accepted but the program observes %s instead of %d %s" % (
        src_lit(c), c["t"], c["pos"], c.get("out", c.get("outerr")), c["v"], extra)

def replay_dict(c, kind):
    exp_acc = lo(c["t"]) <= c["v"] <= hi(c["t"])
    d = {"kind": kind, "type": c["t"], "literal": src_lit(c), "position": c["pos"], "value": str(c["v"]),
         "expected_verdict": "accepted" if exp_acc else "rejected"}
    if kind == "verdict":
        d["program"] = verdict_program(c); d["observed_verdict"] = "accepted" if c["acc"] else "rejected"
        d["how"] = "ferret -t main.fer"
    else:
        d["program"] = value_program([c]); d["expected_output"] = str(c["v"])
        d["observed_output"] = str(c.get("out", c.get("outerr"))); d["how"] = "ferret -o prog main.fer && ./prog"
    return d

# ------------------------------------------------------------------ probes of the open findings (replayed on every run)
NEG_UNARY = [("i64", "- 5", "-5"), ("i128", "- 5", "-5"), ("i64", "- 9223372036854775808", "-9223372036854775808")]
WASM_PREFIXED = 'import "std/io";\nfn main() {\n  let x: i32 = 0x10;\n  io::Println(x);\n}\n'

def probe_findings(run, work):
    bad = []
    for i, (t, l, want) in enumerate(NEG_UNARY):
        p = 'import "std/io";\nfn main() {\n  let x: %s = %s;\n  io::Println(x);\n}\n' % (t, l)
        r = common.compile_and_run(p, work, "negu%d" % i)
        got = r.get("out", "").strip() if r.get("rc") == 0 else "rc=%s exe=%s" % (r.get("rc"), r.get("exe_exists"))
        if not (r["accepted"] and got == want):
            bad.append({"program": p, "expected_output": want, "observed": got, "compiler_rc": r["crc"]})
    if bad:
        run.violation("neg-unary-operand-width", "unary minus on a literal whose default type differs in width from the "
                      "declared type: no executable / crash / wrong value (e.g. `let x: i64 = - 5;`)",
                      {"cases": bad, "how": "ferret -o prog main.fer && ./prog"})
    run.extra["gates"] = ["F-NEG-UNARY: the `- <literal>` (unary minus) form is executed only where the operand's default type "
                          "(i32/i64 by magnitude) matches the declared type's register class, and not for 128/256-bit types (their run-time "
                          "negation goes through ferret_sub_limbs, open C16 finding); its accept/reject verdict is checked everywhere",
                          "F-WASM-PREFIX: printed values are observed on native executables only"]
    r = common.compile_and_run(WASM_PREFIXED, work, "wasmpre", target="wasm")
    if not (r["accepted"] and r.get("out", "").strip() == "16"):
        run.violation("wasm-prefixed-literal", "the wasm back end parses constants in base 10 only: an accepted 0x/0o/0b literal "
                      "fails in code generation", {"program": WASM_PREFIXED, "how": "ferret -target wasm -o p.wasm main.fer",
                                                   "expected_output": "16", "observed": (r["cout"] + r["cerr"])[-300:]})

# ------------------------------------------------------------------ exponent forms (float literals without a fraction)
# The lexer's FloatNumber alternative takes `1e5`, `1E5`, `1e+5`, `1e-5`, `1_0e2` as ONE number token. They are float
# literals: accepted for float types with their value, never usable as integer literals; a prefixed integer containing the
# hex digit e stays an integer (covered by the corpus and the generator). Model side: lex_number = LexFloat, literal_kind.
def gen_exponent_forms(rng, n):
    out = []
    fixed = ["1e5", "1E5", "1e+5", "1e-5", "1_0e2", "-1e5", "-2E+3", "0e0", "1_2e0_2", "7e-0_1"]
    for l in fixed: out.append(l)
    for _ in range(n):
        m = str(rng.randint(0, 9999))
        if len(m) > 1 and rng.random() < 0.4:
            k = rng.randrange(1, len(m)); m = m[:k] + "_" + m[k:]
        e = str(rng.randint(0, 12))
        if rng.random() < 0.3: e = "0" + e
        out.append(rng.choice(["", "-"]) + m + rng.choice("eE") + rng.choice(["", "+", "-"]) + e)
    return out

def check_exponent_forms(run, work):
    lits = gen_exponent_forms(run.rng, 30 if run.tier == "thorough" else 6)
    # (a) float context: accepted and the printed value is the literal's value
    body = "".join("  let f%d: f64 = %s;\n  io::Println(f%d);\n" % (i, l, i) for i, l in enumerate(lits))
    prog = 'import "std/io";\nfn main() {\n' + body + "}\n"
    r = common.compile_and_run(prog, work, "expf")
    outs = r.get("out", "").split() if r.get("rc") == 0 else []
    def fval(l): return float(l.replace("_", ""))
    bad = None
    if not r["accepted"] or len(outs) != len(lits):
        # isolate the first failing literal
        for l in lits:
            p1 = 'import "std/io";\nfn main() {\n  let f: f64 = %s;\n  io::Println(f);\n}\n' % l
            r1 = common.compile_and_run(p1, work, "expf1")
            o1 = r1.get("out", "").strip() if r1.get("rc") == 0 else None
            try: okv = o1 is not None and abs(float(o1) - fval(l)) <= 1e-9 * max(1.0, abs(fval(l)))
            except ValueError: okv = False
            if not okv:
                bad = (l, p1, "rejected" if not r1["accepted"] else "printed %r" % o1); break
    else:
        for l, o in zip(lits, outs):
            try: okv = abs(float(o) - fval(l)) <= 1e-9 * max(1.0, abs(fval(l)))
            except ValueError: okv = False
            if not okv:
                bad = (l, 'import "std/io";\nfn main() {\n  let f: f64 = %s;\n  io::Println(f);\n}\n' % l, "printed %r" % o); break
    for l in lits:
        run.case(("f64", l, "let"), nontrivial=True); run.count("form:exponent")
    if bad:
        run.violation("exp:f64:" + bad[0], "exponent-form float literal %s : f64 (lexed as one number token) is %s; expected value %r"
                      % (bad[0], bad[2], fval(bad[0])),
                      {"kind": "value", "type": "f64", "literal": bad[0], "program": bad[1], "expected_output": repr(fval(bad[0])),
                       "observed_output": bad[2], "how": "ferret -o prog main.fer && ./prog"})
    # (b) integer context: an exponent form is not an integer literal — must be rejected for every integer type
    jobs = [(t, l) for t in TYPES for l in lits[:6]]
    rs = common.batch_typecheck_sources(["fn main() {\n  let x: %s = %s;\n}\n" % j for j in jobs], work, prefix="ei")
    for (t, l), r1 in zip(jobs, rs):
        run.case((t, l, "let"), nontrivial=True); run.count("form:exponent_in_int_context")
        if r1["ok"] or r1["panic"]:
            run.violation("exp:%s:%s" % (t, l), "exponent-form literal %s accepted as an initialiser of %s%s" %
                          (l, t, " (compiler panic)" if r1["panic"] else ""),
                          {"kind": "verdict", "type": t, "literal": l, "program": "fn main() {\n  let x: %s = %s;\n}\n" % (t, l),
                           "expected_verdict": "rejected", "observed_verdict": "accepted", "how": "ferret -t main.fer"})
            break
    return lits

# ------------------------------------------------------------------ main
def main(run):
    import time as _t
    _t0=_t.time()
    def T(x):
        if os.environ.get('C10_TIMING'): print('T %s %.1f' % (x, _t.time()-_t0))
    work = Work()
    thorough = run.tier == "thorough"
    per_type = 520 if thorough else 30
    run.rule = ("structured generation: per integer type the six own-boundary values (lo-1, lo, lo+1, hi-1, hi, hi+1) and 0, 1, -1, then "
                "random draws from {other types' boundaries 2^k, 2^k+-1, -(2^k), ...; own boundary +-3; random magnitudes up to "
                "bits+8; 250-300 bit values}, each rendered in a base from {dec, hex, oct, bin} with random separators, leading zeros, "
                "prefix/digit case, sign attached (`-5`, one token) or spaced (`- 5`, unary minus), placed as let initialiser / argument / "
                "return value; a case is (type, literal text, position, form); distinct = distinct such tuples")
    run.trusted += ["Go math/big String/SetString and strconv (ParseInt is ported, FormatInt is not) — modelled by dec_string_of_Z / set_string",
                    "QBE: a decimal constant is stored modulo 2^w in a w-bit slot (modelled by wrapS/wrapU); runtime print routines "
                    "(ferret_io_Println, ferret_*_to_string) print the stored two's-complement value",
                    "harness/c10.py: program templates, reading of the verdict and of stdout; python oracle spec_value"]
    run.assumptions = ["a literal is the single NUMBER token `-?(0x..|0o..|0b..|digits)`; `0177` is decimal 177 (only 0x/0o/0b announce a base), "
                       "as the lexer's DecNumber pattern and the type checker's parseIntLiteral read it",
                       "the model describes the tree with fixes/C10-literal-base-sign.patch applied (NewNumericValue repaired)",
                       "the unary-minus form `- 5` is not ported: it is checked against the spec oracle only",
                       "exponent forms (1e5, 1E+5, 1_0e2) are float literals (fixes/C10-exponent-float-kind.patch): checked against a python "
                       "float oracle for f64 and required to be rejected for the 12 integer types; the port proves they are never integer tokens",
                       "printed values are observed through the native (QBE) back end"]
    ok = False
    for attempt in range(4):      # common.grep_gate walks coq/gen while other checks create and delete their cases files there
        th, ob = list(run.theorems), run.obligations
        try:
            ok = run.proof("Props/C10.v")
            break
        except FileNotFoundError:
            run.theorems, run.obligations = th, ob
            run.proof_failure = ("grep-gate", "coq/gen changed while it was scanned")
    T("proof")

    cases = gen_cases(run.rng, per_type)
    # ---- verdicts (in-process type-check hook), cross-checked against the CLI on a sample
    rs = common.batch_typecheck_sources([verdict_program(c) for c in cases], work, prefix="v")
    for c, r in zip(cases, rs):
        c["acc"] = bool(r["ok"])
        if r["panic"]:
            c["panic"] = r["panic"][:300]
    sample = run.rng.sample(cases, min(24, len(cases)))
    def cli(c):
        d = work.sub("cli%d" % c["id"])
        f = os.path.join(d, "main.fer")
        open(f, "w").write(verdict_program(c))
        return common.typecheck(f, cwd=d)[0]
    for c, rc in zip(sample, pmap(cli, sample)):
        if (rc == 0) != c["acc"]:
            raise RuntimeError("batch hook and CLI disagree on %r: cli rc=%d hook=%s" % (verdict_program(c), rc, c["acc"]))
    run.extra["cli_crosschecked"] = len(sample)
    T("verdicts")

    # ---- values: accepted cases, 20 per program, real native executables
    runnable = [c for c in cases if c["acc"] and (c["form"] == "tok" or spaced_value_gate(c))]
    if not thorough:
        # quick tier: all boundary-adjacent cases and a sample of the rest
        near = [c for c in runnable if min(abs(c["v"] - lo(c["t"])), abs(c["v"] - hi(c["t"]))) <= 3 or c.get("lead") or c.get("corpus") or c.get("limb")]
        rest = [c for c in runnable if c not in near]
        runnable = near + run.rng.sample(rest, min(len(rest), 160))
    for i, c in enumerate(runnable):
        if c["pos"] == "let" and i % 3 == 1: c["twice"] = True
    run.count("value-literal-twice-in-function", sum(1 for c in runnable if c.get("twice")))
    groups = [runnable[i:i + 20] for i in range(0, len(runnable), 20)]
    def do_group(gi):
        g = groups[gi]
        vals, err = run_values(work, g, "val%d" % gi)
        if vals is not None:
            for c, o in zip(g, vals): c["out"] = o
            return
        for j, c in enumerate(g):       # isolate: one program per literal
            v1, e1 = run_values(work, [c], "val%d_%d" % (gi, j))
            if v1 is not None: c["out"] = v1[0]
            else: c["outerr"] = e1
    pmap(do_group, range(len(groups)), workers=4)
    run.extra["value_programs"] = len(groups)
    T("values")

    # ---- python oracle: the property itself on the implementation's observations
    viol = {}
    def add(c, kind, extra=""):
        k = klass(c, kind)
        if k not in viol or len(src_lit(c)) < len(src_lit(viol[k][0])):
            viol[k] = (c, kind, extra)
    for c in cases:
        exp_acc = lo(c["t"]) <= c["v"] <= hi(c["t"])
        run.case((c["t"], src_lit(c), c["pos"]), nontrivial=True,
                 sample={"type": c["t"], "literal": src_lit(c), "position": c["pos"], "verdict": "accepted" if c["acc"] else "rejected",
                         "printed": c.get("out")} if c["id"] % 97 == 5 else None)
        run.count("type:" + c["t"]); run.count("base:" + c["base"]); run.count("pos:" + c["pos"]); run.count("form:" + c["form"])
        run.count("sign:" + ("neg" if src_lit(c).startswith("-") else "nonneg"))
        if c.get("sep"): run.count("with_separators")
        if c.get("lead"): run.count("with_leading_zeros")
        run.count("verdict:" + ("accepted" if c["acc"] else "rejected"))
        run.count("expected:" + ("in_range" if exp_acc else "out_of_range"))
        if "out" in c: run.count("values_observed")
        if c.get("panic"):
            add(c, "verdict", "compiler panic: " + c["panic"])
        elif c["acc"] != exp_acc:
            add(c, "verdict")
        elif "out" in c and c["out"] != c["v"]:
            add(c, "value")
        elif "outerr" in c:
            add(c, "value", c["outerr"])

    # ---- the port, evaluated in Coq on the same cases (single-token form only)
    tok = [c for c in cases if c["form"] == "tok"]
    shards = [tok[i:i + 400] for i in range(0, len(tok), 400)]
    res = pmap(lambda i: coq_cases("c10_%d_%d" % (os.getpid(), i), shards[i]), range(len(shards)), workers=min(8, common.NCPU))
    byid = {c["id"]: c for c in cases}
    model_bad, spec_bad, coq_err = [], [], None
    for mb, sb, err in res:
        if err: coq_err = err; continue
        model_bad += mb; spec_bad += sb
    run.extra["coq_evaluated_cases"] = len(tok)
    T("coq")
    if coq_err:
        run.violation("coq-eval", "the correspondence cases could not be evaluated in Coq", {"log": coq_err}, no_input=True)
    for i in spec_bad:                      # Coq's spec disagrees with the implementation: must already be in viol (python oracle)
        c = byid[i]
        exp_acc = lo(c["t"]) <= c["v"] <= hi(c["t"])
        if c["acc"] == exp_acc and c.get("out", c["v"]) == c["v"]:
            run.violation("oracle:%s:%s" % (c["t"], c["lit"]), "python oracle and Coq lit_value/wf_lit disagree on %s : %s" % (c["lit"], c["t"]),
                          {"literal": c["lit"], "type": c["t"], "python_value": str(c["v"])}, no_input=True)
    reported = 0
    for k in sorted(viol, key=lambda k: (len(src_lit(viol[k][0])), k)):
        c, kind, extra = viol[k]
        if reported >= 8: break
        reported += 1
        run.violation("lit:%s:%s:%s:%s" % (kind, c["t"], src_lit(c), c["pos"]), describe(c, kind, extra), replay_dict(c, kind))
    run.extra["failing_classes"] = len(viol)
    # the port disagrees with the implementation although the property holds on that case: the model no longer describes the code
    only_model = [byid[i] for i in model_bad if not any(v[0]["id"] == i for v in viol.values())
                  and byid[i]["acc"] == (lo(byid[i]["t"]) <= byid[i]["v"] <= hi(byid[i]["t"])) and byid[i].get("out", byid[i]["v"]) == byid[i]["v"]]
    for c in only_model[:3]:
        run.violation("model:%s:%s" % (c["t"], c["lit"]), "port and implementation disagree on %s : %s although the property holds there"
                      % (c["lit"], c["t"]), {"literal": c["lit"], "type": c["t"], "impl_verdict": c["acc"], "impl_out": c.get("out")},
                      no_input=True)
    run.extra["model_disagreements"] = len(model_bad)

    run.extra["exponent_forms"] = len(check_exponent_forms(run, work))
    probe_findings(run, work)
    T("probes")

    if not ok and not viol:
        where, log = run.proof_failure
        run.violation("proof:C10:" + where, "Props/C10 no longer checks (%s) and no failing literal was found" % where,
                      {"theorem_file": "coq/Props/C10.v", "where": where, "log": log}, no_input=True)

def replay(run, path):
    r = json.load(open(path))
    rep = r.get("replay", {})
    print(json.dumps(r, indent=1))
    if "program" in rep and rep.get("kind") in ("verdict", "value"):
        work = Work()
        if rep["kind"] == "verdict":
            d = work.sub("r"); f = os.path.join(d, "main.fer"); open(f, "w").write(rep["program"])
            rc = common.typecheck(f, cwd=d)[0]
            got = "accepted" if rc == 0 else "rejected"
            print("replay: ferret -t -> %s (expected %s)" % (got, rep["expected_verdict"]))
            return 1 if got != rep["expected_verdict"] else 0
        res = common.compile_and_run(rep["program"], work, "r")
        got = res.get("out", "").strip() if res.get("rc") == 0 else "rc=%s" % res.get("rc")
        print("replay: program printed %r (expected %s)" % (got, rep["expected_output"]))
        return 1 if got != rep["expected_output"] else 0
    return 0
